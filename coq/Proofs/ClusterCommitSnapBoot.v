(* ClusterCommitSnapBoot.v — NewRaft (RestoreCommittedLogs off) from a durable image that holds
   snapshots: the newest snapshot becomes the boundary, lastApplied is its index, commitIndex is 0;
   the restarted server satisfies the node invariant of Proofs/ClusterCommitSnapLog.v. *)
From Coq Require Import List NArith Bool Lia.
From stdpp Require Import gmap.
From RaftModel Require Import Base Config Compaction Node NodeCodec.
From RaftProofs Require Import VoteProofs RecoverProofs ClusterLogSpec ClusterLogChain ClusterLogNode ClusterLogSnapBoot
  ClusterCommitSpec ClusterCommitInit ClusterCommitChain ClusterCommitInv ClusterCommitSnapLog.
Open Scope N_scope.

Lemma recover_snapS P img s tr : p_rc P = false -> recover P img = RecOk s tr ->
  v_commit s = 0 /\ v_fsmLast s = (0, 0) /\
  match find sn_ok (list_snaps (d_snaps img)) with
  | Some sn => v_lastSnapIdx s = sn_idx sn /\ v_lastSnapTerm s = sn_term sn /\ v_applied s = sn_idx sn
  | None => v_lastSnapIdx s = 0 /\ v_applied s = 0
  end /\
  forall cfg, (forall i e, d_log img !! i = Some e -> e_ty e = LogConfiguration -> p_decode P (e_data e) = cfg) ->
    (forall sn, In sn (d_snaps img) -> cfg_or_nil cfg (sn_cfg sn)) ->
    cfg_or_nil cfg (v_latest s) /\ cfg_or_nil cfg (v_committed s).
Proof.
  intros Hrc ER. unfold recover in ER. destruct (rec_last _) as [le|]; [|discriminate].
  destruct (rec_snapshot _) as [[s3 tr3]|] eqn:E3; [|discriminate].
  unfold rec_committed in ER. rewrite Hrc in ER.
  match type of ER with context [scan_configs P ?S ?F ?N] => destruct (scan_configs P S F N) as [s5|] eqn:ES end; [|discriminate].
  fold (rec_fin s5) in ER. rewrite (fun H => rec_fin_norc _ _ _ _ _ _ _ H E3 ES) in ER by reflexivity.
  inversion ER; subst s5 tr. clear ER.
  pose proof (scan_configs_fsm _ _ _ _ _ ES) as F5.
  pose proof (scan_configs_durable _ _ _ _ _ ES) as (_ & _ & A5 & _ & _ & _ & SI5 & ST5 & _ & C5).
  unfold rec_snapshot in E3. cbn [d_snaps set_lastlog set_vol_term fresh_volatile] in E3.
  destruct (find sn_ok (list_snaps (d_snaps img))) as [sn|] eqn:EF.
  - inversion E3; subst s3 tr3. clear E3.
    assert (Hin : In sn (d_snaps img)) by (apply find_some in EF; apply list_snaps_spec, EF).
    split; [rewrite C5; reflexivity|]. split; [rewrite F5; reflexivity|].
    split; [split; [rewrite SI5; reflexivity|split; [rewrite ST5; reflexivity|rewrite A5; reflexivity]]|].
    intros cfg Hd Hsc.
    match type of ES with scan_configs P ?S ?F ?N = _ =>
      apply (scan_configs_cfg P cfg N S F s Hd (Hsc sn Hin) (Hsc sn Hin) ES) end.
  - destruct (list_snaps (d_snaps img)); [|discriminate]. inversion E3; subst s3 tr3. clear E3.
    split; [rewrite C5; reflexivity|]. split; [rewrite F5; reflexivity|].
    split; [split; [rewrite SI5; reflexivity|rewrite A5; reflexivity]|].
    intros cfg Hd Hsc.
    match type of ES with scan_configs P ?S ?F ?N = _ =>
      apply (scan_configs_cfg P cfg N S F s Hd (or_intror eq_refl) (or_intror eq_refl) ES) end.
Qed.

(* the snapshots of one branch: the (term, index)-largest is the index-largest *)
Lemma sle_branch C top z sn : chain_ok C -> anc C (sk z) top -> anc C (sk sn) top -> sle z sn = true -> sn_idx z <= sn_idx sn.
Proof.
  intros HC Hz Hs Hle. apply sle_spec in Hle.
  destruct (N.le_gt_cases (sn_idx z) (sn_idx sn)) as [|Hgt]; [assumption|exfalso].
  assert (Ha : anc C (sk sn) (sk z)) by (apply (anc_linear C _ _ top HC Hs Hz); unfold sk; simpl; lia).
  destruct (anc_le C _ _ HC Ha) as [_ Ht]. unfold sk in Ht. simpl in Ht. lia.
Qed.

(* two keys that are the root or below one key are comparable *)
Lemma cmp_root C top x y : chain_ok C -> pclosed C -> rootc C x -> rootc C y ->
  (x = (0, 0) \/ anc C x top) -> (y = (0, 0) \/ anc C y top) -> fst x <= fst y -> anc C x y.
Proof.
  intros HC Hp Rx Ry [->|Hx] Hy Hle; [apply anc_root_all; assumption|].
  destruct Hy as [->|Hy]; [|apply (anc_linear C x y top HC Hx Hy Hle)].
  rewrite (rootc_zero C x HC Rx) by (simpl in Hle; lia). apply anc_refl.
Qed.

Lemma recover_zup C P img s tr : chain_ok C -> pclosed C -> p_rc P = false -> zimg C img ->
  recover P img = RecOk s tr -> zup C s.
Proof.
  intros HC Hp Hrc [Hin (top & Hbel & Hsnt) Hsn Hseg] ER.
  pose proof (recover_ok P img s tr (log_in_keys C _ _ Hin) ER) as (Hd & _ & _ & Hli & Hlt & _).
  destruct Hd as (Dt & _ & _ & Dl & _ & _ & Ds).
  pose proof (recover_snapS P img s tr Hrc ER) as (_ & _ & Hbk & _).
  pose proof (find_ok_snap (d_snaps img) (fun sn H => proj1 (Hsn sn H))) as Hfo.
  unfold zup. rewrite Dt, Dl, Ds. set (m := d_log img) in *. set (sns := d_snaps img) in *. set (T := d_term img) in *.
  (* the cached last-log key *)
  assert (Htk : rootc C (topk s) /\ snd (topk s) <= T /\ log_below C m (topk s) /\
                (topk s = (0, 0) \/ anc C (topk s) top) /\ fst (topk s) = log_last m).
  { destruct (log_last_in m) as [E0|(le & Hle)].
    - rewrite E0 in Hlt. change (0 <? 0) with false in Hlt. cbv iota in Hlt.
      assert (E : topk s = (0, 0)) by (unfold topk; rewrite Hli, E0, Hlt; reflexivity).
      rewrite E. split; [left; reflexivity|]. split; [simpl; lia|]. split; [|split; [left; reflexivity|simpl; congruence]].
      intros i x Hx. exfalso. pose proof (log_in_pos C _ _ i x HC Hin Hx). pose proof (log_last_ge _ i x Hx). lia.
    - pose proof (log_in_pos C _ _ _ le HC Hin Hle) as Hpos.
      destruct (N.ltb_spec 0 (log_last m)) as [_|Hc]; [|lia].
      destruct Hlt as (e0 & He0 & Hlt). fold m in He0. rewrite Hle in He0. inversion He0; subst e0. clear He0.
      destruct (Hin _ le Hle) as (Hk & (p & Pp) & Hterm).
      assert (E : topk s = key le) by (unfold topk, key; rewrite Hli, Hlt, Hk; reflexivity).
      rewrite E. split; [right; exists le, p; auto|]. split; [exact Hterm|]. split; [|split; [right; apply (Hbel _ le Hle)|exact Hk]].
      intros i x Hx. apply (anc_linear C (key x) (key le) top HC (Hbel i x Hx) (Hbel _ le Hle)).
      unfold key. simpl. destruct (Hin i x Hx) as (Hk' & _). rewrite Hk', Hk. apply (log_last_ge _ i x Hx). }
  destruct Htk as (K1 & K2 & K3 & K4 & K5).
  (* the boundary *)
  assert (Hb : rootc C (bk s) /\ snd (bk s) <= T /\ (bk s = (0, 0) \/ anc C (bk s) top) /\
               (forall z, In z sns -> sn_idx z <= fst (bk s)) /\ (fst (bk s) = 0 \/ exists sn, In sn sns /\ sk sn = bk s)).
  { fold sns in Hbk, Hfo. destruct (find sn_ok (list_snaps sns)) as [sn|].
    - destruct Hbk as (E1 & E2 & _). destruct Hfo as [Hi Hmax]. destruct (Hsn sn Hi) as (_ & B2 & B3).
      assert (Eb : bk s = sk sn).
      { rewrite bk_pos; [unfold sk; congruence|]. pose proof (created_pos C _ HC B2) as H1. unfold sk in H1. simpl in H1. lia. }
      rewrite Eb.
      split; [right; exact B2|]. split; [exact B3|]. split; [right; apply Hsnt, Hi|]. split; [|right; exists sn; auto].
      intros z Hz. destruct (Hmax z Hz) as [->|Hle]; [simpl; lia|].
      apply (sle_branch C top z sn HC (Hsnt z Hz) (Hsnt sn Hi) Hle).
    - destruct Hbk as [E1 _]. rewrite (bk_zero s E1). split; [left; reflexivity|]. split; [simpl; lia|]. split; [left; reflexivity|].
      split; [rewrite Hfo; intros z []|left; reflexivity]. }
  destruct Hb as (B1 & B2 & B3 & B4 & B5).
  constructor; try assumption.
  - intros Hle. apply (cmp_root C top); assumption.
  - intros Hlt'. apply (cmp_root C top); try assumption. lia.
  - intros i Hi Hi'. apply Hseg; [lia| |lia]. intros z Hz. pose proof (B4 z Hz). lia.
  - intros z Hz. destruct (Hsn z Hz) as (Z1 & Z2 & Z3). split; [exact Z1|]. split; [exact Z2|]. split; [exact Z3|].
    apply (cmp_root C top); try assumption; [right; exact Z2|right; apply Hsnt, Hz|apply (B4 z Hz)].
Qed.

Lemma boot_znlog C P img r out : chain_ok C -> pclosed C -> p_rc P = false -> zimg C img -> boot P img = (r, out) ->
  znlog C r /\ d_term (image r) = d_term img /\ d_log (image r) = d_log img /\ d_snaps (image r) = d_snaps img /\
  (forall s, r = Up s -> v_role s = Follower).
Proof.
  intros HC Hp Hrc Himg. unfold boot.
  destruct (recover P img) as [s tr| | |] eqn:ER; intros HB; inversion HB; subst r out; clear HB;
    try (simpl; split; [exact Himg|]; split; [reflexivity|]; split; [reflexivity|]; split; [reflexivity|]; intros s0 Hs0; discriminate).
  pose proof (recover_zup C P img s tr HC Hp Hrc Himg ER) as Hz.
  destruct Himg as [Hin _ _ _].
  pose proof (recover_ok P img s tr (log_in_keys C _ _ Hin) ER) as ((Dt & _ & _ & Dl & _ & _ & Ds) & _ & Hrole & _).
  simpl. split; [exact Hz|]. split; [exact Dt|]. split; [exact Dl|]. split; [exact Ds|].
  intros s0 Hs0. inversion Hs0; subst. exact Hrole.
Qed.
