(* ClusterCommitStepG.v — GVoteReq and the stray inputs (pre-vote, restart, TimeoutNow) keep the invariant. *)
From Coq Require Import List NArith Bool Lia.
From stdpp Require Import gmap.
From RaftModel Require Import Base Config Compaction Commitment Node NodeCodec Candidate Leader Replicate Cluster ClusterLog ClusterCommit.
From RaftProofs Require Import ConfigProofs CommitmentProofs VoteProofs ClusterProofs
  ClusterLogSpec ClusterLogChain ClusterLogNode ClusterLogVote ClusterLogLeader ClusterLogInv ClusterLogSteps
  ClusterCommitSpec ClusterCommitLog ClusterCommitChain ClusterCommitAE2 ClusterCommitNode ClusterCommitGhost
  ClusterCommitInv ClusterCommitFinal ClusterCommitUpd ClusterCommitStepA ClusterCommitStepD ClusterCommitStepE ClusterCommitStepF.
Open Scope N_scope.

(* a handler ran at j: nobody became Leader *)
Lemma refresh_handler nodes j nj r' leads : NoDup (map gn_id nodes) -> find_node nodes j = Some nj ->
  (forall s', r' = Up s' -> v_role s' = Leader -> role_of (gn_run nj) = Leader) ->
  refresh_leads nodes (upd_node nodes j (mkGN (gn_P nj) r' (keep_sess r' (gn_sess nj)) (gn_next nj))) leads = leads.
Proof.
  intros Hnd Hf Hrole. apply refresh_no_new. intros x s Hx Hr Hl n0 Hn0.
  destruct (find_node_in _ _ _ Hf) as [Hin Hid].
  destruct (in_upd_cases _ _ _ _ Hx) as [->|[Hxo Hne]].
  - change (gn_id (mkGN (gn_P nj) r' (keep_sess r' (gn_sess nj)) (gn_next nj))) with (gn_id nj) in Hn0.
    rewrite Hid, Hf in Hn0. inversion Hn0; subst n0. apply (Hrole s Hr Hl).
  - rewrite (find_node_self nodes x Hnd Hxo) in Hn0. inversion Hn0; subst n0. rewrite Hr. exact Hl.
Qed.

Section StepG.
  Variable cfg : config.
  Variable Ps : list params.
  Hypothesis HVn : NoDup (voters cfg).
  Let HQ := quorums_intersect_one' cfg HVn.

  Theorem cinv_votereq g C LL A V i j cut fs g' : cinv cfg Ps g C LL A V ->
    cstep false [cfg] g (CBase (LElect (GVoteReq i j cut fs))) = Some g' -> exists V', cinv cfg Ps g' C LL A V'.
  Proof.
    intros HI Hstep. apply cstep_base_inv in Hstep. destruct Hstep as (_ & l' & Hl & ->).
    pose proof (cv_l cfg Ps g C LL A V HI) as Hlinv. pose proof (ci_ok C LL (cv_ci cfg Ps g C LL A V HI)) as HC.
    unfold lstep, ClusterLog.label_ok in Hl.
    destruct (gstep [cfg] (lg_g (cg_l g)) (GVoteReq i j cut fs)) as [g1|] eqn:Hg; [|discriminate].
    inversion Hl; subst l'. clear Hl.
    pose proof (votereq_linv [cfg] HQ (cg_l g) C i j cut fs g1 Hlinv Hg) as Hl1.
    unfold gstep in Hg. fold (cnodes g) in Hg.
    destruct (find_node (cnodes g) i) as [ni|] eqn:Hfi; [|discriminate].
    destruct (find_node (cnodes g) j) as [nj|] eqn:Hfj; [|discriminate].
    destruct (gn_sess ni) as [se|] eqn:Hse; [|discriminate].
    destruct (mem j (se_asked se)) eqn:Hmem; [|discriminate]. cbn [negb] in Hg.
    destruct (step_full (gn_P nj) (gn_run nj) (NVote (se_req se)) cut fs) as [[r' ob] out] eqn:Hsf.
    inversion Hg; subst g1. clear Hg.
    destruct (find_node_in _ _ _ Hfi) as [Hini Hidi]. destruct (find_node_in _ _ _ Hfj) as [Hinj Hidj].
    pose proof (node_wfr [cfg] _ C nj Hlinv Hinj) as Hw. destruct (li_nodes [cfg] _ C Hlinv nj Hinj) as [Hnl _].
    pose proof (simple_step C (gn_P nj) (gn_run nj) (NVote (se_req se)) cut fs r' ob out HC Hw Hnl I Hsf) as [_ Hpost].
    cbn [lg_g g_nodes base_leads base_hb base_ans].
    rewrite (refresh_handler (cnodes g) j nj r' _ (nodes_nodup cfg Ps g C LL A V HI) Hfj).
    2:{ intros s' -> Hr. destruct (Hpost s' eq_refl Hr) as (s & Hs & Hrs & _). rewrite Hs. exact Hrs. }
    match goal with |- exists V', cinv _ _ ?G _ _ _ V' =>
      destruct (cinv_simple_handler cfg Ps HVn g G C LL A V j nj (NVote (se_req se)) cut fs r' ob out HI Hfj I Hsf) as [Vn Hn] end;
      try reflexivity; [| |exists (Vn ++ V); exact Hn].
    - exact Hl1.
    - intros q Eq. inversion Eq; subst q. exists ni, se. split; [exact Hini|].
      pose proof (gi_nodes [cfg] _ (li_g [cfg] _ C Hlinv) ni Hini) as [_ Hso]. unfold sess_ok in Hso. rewrite Hse in Hso.
      destruct Hso as (c0 & si & _ & _ & _ & Haddr & _ & _ & _ & Hnot & _).
      split; [congruence|]. split; [|auto]. rewrite Haddr. intros E. apply Hnot. rewrite E. apply mem_true, Hmem.
  Qed.

  Theorem cinv_ginput g C LL A V j e cut fs g' : cinv cfg Ps g C LL A V ->
    (forall q, e <> NVote q) ->
    cstep false [cfg] g (CBase (LElect (GInput j e cut fs))) = Some g' -> exists V', cinv cfg Ps g' C LL A V'.
  Proof.
    intros HI Hnv Hstep. apply cstep_base_inv in Hstep. destruct Hstep as (_ & l' & Hl & ->).
    pose proof (cv_l cfg Ps g C LL A V HI) as Hlinv. pose proof (ci_ok C LL (cv_ci cfg Ps g C LL A V HI)) as HC.
    unfold lstep, ClusterLog.label_ok in Hl. destruct (input_ok false e) eqn:Hok; [|discriminate].
    destruct (gstep [cfg] (lg_g (cg_l g)) (GInput j e cut fs)) as [g1|] eqn:Hg; [|discriminate].
    inversion Hl; subst l'. clear Hl.
    pose proof (input_linv [cfg] HQ (cg_l g) C j e cut fs g1 Hlinv Hok Hg) as Hl1.
    assert (He : simple_event e) by (destruct e; simpl in Hok; try discriminate; exact I).
    unfold gstep in Hg. fold (cnodes g) in Hg.
    destruct (find_node (cnodes g) j) as [nj|] eqn:Hfj; [|destruct e; discriminate].
    destruct (step_full (gn_P nj) (gn_run nj) e cut fs) as [[r' ob] out] eqn:Hsf.
    assert (E : g1 = mkG (upd_node (cnodes g) j (mkGN (gn_P nj) r' (keep_sess r' (gn_sess nj)) (gn_next nj)))
                         (g_resps (lg_g (cg_l g))) (g_leaders (lg_g (cg_l g))) (grant_ghost j ob ++ g_grants (lg_g (cg_l g)))).
    { destruct e; try contradiction; inversion Hg; reflexivity. }
    subst g1. clear Hg.
    destruct (find_node_in _ _ _ Hfj) as [Hinj Hidj].
    pose proof (node_wfr [cfg] _ C nj Hlinv Hinj) as Hw. destruct (li_nodes [cfg] _ C Hlinv nj Hinj) as [Hnl _].
    pose proof (simple_step C (gn_P nj) (gn_run nj) _ cut fs r' ob out HC Hw Hnl He Hsf) as [_ Hpost].
    cbn [lg_g g_nodes base_leads base_hb base_ans].
    rewrite (refresh_handler (cnodes g) j nj r' _ (nodes_nodup cfg Ps g C LL A V HI) Hfj).
    2:{ intros s' -> Hr. destruct (Hpost s' eq_refl Hr) as (s & Hs & Hrs & _). rewrite Hs. exact Hrs. }
    match goal with |- exists V', cinv _ _ ?G _ _ _ V' =>
      destruct (cinv_simple_handler cfg Ps HVn g G C LL A V j nj e cut fs r' ob out HI Hfj He Hsf) as [Vn Hn] end;
      try reflexivity; [| |exists (Vn ++ V); exact Hn].
    - exact Hl1.
    - intros q Eq. exfalso. apply (Hnv q Eq).
  Qed.
End StepG.
