(* ClusterCommitSnapAE2.v — the two log operations of appendEntries (and of dispatchLogs) keep the
   shape of Proofs/ClusterCommitSnapLog.v: deleting the tail above a key of the branch that is not
   below the snapshot boundary, and storing a chain of new entries right after the last key. *)
From Coq Require Import List NArith Bool Lia.
From stdpp Require Import gmap.
From RaftModel Require Import Base Config Compaction Node NodeCodec.
From RaftProofs Require Import AppendProofs RecoverProofs ConvergeFollower
  ClusterLogSpec ClusterLogChain ClusterLogNode ClusterLogCut ClusterLogAppend ClusterCommitChain
  ClusterCommitAE ClusterCommitAE2 ClusterCommitInv ClusterCommitSnapLog ClusterCommitSnapBoot.
Open Scope N_scope.

Lemma log_delete_sub m lo hi : log_sub (log_delete m lo hi) m.
Proof.
  intros i x Hl. rewrite log_delete_lookup in Hl. destruct ((lo <=? i) && (i <=? hi)); [discriminate|exact Hl].
Qed.

Lemma store_src_idx m news i x : log_store m news !! i = Some x -> (In x news /\ e_idx x = i) \/ m !! i = Some x.
Proof.
  rewrite log_store_lookup. destruct (find_last i news) as [e|] eqn:F; [|auto].
  intros H; inversion H; subst. left. apply (find_last_In _ _ _ F).
Qed.

Section Ops.
  Variable C : chain.
  Hypothesis HC : chain_ok C.
  Hypothesis Hp : pclosed C.
  Variables (T : N) (m : gmap N entry) (sns : list snapshot) (tk b : N * N).
  Hypothesis HS : zshape C T m sns tk b.

  (* a key of the branch the server is on *)
  Definition onb (qk : N * N) : Prop := rootc C qk /\ snd qk <= T /\ (qk = (0, 0) \/ anc C qk (lk tk b)).

  Lemma log_key_root i y : m !! i = Some y -> rootc C (key y) /\ e_idx y = i.
  Proof. intros Hy. destruct (zs_in _ _ _ _ _ _ HS i y Hy) as (Hi & (p & Pp) & _). split; [right; exists y, p; auto|exact Hi]. Qed.

  Lemma zshape_delete qk : onb qk -> fst b <= fst qk -> fst qk < fst tk ->
    zshape C T (log_delete m (fst qk + 1) (fst tk)) sns qk b.
  Proof.
    intros (Q1 & Q2 & Q3) Hb Hlt.
    assert (Hold : forall i y, log_delete m (fst qk + 1) (fst tk) !! i = Some y -> m !! i = Some y /\ i <= fst qk).
    { intros i y Hy. pose proof (log_delete_sub _ _ _ i y Hy) as Hm. split; [exact Hm|].
      rewrite log_delete_lookup in Hy. pose proof (zshape_bound C HC _ _ _ _ _ HS i y Hm).
      destruct (N.leb_spec (fst qk + 1) i); [|lia]. destruct (N.leb_spec i (fst tk)); [discriminate|lia]. }
    constructor.
    - eapply log_in_sub; [apply log_delete_sub|apply N.le_refl|apply (zs_in _ _ _ _ _ _ HS)].
    - intros i y Hy. destruct (Hold i y Hy) as [Hm Hi]. destruct (log_key_root i y Hm) as [Ry Iy].
      apply (cmp_root C (lk tk b)); auto; [right; apply (zshape_log_lk C _ _ _ _ _ HS i y Hm)|unfold key; simpl; lia].
    - exact Q1.
    - exact Q2.
    - apply (zs_b _ _ _ _ _ _ HS).
    - apply (zs_bt _ _ _ _ _ _ HS).
    - intros _. apply (cmp_root C (lk tk b)); auto; [apply (zs_b _ _ _ _ _ _ HS)|right; apply (zshape_b_lk C _ _ _ _ _ HS)].
    - intros Hc. lia.
    - intros i Hi Hi'. rewrite log_delete_lookup. destruct (N.leb_spec (fst qk + 1) i); [lia|]. simpl.
      apply (zs_seg _ _ _ _ _ _ HS); lia.
    - apply (zs_sn _ _ _ _ _ _ HS).
    - apply (zs_has _ _ _ _ _ _ HS).
  Qed.

  Lemma zshape_store T' news qk : T <= T' -> news <> [] -> mchain C qk news ->
    (forall e, In e news -> e_term e <= T') ->
    (qk = tk \/ (qk = b /\ fst tk < fst b)) ->
    (fst (key (last_of news)) <= fst b -> anc C (key (last_of news)) b) ->
    (fst b <= fst (key (last_of news)) -> anc C b (key (last_of news))) ->
    zshape C T' (log_store m news) sns (key (last_of news)) b.
  Proof.
    intros HT Hnn Hmc Hterm Hq Hle Hge. set (kL := key (last_of news)) in *.
    pose proof (mchain_contig C qk news HC Hmc) as Hcn.
    assert (Hlast : In (last_of news) news) by (apply last_in, Hnn).
    assert (HqL : anc C qk kL) by (apply (mchain_anc C qk news Hmc _ Hlast)).
    assert (HtL : anc C tk kL).
    { destruct Hq as [->|[-> Hlt]]; [exact HqL|]. eapply anc_trans; [apply (zs_gt _ _ _ _ _ _ HS Hlt)|exact HqL]. }
    assert (HiL : fst kL = fst qk + N.of_nat (length news)) by (apply (contig_last _ _ Hcn Hnn)).
    constructor.
    - intros i x Hx. destruct (store_src_idx _ _ _ _ Hx) as [[Hn Hi]|Hm].
      + split; [exact Hi|]. split; [apply (mchain_in C qk news Hmc x Hn)|apply Hterm, Hn].
      + destruct (zs_in _ _ _ _ _ _ HS i x Hm) as (A & B & D). split; [exact A|]. split; [exact B|lia].
    - intros i x Hx. destruct (store_src_idx _ _ _ _ Hx) as [[Hn Hi]|Hm].
      + apply (mchain_last C qk news Hmc x Hn).
      + eapply anc_trans; [apply (zs_below _ _ _ _ _ _ HS i x Hm)|exact HtL].
    - right. destruct (mchain_in C qk news Hmc _ Hlast) as [q Hq']. exists (last_of news), q. auto.
    - apply Hterm, Hlast.
    - apply (zs_b _ _ _ _ _ _ HS).
    - pose proof (zs_bt _ _ _ _ _ _ HS). lia.
    - intros H. apply Hge. exact H.
    - intros H. apply Hle. lia.
    - intros i Hi Hi'. destruct (N.le_gt_cases i (fst qk)) as [Hlow|Hhigh].
      + destruct (store_contig_lookup (fst qk) news m i Hcn) as [_ E]. rewrite E by lia.
        destruct Hq as [->|[-> _]]; [|lia]. apply (zs_seg _ _ _ _ _ _ HS); lia.
      + destruct (store_contig_lookup (fst qk) news m i Hcn) as [E _]. destruct E as (e & _ & _ & E); [lia|]. rewrite E. eauto.
    - intros sn Hsn. destruct (zs_sn _ _ _ _ _ _ HS sn Hsn) as (A & B & D & E). repeat split; auto. lia.
    - apply (zs_has _ _ _ _ _ _ HS).
  Qed.
End Ops.
