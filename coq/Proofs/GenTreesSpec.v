(* GenTreesSpec.v — STATEMENTS (no proofs): the decision trees regenerated from the Go source on every
   run (Model/GenTrees.v, by go/gotables/trees.go) decide what the hand-written model functions decide,
   for ALL inputs, under the valuation of the source atoms read off a model state.
   A change of the Go source that changes a condition, the order of the guards, an effect or its position
   changes the regenerated tree and these theorems no longer check (Tie 2, every run). *)
From Coq Require Import List String NArith Bool.
From stdpp Require Import gmap.
From RaftModel Require Import Base Config Compaction Commitment Node Leader GenTrees Trees.
Import ListNotations.
Open Scope string_scope.
Open Scope N_scope.

Definition b2N (b : bool) : N := if b then 1 else 0.

(* ------------------------------------------------------------------ configurationChangeChIfStable (C07) *)
Definition gate_val (ls : lstate) : valuation := val_of [
  ("r.configurations.latestIndex", v_latestIdx (l_node ls));
  ("r.configurations.committedIndex", v_committedIdx (l_node ls));
  ("r.getCommitIndex()", v_commit (l_node ls));
  ("r.leaderState.commitment.startIndex", cm_start (l_cm ls)) ].
Definition gate_atoms : list string :=
  ["r.configurations.latestIndex"; "r.configurations.committedIndex"; "r.getCommitIndex()"; "r.leaderState.commitment.startIndex"].

(* the channel is returned exactly when the model's gate is open; nothing is changed on the way *)
Definition gate_tree_agrees : Prop :=
  covers gate_atoms gen_configurationChangeChIfStable = true /\
  forall ls,
    (snd (run_tree (gate_val ls) gen_configurationChangeChIfStable) = "r.configurationChangeCh" <-> config_gate_open ls = true) /\
    (snd (run_tree (gate_val ls) gen_configurationChangeChIfStable) = "nil" <-> config_gate_open ls = false) /\
    calls_among ["setState"; "setCurrentTerm"; "dispatchLogs"; "appendConfigurationEntry"]
                (fst (run_tree (gate_val ls) gen_configurationChangeChIfStable)) = [].

(* ------------------------------------------------------------------ persistVote (C06) *)
Definition pv_val (f1 f2 : bool) : valuation := val_of [
  ("err@r.stable.Set(keyLastVoteCand,candidate)", b2N f1);
  ("err@r.stable.SetUint64(keyLastVoteTerm,term)", b2N f2) ].
Definition pv_atoms : list string :=
  ["err@r.stable.Set(keyLastVoteCand,candidate)"; "err@r.stable.SetUint64(keyLastVoteTerm,term)"].

Definition trace_names (tr : list ev) : list string :=
  flat_map (fun e => match e with ESetVoteCand _ _ => ["stable.Set"] | ESetVoteTerm _ _ => ["stable.SetUint64"] | _ => [] end) tr.

(* the candidate is written first, the term second and only if the first write succeeded; nil is
   returned exactly when both succeeded - the same durable operations, in the same order, as the model *)
Definition persist_vote_tree_agrees : Prop :=
  covers pv_atoms gen_persistVote = true /\
  forall s fs t c,
    let f1 := fst (next_fail fs) in
    let f2 := fst (next_fail (snd (next_fail fs))) in
    let '(evs, ret) := run_tree (pv_val f1 f2) gen_persistVote in
    let '(_, ok, tr, _) := persist_vote s fs t c in
    calls evs = trace_names tr /\ (ret = "nil" <-> ok = true).

(* ------------------------------------------------------------------ compactLogsWithTrailing (C11) *)
Definition compact_val (first snap last trailing : N) (delfail : bool) : valuation := val_of [
  ("err", 0); ("minLog", first); ("snapIdx", snap); ("lastLogIdx", last); ("trailingLogs", trailing);
  ("err@r.logs.DeleteRange(minLog,maxLog)", b2N delfail) ].
Definition compact_atoms : list string :=
  ["err"; "minLog"; "snapIdx"; "lastLogIdx"; "trailingLogs"; "maxLog"; "err@r.logs.DeleteRange(minLog,maxLog)"].

(* the DeleteRange calls issued, with the values of minLog and maxLog at that moment *)
Definition delete_ranges (l : list (event * valuation)) : list (N * N) :=
  flat_map (fun x => if String.eqb (ev_kind (fst x)) "call" && String.eqb (ev_a (fst x)) "logs.DeleteRange" && String.eqb (ev_b (fst x)) "minLog,maxLog"
                     then [(snd x "minLog", snd x "maxLog")] else []) l.

(* exactly the range of Model/Compaction.v compact: at most one DeleteRange, never above
   min(snapshot index, last - trailing) *)
Definition compaction_tree_agrees : Prop :=
  covers compact_atoms gen_compactLogsWithTrailing = true /\
  forall first snap last trailing delfail,
    delete_ranges (fst (run_tree (compact_val first snap last trailing delfail) gen_compactLogsWithTrailing))
    = match compact first snap last trailing with Some r => [r] | None => [] end.

(* ------------------------------------------------------------------ requestVote (C06) *)
Definition rv_val (s : nstate) (fs : list bool) (q : vreq) : valuation :=
  let bump := v_term s <? vq_term q in
  let fs1 := if bump then snd (next_fail fs) else fs in
  let f1 := fst (next_fail fs1) in
  let f2 := fst (next_fail (snd (next_fail fs1))) in
  val_of [
    ("r.protocolVersion", 3); ("len(req.Addr)", 1);
    ("len(req.ID)", b2N (negb (vq_id q =? 0)));
    ("len(r.configurations.latest.Servers)", N.of_nat (length (v_latest s)));
    ("inConfiguration(r.configurations.latest,candidateID)", b2N (in_config (v_latest s) (vq_id q)));
    ("hasVote(r.configurations.latest,candidateID)", b2N (has_vote (v_latest s) (vq_id q)));
    ("leaderAddr@r.LeaderWithID()", v_leader s); ("candidate", vq_addr q);
    ("req.LeadershipTransfer", b2N (vq_transfer q));
    ("req.Term", vq_term q); ("r.getCurrentTerm()", v_term s);
    ("err", 0); ("err.Error()", 0); ("'not found'", 0);
    ("lastVoteTerm", d_vterm s);
    ("lastVoteCandBytes", match d_vcand s with Some _ => 1 | None => 0 end);
    ("bytes.Equal(lastVoteCandBytes,candidateBytes)", match d_vcand s with Some c => b2N (c =? vq_addr q) | None => 0 end);
    ("lastIdx", fst (last_entry s)); ("lastTerm", snd (last_entry s));
    ("req.LastLogIndex", vq_lastIdx q); ("req.LastLogTerm", vq_lastTerm q);
    ("err@r.persistVote(req.Term,candidateBytes)", b2N (f1 || f2)) ].
Definition rv_atoms : list string := [
  "r.protocolVersion"; "len(req.Addr)"; "len(req.ID)"; "len(r.configurations.latest.Servers)";
  "inConfiguration(r.configurations.latest,candidateID)"; "hasVote(r.configurations.latest,candidateID)";
  "leaderAddr@r.LeaderWithID()"; "candidate"; "req.LeadershipTransfer"; "req.Term"; "r.getCurrentTerm()";
  "err"; "err.Error()"; "'not found'"; "lastVoteTerm"; "lastVoteCandBytes"; "bytes.Equal(lastVoteCandBytes,candidateBytes)";
  "lastIdx"; "lastTerm"; "req.LastLogIndex"; "req.LastLogTerm"; "err@r.persistVote(req.Term,candidateBytes)" ].

Definition has_set_term (tr : list ev) : bool := existsb (fun e => match e with ESetTerm _ _ => true | _ => false end) tr.
Definition has_vote_write (tr : list ev) : bool := existsb (fun e => match e with ESetVoteCand _ _ => true | _ => false end) tr.
Definition rv_effects : list string := ["setState"; "setCurrentTerm"; "persistVote"; "setLastContact"].

(* for every state, failure oracle and request: the regenerated requestVote grants exactly when the model
   grants, answers the term the model answers, steps down / persists the term / persists the vote exactly
   when the model does, in the model's order (setState, setCurrentTerm, then persistVote, then
   setLastContact only after a successful persistVote) *)
Definition request_vote_tree_agrees : Prop :=
  covers rv_atoms gen_requestVote = true /\
  forall s fs q,
    let evs := fst (run_tree (rv_val s fs q) gen_requestVote) in
    match request_vote s fs q with
    | Done s' (t, granted) tr fs' =>
      has_assign evs "resp.Granted" "true" = granted /\
      t = (if has_assign evs "resp.Term" "req.Term" then vq_term q else v_term s) /\
      calls_among rv_effects evs =
        ((if has_set_term tr then ["setState"; "setCurrentTerm"] else []) ++
         (if has_vote_write tr then ["persistVote"] else []) ++
         (if has_vote_write tr && granted then ["setLastContact"] else []))%list
    | Panic _ tr =>
      (* setCurrentTerm panics inside: the tree runs on, the process does not *)
      has_set_term tr = true /\ mem_s "setCurrentTerm" (calls evs) = true
    end.

(* whatever the atoms are worth: on every path of the regenerated requestVote, `resp.Granted = true` is
   assigned only after persistVote returned nil on that path, or on the path where the recorded vote of
   this term names this very candidate (a syntactic statement over ALL valuations, i.e. all paths) *)
Fixpoint granted_guarded (persisted dup : bool) (t : tree) : bool :=
  match t with
  | TRet _ => true
  | TEv e k =>
    (if String.eqb (fst (fst e)) "assign" && String.eqb (snd (fst e)) "resp.Granted" && String.eqb (snd e) "true"
     then persisted || dup else true) && granted_guarded persisted dup k
  | TLet _ _ k => granted_guarded persisted dup k
  | TIf c a b =>
    match c with
    | EBin "!=" (EAtom "err@r.persistVote(req.Term,candidateBytes)") ENil =>
      granted_guarded false dup a && granted_guarded true dup b
    | EAtom "bytes.Equal(lastVoteCandBytes,candidateBytes)" =>
      granted_guarded persisted true a && granted_guarded persisted dup b
    | _ => granted_guarded persisted dup a && granted_guarded persisted dup b
    end
  end.
Definition vote_granted_only_after_durable_record : Prop := granted_guarded false false gen_requestVote = true.

(* ------------------------------------------------------------------ requestPreVote (C14) *)
Definition pvq_val (s : nstate) (q : vreq) : valuation := val_of [
    ("len(r.configurations.latest.Servers)", N.of_nat (length (v_latest s)));
    ("inConfiguration(r.configurations.latest,candidateID)", b2N (in_config (v_latest s) (vq_id q)));
    ("hasVote(r.configurations.latest,candidateID)", b2N (has_vote (v_latest s) (vq_id q)));
    ("leaderAddr@r.LeaderWithID()", v_leader s); ("candidate", vq_addr q);
    ("req.Term", vq_term q); ("r.getCurrentTerm()", v_term s);
    ("lastIdx", fst (last_entry s)); ("lastTerm", snd (last_entry s));
    ("req.LastLogIndex", vq_lastIdx q); ("req.LastLogTerm", vq_lastTerm q) ].
Definition pvq_atoms : list string := [
  "len(r.configurations.latest.Servers)"; "inConfiguration(r.configurations.latest,candidateID)";
  "hasVote(r.configurations.latest,candidateID)"; "leaderAddr@r.LeaderWithID()"; "candidate"; "req.Term";
  "r.getCurrentTerm()"; "lastIdx"; "lastTerm"; "req.LastLogIndex"; "req.LastLogTerm" ].

(* the pre-vote handler answers what the model answers and calls nothing that changes the server:
   no setState, no setCurrentTerm, no persistVote, no setLastContact, no store write - on ANY path *)
Fixpoint calls_of_tree (t : tree) : list string :=
  match t with
  | TRet _ => []
  | TEv e k => ((if String.eqb (fst (fst e)) "call" then [snd (fst e)] else []) ++ calls_of_tree k)%list
  | TLet _ _ k => calls_of_tree k
  | TIf _ a b => (calls_of_tree a ++ calls_of_tree b)%list
  end.
Definition prevote_readers : list string := ["getRPCHeader"; "getCurrentTerm"; "trans.DecodePeer"; "LeaderWithID"; "getLastEntry"].
Definition request_prevote_tree_agrees : Prop :=
  covers pvq_atoms gen_requestPreVote = true /\
  forallb (fun c => mem_s c prevote_readers) (calls_of_tree gen_requestPreVote) = true /\
  forall s q,
    let evs := fst (run_tree (pvq_val s q) gen_requestPreVote) in
    let '(t, granted) := request_prevote s q in
    has_assign evs "resp.Granted" "true" = granted /\
    t = (if has_assign evs "resp.Term" "req.Term" then vq_term q else v_term s).
