(* ClusterSnapLMAE.v — the appendEntries handler WITHOUT the assumption that nothing is stored above the
   cached last index (after installSnapshot reset the cache to (0, 0) stale entries below the snapshot
   remain above it): the store / delete operations of its trace, every crash image is the replay of a
   prefix of them.  The analogue of Proofs/ClusterCommitSnapAE.v; the conflict is described by the stored
   entry whose term differs. *)
From Coq Require Import List NArith Bool Lia.
From stdpp Require Import gmap.
From RaftModel Require Import Base Config Compaction Node NodeCodec.
From RaftProofs Require Import VoteProofs AdvLeaderProofs AppendProofs RecoverProofs
  ClusterLogSpec ClusterLogChain ClusterLogNode ClusterLogCut ClusterLogVote ClusterLogAppend
  ClusterCommitAE ClusterCommitInv ClusterCommitSnapLog ClusterCommitSnapAE.
Open Scope N_scope.

(* scan_entries with any log store *)
Lemma scan_specW m last : forall es prev, contig prev es ->
  match scan_entries m last es with
  | ScanNone => forall e, In e es -> exists se, m !! e_idx e = Some se /\ e_term se = e_term e
  | ScanMissing => True
  | ScanNew news => exists dup, es = dup ++ news /\ news <> [] /\
                    (forall e, In e dup -> exists se, m !! e_idx e = Some se /\ e_term se = e_term e) /\
                    (forall e, In e news -> last < e_idx e)
  | ScanConflict c news => exists dup, es = dup ++ news /\ news <> [] /\ c = e_idx (hd (mkE 0 0 0 0) news) /\ c <= last /\
                    (forall e, In e dup -> exists se, m !! e_idx e = Some se /\ e_term se = e_term e) /\
                    exists se, m !! c = Some se /\ e_term (hd (mkE 0 0 0 0) news) <> e_term se
  end.
Proof.
  induction es as [|e r IH]; intros prev Hc; simpl; [intros x []|].
  destruct Hc as [He Hr].
  destruct (N.ltb_spec last (e_idx e)) as [Hlt|Hge].
  - exists []. split; [reflexivity|]. split; [discriminate|]. split; [intros x []|].
    intros x [->|Hx]; [exact Hlt|]. pose proof (contig_idx _ _ Hr x Hx). lia.
  - destruct (m !! e_idx e) as [se|] eqn:Hm; [|exact I].
    destruct (N.eqb_spec (e_term e) (e_term se)) as [Ht|Ht].
    + specialize (IH (prev + 1) Hr).
      destruct (scan_entries m last r) as [news|c news| |].
      * destruct IH as (dup & I2 & I3 & I4 & I5). exists (e :: dup). split; [simpl; f_equal; exact I2|]. split; [exact I3|]. split; [|exact I5].
        intros x [->|Hx]; [exists se; auto|apply I4; exact Hx].
      * destruct IH as (dup & I2 & I3 & I4 & I5 & I6 & I7). exists (e :: dup). split; [simpl; f_equal; exact I2|]. split; [exact I3|]. split; [exact I4|]. split; [exact I5|].
        split; [|exact I7]. intros x [->|Hx]; [exists se; auto|apply I6; exact Hx].
      * exact I.
      * intros x [->|Hx]; [exists se; auto|apply IH; exact Hx].
    + exists []. split; [reflexivity|]. split; [discriminate|]. split; [reflexivity|]. split; [exact Hge|]. split; [intros x []|].
      exists se. simpl. auto.
Qed.

(* es = dup ++ news: the duplicates are stored with the same terms; the new entries lie beyond the
   cached last index (store), or the first of them conflicts at c (delete c..top, then store) *)
Definition shapeY (m : gmap N entry) (top : N) (a : areq) (dup news : list entry) (ext : list ev) : Prop :=
  aq_entries a = dup ++ news /\ news <> [] /\
  (forall e, In e dup -> exists se, m !! e_idx e = Some se /\ e_term se = e_term e) /\
  ((ext = [EStore news true] /\ forall e, In e news -> top < e_idx e) \/
   (exists c se, m !! c = Some se /\ e_term (hd (mkE 0 0 0 0) news) <> e_term se /\ c = e_idx (hd (mkE 0 0 0 0) news) /\ c <= top /\
      (ext = [EDelete c top true] \/ ext = [EDelete c top true; EStore news true]))).

Definition cont_shapeY (s2 : nstate) (tr1 : list ev) (a : areq) (c : ae_cont) : Prop :=
  exists ext, tlf (cont_tr tr1 c) = tlf tr1 ++ ext /\
    ((ext = [] /\ forall st, cont_st c = Some st -> tlp st = tlp s2 /\ topk st = topk s2) \/
     (exists dup news, shapeY (d_log s2) (v_lastLogIdx s2) a dup news ext /\
        forall st, cont_st c = Some st -> tlp st = fold_left tl_apply ext (tlp s2) /\ topk st = ext_key a news (topk s2) ext)).

Lemma ae_entries_shapeY P fr s2 tr1 fs1 a :
  contig (aq_prevIdx a) (aq_entries a) ->
  cont_shapeY s2 tr1 a (ae_entries P fr s2 tr1 fs1 a).
Proof.
  intros Hc. unfold ae_entries.
  assert (Hsame : forall (c : ae_cont), cont_tr tr1 c = tr1 -> cont_st c = Some s2 -> cont_shapeY s2 tr1 a c).
  { intros c E1 E2. exists []. rewrite E1, app_nil_r. split; [reflexivity|]. left. split; [reflexivity|].
    intros st E. rewrite E2 in E. inversion E; subst. split; reflexivity. }
  destruct (aq_entries a) as [|e0 es0] eqn:Ees; [apply Hsame; reflexivity|].
  rewrite <- Ees in *. clear Ees e0 es0.
  pose proof (scan_specW (d_log s2) (v_lastLogIdx s2) (aq_entries a) (aq_prevIdx a) Hc) as Hs.
  destruct (scan_entries (d_log s2) (v_lastLogIdx s2) (aq_entries a)) as [news|c news| |]; try (apply Hsame; reflexivity).
  - destruct Hs as (dup & Hes & Hnn & Hdup & Hnew).
    pose proof (store_new_shapeS P fr (aq_commit a) s2 s2 tr1 fs1 news tr1 [] (eq_sym (app_nil_r _)) eq_refl) as Hst.
    cbv zeta in Hst. destruct Hst as [[H1 H2]|[H1 H2]].
    + exists []. split; [exact H1|]. left. split; [reflexivity|exact H2].
    + exists [EStore news true]. split; [exact H1|]. right. exists dup, news. split.
      * split; [exact Hes|]. split; [exact Hnn|]. split; [exact Hdup|]. left. auto.
      * intros st E. destruct (H2 st E) as [A B]. split; [exact A|rewrite B; reflexivity].
  - destruct Hs as (dup & Hes & Hnn & Hc0 & Hcl & Hdup & se & Hse & Hne).
    unfold do_delete. destruct (next_fail fs1) as [f fs3]. destruct f; cbn [negb].
    { exists []. cbn [cont_tr cont_st]. split; [rewrite tlf_app; simpl; reflexivity|]. left. split; [reflexivity|].
      intros st E. inversion E; subst. split; reflexivity. }
    destruct (conflict_pred a news) as [pi pt] eqn:Ecp.
    match goal with |- context [store_new P fr (aq_commit a) ?S3 ?TR3 fs3 news] =>
      pose proof (store_new_shapeS P fr (aq_commit a) s2 S3 TR3 fs3 news tr1 [EDelete c (v_lastLogIdx s2) true]) as Hst end.
    cbv zeta in Hst. destruct Hst as [[H1 H2]|[H1 H2]].
    + rewrite tlf_app. reflexivity.
    + destruct (c <=? v_latestIdx _); reflexivity.
    + exists [EDelete c (v_lastLogIdx s2) true]. split; [exact H1|]. right. exists dup, news. split.
      * split; [exact Hes|]. split; [exact Hnn|]. split; [exact Hdup|]. right. exists c, se. repeat (split; [assumption|]). left. reflexivity.
      * intros st E. destruct (H2 st E) as [A B]. split; [exact A|]. rewrite B. unfold ext_key. simpl. rewrite Ecp.
        destruct (c <=? v_latestIdx _); reflexivity.
    + exists [EDelete c (v_lastLogIdx s2) true; EStore news true]. split; [exact H1|]. right. exists dup, news. split.
      * split; [exact Hes|]. split; [exact Hnn|]. split; [exact Hdup|]. right. exists c, se. repeat (split; [assumption|]). right. reflexivity.
      * intros st E. destruct (H2 st E) as [A B]. split; [exact A|]. rewrite B. reflexivity.
Qed.

Definition body_shapeY (s2 : nstate) (a : areq) (tr1 : list ev) {R} (o : outcome R) : Prop :=
  exists ext, tlf (trace_of o) = tlf tr1 ++ ext /\
    ((ext = [] /\ forall st, done_st o = Some st -> tlp st = tlp s2 /\ topk st = topk s2) \/
     (prev_ok s2 a /\ exists dup news, shapeY (d_log s2) (v_lastLogIdx s2) a dup news ext /\
        forall st, done_st o = Some st -> tlp st = fold_left tl_apply ext (tlp s2) /\ topk st = ext_key a news (topk s2) ext)).

Lemma ae_body_shapeY P s0 s2 rt tr1 fs1 a :
  contig (aq_prevIdx a) (aq_entries a) -> body_shapeY s2 a tr1 (ae_body P s0 s2 rt tr1 fs1 a).
Proof.
  intros Hc. unfold ae_body.
  assert (Hsame : forall r fs, body_shapeY s2 a tr1 (Done s2 r tr1 fs : outcome aresp)).
  { intros r fs. exists []. simpl. rewrite app_nil_r. split; [reflexivity|]. left. split; [reflexivity|].
    intros st E. inversion E; split; reflexivity. }
  destruct (prev_check s2 a) as [[|]|] eqn:Epc; try apply Hsame.
  pose proof (prev_check_ok s2 a Epc) as Hpk.
  pose proof (ae_entries_shapeY P (mkAResp rt (last_index s0) false false false) s2 tr1 fs1 a Hc) as Hae.
  destruct (ae_entries P _ s2 tr1 fs1 a) as [[[[s8 tr8] fs8]|]|[[[resp s'] tr'] fs']];
    destruct Hae as (ext & E1 & E2); cbn [cont_tr cont_st] in E1, E2; exists ext.
  - destruct (ae_commit_tlfS (mkAResp rt (last_index s0) true false false) s8 tr8 fs8 a) as [A1 A2].
    rewrite A1. split; [exact E1|]. destruct E2 as [[-> E3]|(dup & news & Hsh & E3)].
    + left. split; [reflexivity|]. intros st Hst. destruct (A2 st Hst) as [-> ->]. apply E3. reflexivity.
    + right. split; [exact Hpk|]. exists dup, news. split; [exact Hsh|].
      intros st Hst. destruct (A2 st Hst) as [-> ->]. apply E3. reflexivity.
  - split; [exact E1|]. destruct E2 as [[-> E3]|(dup & news & Hsh & E3)].
    + left. split; [reflexivity|]. intros st Hst. discriminate.
    + right. split; [exact Hpk|]. exists dup, news. split; [exact Hsh|]. intros st Hst. discriminate.
  - split; [exact E1|]. destruct E2 as [[-> E3]|(dup & news & Hsh & E3)].
    + left. split; [reflexivity|]. intros st Hst. simpl in Hst. inversion Hst; subst. apply E3. reflexivity.
    + right. split; [exact Hpk|]. exists dup, news. split; [exact Hsh|].
      intros st Hst. simpl in Hst. inversion Hst; subst. apply E3. reflexivity.
Qed.

(* the whole handler: an optional term write to the request's term, then the store part *)
Theorem append_shapeY P s fs a : wfu s -> contig (aq_prevIdx a) (aq_entries a) ->
  exists pre ext, tlf (trace_of (append_entries P s fs a)) = pre ++ ext /\
    ((pre = [] /\ (ext = [] \/ d_term s = aq_term a)) \/ (pre = [ESetTerm (aq_term a) true] /\ d_term s <= aq_term a)) /\
    ((ext = [] /\ forall st, done_st (append_entries P s fs a) = Some st ->
                    tlp st = fold_left tl_apply pre (tlp s) /\ topk st = topk s) \/
     (prev_ok s a /\ exists dup news, shapeY (d_log s) (v_lastLogIdx s) a dup news ext /\
        forall st, done_st (append_entries P s fs a) = Some st ->
          tlp st = fold_left tl_apply (pre ++ ext) (tlp s) /\ topk st = ext_key a news (topk s) ext)).
Proof.
  intros [Hwd Hvt] Hc. unfold append_entries.
  destruct (N.ltb_spec (aq_term a) (v_term s)) as [Hlt|Hge].
  { exists [], []. split; [reflexivity|]. split; [left; split; [reflexivity|left; reflexivity]|]. left. split; [reflexivity|].
    intros st E. inversion E; split; reflexivity. }
  set (bump := (v_term s <? aq_term a) || (negb (v_role s =? Follower) && negb (v_transfer s))).
  destruct bump eqn:Eb.
  - unfold do_set_term. destruct (next_fail fs) as [f fs1]. destruct f.
    { exists [], []. split; [reflexivity|]. split; [left; split; [reflexivity|left; reflexivity]|]. left. split; [reflexivity|].
      intros st E. discriminate. }
    set (s2 := set_leader (set_vol_term (set_durable_term (set_state s Follower) (aq_term a)) (aq_term a)) (aq_addr a) (aq_id a)).
    destruct (ae_body_shapeY P s s2 (aq_term a) [ESetTerm (aq_term a) true] fs1 a Hc) as (ext & E1 & E2).
    exists [ESetTerm (aq_term a) true], ext. split; [exact E1|]. split; [right; split; [reflexivity|lia]|].
    destruct E2 as [[-> E3]|(Hpk & dup & news & Hsh & E3)].
    + left. split; [reflexivity|]. intros st Hst. destruct (E3 st Hst) as [-> ->]. split; reflexivity.
    + right. split; [exact Hpk|]. exists dup, news. split; [exact Hsh|].
      intros st Hst. destruct (E3 st Hst) as [-> ->]. split; reflexivity.
  - assert (Heq : d_term s = aq_term a).
    { unfold bump in Eb. apply orb_false_elim in Eb. destruct Eb as [Eb _]. apply N.ltb_ge in Eb. lia. }
    set (s2 := set_leader s (aq_addr a) (aq_id a)).
    destruct (ae_body_shapeY P s s2 (v_term s) [] fs a Hc) as (ext & E1 & E2).
    exists [], ext. split; [exact E1|]. split; [left; split; [reflexivity|right; exact Heq]|].
    destruct E2 as [[-> E3]|(Hpk & dup & news & Hsh & E3)].
    + left. split; [reflexivity|]. intros st Hst. destruct (E3 st Hst) as [-> ->]. split; reflexivity.
    + right. split; [exact Hpk|]. exists dup, news. split; [exact Hsh|].
      intros st Hst. destruct (E3 st Hst) as [-> ->]. split; reflexivity.
Qed.

(* ---------------------------------------------------------------- what the store part does to a log *)
(* m' is the log and k' the cached last-log key after the delete / store operations of the handler *)
Definition ae_logY (m : gmap N entry) (top : N) (a : areq) (m' : gmap N entry) (k' : N * N) : Prop :=
  exists dup news, aq_entries a = dup ++ news /\ news <> [] /\
    (forall e, In e dup -> exists se, m !! e_idx e = Some se /\ e_term se = e_term e) /\
    ((m' = log_store m news /\ k' = key (last_of news) /\ forall e, In e news -> top < e_idx e) \/
     (exists c se, m !! c = Some se /\ e_term (hd (mkE 0 0 0 0) news) <> e_term se /\ c = e_idx (hd (mkE 0 0 0 0) news) /\ c <= top /\
        ((m' = log_delete m c top /\ k' = conflict_pred a news) \/
         (m' = log_store (log_delete m c top) news /\ k' = key (last_of news))))).

Lemma ext_prefixY m top a dup news ext t k j : shapeY m top a dup news ext ->
  (fold_left tl_apply (firstn j ext) (t, m) = (t, m) /\ ext_key a news k (firstn j ext) = k) \/
  exists m', fold_left tl_apply (firstn j ext) (t, m) = (t, m') /\ ae_logY m top a m' (ext_key a news k (firstn j ext)).
Proof.
  intros (Hes & Hnn & Hdup & [[-> Hnew]|(c & se & Hse & Hne & Hc & Hcl & [->| ->])]).
  - destruct j as [|[|j]]; [left; split; reflexivity| |]; right; exists (log_store m news); (split; [reflexivity|]);
      exists dup, news; repeat (split; [assumption|]); left; auto.
  - destruct j as [|[|j]]; [left; split; reflexivity| |]; right; exists (log_delete m c top); (split; [reflexivity|]);
      exists dup, news; repeat (split; [assumption|]); right; exists c, se; repeat (split; [assumption|]); left; auto.
  - destruct j as [|[|[|j]]]; [left; split; reflexivity| | |]; right.
    + exists (log_delete m c top). split; [reflexivity|].
      exists dup, news. repeat (split; [assumption|]). right. exists c, se. repeat (split; [assumption|]). left. auto.
    + exists (log_store (log_delete m c top) news). split; [reflexivity|].
      exists dup, news. repeat (split; [assumption|]). right. exists c, se. repeat (split; [assumption|]). right. auto.
    + exists (log_store (log_delete m c top) news). split; [reflexivity|].
      exists dup, news. repeat (split; [assumption|]). right. exists c, se. repeat (split; [assumption|]). right. auto.
Qed.

(* every prefix of the handler's (term, log) operations, applied to the state it started from;
   k is the cached last-log key that goes with the log reached *)
Definition ae_reachY (s : nstate) (a : areq) (d : N * gmap N entry) (k : N * N) : Prop :=
  (d = tlp s /\ k = topk s) \/
  (d_term s <= aq_term a /\ fst d = aq_term a /\
   ((snd d = d_log s /\ k = topk s) \/ (prev_ok s a /\ ae_logY (d_log s) (v_lastLogIdx s) a (snd d) k))).

Theorem append_reachY P s fs a : wfu s -> contig (aq_prevIdx a) (aq_entries a) ->
  (forall j, exists k, ae_reachY s a (fold_left tl_apply (firstn j (tlf (trace_of (append_entries P s fs a)))) (tlp s)) k) /\
  (forall st, done_st (append_entries P s fs a) = Some st -> ae_reachY s a (tlp st) (topk st)).
Proof.
  intros Hw Hc.
  destruct (append_shapeY P s fs a Hw Hc) as (pre & ext & Htr & Hpre & Hext).
  assert (Hpre0 : forall j, ae_reachY s a (fold_left tl_apply (firstn j pre) (tlp s)) (topk s)).
  { intros j. unfold tlp. destruct Hpre as [[-> _]|[-> Hle]]; [destruct j; left; split; reflexivity|].
    destruct j as [|j]; [left; split; reflexivity|]. destruct j; right; simpl; auto. }
  destruct Hext as [[-> Hst]|(Hpk & dup & news & Hsh & Hst)].
  { rewrite app_nil_r in Htr. split.
    - intros j. rewrite Htr. exists (topk s). apply Hpre0.
    - intros st E. destruct (Hst st E) as [-> ->]. rewrite <- (firstn_all pre). apply Hpre0. }
  assert (Hall : forall j, ae_reachY s a (fold_left tl_apply (firstn j (pre ++ ext)) (tlp s))
                                   (ext_key a news (topk s) (firstn (j - length pre) ext))).
  { intros j. unfold tlp. destruct Hpre as [[-> He]|[-> Hle]].
    - simpl app. simpl length. rewrite Nat.sub_0_r.
      destruct He as [->|Heq]; [destruct j; left; split; reflexivity|].
      destruct (ext_prefixY (d_log s) (v_lastLogIdx s) a dup news ext (d_term s) (topk s) j Hsh) as [[E1 E2]|(m' & E & Hm')].
      + rewrite E1, E2. left. split; reflexivity.
      + rewrite E. right. simpl. split; [lia|]. split; [exact Heq|]. right. auto.
    - destruct j as [|j]; [left; split; reflexivity|]. cbn [app firstn fold_left tl_apply fst snd length].
      replace (S j - 1)%nat with j by lia.
      destruct (ext_prefixY (d_log s) (v_lastLogIdx s) a dup news ext (aq_term a) (topk s) j Hsh) as [[E1 E2]|(m' & E & Hm')].
      + rewrite E1, E2. right. simpl. auto.
      + rewrite E. right. simpl. auto. }
  split.
  - intros j. rewrite Htr. eexists. apply Hall.
  - intros st E. destruct (Hst st E) as [-> ->]. rewrite <- (firstn_all (pre ++ ext)) at 1.
    pose proof (Hall (length (pre ++ ext))) as H. rewrite app_length in H.
    replace (length pre + length ext - length pre)%nat with (length ext) in H by lia. rewrite firstn_all in H.
    rewrite app_length. exact H.
Qed.
