(* ClusterLogSnapExample.v — non-vacuity of stage 2: the driver's initial states satisfy
   linit_snap_ok for every c0 up to the shortest log, also after a running server's commit index is
   set to any value <= c0; from such a state a run of the system takes a snapshot. *)
From Coq Require Import List NArith Bool Lia FinFun.
From stdpp Require Import gmap.
From RaftModel Require Import Base Config Compaction Commitment Node NodeCodec Candidate Leader Replicate Cluster ClusterLog.
From RaftProofs Require Import ConfigProofs VoteProofs AppendProofs RecoverProofs ClusterProofs
  ClusterLogSpec ClusterLogChain ClusterLogNode ClusterLogInit ClusterLogExample ClusterLogSnapCex
  ClusterLogSnapSpec ClusterLogSnapBoot.
Open Scope N_scope.

Lemma boot_node_init_snap base k c0 P img : hist_ok (0, 0) base -> (k <= length base)%nat ->
  d_log img = log_store ∅ (firstn k base) -> d_snaps img = [] -> wfd img ->
  (forall e, In e base -> e_term e <= d_term img) ->
  d_pcommit img = 0 -> d_staged img = 0 -> c0 <= N.of_nat k ->
  wfr (fst (boot P img)) /\ node_init_snap base c0 (mkGN P (fst (boot P img)) None 0).
Proof.
  intros Hh Hk Hlog Hsn Hwd Hterm Hpc Hst Hc0.
  destruct (boot_node_init base k P img Hh Hk Hlog Hsn Hwd Hterm) as [Hw Hni]. split; [exact Hw|].
  split; [exact Hni|].
  pose proof (log_prefix_store base k Hh Hk) as Hp. rewrite <- Hlog in Hp.
  assert (Hent : c0 = 0 \/ exists e, d_log img !! c0 = Some e).
  { destruct (N.eq_dec c0 0) as [E|Hne]; [left; exact E|right]. destruct Hp as [_ Hm]. rewrite Hm.
    destruct (N.leb_spec 1 c0); [|lia]. destruct (N.leb_spec c0 (N.of_nat k)); [|lia]. cbn [andb].
    destruct (nth_error base (N.to_nat (c0 - 1))) as [e|] eqn:E; [eauto|]. apply nth_error_None in E. lia. }
  cbn [gn_run]. unfold boot. destruct (recover P img) as [s tr| | |] eqn:ER; cbn [fst image];
    try (split; [exact Hent|]; split; [lia|]; split; [lia|exact I]).
  pose proof (recover_apply P img s tr ER) as Happ. cbv zeta in Happ.
  apply recover_ok in ER; [|eapply prefix_keys_ok; eauto].
  destruct ER as ((_ & _ & _ & Dl & Dstg & Dpc & Ds) & _).
  rewrite Dl, Dpc, Dstg. split; [exact Hent|]. split; [lia|]. split; [lia|].
  destruct Happ as [(A1 & A2 & A3)|(s3 & s4 & tr4 & L3 & A3 & F3 & C3 & EP & C4 & A4 & F4)].
  - rewrite A1, A3. simpl. split; [lia|]. split; [left; reflexivity|lia].
  - rewrite Hpc in C3, EP. rewrite N.min_0_l in C3, EP.
    unfold process_logs in EP. destruct (N.leb_spec 0 (v_applied s3)) as [_|Hc]; [|lia].
    inversion EP; subst s4 tr4. rewrite C4, F4, C3, F3. simpl. split; [lia|]. split; [left; reflexivity|lia].
Qed.

Lemma mk_node_init_snap cfg i x M c0 : (N.to_nat x <= M)%nat -> c0 <= x + 1 ->
  wfr (gn_run (mk_node cfg i x)) /\ node_init_snap (mk_entries M) c0 (mk_node cfg i x).
Proof.
  intros Hx Hc. unfold mk_node. cbn [gn_run].
  apply (boot_node_init_snap (mk_entries M) (S (N.to_nat x))).
  - apply mk_entries_hist.
  - rewrite mk_entries_length. lia.
  - rewrite (mk_entries_firstn _ _ Hx). reflexivity.
  - reflexivity.
  - unfold wfd. simpl. lia.
  - intros e He. rewrite (mk_entries_term _ _ He). simpl. lia.
  - reflexivity.
  - reflexivity.
  - lia.
Qed.

(* the driver's initial states, with c0 up to the shortest log *)
Theorem mk_nodes_linit_snap n extras c0 : (forall x, In x extras -> c0 <= x + 1) ->
  forall f, (forall nd, gn_id (f nd) = gn_id nd /\ gn_sess (f nd) = gn_sess nd) ->
  (forall nd base, wfr (gn_run nd) /\ node_init_snap base c0 nd -> wfr (gn_run (f nd)) /\ node_init_snap base c0 (f nd)) ->
  linit_snap_ok (mkLG (mkG (map f (map (fun p => mk_node (mk_cfg n) (N.of_nat (fst p)) (snd p)) (combine (seq 1 n) extras))) [] [] []) []).
Proof.
  intros Hc0 f Hf Hfi.
  set (M := fold_right Nat.max 0%nat (map N.to_nat extras)).
  assert (HM : forall p, In p (combine (seq 1 n) extras) -> (N.to_nat (snd p) <= M)%nat /\ c0 <= snd p + 1).
  { intros [a x] Hp. apply in_combine_r in Hp. split; [apply max_ge, in_map, Hp|apply Hc0, Hp]. }
  split; [|split; [reflexivity|]].
  - split; [|split; [|auto]]; cbn [lg_g g_nodes].
    + rewrite !map_map. rewrite (map_ext _ (fun x : nat * N => N.of_nat (fst x))); [|intros a; apply Hf].
      rewrite <- (map_map fst N.of_nat). apply Injective_map_NoDup; [intros a b; apply Nat2N.inj|].
      apply nodup_fst_combine, seq_NoDup.
    + intros nd Hin. apply in_map_iff in Hin. destruct Hin as (n0 & <- & Hin).
      apply in_map_iff in Hin. destruct Hin as (p & <- & Hp). destruct (HM p Hp) as [H1 H2].
      split; [apply (Hfi _ (mk_entries M)), (mk_node_init_snap _ _ _ M c0 H1 H2)|].
      destruct (Hf (mk_node (mk_cfg n) (N.of_nat (fst p)) (snd p))) as [_ ->]. reflexivity.
  - exists (mk_entries M), c0. split; [apply mk_entries_hist|]. cbn [lg_g g_nodes].
    intros nd Hin. apply in_map_iff in Hin. destruct Hin as (n0 & <- & Hin).
    apply in_map_iff in Hin. destruct Hin as (p & <- & Hp). destruct (HM p Hp) as [H1 H2].
    apply (Hfi _ (mk_entries M)), (mk_node_init_snap _ _ _ M c0 H1 H2).
Qed.

Lemma bump_commit_init_snap c c0 base n : c <= c0 -> wfr (gn_run n) /\ node_init_snap base c0 n ->
  wfr (gn_run (bump_commit c n)) /\ node_init_snap base c0 (bump_commit c n).
Proof.
  intros Hc. unfold node_init_snap, node_init, bump_commit. cbn [gn_run]. destruct (gn_run n) as [s|s]; [|intros H; exact H].
  cbn [image]. intros (Hw & Hni & He & Hp & Hs & Hcm & Hf & Ha).
  split; [exact Hw|]. split; [exact Hni|]. split; [exact He|]. split; [exact Hp|]. split; [exact Hs|].
  split; [simpl; exact Hc|]. split; [exact Hf|exact Ha].
Qed.

(* three servers holding 2, 2 and 3 entries, committed prefix c0 = 2, server 1 knows "commit 2" *)
Definition snap_nodes : list gnode :=
  map (fun n => if gn_id n =? 1 then bump_commit 2 n else n)
      (map (fun p => mk_node (mk_cfg 3) (N.of_nat (fst p)) (snd p)) (combine (seq 1 3) [1; 1; 2])).
Definition snap_g0 : lgstate := mkLG (mkG snap_nodes [] [] []) [].

Example snap_init_ok : linit_snap_ok snap_g0.
Proof.
  unfold snap_g0, snap_nodes. apply (mk_nodes_linit_snap 3 [1; 1; 2] 2).
  - intros x [<-|[<-|[<-|[]]]]; lia.
  - intros nd. destruct (gn_id nd =? 1); split; reflexivity.
  - intros nd base H. destruct (gn_id nd =? 1); [apply bump_commit_init_snap; [lia|exact H]|exact H].
Qed.

(* server 1 is elected, tells server 2 "commit 2" with an empty request whose previous entry is entry 2
   (the commit index follows the last index the request vouches for); server 2 applies entries
   1..2 and takes a snapshot: its snapshot store is no longer empty and its snapshot index is 2 *)
Definition snap_labels : list llabel :=
  [LElect (GTimeout 1); LElect (GVoteReq 1 2 0 []); LElect (GVoteResp 1 2);
   LSend 1 2 3 2; LDeliver 0 0 []; LElect (GInput 2 NSnapshot 0 [])].

Definition took_snapshot (g : lgstate) (i : N) : bool :=
  match find_node (g_nodes (lg_g g)) i with
  | Some n => match gn_run n with
              | Up s => negb (length (d_snaps s) =? 0)%nat && (v_lastSnapIdx s =? 2)
              | Down _ => false
              end
  | None => false
  end.

Example snapshots_do_happen :
  match lrun true [mk_cfg 3] snap_g0 snap_labels with Some g => took_snapshot g 2 | None => false end = true.
Proof. vm_compute. reflexivity. Qed.
