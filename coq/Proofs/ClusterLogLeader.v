(* ClusterLogLeader.v — the leader side at node level: dispatchLogs of one entry (also the no-op of
   a new leader), the ghost history extended by the new entry, and the requests built by
   setupAppendEntries. *)
From Coq Require Import List NArith Bool Lia.
From stdpp Require Import gmap.
From RaftModel Require Import Base Config Compaction Commitment Node NodeCodec Leader Replicate.
From RaftProofs Require Import VoteProofs AppendProofs ClusterLogSpec ClusterLogChain ClusterLogNode ClusterLogVote.
Open Scope N_scope.

(* ---------------------------------------------------------------- dispatch of one entry *)
Definition new_entry (s : nstate) (ty data : N) : entry := mkE (last_index s + 1) (v_term s) ty data.

Lemma dispatch_one P s fs ty data fid :
  let s' := l_node (fst (fst (fst (dispatch P (leader_setup s) fs [(ty, data, fid)])))) in
  dproj s' = dproj s /\ v_term s' = v_term s /\ d_snaps s' = d_snaps s /\ v_lastSnapIdx s' = v_lastSnapIdx s /\
  ((fst (next_fail fs) = true /\ lkeep s' s /\ v_role s' = Follower) \/
   (fst (next_fail fs) = false /\ d_log s' = log_store (d_log s) [new_entry s ty data] /\
    v_lastLogIdx s' = last_index s + 1 /\ v_lastLogTerm s' = v_term s /\ v_role s' = v_role s)).
Proof.
  cbv zeta. unfold dispatch, leader_setup. cbn [l_node l_inflight l_cm number_logs map fst snd app].
  fold (new_entry s ty data).
  assert (K : lkeep (fst (do_stage P s (v_commit s))) s /\ dproj (fst (do_stage P s (v_commit s))) = dproj s /\
              v_term (fst (do_stage P s (v_commit s))) = v_term s /\ v_role (fst (do_stage P s (v_commit s))) = v_role s).
  { unfold do_stage. destruct (p_track P); simpl; repeat split. }
  destruct (do_stage P s (v_commit s)) as [s1 trs]. simpl in K. destruct K as ((K1 & K2 & K3 & K4 & K5) & Kd & Kt & Kr).
  unfold do_store. destruct (next_fail fs) as [f fs']. destruct f; cbn [negb fst snd l_node].
  - split; [exact Kd|]. split; [exact Kt|]. split; [exact K2|]. split; [exact K5|]. left.
    split; [reflexivity|]. split; [repeat split; assumption|reflexivity].
  - split; [exact Kd|]. split; [exact Kt|]. split; [exact K2|]. split; [exact K5|]. right.
    split; [reflexivity|]. split; [simpl; rewrite K1; reflexivity|]. split; [reflexivity|]. split; [reflexivity|exact Kr].
Qed.

Lemma log_store_one m e i : log_store m [e] !! i = if e_idx e =? i then Some e else m !! i.
Proof.
  unfold log_store. simpl. destruct (N.eqb_spec (e_idx e) i) as [->|Hne].
  - apply lookup_insert.
  - apply lookup_insert_ne. exact Hne.
Qed.

(* ---------------------------------------------------------------- the history grows by one entry *)
Lemma chain_ok_cons C e p : chain_ok C ->
  (forall x q, In (x, q) C -> key x <> key e) ->
  e_idx e = fst p + 1 -> snd p <= e_term e -> (fst p = 0 -> p = (0, 0)) ->
  chain_ok ((e, p) :: C).
Proof.
  intros [Hf Hi Hz] Hnew H1 H2 H3. constructor.
  - intros a pa b pb [Ea|Ha] [Eb|Hb] Hk.
    + inversion Ea; inversion Eb; subst. auto.
    + inversion Ea; subst. exfalso. apply (Hnew b pb Hb). symmetry. exact Hk.
    + inversion Eb; subst. exfalso. apply (Hnew a pa Ha). exact Hk.
    + apply (Hf a pa b pb Ha Hb Hk).
  - intros a pa [Ea|Ha]; [inversion Ea; subst; auto|apply (Hi a pa Ha)].
  - intros a pa [Ea|Ha]; [inversion Ea; subst; auto|apply (Hz a pa Ha)].
Qed.

(* the leader's node invariant after it stored the new entry e, appended after its cached last-log *)
Lemma leader_append_nlog C s s' e :
  nlog_up C s -> e_idx e = v_lastLogIdx s + 1 -> e_term e <= d_term s' ->
  d_log s' = log_store (d_log s) [e] -> v_lastLogIdx s' = e_idx e -> v_lastLogTerm s' = e_term e ->
  d_snaps s' = d_snaps s -> v_lastSnapIdx s' = v_lastSnapIdx s -> d_term s <= d_term s' ->
  nlog_up ((e, (v_lastLogIdx s, v_lastLogTerm s)) :: C) s'.
Proof.
  intros (A & B & D & E & F & G) Hi Ht Hl Hci Hct Hsn Hsi Hdt. unfold nlog_up.
  set (C' := (e, (v_lastLogIdx s, v_lastLogTerm s)) :: C).
  assert (Hinc : incl C C') by (intros x Hx; right; exact Hx).
  assert (Hup : anc C' (v_lastLogIdx s, v_lastLogTerm s) (key e)).
  { eapply anc_up; [left; reflexivity|reflexivity|apply anc_refl]. }
  rewrite Hl, Hci, Hct, Hsn, Hsi. split; [exact A|]. split; [|split; [exact D|split; [exact Ht|split; [lia|]]]].
  - intros i x Hx. rewrite log_store_one in Hx. destruct (N.eqb_spec (e_idx e) i) as [Ei|Ni].
    + inversion Hx; subst x. split; [exact Ei|]. split; [eexists; left; reflexivity|exact Ht].
    + destruct (B i x Hx) as (B1 & (p & B2) & B3). split; [exact B1|]. split; [exists p; right; exact B2|lia].
  - intros i x Hx. rewrite log_store_one in Hx. destruct (N.eqb_spec (e_idx e) i) as [Ei|Ni].
    + inversion Hx; subst x. apply anc_refl.
    + eapply anc_trans; [|exact Hup]. eapply anc_mono; [exact Hinc|apply (G i x Hx)].
Qed.

(* ---------------------------------------------------------------- setupAppendEntries *)
(* p is what precedes index `from` in the store: nothing (from = 1), or the entry stored there *)
Definition pred_at (m : gmap N entry) (from : N) (p : N * N) : Prop :=
  (from = 1 /\ p = (0, 0)) \/ (1 < from /\ exists pe, m !! (from - 1) = Some pe /\ p = key pe).

Lemma get_range_mchain C m dt top : chain_ok C -> log_in C m dt -> log_below C m top ->
  forall n from es p, get_range m from n = Some es -> pred_at m from p ->
  mchain C p es /\ forall e, In e es -> e_term e <= dt.
Proof.
  intros HC Hin Hbel. induction n as [|n IH]; intros from es p Hg Hp; simpl in Hg.
  - inversion Hg; subst. split; [exact I|intros e []].
  - destruct (m !! from) as [e|] eqn:Ee; [|discriminate].
    destruct (get_range m (from + 1) n) as [r|] eqn:Er; [|discriminate]. inversion Hg; subst es. clear Hg.
    destruct (Hin from e Ee) as (Hk & (p0 & Hp0) & Ht).
    destruct (co_idx C HC e p0 Hp0) as [Hi0 _].
    assert (p0 = p).
    { destruct Hp as [[-> ->]|(Hf & pe & Hpe & ->)].
      - apply (co_zero C HC e p0 Hp0). lia.
      - destruct (Hin _ pe Hpe) as (Hkp & _). symmetry. apply (anc_pred C (key pe) e p0 HC Hp0).
        + apply (anc_linear C (key pe) (key e) top HC (Hbel _ pe Hpe) (Hbel _ e Ee)). unfold key. simpl. lia.
        + unfold key. simpl. lia. }
    subst p0.
    destruct (IH (from + 1) r (key e) Er) as [I1 I2].
    { right. split; [lia|]. exists e. replace (from + 1 - 1) with from by lia. auto. }
    split; [simpl; auto|]. intros x [<-|Hx]; [exact Ht|apply I2, Hx].
Qed.

Lemma prev_of_pred C s next pi pt : chain_ok C -> nlog_up C s -> 1 <= next ->
  prev_of s next = Some (pi, pt) -> pred_at (d_log s) next (pi, pt).
Proof.
  intros HC (_ & Hin & Hsi & _) Hn. unfold prev_of. destruct (N.eqb_spec next 1) as [->|Hne].
  - intros H; inversion H; subst. left. auto.
  - rewrite Hsi. destruct (N.eqb_spec (next - 1) 0) as [E|_]; [lia|].
    destruct (d_log s !! (next - 1)) as [pe|] eqn:Epe; [|discriminate].
    intros H; inversion H; subst. right. split; [lia|]. exists pe. auto.
Qed.

Theorem setup_send_chain C P s next last pi pt es c : chain_ok C -> nlog_up C s -> 1 <= next ->
  setup_send P s next last = SendAE pi pt es c ->
  mchain C (pi, pt) es /\ forall e, In e es -> e_term e <= d_term s.
Proof.
  intros HC Hn Hnext. unfold setup_send.
  destruct (prev_of s next) as [[pi' pt']|] eqn:Ep.
  2:{ destruct (newest_snap s); discriminate. }
  destruct (get_range (d_log s) next _) as [es'|] eqn:Eg.
  2:{ destruct (newest_snap s); discriminate. }
  intros H; inversion H; subst.
  pose proof Hn as (_ & Hin & _ & _ & _ & Hbel).
  apply (get_range_mchain C (d_log s) (d_term s) _ HC Hin Hbel _ next es (pi, pt) Eg).
  eapply prev_of_pred; eauto.
Qed.
