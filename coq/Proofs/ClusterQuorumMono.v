(* ClusterQuorumMono.v — every step from a state that satisfies the invariant of
   Proofs/ClusterCommitSnapInv.v keeps or raises the commit index of every server that runs before and
   after it, unless the step restarts that server: by label (NRestart) or because the process died
   inside the handler the step ran at it (commit_monotone_step_crash, Proofs/ClusterQuorumMonoSpec.v). *)
From Coq Require Import List NArith Bool Lia.
From stdpp Require Import gmap.
From RaftModel Require Import Base Config Compaction Commitment Node NodeCodec Candidate Leader Replicate Cluster ClusterLog ClusterCommit.
From RaftProofs Require Import ConfigProofs ClusterProofs ClusterLogChain ClusterCommitSpec ClusterCommitGhost ClusterCommitInv
  ClusterCommitSnapSpec ClusterCommitSnapInv ClusterCommitSnapStepA ClusterCommitSnapMain
  ClusterQuorumSpec ClusterQuorumMonoSpec ClusterQuorumMonoNode ClusterQuorumMonoStep.
Open Scope N_scope.

Section Mono.
  Variable cfg : config.
  Variable Ps : list params.
  Variables (g : cgstate) (C : chain) (LL : LLt) (A : At) (V : Vt).
  Hypothesis HI : zinv cfg Ps g C LL A V.

  Let Hnd : NoDup (map gn_id (cnodes g)) := znodes_nodup cfg Ps g C LL A V HI.

  (* leaderLoop, case commitCh: a notified leader's commitment is not below its commit index *)
  Lemma notified_commit_le i n s ld : find_node (cnodes g) i = Some n -> find_lead (cg_lead g) i = Some ld ->
    gn_run n = Up s -> v_role s = Leader -> ld_notified ld = true -> v_commit s <= cm_commit (ld_cm ld).
  Proof.
    intros Hf Hfl Hr Hrole Hnot. destruct (find_node_in _ _ _ Hf) as [Hin Hid].
    destruct (zv_lead cfg Ps g C LL A V HI n s Hin Hr Hrole) as [(tl & ld' & _ & Hfl' & _ & _ & _ & _ & _ & _ & Hcm & Hvc & Hn0) _].
    rewrite Hid, Hfl in Hfl'. inversion Hfl'; subst ld'. specialize (Hn0 Hnot). lia.
  Qed.

  Theorem cstep_mono sn l g' : cstep sn [cfg] g l = Some g' -> commit_monotone_step_crash g l g'.
  Proof.
    intros H. change (step_concl g l (cnodes g')). destruct l as [bl|k|i j|i]; unfold cstep in H.
    - destruct (negb (send_ok g bl)); [discriminate|].
      destruct (lstep sn [cfg] (cg_l g) bl) as [L'|] eqn:HL; [|discriminate]. inversion H; subst g'. unfold cnodes. cbn [cg_l].
      apply (lstep_mono g Hnd [cfg] sn bl L' HL).
    - destruct (nth_error (cg_ans g) k) as [a|]; [|discriminate].
      destruct (nth_error (lg_msgs (cg_l g)) (rs_req a)) as [m|]; [|discriminate].
      destruct (find_node (g_nodes (lg_g (cg_l g))) (am_from m)) as [n0|] eqn:Hf; [|discriminate].
      destruct (find_lead (cg_lead g) (am_from m)) as [ld0|]; [|discriminate].
      destruct (gn_run n0) as [s0|s0] eqn:Hr0; [|discriminate].
      destruct (negb _); [discriminate|].
      destruct (aq_term (am_req m) <? ar_term (rs_resp a)).
      + inversion H; subst g'. unfold cnodes. cbn [cg_l lg_g].
        apply (set_node_run_mono g Hnd _ _ n0 s0 _ Hf Hr0). rewrite set_state_commit. lia.
      + destruct (ar_success (rs_resp a)).
        * destruct (aq_entries (am_req m)); inversion H; subst g'; apply (step_concl_same g Hnd).
        * inversion H; subst g'. apply (step_concl_same g Hnd).
    - destruct (find_node (g_nodes (lg_g (cg_l g))) i) as [n0|]; [|discriminate].
      destruct (find_lead (cg_lead g) i) as [ld|]; [|discriminate].
      destruct (gn_run n0) as [s0|s0]; [|discriminate].
      destruct (assoc (ld_out ld) j); [|discriminate].
      destruct (v_role s0 =? Leader); [|discriminate]. inversion H; subst g'. apply (step_concl_same g Hnd).
    - destruct (find_node (g_nodes (lg_g (cg_l g))) i) as [n0|] eqn:Hf; [|discriminate].
      destruct (find_lead (cg_lead g) i) as [ld|] eqn:Hfl; [|discriminate].
      destruct (gn_run n0) as [s0|s0] eqn:Hr0; [|discriminate].
      destruct (v_role s0 =? Leader) eqn:Hrole; [|discriminate]. destruct (ld_notified ld) eqn:Hnot; [|discriminate]. cbn [andb] in H.
      destruct (leader_commit (mkLS s0 (ld_cm ld) (ld_infl ld))) as [[[ls2 tr] res]|] eqn:Hlc; [|discriminate].
      inversion H; subst g'. unfold cnodes. cbn [cg_l lg_g].
      apply (set_node_run_mono g Hnd _ _ n0 s0 _ Hf Hr0).
      rewrite (leader_commit_commit _ _ _ _ Hlc). cbn [l_cm].
      apply (notified_commit_le i n0 s0 ld Hf Hfl Hr0); [apply N.eqb_eq, Hrole|exact Hnot].
  Qed.
End Mono.
