(* ClusterCommitSnapStepE.v — with snapshots: the up-to-date check of RequestVote against getLastEntry
   (which may be the snapshot boundary), and what a voter accepted before is below its last entry. *)
From Coq Require Import List NArith Bool Lia.
From stdpp Require Import gmap.
From RaftModel Require Import Base Config Compaction Commitment Node NodeCodec Candidate Leader Replicate Cluster ClusterLog ClusterCommit.
From RaftProofs Require Import ConfigProofs CommitmentProofs VoteProofs ClusterProofs
  ClusterLogSpec ClusterLogChain ClusterLogNode ClusterLogVote ClusterLogLeader ClusterLogInv ClusterLogSteps
  ClusterCommitSpec ClusterCommitLog ClusterCommitChain ClusterCommitNode ClusterCommitGhost
  ClusterCommitInv ClusterCommitUpd ClusterCommitStepA ClusterCommitStepE
  ClusterCommitSnapLog ClusterCommitSnapNode ClusterCommitSnapLinv ClusterCommitSnapInv ClusterCommitSnapFinal
  ClusterCommitSnapUpd ClusterCommitSnapStepA.
Open Scope N_scope.

Lemma log_ok_uptodateS s li lt : log_ok s li lt = true -> uptodate (li, lt) (last_entry s).
Proof.
  intros H. unfold log_ok in H. destruct (last_entry s) as [a b]. unfold uptodate. simpl.
  apply andb_prop in H. destruct H as [H1 H2]. apply negb_true_iff in H1. apply N.ltb_ge in H1.
  apply negb_true_iff in H2. destruct (N.eqb_spec b lt) as [Et|Hne]; [|lia].
  simpl in H2. apply N.ltb_ge in H2. lia.
Qed.

Lemma zkeep_last_entry s s' : zkeep s' s -> last_entry s' = last_entry s.
Proof.
  intros (_ & (_ & _ & K3 & K4 & K5) & K6 & _). unfold last_entry. rewrite K3, K4, K5, K6. reflexivity.
Qed.

Section Cast.
  Variable cfg : config.
  Variable Ps : list params.

  (* everything the image of a running server covers is below its last entry *)
  Lemma covers_last g C LL A V n s k0 : zinv cfg Ps g C LL A V -> In n (cnodes g) -> gn_run n = Up s ->
    covers C s k0 -> anc C k0 (last_entry s).
  Proof.
    intros HI Hin Hr Hc. destruct (znode_log_in cfg Ps g C LL A V HI n s Hin Hr) as [Hz _]. rewrite last_entry_lk.
    destruct Hc as [(x & Hx & Ex)|(sn & Hsn & Ha)].
    - rewrite <- Ex. apply (zshape_log_lk C _ _ _ _ _ Hz _ x Hx).
    - eapply anc_trans; [exact Ha|apply (zshape_sn_lk C _ _ _ _ _ Hz sn Hsn)].
  Qed.

  (* what a voter accepted before is below its last entry, unless a leader in between did not hold it *)
  Lemma zcast_va g C LL A V n s T' k k0 : zinv cfg Ps g C LL A V -> In n (cnodes g) -> gn_run n = Up s ->
    d_term s <= T' -> ll_has LL T' = false ->
    In (gn_id n, k) A -> snd k < T' -> anc C k0 k -> 1 <= fst k0 ->
    anc C k0 (last_entry s) \/ exists T3 c3 tl3, In (T3, c3, tl3) LL /\ snd k < T3 /\ T3 < T' /\ ~ anc C k0 tl3.
  Proof.
    intros HI Hin Hr Hle Hno Ha Hlt Hanc Hpos.
    destruct (zv_av cfg Ps g C LL A V HI (gn_id n) k n k0 Ha Hin eq_refl Hanc Hpos) as [Hc|(T2 & c2 & tl2 & H1 & H2 & H3 & H4)].
    - left. rewrite Hr in Hc. simpl in Hc. apply (covers_last g C LL A V n s k0 HI Hin Hr Hc).
    - right. exists T2, c2, tl2. split; [exact H1|]. split; [exact H2|]. split; [|exact H4].
      unfold dtn in H3. rewrite Hr in H3. simpl in H3.
      destruct (N.eq_dec T2 T') as [->|]; [exfalso; apply (ll_has_false LL T' c2 tl2 Hno H1)|lia].
  Qed.
End Cast.
