(* FileSnapJ.v — a Close that has returned has its Rename before the last fsync, hence before the crash cut. *)
From Coq Require Import List Arith NArith Bool Lia.
From RaftModel Require Import FileSnap FileSnapSpec.
From RaftProofs Require Import FileSnapA FileSnapB FileSnapC FileSnapD FileSnapE FileSnapF FileSnapG FileSnapH FileSnapI.
Import ListNotations.
Open Scope N_scope.

Lemma close_seg_shape : forall sfirst retain past st h sid, Inv retain past st h ->
  In sid (created past) -> ended past sid = None ->
  exists a b, snd (exec_op sfirst st (SClose sid)) = a ++ FSyncParent :: b /\ In (FRename sid) a.
Proof.
  intros sfirst retain past st h sid HI Hin He.
  destruct (i_sinks _ _ _ _ HI sid Hin) as [k [Hf [_ Hok]]].
  assert (Hks := find_sink_sid _ _ _ Hf). rewrite Hks in Hok.
  destruct (k_done k) eqn:Hd; [contradiction|].
  rewrite (exec_close sfirst st sid k Hf Hd). cbn [snd].
  exists (close_pre k ++ [FRename sid]), (reap_ops sfirst (st_retain st) (fs_run (st_fs st) (close_ops1 k))).
  split.
  - unfold close_ops1. rewrite Hks, <- !app_assoc. reflexivity.
  - apply in_or_app. right. left. reflexivity.
Qed.

Lemma close_pos : forall sfirst retain sid rest past st h seen pos e, Inv retain past st h ->
  (forall x, In x seen <-> In x (created past)) -> wf_from seen rest ->
  ended past sid = None -> ended (past ++ rest) sid = Some true ->
  close_end rest (snd (run_script sfirst st rest)) sid pos = Some e ->
  exists a b, concat (snd (run_script sfirst st rest)) = a ++ FSyncParent :: b /\
              In (FRename sid) a /\ (pos + S (length a) <= e)%nat.
Proof.
  intros sfirst retain sid. induction rest as [|o rest IH]; intros past st h seen pos e HI Heq Hwf He Hee Hce.
  - simpl in Hce. discriminate.
  - destruct (wf_head _ _ _ _ Heq Hwf) as [Hop [seen' [Heq' Hwf']]].
    destruct (step_both sfirst retain past st h o HI Hop) as [HI' _].
    rewrite run_script_cons in *. set (seg := snd (exec_op sfirst st o)) in *.
    set (st1 := fst (exec_op sfirst st o)) in *. simpl concat.
    assert (Hcont : ended (past ++ [o]) sid = None ->
                    close_end rest (snd (run_script sfirst st1 rest)) sid (pos + length seg) = Some e ->
                    exists a b, seg ++ concat (snd (run_script sfirst st1 rest)) = a ++ FSyncParent :: b /\
                                In (FRename sid) a /\ (pos + S (length a) <= e)%nat).
    { intros He' Hce'.
      destruct (IH (past ++ [o]) st1 (h ++ seg) seen' (pos + length seg)%nat e HI' Heq' Hwf' He') as [a [b [E [Ha Hl]]]].
      - rewrite <- app_assoc. exact Hee.
      - exact Hce'.
      - exists (seg ++ a), b. rewrite E, app_assoc. split; [reflexivity|].
        split; [apply in_or_app; right; exact Ha|]. rewrite app_length. lia. }
    destruct o as [c t i|c b0|c|c]; simpl in Hce.
    + apply Hcont; [|exact Hce]. rewrite ended_snoc, He. reflexivity.
    + apply Hcont; [|exact Hce]. rewrite ended_snoc, He. reflexivity.
    + destruct (N.eqb_spec c sid) as [Ec|Ec].
      * subst c. inversion Hce; subst e. simpl in Hop.
        destruct (close_seg_shape sfirst retain past st h sid HI Hop He) as [a [b [E Ha]]].
        exists a, (b ++ concat (snd (run_script sfirst st1 rest))). unfold seg.
        rewrite E, <- app_assoc. split; [reflexivity|]. split; [exact Ha|].
        rewrite app_length. simpl. lia.
      * apply Hcont; [|exact Hce]. rewrite ended_snoc, He. simpl.
        destruct (N.eqb_spec c sid); [contradiction|reflexivity].
    + apply Hcont; [|exact Hce]. rewrite ended_snoc, He. simpl.
      destruct (N.eqb_spec c sid) as [Ec|Ec]; [|reflexivity].
      exfalso. subst c. rewrite (ended_app_none _ _ _ He) in Hee. simpl in Hee.
      rewrite N.eqb_refl in Hee. discriminate.
Qed.

Lemma crash_ok_facts : forall ops k j, crash_ok ops k j = true ->
  (k <= length ops)%nat /\ (j <= k)%nat /\ (last_sync (firstn k ops) <= j)%nat.
Proof.
  intros ops k j H. unfold crash_ok in H. apply andb_prop in H. destruct H as [H H3].
  apply andb_prop in H. destruct H as [H1 H2].
  apply Nat.leb_le in H1, H2, H3. auto.
Qed.

Theorem renamed_before_cut : forall sfirst retain script sid k j, well_formed script ->
  close_returned sfirst retain script sid k ->
  crash_ok (program sfirst retain script) k j = true ->
  In (FRename sid) (firstn j (program sfirst retain script)).
Proof.
  intros sfirst retain script sid k j Hwf [Hee [e [Hce Hek]]] Hck.
  destruct (crash_ok_facts _ _ _ Hck) as [Hk [Hjk Hls]].
  destruct (close_pos sfirst retain sid script [] (mkStore retain [] []) [] [] 0%nat e) as [a [b [E [Ha Hl]]]]; auto.
  - apply Inv_init.
  - intros x; simpl; tauto.
  - unfold program in *. rewrite E in *.
    assert (Hfk : firstn k (a ++ FSyncParent :: b) = a ++ FSyncParent :: firstn (k - S (length a)) b).
    { rewrite firstn_app, (firstn_all2 a) by lia.
      replace (k - length a)%nat with (S (k - S (length a))) by lia. reflexivity. }
    rewrite Hfk in Hls.
    assert (Hge := last_sync_ge a FSyncParent (firstn (k - S (length a)) b) eq_refl).
    rewrite firstn_app, (firstn_all2 a) by lia. apply in_or_app. left. exact Ha.
Qed.
