(* C12, leader side: catch-up makes progress - a rejected AppendEntries strictly lowers nextIndex
   (down to 1, where the previous entry is (0,0) and cannot be refused), an accepted one strictly
   raises it, a successful InstallSnapshot moves it past the snapshot. *)
From Coq Require Import List NArith Bool Lia.
From stdpp Require Import gmap.
From RaftModel Require Import Base Config Compaction Commitment Node NodeCodec Leader Replicate.
Open Scope N_scope.

(* a rejection that is not a stale-term answer: nextIndex strictly decreases while above 1, and
   never goes below 1 *)
Theorem reject_lowers_next term rs snd t lastLog noRetry last pi pt es c :
  snd = SendAE pi pt es c -> t <= term -> 1 < r_next rs ->
  let rs' := fst (round_step term rs snd (FAppend t lastLog false noRetry) last) in
  1 <= r_next rs' /\ r_next rs' < r_next rs /\ r_next rs' <= lastLog + 1.
Proof.
  intros -> Ht Hn. unfold round_step. destruct (N.ltb_spec term t); [lia|]. cbn [fst r_next]. lia.
Qed.

Theorem reject_at_one_stays term rs snd t lastLog noRetry last pi pt es c :
  snd = SendAE pi pt es c -> t <= term -> r_next rs = 1 ->
  r_next (fst (round_step term rs snd (FAppend t lastLog false noRetry) last)) = 1.
Proof.
  intros -> Ht Hn. unfold round_step. destruct (N.ltb_spec term t); [lia|]. cbn [fst r_next]. lia.
Qed.

(* entries read from a log whose keys are the entries' indices *)
Definition keys_ok (m : gmap N entry) : Prop := forall i e, m !! i = Some e -> e_idx e = i.

Lemma get_range_last m : keys_ok m -> forall n from es, get_range m from n = Some es -> es <> [] ->
  last_idx_of es = from + N.of_nat (length es) - 1 /\ length es = n.
Proof.
  intros Hk. induction n as [|n IH]; intros from es H Hne; simpl in H.
  - inversion H; subst. contradiction.
  - destruct (m !! from) as [e|] eqn:E; [|discriminate].
    destruct (get_range m (from + 1) n) as [r|] eqn:Er; [|discriminate]. inversion H; subst. clear H.
    destruct r as [|e1 r1].
    + unfold last_idx_of. simpl. rewrite (Hk _ _ E). destruct n; simpl in Er; [split; [lia|reflexivity]|].
      destruct (m !! (from + 1)); [|discriminate]. destruct (get_range m (from + 1 + 1) n); discriminate.
    + destruct (IH (from + 1) (e1 :: r1) Er ltac:(discriminate)) as [A B]. split.
      * unfold last_idx_of in *. change (last (e :: e1 :: r1) (mkE 0 0 0 0)) with (last (e1 :: r1) (mkE 0 0 0 0)).
        rewrite A. simpl length. lia.
      * simpl length in *. lia.
Qed.

(* an accepted AppendEntries that carried entries moves nextIndex strictly up, to just past what
   was sent, and reports exactly that index to the commitment *)
Theorem success_raises_next P s rs last t lastLog noRetry pi pt es c :
  keys_ok (d_log s) -> setup_send P s (r_next rs) last = SendAE pi pt es c -> es <> [] -> t <= v_term s ->
  let rs' := fst (round_step (v_term s) rs (SendAE pi pt es c) (FAppend t lastLog true noRetry) last) in
  r_next rs < r_next rs' /\ r_next rs' = r_next rs + N.of_nat (length es) /\ r_match rs' = N.max (r_match rs) (r_next rs' - 1) /\ r_failures rs' = 0.
Proof.
  intros Hk Hs Hne Ht. unfold setup_send in Hs.
  destruct (prev_of s (r_next rs)) as [[pi' pt']|]; [|destruct (newest_snap s); discriminate].
  destruct (get_range (d_log s) (r_next rs) _) as [es'|] eqn:Eg; [|destruct (newest_snap s); discriminate].
  inversion Hs; subst. destruct (get_range_last _ Hk _ _ _ Eg Hne) as [A B].
  unfold round_step. destruct (N.ltb_spec (v_term s) t); [lia|].
  destruct es as [|e0 r0]; [contradiction|]. cbn [fst r_next r_match r_failures].
  rewrite A. assert (0 < N.of_nat (length (e0 :: r0))) by (simpl; lia). lia.
Qed.

(* a successful InstallSnapshot moves nextIndex past the snapshot *)
Theorem snapshot_moves_next term rs idx st t last :
  t <= term ->
  r_next (fst (round_step term rs (SendSnap idx st) (FSnap t true) last)) = idx + 1.
Proof.
  intros Ht. unfold round_step. destruct (N.ltb_spec term t); [lia|]. reflexivity.
Qed.

(* what is sent: the previous entry is the leader's own entry (or snapshot boundary) just below
   nextIndex, the entries are the leader's log from nextIndex, at most MaxAppendEntries, not beyond last *)
Theorem send_shape P s next last pi pt es c :
  keys_ok (d_log s) -> setup_send P s next last = SendAE pi pt es c -> es <> [] ->
  (N.of_nat (length es) <= p_maxappend P \/ p_maxappend P = 0) /\ last_idx_of es <= last.
Proof.
  intros Hk Hs Hne. unfold setup_send in Hs.
  destruct (prev_of s next) as [[pi' pt']|]; [|destruct (newest_snap s); discriminate].
  destruct (get_range (d_log s) next _) as [es'|] eqn:Eg; [|destruct (newest_snap s); discriminate].
  inversion Hs; subst. destruct (get_range_last _ Hk _ _ _ Eg Hne) as [A B].
  assert (Hpos : (0 < length es)%nat) by (destruct es; [contradiction|simpl; lia]).
  rewrite A, B, N2Nat.id. rewrite B in Hpos.
  set (x := N.min (next + p_maxappend P - 1) last + 1 - next) in *.
  assert (0 < x) by (destruct x; [simpl in Hpos; lia|lia]).
  split; [destruct (N.eq_dec (p_maxappend P) 0); [right; assumption|left; unfold x; lia]|unfold x; lia].
Qed.
