(* Leader lease (C13): isolated leaders step down, healthy ones stay. *)
From Coq Require Import List NArith Bool Lia.
From RaftModel Require Import Base Config Lease.
Open Scope N_scope.

(* number of voters counted as contacted: self, plus every other voter heard from within lease *)
Definition fresh (contacts : list (N * N)) (lease now : N) (self : N) (sv : server) : bool :=
  is_voter sv && ((s_id sv =? self) || (now - lookup_contact contacts (s_id sv) <=? lease)).

Lemma lease_scan_count cfg self contacts lease now : forall acc,
  fst (lease_scan cfg self contacts lease now acc) =
  fst acc + N.of_nat (length (filter (fresh contacts lease now self) cfg)).
Proof.
  induction cfg as [|sv r IH]; intros [c m]; simpl; [lia|].
  unfold fresh at 1. destruct (is_voter sv); simpl.
  - destruct (s_id sv =? self); simpl.
    + rewrite IH. simpl. lia.
    + destruct (now - lookup_contact contacts (s_id sv) <=? lease); simpl; rewrite IH; simpl; lia.
  - rewrite IH. reflexivity.
Qed.

Lemma lease_scan_maxdiff cfg self contacts lease now : forall acc,
  snd acc <= lease -> snd (lease_scan cfg self contacts lease now acc) <= lease.
Proof.
  induction cfg as [|sv r IH]; intros [c m] H; simpl in *; [exact H|].
  destruct (is_voter sv); [|apply IH; exact H].
  destruct (s_id sv =? self); [apply IH; exact H|].
  destruct (N.leb_spec (now - lookup_contact contacts (s_id sv)) lease); apply IH; simpl; lia.
Qed.

(* checkLeaderLease steps down exactly when fewer than quorumSize voters are fresh *)
Theorem check_lease_spec cfg self contacts lease now :
  fst (check_lease cfg self contacts lease now) = true <->
  N.of_nat (length (filter (fresh contacts lease now self) cfg)) < quorum_size cfg.
Proof.
  unfold check_lease.
  pose proof (lease_scan_count cfg self contacts lease now (0, 0)) as H.
  destruct (lease_scan cfg self contacts lease now (0, 0)) as [c m]. simpl in *.
  rewrite H. rewrite N.ltb_lt. simpl. reflexivity.
Qed.

Theorem check_lease_maxdiff cfg self contacts lease now :
  snd (check_lease cfg self contacts lease now) <= lease.
Proof.
  unfold check_lease.
  pose proof (lease_scan_maxdiff cfg self contacts lease now (0, 0)) as H.
  destruct (lease_scan cfg self contacts lease now (0, 0)) as [c m]. simpl in *. apply H. lia.
Qed.

(* non-voters are never counted, wherever they sit and whatever their contact time *)
Theorem fresh_ignores_nonvoters contacts lease now self sv :
  is_voter sv = false -> fresh contacts lease now self sv = false.
Proof. intros H. unfold fresh. rewrite H. reflexivity. Qed.

(* the check interval is between minCheckInterval and the lease *)
Theorem next_interval_bounds lease maxDiff :
  min_check_interval <= lease ->
  min_check_interval <= next_interval lease maxDiff /\ next_interval lease maxDiff <= lease.
Proof. unfold next_interval. lia. Qed.

(* ---------------------------------------------------------------- isolated leaders *)
(* "after t0 the leader hears from too few voters": the voters whose last contact is after t0,
   together with the leader, are fewer than a quorum *)
Definition heard_after (contacts : list (N * N)) (t0 self : N) (sv : server) : bool :=
  is_voter sv && ((s_id sv =? self) || (t0 <? lookup_contact contacts (s_id sv))).

Definition lost_majority (cfg : config) (self : N) (contacts : list (N * N)) (t0 : N) : Prop :=
  N.of_nat (length (filter (heard_after contacts t0 self) cfg)) < quorum_size cfg.

Lemma filter_length_le {A} (f g : A -> bool) l :
  (forall x, f x = true -> g x = true) -> (length (filter f l) <= length (filter g l))%nat.
Proof.
  intros H. induction l as [|x r IH]; simpl; [lia|].
  destruct (f x) eqn:F.
  - rewrite (H x F). simpl. lia.
  - destruct (g x); simpl; lia.
Qed.

(* Any check later than one lease after the majority was lost steps down, whatever the contact
   times of the remaining servers, whatever non-voters are around *)
Theorem isolated_check_steps_down cfg self contacts lease now t0 :
  lost_majority cfg self contacts t0 -> t0 + lease < now ->
  fst (check_lease cfg self contacts lease now) = true.
Proof.
  intros Hlost Hnow. apply check_lease_spec. unfold lost_majority in Hlost.
  assert (H : (length (filter (fresh contacts lease now self) cfg)
               <= length (filter (heard_after contacts t0 self) cfg))%nat).
  { apply filter_length_le. intros sv. unfold fresh, heard_after.
    destruct (is_voter sv); simpl; [|auto].
    destruct (s_id sv =? self); simpl; [auto|].
    intros Hf. apply N.leb_le in Hf. apply N.ltb_lt. lia. }
  lia.
Qed.

(* A sequence of checks as the leader loop produces them: each next check comes at most
   next_interval + delta_max after the previous one (delta_max: scheduling latency). *)
Record lcheck := mkLC { lc_time : N; lc_contacts : list (N * N) }.

Fixpoint spaced (lease dmax : N) (cfg : config) (self : N) (l : list lcheck) : Prop :=
  match l with
  | a :: ((b :: _) as r) =>
    lc_time a <= lc_time b /\
    lc_time b <= lc_time a + next_interval lease (snd (check_lease cfg self (lc_contacts a) lease (lc_time a))) + dmax /\
    spaced lease dmax cfg self r
  | _ => True
  end.

(* If from t0 on the majority stays lost, every check that does NOT step down happens no later
   than t0 + lease; hence the first check after that instant - which the timer schedules at most
   lease + delta_max later - steps down: within t0 + 2*lease + delta_max. *)
Theorem isolated_steps_down_within lease dmax cfg self t0 : forall l a,
  min_check_interval <= lease ->
  spaced lease dmax cfg self (a :: l) ->
  lc_time a <= t0 + lease ->
  (forall c, In c (a :: l) -> lost_majority cfg self (lc_contacts c) t0) ->
  (forall c, In c (a :: l) -> fst (check_lease cfg self (lc_contacts c) lease (lc_time c)) = false) ->
  forall c, In c (a :: l) -> lc_time c <= t0 + lease.
Proof.
  intros l a Hmin Hsp Ha Hlost Hno c Hc.
  destruct (N.le_gt_cases (lc_time c) (t0 + lease)) as [H|H]; [exact H|].
  pose proof (isolated_check_steps_down cfg self (lc_contacts c) lease (lc_time c) t0 (Hlost c Hc) H) as Hsd.
  rewrite (Hno c Hc) in Hsd. discriminate.
Qed.

Theorem next_check_bound lease dmax cfg self a b r :
  min_check_interval <= lease ->
  spaced lease dmax cfg self (a :: b :: r) -> lc_time b <= lc_time a + lease + dmax.
Proof.
  intros Hmin (H1 & H2 & _).
  pose proof (next_interval_bounds lease (snd (check_lease cfg self (lc_contacts a) lease (lc_time a))) Hmin). lia.
Qed.

(* ---------------------------------------------------------------- healthy leaders *)
Theorem healthy_never_steps_down cfg self contacts lease now :
  quorum_size cfg <= N.of_nat (length (filter (fresh contacts lease now self) cfg)) ->
  fst (check_lease cfg self contacts lease now) = false.
Proof.
  intros H. destruct (fst (check_lease cfg self contacts lease now)) eqn:E; [|reflexivity].
  apply check_lease_spec in E. lia.
Qed.

(* ---------------------------------------------------------------- configuration bounds *)
Theorem validate_timing_bounds h e c l :
  validate_timing h e c l = true -> l <= h /\ h <= e /\ 5 * ms <= l /\ min_check_interval <= 2 * l.
Proof.
  unfold validate_timing. rewrite !andb_true_iff, !N.leb_le. unfold min_check_interval, ms. lia.
Qed.
