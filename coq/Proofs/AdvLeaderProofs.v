(* C18 (advertised leader): a follower names as leader only the sender of an AppendEntries /
   InstallSnapshot of its CURRENT term, over any history of RPCs, failures, crashes and restarts. *)
From Coq Require Import List NArith Bool Lia.
From stdpp Require Import gmap.
From RaftModel Require Import Base Config Compaction Node NodeCodec.
Open Scope N_scope.

(* the part of the state the advertised-leader argument looks at *)
Definition same (s' s : nstate) : Prop :=
  v_leader s' = v_leader s /\ v_role s' = v_role s /\ v_term s' = v_term s.

Lemma same_refl s : same s s. Proof. repeat split. Qed.
Lemma same_trans a b c : same a b -> same b c -> same a c.
Proof. intros (A1 & A2 & A3) (B1 & B2 & B3). repeat split; congruence. Qed.

Ltac fr := first [apply same_refl | (unfold same; cbn; repeat split; reflexivity)].

Lemma do_stage_same P s c : same (fst (do_stage P s c)) s.
Proof. unfold do_stage. destruct (p_track P); simpl; fr. Qed.
Lemma do_store_same P s fs es : same (fst (fst (do_store P s fs es))) s.
Proof. unfold do_store. destruct (next_fail fs) as [f fs']. destruct f; simpl; fr. Qed.
Lemma do_delete_same s fs lo hi : same (fst (fst (do_delete s fs lo hi))) s.
Proof. unfold do_delete. destruct (next_fail fs) as [f fs']. destruct f; simpl; fr. Qed.
Lemma process_config_entry_same P s e : same (process_config_entry P s e) s.
Proof. unfold process_config_entry. destruct (e_ty e =? LogConfiguration); simpl; fr. Qed.
Lemma fold_config_entries_same P es : forall s, same (fold_left (process_config_entry P) es s) s.
Proof.
  induction es as [|e r IH]; intros s; simpl; [fr|].
  eapply same_trans; [apply IH|apply process_config_entry_same].
Qed.
Lemma process_logs_same s idx s' tr : process_logs s idx = Some (s', tr) -> same s' s.
Proof.
  unfold process_logs. destruct (idx <=? v_applied s).
  - intros H; inversion H; subst. fr.
  - destruct (collect_logs _ _ _) as [es|]; [|discriminate].
    intros H; inversion H; subst. repeat split.
Qed.

Definition body_same {R} (s2 : nstate) (o : outcome R) : Prop :=
  match o with Done s' _ _ _ => same s' s2 | Panic _ _ => True end.
Definition cont_same (s2 : nstate) (c : ae_cont) : Prop :=
  match c with
  | inl (Some (s8, _, _)) => same s8 s2
  | inl None => True
  | inr (_, s', _, _) => same s' s2
  end.

Lemma store_new_same P fr lc s2 s3 tr3 fs3 news : same s3 s2 -> cont_same s2 (store_new P fr lc s3 tr3 fs3 news).
Proof.
  intros H. unfold store_new.
  pose proof (do_stage_same P s3 (N.min lc (e_idx (last_of news)))) as S1.
  destruct (do_stage P s3 _) as [s4 trs]. simpl in S1.
  pose proof (do_store_same P s4 fs3 news) as T1.
  destruct (do_store P s4 fs3 news) as [[s5 ok] fs5]. simpl in T1.
  destruct ok; simpl.
  - eapply same_trans; [|exact H]. eapply same_trans; [|exact S1]. eapply same_trans; [|exact T1].
    eapply same_trans; [|apply fold_config_entries_same]. repeat split.
  - eapply same_trans; [exact T1|]. eapply same_trans; [exact S1|exact H].
Qed.

Lemma ae_entries_same P fr s2 tr1 fs1 a : cont_same s2 (ae_entries P fr s2 tr1 fs1 a).
Proof.
  unfold ae_entries. destruct (aq_entries a) as [|e0 es0]; [simpl; fr|].
  destruct (scan_entries (d_log s2) (v_lastLogIdx s2) (e0 :: es0)) as [news|ci news| |]; try (simpl; fr).
  - apply store_new_same, same_refl.
  - pose proof (do_delete_same s2 fs1 ci (v_lastLogIdx s2)) as D1.
    destruct (do_delete s2 fs1 ci (v_lastLogIdx s2)) as [[s3 ok] fs3]. simpl in D1.
    destruct ok; simpl.
    + destruct (conflict_pred a news) as [pi pt]. apply store_new_same. destruct (ci <=? v_latestIdx s3); exact D1.
    + exact D1.
Qed.

Lemma ae_commit_same okr s2 s8 tr8 fs8 a : same s8 s2 -> body_same s2 (ae_commit okr s8 tr8 fs8 a).
Proof.
  intros F. unfold ae_commit.
  destruct ((0 <? aq_commit a) && (v_commit s8 <? aq_commit a)); [|simpl; exact F].
  cbv zeta. destruct (v_commit s8 <? _); [|simpl; exact F].
  match goal with |- context [process_logs ?S ?I] => destruct (process_logs S I) as [[s11 tra]|] eqn:EP end.
  - apply process_logs_same in EP. simpl. eapply same_trans; [exact EP|].
    eapply same_trans; [|exact F]. destruct (v_latestIdx _ <=? _); repeat split.
  - simpl. exact I.
Qed.

Lemma ae_body_same P s0 s2 rt tr1 fs1 a : body_same s2 (ae_body P s0 s2 rt tr1 fs1 a).
Proof.
  unfold ae_body. destruct (prev_check s2 a) as [[|]|]; try (simpl; fr).
  pose proof (ae_entries_same P (mkAResp rt (last_index s0) false false false) s2 tr1 fs1 a) as Hae.
  destruct (ae_entries P _ s2 tr1 fs1 a) as [[[[s8 tr8] fs8]|]|[[[resp s'] tr'] fs']]; simpl in Hae.
  - apply ae_commit_same; assumption.
  - simpl. exact I.
  - simpl. exact Hae.
Qed.

Lemma run_compaction_same s fs range : let '(s', _, _) := run_compaction s fs range in same s' s.
Proof.
  unfold run_compaction. destruct range as [[lo hi]|]; [|fr].
  pose proof (do_delete_same s fs lo hi) as D1.
  destruct (do_delete s fs lo hi) as [[s' ok] fs']. exact D1.
Qed.

Lemma is_body_same P s2 rt tr1 fs1 q : body_same s2 (is_body P s2 rt tr1 fs1 q).
Proof.
  unfold is_body. destruct (next_fail fs1) as [fc fs2]. destruct fc; [simpl; fr|].
  destruct (iq_short q); [simpl; fr|].
  destruct (next_fail fs2) as [fcl fs3]. destruct fcl; [simpl; fr|].
  destruct (p_monotonic P).
  - match goal with |- context [remove_old ?A ?B] => destruct (remove_old A B) as [[lo hi]|] end.
    + match goal with |- context [do_delete ?S ?F lo hi] =>
        pose proof (do_delete_same S F lo hi) as D1; destruct (do_delete S F lo hi) as [[s7 ok] fs4] end.
      simpl in D1. simpl. destruct ok; simpl; (eapply same_trans; [exact D1|repeat split]).
    + simpl. repeat split.
  - match goal with |- context [if ?B then _ else (?S6, [], fs3)] =>
      assert (Ht : let '(s6', _, _) := (if B then
                      let '(s', ok, fs') := do_delete S6 fs3 (iq_lastIdx q) (v_lastLogIdx S6) in
                      (if ok then set_lastlog s' 0 0 else s', [EDelete (iq_lastIdx q) (v_lastLogIdx S6) ok], fs')
                    else (S6, [], fs3)) in same s6' s2);
      [ destruct B; [|repeat split];
        pose proof (do_delete_same S6 fs3 (iq_lastIdx q) (v_lastLogIdx S6)) as D1;
        destruct (do_delete S6 fs3 (iq_lastIdx q) (v_lastLogIdx S6)) as [[s' ok] fs']; simpl in D1;
        destruct ok; simpl; (eapply same_trans; [|exact D1 || fr]); try (repeat split); try exact D1
      | destruct (if B then _ else (S6, [], fs3)) as [[s6' trt] fs3'] ]
    end.
    match goal with |- context [run_compaction ?S ?F ?R] =>
      pose proof (run_compaction_same S F R) as Hc; destruct (run_compaction S F R) as [[s7 trc] fs4] end.
    simpl. eapply same_trans; [exact Hc|exact Ht].
Qed.

(* ---------------------------------------------------------------- handlers *)
Lemma do_set_term_same s fs t s' fs' : do_set_term s fs t = Some (s', fs') ->
  v_leader s' = v_leader s /\ v_role s' = v_role s /\ v_term s' = t.
Proof.
  unfold do_set_term. destruct (next_fail fs) as [f fr]. destruct f; [discriminate|].
  intros H; inversion H; subst. repeat split.
Qed.

Lemma persist_vote_same s fs t c : let '(s', _, _, _) := persist_vote s fs t c in same s' s.
Proof.
  unfold persist_vote. destruct (next_fail fs) as [f1 fs1]. destruct f1; [fr|].
  destruct (next_fail fs1) as [f2 fs2]. destruct f2; fr.
Qed.

(* what a handler may do to (advertised leader, role, term) *)
Definition post (claims : list (N * N)) (s s' : nstate) : Prop :=
  same s' s \/ v_leader s' = 0 \/ In (v_leader s', v_term s') claims \/ v_role s' <> Follower.

Lemma request_vote_post s fs q s' r tr fs' : request_vote s fs q = Done s' r tr fs' -> post [] s s'.
Proof.
  unfold request_vote, post.
  destruct (negb (vq_id q =? 0) && nonempty (v_latest s) && negb (in_config (v_latest s) (vq_id q))).
  { intros H; inversion H; subst. left. fr. }
  destruct (negb (v_leader s =? 0) && negb (v_leader s =? vq_addr q) && negb (vq_transfer q)).
  { intros H; inversion H; subst. left. fr. }
  destruct (vq_term q <? v_term s). { intros H; inversion H; subst. left. fr. }
  destruct (v_term s <? vq_term q) eqn:Eb.
  - destruct (do_set_term (set_state s Follower) fs (vq_term q)) as [[s1 fs1]|] eqn:ET; [|discriminate].
    apply do_set_term_same in ET. destruct ET as (L1 & R1 & T1). simpl in L1.
    assert (G : forall s2, same s2 s1 -> same s2 s \/ v_leader s2 = 0 \/ False \/ v_role s2 <> Follower).
    { intros s2 (A & _ & _). right. left. congruence. }
    destruct (negb (vq_id q =? 0) && nonempty (v_latest s1) && negb (has_vote (v_latest s1) (vq_id q))).
    { intros H; inversion H; subst. apply G. fr. }
    destruct (if d_vterm s1 =? vq_term q then d_vcand s1 else None).
    { intros H; inversion H; subst. apply G. fr. }
    destruct (negb (log_ok s1 (vq_lastIdx q) (vq_lastTerm q))).
    { intros H; inversion H; subst. apply G. fr. }
    pose proof (persist_vote_same s1 fs1 (vq_term q) (vq_addr q)) as Hp.
    destruct (persist_vote s1 fs1 (vq_term q) (vq_addr q)) as [[[s2 ok] tr2] fs2].
    intros H; inversion H; subst. apply G. exact Hp.
  - destruct (negb (vq_id q =? 0) && nonempty (v_latest s) && negb (has_vote (v_latest s) (vq_id q))).
    { intros H; inversion H; subst. left. fr. }
    destruct (if d_vterm s =? vq_term q then d_vcand s else None).
    { intros H; inversion H; subst. left. fr. }
    destruct (negb (log_ok s (vq_lastIdx q) (vq_lastTerm q))).
    { intros H; inversion H; subst. left. fr. }
    pose proof (persist_vote_same s fs (vq_term q) (vq_addr q)) as Hp.
    destruct (persist_vote s fs (vq_term q) (vq_addr q)) as [[[s2 ok] tr2] fs2].
    intros H; inversion H; subst. left. exact Hp.
Qed.

Lemma append_entries_post P s fs a s' r tr fs' : append_entries P s fs a = Done s' r tr fs' ->
  post [(aq_addr a, aq_term a)] s s'.
Proof.
  unfold append_entries, post. destruct (aq_term a <? v_term s) eqn:Elt.
  { intros H; inversion H; subst. left. fr. }
  apply N.ltb_ge in Elt.
  set (bump := (v_term s <? aq_term a) || (negb (v_role s =? Follower) && negb (v_transfer s))).
  destruct bump eqn:Eb.
  - destruct (do_set_term (set_state s Follower) fs (aq_term a)) as [[s1 fs1]|] eqn:ET; [|discriminate].
    apply do_set_term_same in ET. destruct ET as (L1 & R1 & T1).
    intros H. pose proof (ae_body_same P s (set_leader s1 (aq_addr a) (aq_id a)) (aq_term a) [ESetTerm (aq_term a) true] fs1 a) as Hb.
    rewrite H in Hb. simpl in Hb. destruct Hb as (A & B & C). simpl in A, C.
    right. right. left. left. rewrite A, C, T1. reflexivity.
  - intros H. pose proof (ae_body_same P s (set_leader s (aq_addr a) (aq_id a)) (v_term s) [] fs a) as Hb.
    rewrite H in Hb. simpl in Hb. destruct Hb as (A & B & C). simpl in A, C.
    unfold bump in Eb. apply orb_false_elim in Eb. destruct Eb as [Eb _]. apply N.ltb_ge in Eb.
    right. right. left. left. rewrite A, C. f_equal. lia.
Qed.

Lemma install_snapshot_post P s fs q s' r tr fs' : install_snapshot P s fs q = Done s' r tr fs' ->
  post [(iq_addr q, iq_term q)] s s'.
Proof.
  unfold install_snapshot, post. destruct (iq_term q <? v_term s) eqn:Elt.
  { intros H; inversion H; subst. left. fr. }
  apply N.ltb_ge in Elt.
  destruct (v_term s <? iq_term q) eqn:Eb.
  - destruct (do_set_term (set_state s Follower) fs (iq_term q)) as [[s1 fs1]|] eqn:ET; [|discriminate].
    apply do_set_term_same in ET. destruct ET as (L1 & R1 & T1).
    intros H. pose proof (is_body_same P (set_leader s1 (iq_addr q) (iq_id q)) (iq_term q) [ESetTerm (iq_term q) true] fs1 q) as Hb.
    rewrite H in Hb. simpl in Hb. destruct Hb as (A & B & C). simpl in A, C.
    right. right. left. left. rewrite A, C, T1. reflexivity.
  - intros H. pose proof (is_body_same P (set_leader s (iq_addr q) (iq_id q)) (v_term s) [] fs q) as Hb.
    rewrite H in Hb. simpl in Hb. destruct Hb as (A & B & C). simpl in A, C.
    apply N.ltb_ge in Eb. right. right. left. left. rewrite A, C. f_equal. lia.
Qed.

Lemma elect_self_post P s fs s' r tr fs' : elect_self P s fs = Done s' r tr fs' -> v_role s' = v_role s.
Proof.
  unfold elect_self. destruct (do_set_term s fs (v_term s + 1)) as [[s1 fs1]|] eqn:ET; [|discriminate].
  apply do_set_term_same in ET. destruct ET as (L1 & R1 & T1).
  destruct (last_entry s1) as [li lt].
  destruct (existsb _ (v_latest s1)).
  - pose proof (persist_vote_same s1 fs1 (v_term s + 1) (p_self P)) as Hp.
    destruct (persist_vote s1 fs1 (v_term s + 1) (p_self P)) as [[[s2 ok] tr2] fs2].
    intros H; inversion H; subst. destruct Hp as (_ & B & _). congruence.
  - intros H; inversion H; subst. exact R1.
Qed.

Lemma take_snapshot_same P s fs s' r tr fs' : take_snapshot P s fs = Done s' r tr fs' -> same s' s.
Proof.
  unfold take_snapshot. destruct (fsm_index s) as [fi ft].
  destruct (fi =? 0); [intros H; inversion H; subst; fr|].
  destruct (fi <? v_committedIdx s); [intros H; inversion H; subst; fr|].
  destruct (next_fail fs) as [fc fs1]. destruct fc; [intros H; inversion H; subst; fr|].
  destruct (next_fail fs1) as [fcl fs2]. destruct fcl; [intros H; inversion H; subst; fr|].
  match goal with |- context [run_compaction ?S ?F ?R] =>
    pose proof (run_compaction_same S F R) as Hc; destruct (run_compaction S F R) as [[s2 trc] fs3] end.
  intros H; inversion H; subst. eapply same_trans; [exact Hc|fr].
Qed.

(* ---------------------------------------------------------------- restart *)
Lemma scan_configs_same P n : forall s from s', scan_configs P s from n = Some s' -> same s' s.
Proof.
  induction n as [|n IH]; intros s from s' H; simpl in H.
  - inversion H; subst. fr.
  - destruct (d_log s !! from) as [e|]; [|discriminate].
    apply IH in H. eapply same_trans; [exact H|apply process_config_entry_same].
Qed.

Lemma recover_leader P img s tr : recover P img = RecOk s tr -> v_leader s = 0 /\ v_role s = Follower.
Proof.
  unfold recover. destruct (rec_last _) as [le|]; [|discriminate].
  destruct (rec_snapshot _) as [[s3 tr3]|] eqn:E3; [|discriminate].
  assert (Hs3 : v_leader s3 = 0 /\ v_role s3 = Follower).
  { unfold rec_snapshot in E3. destruct (find sn_ok _) as [sn|].
    - inversion E3; subst. auto.
    - destruct (list_snaps _); [|discriminate]. inversion E3; subst. auto. }
  destruct (rec_committed P s3) as [| | |s4 tr4] eqn:E4; try discriminate.
  assert (Hs4 : v_leader s4 = 0 /\ v_role s4 = Follower).
  { unfold rec_committed in E4. destruct (p_rc P).
    - destruct (negb (p_track P)); [discriminate|].
      match type of E4 with context [process_logs ?S ?I] => destruct (process_logs S I) as [[s4' tr4']|] eqn:EP end; [|discriminate].
      match type of E4 with context [if ?B then _ else _] => destruct B end; [discriminate|].
      inversion E4; subst. apply process_logs_same in EP. destruct EP as (G1 & G2 & _).
      rewrite G1, G2. simpl. exact Hs3.
    - inversion E4; subst. exact Hs3. }
  match goal with |- context [scan_configs P ?S ?F ?N] => destruct (scan_configs P S F N) as [s5|] eqn:ES end; [|discriminate].
  intros H; inversion H; subst. apply scan_configs_same in ES. destruct ES as (E1 & E2 & _).
  match goal with |- context [if ?B then _ else _] => destruct B end; [change (v_leader s5 = 0 /\ v_role s5 = Follower)|]; rewrite E1, E2; exact Hs4.
Qed.

(* ---------------------------------------------------------------- the invariant over histories *)
Definition claim_of (e : nevent) : list (N * N) :=
  match e with
  | NAppend a => [(aq_addr a, aq_term a)]
  | NInstall q => [(iq_addr q, iq_term q)]
  | _ => []
  end.

(* a running follower advertises nobody, or the sender of an AppendEntries / InstallSnapshot it
   received whose term is its current term *)
Definition adv_ok (C : list (N * N)) (r : nrun) : Prop :=
  match r with
  | Up s => v_role s = Follower -> v_leader s = 0 \/ In (v_leader s, v_term s) C
  | Down _ => True
  end.

(* electSelf is only ever called from runCandidate *)
Definition elect_in_candidate (r : nrun) (e : nevent) : Prop :=
  match e, r with
  | NElect, Up s => v_role s <> Follower
  | _, _ => True
  end.

Lemma adv_ok_mono C C' r : (forall x, In x C -> In x C') -> adv_ok C r -> adv_ok C' r.
Proof. destruct r; simpl; auto. intros Hi H Hr. destruct (H Hr); auto. Qed.

Lemma boot_adv P img r out C : boot P img = (r, out) -> adv_ok C r.
Proof.
  unfold boot. destruct (recover P img) as [s tr| | |] eqn:E; intros H; inversion H; subst; simpl; auto.
  apply recover_leader in E. destruct E. auto.
Qed.

Lemma finish_adv {R} P (enc : R -> list N) (mk : R -> nobs) si s cut (o : outcome R) C :
  (forall s' r tr fs', o = Done s' r tr fs' -> adv_ok C (Up s')) ->
  adv_ok C (fst (fst (finish P enc mk si s cut o))).
Proof.
  intros Hd. unfold finish. destruct o as [s' r tr fs'|s' tr].
  - destruct ((0 <? cut) && (N.to_nat cut <=? count_durable tr)%nat).
    + destruct (boot P _) as [r' out] eqn:EB. simpl. eapply boot_adv; exact EB.
    + simpl. eapply Hd. reflexivity.
  - destruct (boot P _) as [r' out] eqn:EB. simpl. eapply boot_adv; exact EB.
Qed.

Lemma post_adv C cl s s' : adv_ok C (Up s) -> post cl s s' -> adv_ok (C ++ cl) (Up s').
Proof.
  simpl. intros H [(A & B & D)|[Z|[I|NR]]] Hr.
  - rewrite A, D. rewrite B in Hr. destruct (H Hr); [auto|right; apply in_or_app; auto].
  - auto.
  - right. apply in_or_app; auto.
  - contradiction.
Qed.

Theorem step_adv P r e cut fs C : adv_ok C r -> elect_in_candidate r e ->
  adv_ok (C ++ claim_of e) (fst (fst (step_full P r e cut fs))).
Proof.
  intros Ha He. destruct r as [s|s].
  2:{ destruct e; unfold step_full; simpl; try exact I.
      destruct (boot P s) as [r' out] eqn:EB. simpl. eapply boot_adv; exact EB. }
  destruct e; unfold step_full; simpl claim_of; rewrite ?app_nil_r.
  - (* vote *) apply finish_adv. intros s' r tr fs' Hd. rewrite <- (app_nil_r C). eapply post_adv; [exact Ha|].
    eapply request_vote_post; exact Hd.
  - (* prevote *) destruct (request_prevote s q) as [t g]. simpl. exact Ha.
  - (* append *) apply finish_adv. intros s' r tr fs' Hd. eapply post_adv; [exact Ha|].
    eapply append_entries_post; exact Hd.
  - (* install *) apply finish_adv. intros s' r tr fs' Hd. eapply post_adv; [exact Ha|].
    eapply install_snapshot_post; exact Hd.
  - (* timeout now *) simpl. intros Hr. discriminate.
  - (* elect *) apply finish_adv. intros s' r tr fs' Hd. simpl. intros Hr.
    apply elect_self_post in Hd. simpl in He. congruence.
  - (* restart *) simpl. destruct (boot P s) as [r' out] eqn:EB. simpl. eapply boot_adv; exact EB.
  - (* timeout decision *) simpl. exact Ha.
  - (* snapshot *) destruct (fsm_index s) as [fi ft]. apply finish_adv. intros s' r tr fs' Hd.
    rewrite <- (app_nil_r C). eapply post_adv; [exact Ha|]. left. eapply take_snapshot_same; exact Hd.
Qed.

(* over whole histories: an input is an event, a crash cut and a store-failure pattern *)
Definition input : Type := nevent * N * list bool.
Fixpoint claims (ins : list input) : list (N * N) :=
  match ins with
  | [] => []
  | (e, _, _) :: rest => claim_of e ++ claims rest
  end.

Fixpoint elects_ok (P : params) (r : nrun) (ins : list input) : Prop :=
  match ins with
  | [] => True
  | (e, cut, fs) :: rest => elect_in_candidate r e /\ elects_ok P (fst (fst (step_full P r e cut fs))) rest
  end.

Fixpoint run_to (P : params) (r : nrun) (ins : list input) : nrun :=
  match ins with
  | [] => r
  | (e, cut, fs) :: rest => run_to P (fst (fst (step_full P r e cut fs))) rest
  end.

Theorem advertised_leader_history P ins : forall r C, adv_ok C r -> elects_ok P r ins ->
  adv_ok (C ++ claims ins) (run_to P r ins).
Proof.
  induction ins as [|[[e cut] fs] rest IH]; intros r C Ha He; simpl.
  - rewrite app_nil_r. exact Ha.
  - destruct He as [He1 He2]. rewrite app_assoc. apply IH; [|exact He2].
    apply step_adv; assumption.
Qed.

(* from a freshly booted server: everything a follower ever advertises was claimed by an
   AppendEntries / InstallSnapshot it received, with the follower's current term *)
Theorem advertised_leader_from_boot P img r out ins : boot P img = (r, out) -> elects_ok P r ins ->
  match run_to P r ins with
  | Up s => v_role s = Follower -> v_leader s <> 0 -> In (v_leader s, v_term s) (claims ins)
  | Down _ => True
  end.
Proof.
  intros Hb He. pose proof (advertised_leader_history P ins r [] (boot_adv P img r out [] Hb) He) as H.
  simpl in H. destruct (run_to P r ins) as [s|s]; [|exact I].
  simpl in H. intros Hr Hn. destruct (H Hr); [contradiction|assumption].
Qed.
