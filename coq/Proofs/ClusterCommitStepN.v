(* ClusterCommitStepN.v — why a delivered AppendEntries never truncates what matters: the stored
   entry at the first conflict is NOT on the branch of the request's term; entries known to be
   committed and keys accepted in the request's term are on that branch (Leader Completeness). *)
From Coq Require Import List NArith Bool Lia.
From stdpp Require Import gmap.
From RaftModel Require Import Base Config Compaction Commitment Node NodeCodec Candidate Leader Replicate Cluster ClusterLog ClusterCommit.
From RaftProofs Require Import ConfigProofs CommitmentProofs VoteProofs AppendProofs ClusterProofs
  ClusterLogSpec ClusterLogChain ClusterLogNode ClusterLogVote ClusterLogLeader ClusterLogInv ClusterLogSteps
  ClusterCommitSpec ClusterCommitLog ClusterCommitChain ClusterCommitAE2 ClusterCommitNode ClusterCommitGhost
  ClusterCommitInv ClusterCommitFinal ClusterCommitUpd ClusterCommitStepA.
Open Scope N_scope.

Lemma last_entry_topk_s s : v_lastSnapIdx s = 0 -> last_entry s = topk s.
Proof. intros E. unfold last_entry, topk. rewrite E. destruct (N.leb_spec 0 (v_lastLogIdx s)); [reflexivity|lia]. Qed.

Lemma topk_entry_s C s : chain_ok C -> nlog_up C s -> top_of (d_log s) (v_lastLogIdx s) ->
  (topk s = (0, 0) /\ v_lastLogIdx s = 0) \/ (exists x, d_log s !! v_lastLogIdx s = Some x /\ key x = topk s).
Proof.
  intros HC (_ & Li & _ & _ & Hz & Lb) [_ Ht]. destruct (N.eq_dec (v_lastLogIdx s) 0) as [E|Hne].
  - left. unfold topk. rewrite E, (Hz E). auto.
  - right. destruct (Ht ltac:(lia)) as [x Hx]. exists x. split; [exact Hx|].
    destruct (Li _ x Hx) as (Ix & _). apply (anc_idx_eq C _ _ HC (Lb _ x Hx)). unfold key, topk. simpl. exact Ix.
Qed.

Lemma entry_eq_dec (a b : entry) : {a = b} + {a <> b}.
Proof. decide equality; apply N.eq_dec. Qed.

Lemma first_conflict_witness m es c : first_conflict m es = Some c ->
  exists y z, In y es /\ e_idx y = c /\ m !! c = Some z /\ e_term y <> e_term z.
Proof.
  induction es as [|e r IH]; simpl; [discriminate|].
  destruct (m !! e_idx e) as [se|] eqn:E.
  - destruct (N.eqb_spec (e_term e) (e_term se)) as [Ht|Ht].
    + intros H. destruct (IH H) as (y & z & A & B). exists y, z. split; [right; exact A|exact B].
    + intros H. inversion H; subst c. exists e, se. auto.
  - intros H. destruct (IH H) as (y & z & A & B). exists y, z. split; [right; exact A|exact B].
Qed.

Section Conflict.
  Variable cfg : config.
  Variable Ps : list params.
  Hypothesis HVn : NoDup (voters cfg).

  (* the stored entry at the first conflict is off the branch of the request's term *)
  Lemma conflict_off_branch C LL A m lg c z : chain_inv C LL -> msg_inv cfg Ps C LL A m ->
    first_conflict lg (aq_entries (am_req m)) = Some c -> lg !! c = Some z -> (forall i x, lg !! i = Some x -> e_idx x = i) ->
    ~ tchain C LL (aq_term (am_req m)) (key z).
  Proof.
    intros Hci (M1 & _) Hfc Hz Hkeys Htc. destruct (first_conflict_witness _ _ _ Hfc) as (y & z' & Hy & Hyi & Hz' & Hne).
    rewrite Hz in Hz'. inversion Hz'; subst z'. destruct (M1 y Hy) as [_ Hty].
    assert (E : key y = key z).
    { apply (tchain_same_idx C LL Hci _ _ _ Hty Htc). unfold key. simpl. rewrite (Hkeys c z Hz). exact Hyi. }
    apply Hne. unfold key in E. congruence.
  Qed.

  (* what a server knows to be committed is on the branch of every later (or equal) term that has a leader *)
  Lemma committed_on_branch g C LL A V b k0 T c tl : cinv cfg Ps g C LL A V ->
    CK cfg C LL A b k0 -> b <= T -> In (T, c, tl) LL -> tchain C LL T k0.
  Proof.
    intros HI (Tq & q & Hb & Q & Htc & Hq) HbT Hl.
    pose proof (cv_ci cfg Ps g C LL A V HI) as Hci.
    destruct (N.lt_trichotomy Tq T) as [Hlt|[->|Hgt]]; [|exact Htc|lia].
    exists c, tl. split; [exact Hl|]. right.
    apply (lc_core cfg C LL A V HVn Hci (cv_vi cfg Ps g C LL A V HI) q Tq k0 Q Htc Hq T c tl Hl Hlt).
  Qed.
End Conflict.

Section Kept.
  Variable cfg : config.
  Variable Ps : list params.
  Hypothesis HVn : NoDup (voters cfg).

  Variables (g : cgstate) (C : chain) (LL : LLt) (A : At) (V : Vt).
  Hypothesis HI : cinv cfg Ps g C LL A V.
  Variables (n : gnode) (s : nstate) (m : amsg) (m' : gmap N entry) (c2 : N) (tl2 : N * N).
  Hypothesis Hin : In n (cnodes g).
  Hypothesis Hr : gn_run n = Up s.
  Hypothesis Hm : In m (lg_msgs (cg_l g)).
  Hypothesis Hl2 : In (aq_term (am_req m), c2, tl2) LL.
  Hypothesis Hterm : d_term s <= aq_term (am_req m).
  Hypothesis Hfail : log_ok_fail (aq_prevIdx (am_req m)) (aq_entries (am_req m)) (d_log s) m'.

  Let Hci := cv_ci cfg Ps g C LL A V HI.

  Lemma log_keys : forall i x, d_log s !! i = Some x -> e_idx x = i.
  Proof. intros i x Hx. destruct (node_log_in cfg Ps g C LL A V HI n s Hin Hr) as [(_ & Li & _) _]. apply (Li i x Hx). Qed.

  (* an entry that is on the branch of the request's term survives, with everything below it *)
  Lemma kept_on_branch i x : d_log s !! i = Some x ->
    (forall c z, c <= i -> d_log s !! c = Some z -> tchain C LL (aq_term (am_req m)) (key z)) -> m' !! i = Some x.
  Proof.
    intros Hx Hall. destruct (m' !! i) as [x'|] eqn:E.
    - destruct (entry_eq_dec x' x) as [->|Hne]; [reflexivity|]. exfalso.
      destruct (lf_conflict _ _ _ _ Hfail i x Hx) as (c & Hfc & Hc); [rewrite E; congruence|].
      destruct (first_conflict_witness _ _ _ Hfc) as (y & z & _ & _ & Hz & _).
      apply (conflict_off_branch cfg Ps C LL A m (d_log s) c z Hci (cv_msg cfg Ps g C LL A V HI m Hm) Hfc Hz log_keys).
      apply (Hall c z Hc Hz).
    - exfalso. destruct (lf_conflict _ _ _ _ Hfail i x Hx) as (c & Hfc & Hc); [rewrite E; discriminate|].
      destruct (first_conflict_witness _ _ _ Hfc) as (y & z & _ & _ & Hz & _).
      apply (conflict_off_branch cfg Ps C LL A m (d_log s) c z Hci (cv_msg cfg Ps g C LL A V HI m Hm) Hfc Hz log_keys).
      apply (Hall c z Hc Hz).
  Qed.

  (* what the server knew to be committed is untouched *)
  Lemma kept_committed i x : d_log s !! i = Some x -> i <= v_commit s -> m' !! i = Some x.
  Proof.
    intros Hx Hi. apply (kept_on_branch i x Hx). intros c z Hc Hz.
    destruct (cv_kc cfg Ps g C LL A V HI n s Hin Hr) as [_ K].
    apply (committed_on_branch cfg Ps HVn g C LL A V (d_term s) (key z) _ c2 tl2 HI (K c z Hz ltac:(lia)) Hterm Hl2).
  Qed.

  (* what the server accepted: still held, or the leader of the request's (later) term did not hold it *)
  Lemma kept_accepted k k0 : In (gn_id n, k) A -> anc C k0 k -> 1 <= fst k0 -> holds (d_log s) k0 ->
    holds m' k0 \/ (snd k < aq_term (am_req m) /\ ~ anc C k0 tl2).
  Proof.
    intros Ha Hanc Hpos (x0 & Hx0 & Ex0). pose proof (ci_ok C LL Hci) as HC.
    destruct (node_log_in cfg Ps g C LL A V HI n s Hin Hr) as [(_ & Li & _ & _ & _ & Lb) _].
    (* everything the server holds at or below k0 is an ancestor of k0 *)
    assert (Hbelow : forall c z, c <= fst k0 -> d_log s !! c = Some z -> anc C (key z) k0).
    { intros c z Hc Hz. apply (holds_below C (d_log s) (d_term s) _ k0 c z HC Li Lb); [exists x0; auto|exact Hz|exact Hc]. }
    destruct (vi_ac cfg C LL A V (cv_vi cfg Ps g C LL A V HI) _ _ Ha) as [Hkc (ck & tlk & Hlk)].
    destruct (cv_a1 cfg Ps g C LL A V HI _ _ Ha) as (x & Hx & Hxi & Hxt).
    assert (x = n) by (apply (nodup_id_eq _ x n (nodes_nodup cfg Ps g C LL A V HI) Hx Hin Hxi)). subst x.
    unfold dtn in Hxt. rewrite Hr in Hxt. simpl in Hxt.
    destruct (N.eq_dec (snd k) (aq_term (am_req m))) as [Eq|Hne].
    - (* a request of the term in which k was accepted: k0 is on its branch *)
      left. exists x0. split; [|exact Ex0]. apply (kept_on_branch _ x0 Hx0). intros c z Hc Hz.
      apply (tchain_anc C LL Hci _ k0); [|apply (Hbelow c z Hc Hz)].
      apply (tchain_anc C LL Hci _ k); [|exact Hanc]. rewrite <- Eq. eapply tchain_created; eauto.
    - destruct (m' !! fst k0) as [x'|] eqn:E.
      + destruct (entry_eq_dec x' x0) as [->|Hnx]; [left; exists x0; auto|]. right. split; [lia|]. intros Htl.
        assert (Hk : m' !! fst k0 = Some x0); [|congruence].
        apply (kept_on_branch _ x0 Hx0). intros c z Hc Hz. exists c2, tl2. split; [exact Hl2|]. right.
        eapply anc_trans; [apply (Hbelow c z Hc Hz)|exact Htl].
      + right. split; [lia|]. intros Htl.
        assert (Hk : m' !! fst k0 = Some x0); [|congruence].
        apply (kept_on_branch _ x0 Hx0). intros c z Hc Hz. exists c2, tl2. split; [exact Hl2|]. right.
        eapply anc_trans; [apply (Hbelow c z Hc Hz)|exact Htl].
  Qed.
End Kept.
