(* ClusterSnapLMSnap.v — every step of the system with snapshot transfer (Model/ClusterSnap.v sstep) keeps the invariant:
   the cluster invariant of Proofs/ClusterSnapLMInv.v over the requests and snapshot requests sent so far, and the
   condition on leadership records of Proofs/ClusterSnapLMCommit.v. *)
From Coq Require Import List NArith Bool Lia.
From stdpp Require Import gmap.
From RaftModel Require Import Base Config Compaction Commitment Node NodeCodec Candidate Leader Replicate Cluster ClusterLog ClusterCommit ClusterSnap.
From RaftProofs Require Import ConfigProofs VoteProofs AppendProofs ClusterProofs
  ClusterLogSpec ClusterLogChain ClusterLogNode ClusterLogVote ClusterLogLeader ClusterLogInv ClusterLogSteps ClusterLogSnapBoot
  ClusterCommitChain ClusterCommitLog ClusterCommitInv ClusterCommitStepA ClusterCommitSnapLog
  ClusterSnapLMSpec ClusterSnapLMLog ClusterSnapLMLeader ClusterSnapLMInv ClusterSnapLMInv2 ClusterSnapLMSteps ClusterSnapLMSteps2 ClusterSnapLMCommit.
Open Scope N_scope.

Record Yinv (cfgs : list config) (B : N) (g : sstate) (C : chain) : Prop := {
  yv_l : ylinv cfgs B (lg_of g) (ss_msgs g) C;
  yv_i : yinfl (lg_g (lg_of g)) (cg_lead (ss_c g));
}.

Section Snap.
  Variable cfgs : list config.
  Hypothesis HQ : quorums_intersect cfgs.

  (* replicateTo sends the leader's newest snapshot *)
  Lemma ssend_y B g C i j last g' : Yinv cfgs B g C -> sstep cfgs g (SSend i j last) = Some g' -> Yinv cfgs B g' C.
  Proof.
    intros [Hinv Hy] Hstep. unfold sstep in Hstep. cbv zeta in Hstep. unfold lg_of in *.
    destruct (find_node (g_nodes (lg_g (cg_l (ss_c g)))) i) as [n|] eqn:Hfind; [|discriminate].
    destruct (find_lead (cg_lead (ss_c g)) i) as [ld|]; [|discriminate].
    destruct (gn_run n) as [s|s] eqn:Hrun; [|discriminate].
    destruct (negb _) eqn:Hc; [discriminate|]. apply negb_false_iff in Hc.
    apply andb_prop in Hc. destruct Hc as [Hc _]. apply andb_prop in Hc. destruct Hc as [H1 H2].
    apply N.eqb_eq in H1. apply negb_true_iff, N.eqb_neq in H2.
    destruct (assoc (ld_out ld) j); [discriminate|]. destruct (sout_cur g i j); [discriminate|].
    destruct (setup_send (gn_P n) s (next_of ld j) last); try discriminate.
    unfold newest in Hstep. destruct (list_snaps (d_snaps s)) as [|sn rest] eqn:Els; [discriminate|].
    inversion Hstep; subst g'. clear Hstep. constructor; cbn [ss_c ss_msgs lg_of]; [|exact Hy].
    destruct (find_node_in _ _ _ Hfind) as [Hin Hid].
    destruct (yl_nodes cfgs B _ _ C Hinv n Hin) as (Hnl & _). rewrite Hrun in Hnl. simpl in Hnl.
    pose proof (ynode_wfr cfgs B _ _ C n Hinv Hin) as Hw. rewrite Hrun in Hw. destruct Hw as [_ Hvt].
    assert (Hsn : In sn (d_snaps s)).
    { destruct (list_snaps_spec (d_snaps s)) as [_ Hm]. apply Hm. rewrite Els. left. reflexivity. }
    destruct (ys_sns _ _ _ _ _ _ _ _ Hnl sn Hsn) as [S1 S2].
    apply (ssend_ylinv cfgs B _ _ C i n s _ Hinv Hfind Hrun H1); simpl; auto. lia.
  Qed.

  (* a snapshot request is executed by its target *)
  Lemma sdeliver_y B g C k cut fs g' : Yinv cfgs B g C -> sstep cfgs g (SDeliver k cut fs) = Some g' -> Yinv cfgs B g' C.
  Proof.
    intros [Hinv Hy] Hstep. unfold sstep in Hstep. cbv zeta in Hstep. unfold lg_of in *.
    destruct (nth_error (ss_msgs g) k) as [m|] eqn:Hk; [|discriminate].
    destruct (find_node (g_nodes (lg_g (cg_l (ss_c g)))) (sm_to m)) as [nj|]; [|discriminate].
    destruct (step_full (gn_P nj) (gn_run nj) (NInstall (sm_req m)) cut fs) as [[r0 ob] out0].
    destruct (gstep cfgs (lg_g (cg_l (ss_c g))) (GInput (sm_to m) (NInstall (sm_req m)) cut fs)) as [g1|] eqn:Hg; [|discriminate].
    inversion Hstep; subst g'. clear Hstep. constructor; cbn [ss_c ss_msgs lg_of cg_l cg_lead lg_g].
    - apply (install_ylinv cfgs HQ B (cg_l (ss_c g)) (ss_msgs g) C m cut fs g1 Hinv (nth_error_In _ _ Hk) Hg).
    - eapply yinfl_mono; [|exact Hy]. eapply gstep_leaders_incl; eauto.
  Qed.

  (* the answer to a snapshot request returns to replicateTo *)
  Lemma sack_y B g C k g' : Yinv cfgs B g C -> sstep cfgs g (SAck k) = Some g' -> Yinv cfgs B g' C.
  Proof.
    intros [Hinv Hy] Hstep. unfold sstep in Hstep. cbv zeta in Hstep. unfold lg_of in *.
    destruct (nth_error (ss_ans g) k) as [[k0 [[rterm ok] er]]|]; [|discriminate].
    destruct (nth_error (ss_msgs g) k0) as [m|]; [|discriminate].
    destruct (find_node (g_nodes (lg_g (cg_l (ss_c g)))) (sm_from m)) as [n|] eqn:Hfind; [|discriminate].
    destruct (find_lead (cg_lead (ss_c g)) (sm_from m)) as [ld|] eqn:Hfl; [|discriminate].
    destruct (gn_run n) as [s|s] eqn:Hrun; [|discriminate].
    destruct (negb _) eqn:Hc; [discriminate|]. apply negb_false_iff in Hc.
    apply andb_prop in Hc. destruct Hc as [Hc _]. apply andb_prop in Hc. destruct Hc as [H1 _]. apply N.eqb_eq in H1.
    assert (Hsame : forall ld', ld_infl ld' = ld_infl ld -> yinfl (lg_g (cg_l (ss_c g))) (set_lead (cg_lead (ss_c g)) (sm_from m) ld')).
    { intros ld' E. apply yinfl_set; [exact Hy|]. eapply infl_le_mono; [apply incl_refl| |apply (Hy _ _ Hfl)]. rewrite E. auto. }
    destruct (iq_term (sm_req m) <? rterm).
    - inversion Hstep; subst g'. clear Hstep. constructor; cbn [ss_c ss_msgs lg_of cg_l cg_lead lg_g].
      + apply (stepdown_y cfgs HQ B (cg_l (ss_c g)) (ss_msgs g) C _ n s Hinv Hfind Hrun H1).
      + eapply yinfl_mono; [|exact Hy]. simpl. apply incl_refl.
    - destruct ok; inversion Hstep; subst g'; clear Hstep; constructor; cbn [ss_c ss_msgs lg_of cg_l cg_lead lg_g]; try assumption.
      match goal with |- context [if ?b then _ else _] => destruct b end; apply Hsame; reflexivity.
  Qed.

  Lemma sgiveup_y B g C i j g' : Yinv cfgs B g C -> sstep cfgs g (SGiveUp i j) = Some g' -> Yinv cfgs B g' C.
  Proof.
    intros [Hinv Hy] Hstep. unfold sstep in Hstep. cbv zeta in Hstep. destruct (sout_cur g i j); [|discriminate].
    inversion Hstep; subst g'. constructor; assumption.
  Qed.

  Lemma sbase_y B g C bl g' : Yinv cfgs B g C -> sstep cfgs g (SBase bl) = Some g' ->
    exists C' B', B <= B' /\ Yinv cfgs B' g' C'.
  Proof.
    intros [Hinv Hy] Hstep. unfold sstep in Hstep. cbv zeta in Hstep. destruct (negb (base_ok g bl)); [discriminate|].
    destruct (cstep true cfgs (ss_c g) bl) as [c'|] eqn:Hc; [|discriminate]. inversion Hstep; subst g'. clear Hstep.
    destruct (cstep_y cfgs HQ B (ss_c g) (ss_msgs g) C bl c' Hinv Hy Hc) as (C' & B' & HB & H1 & H2).
    exists C', B'. split; [exact HB|]. constructor; assumption.
  Qed.

  Theorem sstep_y B g C l g' : Yinv cfgs B g C -> sstep cfgs g l = Some g' -> exists C' B', B <= B' /\ Yinv cfgs B' g' C'.
  Proof.
    intros HI Hstep. destruct l as [bl|i j last|k cut fs|k|i j].
    - eapply sbase_y; eauto.
    - exists C, B. split; [lia|]. eapply ssend_y; eauto.
    - exists C, B. split; [lia|]. eapply sdeliver_y; eauto.
    - exists C, B. split; [lia|]. eapply sack_y; eauto.
    - exists C, B. split; [lia|]. eapply sgiveup_y; eauto.
  Qed.

  Theorem srun_y ls : forall B g C g', Yinv cfgs B g C -> srun cfgs g ls = Some g' -> exists C' B', B <= B' /\ Yinv cfgs B' g' C'.
  Proof.
    induction ls as [|l r IH]; intros B g C g' HI Hrun; simpl in Hrun.
    - inversion Hrun; subst. exists C, B. split; [lia|exact HI].
    - destruct (sstep cfgs g l) as [g1|] eqn:Hs; [|discriminate].
      destruct (sstep_y B g C l g1 HI Hs) as (C1 & B1 & HB1 & HI1).
      destruct (IH B1 g1 C1 g' HI1 Hrun) as (C2 & B2 & HB2 & HI2). exists C2, B2. split; [lia|exact HI2].
  Qed.
End Snap.
