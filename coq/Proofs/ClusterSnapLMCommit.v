(* ClusterSnapLMCommit.v — the commit layer (Model/ClusterCommit.v cstep) over the invariant of Proofs/ClusterSnapLMInv.v:
   the leadership records only hold in-flight entries of terms the server was leader of; leaders are never forgotten. *)
From Coq Require Import List NArith Bool Lia.
From stdpp Require Import gmap.
From RaftModel Require Import Base Config Compaction Commitment Node NodeCodec Candidate Leader Replicate Cluster ClusterLog ClusterCommit ClusterSnap.
From RaftProofs Require Import ConfigProofs VoteProofs AppendProofs ClusterProofs
  ClusterLogSpec ClusterLogChain ClusterLogNode ClusterLogVote ClusterLogLeader ClusterLogInv ClusterLogSteps
  ClusterCommitChain ClusterCommitLog ClusterCommitInv ClusterCommitNode3 ClusterCommitStepA ClusterCommitSnapLog ClusterCommitSnapLeader2
  ClusterSnapLMSpec ClusterSnapLMLog ClusterSnapLMLeader ClusterSnapLMInv ClusterSnapLMInv2 ClusterSnapLMSteps ClusterSnapLMSteps2.
Open Scope N_scope.

(* ---------------------------------------------------------------- leaders are never forgotten *)
Lemma gstep_leaders_incl cfgs g l g' : gstep cfgs g l = Some g' -> incl (g_leaders g) (g_leaders g').
Proof.
  unfold gstep. destruct l as [i|i j cut fs|i j|j e cut fs].
  - destruct (find_node (g_nodes g) i) as [n|]; [|discriminate]. destruct (gn_run n) as [s|s]; [|discriminate].
    destruct (negb _ || _); [discriminate|]. destruct (sess_enter _ _ _) as [x tr].
    destruct x; intros H; inversion H; simpl; try apply incl_refl. apply incl_tl, incl_refl.
  - destruct (find_node (g_nodes g) i) as [ni|]; [|discriminate]. destruct (find_node (g_nodes g) j) as [nj|]; [|discriminate].
    destruct (gn_sess ni) as [se|]; [|discriminate]. destruct (negb _); [discriminate|].
    destruct (step_full _ _ _ _ _) as [[r' ob] out]. intros H; inversion H; simpl. apply incl_refl.
  - destruct (find_node (g_nodes g) i) as [n|]; [|discriminate]. destruct (gn_run n) as [s|s]; [|discriminate].
    destruct (gn_sess n) as [se|]; [|discriminate]. destruct (mem j (se_got se)); [discriminate|].
    destruct (find_resp _ _ _ _) as [rp|]; [|discriminate]. destruct (sess_step _ _ _ _) as [x tr].
    destruct x; intros H; inversion H; simpl; try apply incl_refl. apply incl_tl, incl_refl.
  - destruct e; try discriminate; (destruct (find_node (g_nodes g) j) as [nj|]; [|discriminate]);
      destruct (step_full _ _ _ _ _) as [[r' ob] out]; intros H; inversion H; simpl; apply incl_refl.
Qed.

Lemma lstep_leaders_incl sn cfgs g bl g' : lstep sn cfgs g bl = Some g' -> incl (g_leaders (lg_g g)) (g_leaders (lg_g g')).
Proof.
  unfold lstep. destruct bl as [gl|i ty data fs|i j next last|i j|k cut fs].
  - destruct (label_ok sn gl); [|discriminate]. destruct (gstep cfgs (lg_g g) gl) as [g1|] eqn:E; [|discriminate].
    intros H; inversion H; simpl. eapply gstep_leaders_incl; eauto.
  - destruct (find_node _ i) as [n|]; [|discriminate]. destruct (gn_run n) as [s|s]; [|discriminate].
    destruct (v_role s =? Leader); [|discriminate]. destruct (dispatch _ _ _ _) as [[[ls' a] b] c].
    intros H; inversion H; simpl. apply incl_refl.
  - destruct (find_node _ i) as [n|]; [|discriminate]. destruct (gn_run n) as [s|s]; [|discriminate].
    destruct (_ && _); [|discriminate]. destruct (setup_send _ _ _ _); try discriminate. intros H; inversion H; simpl. apply incl_refl.
  - destruct (find_node _ i) as [n|]; [|discriminate]. destruct (gn_run n) as [s|s]; [|discriminate].
    destruct (_ && _); [|discriminate]. intros H; inversion H; simpl. apply incl_refl.
  - destruct (nth_error _ k) as [m|]; [|discriminate]. destruct (gstep cfgs (lg_g g) _) as [g1|] eqn:E; [|discriminate].
    intros H; inversion H; simpl. eapply gstep_leaders_incl; eauto.
Qed.

(* ---------------------------------------------------------------- leadership records *)
(* what a record holds in flight was created in terms not above a term the server led *)
Definition infl_le (g : gstate) (i : N) (ld : lead) : Prop :=
  exists T, In (T, i) (g_leaders g) /\ forall e fid, In (e, fid) (ld_infl ld) -> e_term e <= T.

Definition yinfl (g : gstate) (leads : list (N * lead)) : Prop :=
  forall i ld, find_lead leads i = Some ld -> infl_le g i ld.

Lemma infl_le_mono g g' i ld ld' : incl (g_leaders g) (g_leaders g') -> (forall x, In x (ld_infl ld') -> In x (ld_infl ld)) ->
  infl_le g i ld -> infl_le g' i ld'.
Proof. intros Hl Hs (T & H1 & H2). exists T. split; [apply Hl, H1|]. intros e fid He. apply (H2 e fid), Hs, He. Qed.

Lemma yinfl_mono g g' leads : incl (g_leaders g) (g_leaders g') -> yinfl g leads -> yinfl g' leads.
Proof. intros Hl H i ld Hf. eapply infl_le_mono; [exact Hl|intros x Hx; exact Hx|apply H, Hf]. Qed.

Lemma yinfl_set g leads i ld : yinfl g leads -> infl_le g i ld -> yinfl g (set_lead leads i ld).
Proof.
  intros H Hi j ld' Hf. destruct (N.eq_dec j i) as [->|Hne].
  - rewrite find_lead_set_same in Hf. inversion Hf; subst. exact Hi.
  - rewrite find_lead_set_other in Hf by exact Hne. apply H, Hf.
Qed.

(* a record after refresh_leads is an old one or the fresh record of a server now in role Leader *)
Lemma refresh_find before after : forall l i ld, find_lead (refresh_leads before after l) i = Some ld ->
  find_lead l i = Some ld \/
  exists n s, In n after /\ gn_id n = i /\ gn_run n = Up s /\ v_role s = Leader /\ ld = fresh_lead (gn_P n) s.
Proof.
  unfold refresh_leads. induction after as [|x r IH]; intros l i ld Hf; simpl in Hf; [left; exact Hf|].
  destruct (IH _ i ld Hf) as [H|(n & s & Hn & H)]; [|right; exists n, s; split; [right; exact Hn|exact H]].
  destruct (gn_run x) as [s|s] eqn:Hr; [|left; exact H].
  destruct (find_node before (gn_id x)) as [n0|]; [|left; exact H].
  destruct ((v_role s =? Leader) && negb (role_of (gn_run n0) =? Leader)) eqn:Hc; [|left; exact H].
  apply andb_prop in Hc. destruct Hc as [Hc _]. apply N.eqb_eq in Hc.
  destruct (N.eq_dec i (gn_id x)) as [->|Hne].
  - rewrite find_lead_set_same in H. inversion H; subst ld. right. exists x, s. split; [left; reflexivity|auto].
  - rewrite find_lead_set_other in H by exact Hne. left. exact H.
Qed.

Section Commit.
  Variable cfgs : list config.
  Hypothesis HQ : quorums_intersect cfgs.

  (* the fresh record of a server in role Leader *)
  Lemma fresh_infl B g sm C n s : ylinv cfgs B g sm C -> In n (g_nodes (lg_g g)) -> gn_run n = Up s -> v_role s = Leader ->
    infl_le (lg_g g) (gn_id n) (fresh_lead (gn_P n) s).
  Proof.
    intros Hinv Hin Hr Hrole. destruct (yl_nodes cfgs B g sm C Hinv n Hin) as (Hnl & Hlo & _).
    destruct (Hlo s Hr Hrole) as (L1 & _). rewrite Hr in Hnl. simpl in Hnl.
    pose proof (ynode_wfr cfgs B g sm C n Hinv Hin) as Hw. rewrite Hr in Hw. destruct Hw as [_ Hvt].
    exists (v_term s). split; [exact L1|]. unfold fresh_lead. cbn [ld_infl].
    destruct (d_log s !! last_index s) as [e|] eqn:Ee; [|intros e fid []].
    intros e0 fid [E|[]]. inversion E; subst e0. destruct (ys_in _ _ _ _ _ _ _ _ Hnl _ e Ee) as (_ & _ & Ht). lia.
  Qed.

  (* a bound known for a record of a server in role Leader can be taken to be its term *)
  Lemma infl_leader B g sm C n s ld : ylinv cfgs B g sm C -> In n (g_nodes (lg_g g)) -> gn_run n = Up s -> v_role s = Leader ->
    infl_le (lg_g g) (gn_id n) ld -> In (v_term s, gn_id n) (g_leaders (lg_g g)) /\ forall e fid, In (e, fid) (ld_infl ld) -> e_term e <= v_term s.
  Proof.
    intros Hinv Hin Hr Hrole (T & H1 & H2). destruct (yl_nodes cfgs B g sm C Hinv n Hin) as (_ & Hlo & _).
    destruct (Hlo s Hr Hrole) as (L1 & _). split; [exact L1|].
    pose proof (ynode_wfr cfgs B g sm C n Hinv Hin) as Hw. rewrite Hr in Hw. destruct Hw as [_ Hvt].
    destruct (yl_leaders cfgs B g sm C Hinv T _ H1 n Hin eq_refl) as [Hle _]. unfold dt in Hle. rewrite Hr in Hle. simpl in Hle.
    intros e fid He. pose proof (H2 e fid He). lia.
  Qed.

  (* the records after the bookkeeping of a base step, before the refresh *)
  Lemma base_leads_yinfl B c sm C bl l' : ylinv cfgs B (cg_l c) sm C -> yinfl (lg_g (cg_l c)) (cg_lead c) ->
    lstep true cfgs (cg_l c) bl = Some l' -> yinfl (lg_g (cg_l c)) (base_leads c bl).
  Proof.
    intros Hinv Hy Hl. destruct bl as [gl|i ty data fs|i j next last|i j|k cut fs]; try exact Hy.
    - unfold base_leads, cnodes. destruct (find_node (g_nodes (lg_g (cg_l c))) i) as [n|] eqn:Hfind; [|exact Hy].
      destruct (find_lead (cg_lead c) i) as [ld|] eqn:Hfl; [|exact Hy]. destruct (gn_run n) as [s|s] eqn:Hrun; [|exact Hy].
      unfold lstep in Hl. rewrite Hfind, Hrun in Hl. destruct (N.eqb_spec (v_role s) Leader) as [Hrole|]; [|discriminate].
      destruct (find_node_in _ _ _ Hfind) as [Hin Hid].
      pose proof (dispatch_one_full (gn_P n) s (ld_cm ld) (ld_infl ld) fs ty data 0) as Hd.
      destruct (dispatch (gn_P n) (mkLS s (ld_cm ld) (ld_infl ld)) fs [(ty, data, 0)]) as [[[ls' a] b] d]. cbv zeta in Hd.
      destruct Hd as (_ & _ & _ & _ & _ & Hinfl & _).
      apply yinfl_set; [exact Hy|]. rewrite <- Hid in Hfl.
      destruct (infl_leader B (cg_l c) sm C n s ld Hinv Hin Hrun Hrole (Hy _ _ Hfl)) as [L1 L2].
      exists (v_term s). rewrite <- Hid. split; [exact L1|]. cbn [with_cm ld_infl]. rewrite Hinfl.
      intros e fid He. apply in_app_iff in He. destruct He as [He|[E|[]]]; [apply (L2 e fid He)|]. inversion E; subst. simpl. lia.
    - unfold base_leads. destruct (find_lead (cg_lead c) i) as [ld|] eqn:Hfl; [|exact Hy].
      apply yinfl_set; [exact Hy|]. eapply infl_le_mono; [apply incl_refl| |apply (Hy _ _ Hfl)]. intros x Hx. exact Hx.
  Qed.

  Lemma cbase_y B c sm C bl c' : ylinv cfgs B (cg_l c) sm C -> yinfl (lg_g (cg_l c)) (cg_lead c) ->
    cstep true cfgs c (CBase bl) = Some c' ->
    exists C' B', B <= B' /\ ylinv cfgs B' (cg_l c') sm C' /\ yinfl (lg_g (cg_l c')) (cg_lead c').
  Proof.
    intros Hinv Hy Hstep. apply cstep_base_inv in Hstep. destruct Hstep as (_ & l' & Hl & ->). cbn [cg_l cg_lead].
    destruct (lstep_ylinv cfgs HQ B (cg_l c) sm C bl l' Hinv Hl) as (C' & B' & HB & Hinv').
    exists C', B'. split; [exact HB|]. split; [exact Hinv'|].
    pose proof (lstep_leaders_incl true cfgs (cg_l c) bl l' Hl) as Hinc.
    intros i ld Hf. destruct (refresh_find _ _ _ i ld Hf) as [H|(n & s & Hn & Hid & Hr & Hrole & ->)].
    - eapply infl_le_mono; [exact Hinc|intros x Hx; exact Hx|]. apply (base_leads_yinfl B c sm C bl l' Hinv Hy Hl i ld H).
    - rewrite <- Hid. apply (fresh_infl B' l' sm C' n s Hinv' Hn Hr Hrole).
  Qed.

  (* a leader steps down after an answer with a higher term *)
  Lemma stepdown_y B g sm C i n s : ylinv cfgs B g sm C -> find_node (g_nodes (lg_g g)) i = Some n -> gn_run n = Up s -> v_role s = Leader ->
    ylinv cfgs B (mkLG (set_node_run (lg_g g) i n (Up (set_state s Follower))) (lg_msgs g)) sm C.
  Proof.
    intros Hinv Hfind Hrun Hrole. destruct (find_node_in _ _ _ Hfind) as [Hin _].
    destruct (yl_nodes cfgs B g sm C Hinv n Hin) as (Hnl & _). rewrite Hrun in Hnl.
    apply (ylinv_volatile cfgs HQ B g sm C i n s (set_state s Follower) Hinv Hfind Hrun Hrole); try reflexivity.
    - repeat split.
    - apply (ys_fl _ _ _ _ _ _ _ _ Hnl).
    - right. reflexivity.
  Qed.

  Lemma cack_y B c sm C k c' : ylinv cfgs B (cg_l c) sm C -> yinfl (lg_g (cg_l c)) (cg_lead c) ->
    cstep true cfgs c (CAck k) = Some c' ->
    ylinv cfgs B (cg_l c') sm C /\ yinfl (lg_g (cg_l c')) (cg_lead c').
  Proof.
    intros Hinv Hy Hstep. apply cstep_ack_inv in Hstep.
    destruct Hstep as (a & m & n & ld0 & s & _ & _ & Hfind & Hfl & Hrun & Hrole & _ & _ & ->).
    assert (Hsame : forall ld', ld_infl ld' = ld_infl ld0 -> yinfl (lg_g (cg_l c)) (set_lead (cg_lead c) (am_from m) ld')).
    { intros ld' E. apply yinfl_set; [exact Hy|]. eapply infl_le_mono; [apply incl_refl| |apply (Hy _ _ Hfl)]. rewrite E. auto. }
    unfold ack_result. cbv zeta. destruct (aq_term (am_req m) <? ar_term (rs_resp a)).
    - cbn [cg_l cg_lead]. split; [apply stepdown_y; assumption|]. eapply yinfl_mono; [|(apply Hsame; reflexivity)]. simpl. apply incl_refl.
    - destruct (ar_success (rs_resp a)).
      + destruct (aq_entries (am_req m)) as [|e0 er]; cbn [cg_l cg_lead]; (split; [exact Hinv|]); [(apply Hsame; reflexivity)|].
        match goal with |- context [if ?b then _ else _] => destruct b end; (apply Hsame; reflexivity).
      + cbn [cg_l cg_lead]. split; [exact Hinv|(apply Hsame; reflexivity)].
  Qed.

  Lemma cgiveup_y B c sm C i j c' : ylinv cfgs B (cg_l c) sm C -> yinfl (lg_g (cg_l c)) (cg_lead c) ->
    cstep true cfgs c (CGiveUp i j) = Some c' ->
    ylinv cfgs B (cg_l c') sm C /\ yinfl (lg_g (cg_l c')) (cg_lead c').
  Proof.
    intros Hinv Hy Hstep. apply cstep_giveup_inv in Hstep. destruct Hstep as (n & ld & s & k & _ & Hfl & _ & _ & _ & ->).
    cbn [cg_l cg_lead]. split; [exact Hinv|]. apply yinfl_set; [exact Hy|].
    eapply infl_le_mono; [apply incl_refl| |apply (Hy _ _ Hfl)]. auto.
  Qed.

  Lemma ccommit_y B c sm C i c' : ylinv cfgs B (cg_l c) sm C -> yinfl (lg_g (cg_l c)) (cg_lead c) ->
    cstep true cfgs c (CCommit i) = Some c' ->
    ylinv cfgs B (cg_l c') sm C /\ yinfl (lg_g (cg_l c')) (cg_lead c').
  Proof.
    intros Hinv Hy Hstep. apply cstep_commit_inv in Hstep.
    destruct Hstep as (n & ld & s & ls2 & tr & res & Hf & Hfl & Hr & Hrole & _ & Hlc & ->).
    destruct (find_node_in _ _ _ Hf) as [Hin Hid]. unfold cnodes in *.
    destruct (yl_nodes cfgs B (cg_l c) sm C Hinv n Hin) as (Hnl & _). rewrite Hr in Hnl. simpl in Hnl.
    pose proof (leader_commit_ckeep _ _ _ _ Hlc) as (K & _). cbn [l_node] in K.
    pose proof K as (K1 & K2 & K3 & K4 & K5 & K6 & K7 & K8 & K9 & K10 & K11 & K12 & K13 & K14).
    pose proof (leader_commit_fsm s (ld_cm ld) (ld_infl ld) ls2 tr res (log_in_keys C _ _ (ys_in _ _ _ _ _ _ _ _ Hnl)) Hlc) as [Hinfl Hfsm].
    rewrite <- Hid in Hfl.
    destruct (infl_leader B (cg_l c) sm C n s ld Hinv Hin Hr Hrole (Hy _ _ Hfl)) as [L1 L2].
    pose proof (ynode_wfr cfgs B (cg_l c) sm C n Hinv Hin) as Hw. rewrite Hr in Hw. destruct Hw as [_ Hvt].
    cbn [cg_l cg_lead]. split.
    - apply (ylinv_volatile cfgs HQ B (cg_l c) sm C i n s (l_node ls2) Hinv Hf Hr Hrole K1 K7 (ckeep_lkeep _ _ K) K11); [|left; congruence].
      destruct Hfsm as [[_ E]|(_ & _ & [E|(e & _ & E & [(fid & He)|(j & He)])])]; try (rewrite E; apply (ys_fl _ _ _ _ _ _ _ _ Hnl)).
      + rewrite E. intros _. simpl. pose proof (L2 e fid He). lia.
      + rewrite E. intros _. simpl. destruct (ys_in _ _ _ _ _ _ _ _ Hnl j e He) as (_ & _ & Ht). exact Ht.
    - eapply yinfl_mono; [simpl; apply incl_refl|]. apply yinfl_set; [exact Hy|]. rewrite <- Hid.
      eapply infl_le_mono; [apply incl_refl| |apply (Hy _ _ Hfl)]. cbn [with_notified with_cm ld_infl]. exact Hinfl.
  Qed.

  Theorem cstep_y B c sm C l c' : ylinv cfgs B (cg_l c) sm C -> yinfl (lg_g (cg_l c)) (cg_lead c) ->
    cstep true cfgs c l = Some c' ->
    exists C' B', B <= B' /\ ylinv cfgs B' (cg_l c') sm C' /\ yinfl (lg_g (cg_l c')) (cg_lead c').
  Proof.
    intros Hinv Hy Hstep. destruct l as [bl|k|i j|i].
    - eapply cbase_y; eauto.
    - exists C, B. split; [lia|]. eapply cack_y; eauto.
    - exists C, B. split; [lia|]. eapply cgiveup_y; eauto.
    - exists C, B. split; [lia|]. eapply ccommit_y; eauto.
  Qed.
End Commit.
