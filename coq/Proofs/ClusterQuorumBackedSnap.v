(* ClusterQuorumBackedSnap.v — the invariant of Proofs/ClusterCommitSnapInv.v implies commit_backed_snap
   and own_term_rule_snap (Proofs/ClusterQuorumSpec.v): with takeSnapshot and compaction. *)
From Coq Require Import List NArith Bool Lia.
From stdpp Require Import gmap.
From RaftModel Require Import Base Config Compaction Commitment Node NodeCodec Candidate Leader Replicate Cluster ClusterLog ClusterCommit.
From RaftProofs Require Import ConfigProofs VoteProofs ClusterProofs
  ClusterLogSpec ClusterLogChain ClusterLogNode ClusterLogVote ClusterLogInv ClusterLogSteps
  ClusterCommitSpec ClusterCommitChain ClusterCommitNode ClusterCommitGhost ClusterCommitInv
  ClusterCommitSnapSpec ClusterCommitSnapLog ClusterCommitSnapNode ClusterCommitSnapLinv ClusterCommitSnapInv
  ClusterCommitSnapFinal ClusterQuorumSpec.
Open Scope N_scope.

Section Backed.
  Variable cfg : config.
  Variable Ps : list params.
  Hypothesis HV : NoDup (voters cfg).

  Variable g : cgstate.
  Variable C : chain.
  Variable LL : LLt.
  Variable A : At.
  Variable V : Vt.
  Hypothesis HI : zinv cfg Ps g C LL A V.

  Let Hci := zv_ci cfg Ps g C LL A V HI.
  Let Hvi := zv_vi cfg Ps g C LL A V HI.

  (* a key on the branch of T at or below a majority-accepted index is held, or covered by a snapshot,
     at every member of that majority *)
  Lemma zQA_held q T k0 : QA cfg A q T -> tchain C LL T k0 -> fst k0 <= q -> 1 <= fst k0 ->
    exists W, majority (voters cfg) W /\
      forall w, In w W -> exists n, In n (cnodes g) /\ gn_id n = w /\ covers C (image (gn_run n)) k0.
  Proof.
    intros HQ Htc Hq Hpos. pose proof HQ as (W & HW & HA).
    exists W. split; [exact HW|]. intros w Hw. destruct (HA w Hw) as (v & Hv & Hacc).
    destruct (zv_a1 cfg Ps g C LL A V HI w (v, T) Hacc) as (n & Hn & Hid & _).
    exists n. split; [exact Hn|]. split; [exact Hid|].
    destruct (vi_ac cfg C LL A V Hvi w (v, T) Hacc) as [Hcv (cT & tlT & HlT)]. simpl in HlT.
    assert (Hanc : anc C k0 (v, T)).
    { apply (tchain_linear C LL Hci T); [exact Htc|eapply tchain_created; eauto|simpl; lia]. }
    destruct (zv_av cfg Ps g C LL A V HI w (v, T) n k0 Hacc Hn Hid Hanc Hpos) as [Hh|(T2 & c2 & tl2 & Hl2 & Hlt & _ & Hna)]; [exact Hh|].
    exfalso. apply Hna. simpl in Hlt.
    apply (lc_core cfg C LL A V HV Hci Hvi q T k0 HQ Htc Hq T2 c2 tl2 Hl2 Hlt).
  Qed.

  Lemma znode_img_in n : In n (cnodes g) -> log_in C (logn n) (d_term (image (gn_run n))).
  Proof.
    intros Hin. pose proof (zv_l cfg Ps g C LL A V HI) as Hl.
    destruct (zl_nodes [cfg] (cg_l g) C Hl n Hin) as [Hn _].
    apply (znlog_image C _ (ci_ok C LL Hci)) in Hn. apply (zi_in _ _ _ _ Hn).
  Qed.

  Lemma covers_stores n w i e p : In n (cnodes g) -> gn_id n = w -> In (e, p) C -> e_idx e = i ->
    covers C (image (gn_run n)) (key e) -> stores_or_snap g w i e.
  Proof.
    intros Hn Hid Pe Ie Hc. exists n. split; [exact Hn|]. split; [exact Hid|].
    pose proof (ci_ok C LL Hci) as HC.
    destruct Hc as [(y & Hy & Ey)|(sn & Hsn & Ha)].
    - left. unfold key in Hy at 1. simpl in Hy. rewrite Ie in Hy.
      destruct (znode_img_in n Hn i y Hy) as (_ & (py & Py) & _).
      rewrite Hy. f_equal. apply (co_fun C HC y py e p Py Pe Ey).
    - right. exists sn. split; [exact Hsn|]. destruct (anc_le C _ _ HC Ha) as [Hle _].
      unfold key, sk in Hle. simpl in Hle. lia.
  Qed.

  Theorem zinv_commit_backed_snap : commit_backed_snap cfg g.
  Proof.
    intros a sa Ha Ra i e Hi He.
    pose proof (ci_ok C LL Hci) as HC.
    destruct (zv_kc cfg Ps g C LL A V HI a sa Ha Ra) as [_ Ka].
    destruct (znode_log_in cfg Ps g C LL A V HI a sa Ha Ra) as [Hza _].
    pose proof (zs_in _ _ _ _ _ _ Hza) as Lia.
    destruct (Lia i e He) as (Ie & (p & Pe) & _).
    destruct (Ka i e He Hi) as (T & q & _ & Q & Htc & Hq).
    assert (Hpos : 1 <= fst (key e)).
    { unfold key. simpl. rewrite Ie. apply (log_in_pos C _ _ i e HC Lia He). }
    destruct (zQA_held q T (key e) Q Htc Hq Hpos) as (W & HW & HH).
    exists W. split; [exact HW|]. intros w Hw. destruct (HH w Hw) as (n & Hn & Hid & Hh).
    apply (covers_stores n w i e p Hn Hid Pe Ie Hh).
  Qed.

  Theorem zinv_own_term_rule_snap : own_term_rule_snap cfg g.
  Proof.
    intros l sl ld Hl Rl Hrole Hfl.
    pose proof (ci_ok C LL Hci) as HC.
    destruct (zv_lead cfg Ps g C LL A V HI l sl Hl Rl Hrole)
      as [(tl & ld' & Hll & Hfl' & _ & _ & Hn0 & _ & _ & _ & Hcm & Hvc & _) _].
    rewrite Hfl in Hfl'. inversion Hfl'; subst ld'. clear Hfl'.
    destruct (N.lt_ge_cases (v_commit sl) (ld_next0 ld)) as [Hlt|Hge]; [left; exact Hlt|right].
    destruct Hvc as [Hvc|Hvc]; [lia|].
    destruct Hcm as [Hcm|[Hcm Q]]; [lia|].
    destruct (ci_noop C LL Hci _ _ _ Hll) as (x & Hx & Ext).
    destruct (co_idx C HC x tl Hx) as [Hxi _].
    assert (Htc : tchain C LL (v_term sl) (key x)).
    { apply (tchain_created C LL (v_term sl) (gn_id l) tl); [exact Hll|exists x, tl; auto|exact Ext]. }
    assert (Hi : e_idx x = ld_next0 ld) by lia.
    destruct (zQA_held (cm_commit (ld_cm ld)) (v_term sl) (key x) Q Htc) as (W & HW & HH).
    { unfold key. simpl. lia. }
    { unfold key. simpl. lia. }
    exists W. split; [exact HW|]. intros w Hw. destruct (HH w Hw) as (n & Hn & Hid & Hh).
    exists x. split; [exact Ext|]. apply (covers_stores n w (ld_next0 ld) x tl Hn Hid Hx Hi Hh).
  Qed.
End Backed.
