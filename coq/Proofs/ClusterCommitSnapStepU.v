(* ClusterCommitSnapStepU.v — takeSnapshot with its compaction at one server (GInput j NSnapshot) keeps the
   invariant: the snapshot is taken at a committed key of the server's branch, the compaction removes
   log entries that the new snapshot covers. *)
From Coq Require Import List NArith Bool Lia.
From stdpp Require Import gmap.
From RaftModel Require Import Base Config Compaction Commitment Node NodeCodec Candidate Leader Replicate Cluster ClusterLog ClusterCommit.
From RaftProofs Require Import ConfigProofs CommitmentProofs VoteProofs AppendProofs ClusterProofs
  ClusterLogSpec ClusterLogChain ClusterLogNode ClusterLogVote ClusterLogLeader ClusterLogInv ClusterLogSteps
  ClusterCommitSpec ClusterCommitLog ClusterCommitChain ClusterCommitNode ClusterCommitGhost
  ClusterCommitInv ClusterCommitUpd ClusterCommitStepA ClusterCommitStepG ClusterCommitStepP
  ClusterCommitSnapLog ClusterCommitSnapBoot ClusterCommitSnapAE2 ClusterCommitSnapTake ClusterCommitSnapNode ClusterCommitSnapNode3
  ClusterCommitSnapLinv ClusterCommitSnapInv ClusterCommitSnapFinal ClusterCommitSnapUpd ClusterCommitSnapStepA ClusterCommitSnapStepD ClusterCommitSnapStepK.
Open Scope N_scope.

Lemma m_lookup_del (m : gmap N entry) lo hi i x : m !! i = Some x -> log_delete m lo hi !! i = Some x \/ (lo <= i /\ i <= hi).
Proof.
  intros Hx. rewrite log_delete_lookup. destruct (N.leb_spec lo i); [|left; exact Hx]. destruct (N.leb_spec i hi); [right; lia|left; exact Hx].
Qed.

Section StepU.
  Variable cfg : config.
  Variable Ps : list params.
  Hypothesis HVn : NoDup (voters cfg).
  Let HQ := quorums_intersect_one' cfg HVn.

  (* what takeSnapshot reads: the FSM position is a committed key of the server's branch *)
  Lemma fsm_facts g C LL A V n s : zinv cfg Ps g C LL A V -> In n (cnodes g) -> gn_run n = Up s -> fst (v_fsmLast s) <> 0 ->
    created C (v_fsmLast s) /\ snd (v_fsmLast s) <= d_term s /\ anc C (v_fsmLast s) (last_entry s) /\
    v_lastSnapIdx s <= fst (v_fsmLast s) /\ CK cfg C LL A (d_term s) (v_fsmLast s) /\ fst (v_fsmLast s) <= N.max (v_commit s) (v_lastSnapIdx s).
  Proof.
    intros HI Hin Hr Hnz. destruct (zv_fsm cfg Ps g C LL A V HI n s Hin Hr) as [E|[F1 F2]]; [contradiction|].
    pose proof (zv_node cfg Ps g C LL A V HI n Hin) as (_ & _ & Hn). rewrite Hr in Hn.
    pose proof (zn_fa cfg Ps s Hn). pose proof (zn_ac cfg Ps s Hn).
    assert (Hle : fst (v_fsmLast s) <= N.max (v_commit s) (v_lastSnapIdx s)) by lia.
    split; [exact F1|]. split; [apply (zCK_term cfg Ps g C LL A V HI _ _ F2)|]. split.
    - apply (CK_below_last cfg Ps HVn g C LL A V HI n s _ _ Hin Hr F2); [lia|exact Hle].
    - split; [|split; [exact F2|exact Hle]]. destruct (zn_fs cfg Ps s Hn) as [E|H']; [contradiction|exact H'].
  Qed.

  (* the last entry of the server does not move *)
  Lemma snap_last g C LL A V n s s' : zinv cfg Ps g C LL A V -> In n (cnodes g) -> gn_run n = Up s -> snap_done s s' ->
    last_entry s' = last_entry s.
  Proof.
    intros HI Hin Hr [->|(Hnz & m' & -> & _)]; [reflexivity|]. unfold last_entry.
    cbn [v_lastSnapIdx v_lastSnapTerm v_lastLogIdx v_lastLogTerm set_log set_lastsnap set_snaps].
    destruct (fsm_facts g C LL A V n s HI Hin Hr Hnz) as (_ & _ & _ & F4 & F5 & F6).
    destruct (zv_kc cfg Ps g C LL A V HI n s Hin Hr) as [K1 _]. unfold last_index in K1.
    destruct (N.leb_spec (v_lastSnapIdx s) (v_lastLogIdx s)) as [Ho|Ho].
    - destruct (N.leb_spec (fst (v_fsmLast s)) (v_lastLogIdx s)); [reflexivity|lia].
    - assert (Ei : fst (v_fsmLast s) = v_lastSnapIdx s) by lia.
      destruct (bk_CK cfg Ps g C LL A V HI n s Hin Hr) as [E0|Hb]; [lia|].
      pose proof (zCK_same_idx cfg Ps HVn g C LL A V HI _ _ _ _ F5 Hb Ei) as E. rewrite bk_pos in E by lia. rewrite E. simpl.
      destruct (N.leb_spec (v_lastSnapIdx s) (v_lastLogIdx s)); [lia|reflexivity].
  Qed.

  (* what the server covered before is covered afterwards *)
  Lemma snap_covers g C LL A V n s m' sns' k0 : zinv cfg Ps g C LL A V -> In n (cnodes g) -> gn_run n = Up s ->
    snap_eff s m' sns' -> 1 <= fst k0 -> covers C s k0 ->
    holds m' k0 \/ exists sn, In sn sns' /\ anc C k0 (sk sn).
  Proof.
    intros HI Hin Hr He Hpos Hc. pose proof (ci_ok C LL (zv_ci cfg Ps g C LL A V HI)) as HC.
    destruct He as [[-> ->]|(Hnz & -> & Hm)]; [exact Hc|].
    destruct Hc as [(x & Hx & Ex)|(sn & Hsn & Ha)]; [|right; exists sn; split; [apply in_app_iff; left; exact Hsn|exact Ha]].
    destruct Hm as [->|(lo & hi & -> & Hhi)]; [left; exists x; auto|].
    destruct (m_lookup_del (d_log s) lo hi (fst k0) x Hx) as [H|[H1 H2]]; [left; exists x; auto|right].
    exists (snap_of s). split; [apply in_app_iff; right; left; reflexivity|].
    destruct (fsm_facts g C LL A V n s HI Hin Hr Hnz) as (_ & _ & F3 & _).
    destruct (znode_log_in cfg Ps g C LL A V HI n s Hin Hr) as [Hz _].
    assert (Esk : sk (snap_of s) = v_fsmLast s) by (unfold sk, snap_of; simpl; destruct (v_fsmLast s); reflexivity).
    rewrite Esk. rewrite last_entry_lk in F3. rewrite <- Ex.
    apply (anc_linear C (key x) (v_fsmLast s) _ HC (zshape_log_lk C _ _ _ _ _ Hz _ x Hx) F3).
    destruct (zs_in _ _ _ _ _ _ Hz _ x Hx) as (Ix & _). unfold key. simpl. lia.
  Qed.
  (* the target is running *)
  Lemma zinv_snapshot_up g g' C LL A V j nj s cut fs r' ob out :
    zinv cfg Ps g C LL A V -> find_node (cnodes g) j = Some nj -> gn_run nj = Up s ->
    step_full (gn_P nj) (Up s) NSnapshot cut fs = (r', ob, out) ->
    cnodes g' = upd_node (cnodes g) j (mkGN (gn_P nj) r' (keep_sess r' (gn_sess nj)) (gn_next nj)) ->
    zlinv [cfg] (cg_l g') C -> lg_msgs (cg_l g') = lg_msgs (cg_l g) -> cg_ans g' = cg_ans g ->
    cg_lead g' = cg_lead g -> g_leaders (gof g') = g_leaders (gof g) -> g_grants (gof g') = g_grants (gof g) ->
    zinv cfg Ps g' C LL A V.
  Proof.
    intros HI Hf Hr Hsf Hnodes Hl' Hmsgs Hans Hleads Hld Hgr.
    destruct (find_node_in _ _ _ Hf) as [Hin Hid].
    pose proof (zv_ci cfg Ps g C LL A V HI) as Hci. pose proof (ci_ok C LL Hci) as HC.
    pose proof (zinv_pclosed cfg Ps g C LL A V HI) as Hp.
    destruct (znode_log_in cfg Ps g C LL A V HI nj s Hin Hr) as [Hz Hw].
    pose proof (zv_node cfg Ps g C LL A V HI nj Hin) as Hcn. rewrite Hr in Hcn. pose proof Hcn as (_ & _ & Hup).
    assert (Hfsm : fst (v_fsmLast s) <> 0 -> created C (v_fsmLast s) /\ snd (v_fsmLast s) <= d_term s /\
              anc C (v_fsmLast s) (last_entry s) /\ v_lastSnapIdx s <= fst (v_fsmLast s)).
    { intros Hnz. destruct (fsm_facts g C LL A V nj s HI Hin Hr Hnz) as (F1 & F2 & F3 & F4 & _). auto. }
    destruct (snapshot_step_z cfg Ps C (gn_P nj) s cut fs r' ob out HC Hp Hz Hcn Hfsm Hsf) as (Hnl' & Hcn' & Hdt' & Heff & Hcase & Hob).
    set (nj' := mkGN (gn_P nj) r' (keep_sess r' (gn_sess nj)) (gn_next nj)) in *.
    (* the new snapshot, if any, is taken at a committed key *)
    assert (Hsk : forall sn, In sn (d_snaps (image r')) -> CK cfg C LL A (d_term s) (sk sn)).
    { intros sn Hsn. destruct Heff as [[_ E]|(Hnz & E & _)]; rewrite E in Hsn.
      - pose proof (zv_sk cfg Ps g C LL A V HI nj sn Hin) as H. unfold dtn in H. rewrite Hr in H. apply H, Hsn.
      - apply in_app_iff in Hsn. destruct Hsn as [Hsn|[<-|[]]].
        + pose proof (zv_sk cfg Ps g C LL A V HI nj sn Hin) as H. unfold dtn in H. rewrite Hr in H. apply H, Hsn.
        + destruct (fsm_facts g C LL A V nj s HI Hin Hr Hnz) as (_ & _ & _ & _ & F5 & _).
          assert (Esk : sk (snap_of s) = v_fsmLast s) by (unfold sk, snap_of; simpl; destruct (v_fsmLast s); reflexivity).
          rewrite Esk. exact F5. }
    apply (zinv_update cfg Ps HVn g g' C [] LL [] A [] V [] j nj nj' HI Hf Hid Hnodes) with (mn := []) (an := []) (Gn := []).
    - unfold dtn. rewrite Hr. cbn [nj' gn_run]. rewrite Hdt'. simpl. lia.
    - exact Hl'.
    - exact Hci.
    - intros w T' c kw rq k k0 [].
    - intros w T' c kw rq k k0 _ [].
    - intros T' c tl' [].
    - intros w T' c kw rq [].
    - intros w k [].
    - exact Hcn'.
    - (* commit knowledge *)
      intros s' Hs'. cbn [nj' gn_run] in Hs'. subst r'. destruct Hcase as [(Hc0 & _)|[->|(Hnz & m' & -> & Hm)]].
      + rewrite Hc0. split; [lia|]. intros i e He Hi. exfalso. simpl in Hnl'. pose proof (log_in_pos C _ _ i e HC (zs_in _ _ _ _ _ _ Hnl') He). lia.
      + apply (zv_kc cfg Ps g C LL A V HI nj s Hin Hr).
      + destruct (zv_kc cfg Ps g C LL A V HI nj s Hin Hr) as [K1 K2]. unfold last_index in *.
        cbn [v_commit v_lastLogIdx v_lastSnapIdx d_log d_term set_log set_lastsnap set_snaps]. split.
        * destruct (Hfsm Hnz) as (_ & _ & _ & F4). lia.
        * intros i e He Hi. apply (K2 i e); [|exact Hi]. cbn [image d_log set_log set_lastsnap set_snaps] in Heff. apply (snap_eff_sub s _ _ Heff i e He).
    - intros sn Hsn. cbn [nj' gn_run] in Hsn. unfold dtn. cbn [nj' gn_run]. rewrite Hdt'. apply Hsk, Hsn.
    - (* the position of the FSM *)
      intros s' Hs'. cbn [nj' gn_run] in Hs'. subst r'. destruct Hcase as [(_ & _ & Hf0 & _)|[->|(Hnz & m' & -> & Hm)]]; [left; rewrite Hf0; reflexivity|apply (zv_fsm cfg Ps g C LL A V HI nj s Hin Hr)|].
      cbn [v_fsmLast d_term set_log set_lastsnap set_snaps]. apply (zv_fsm cfg Ps g C LL A V HI nj s Hin Hr).
    - rewrite Hmsgs, app_nil_r. reflexivity.
    - intros m [].
    - rewrite Hans, app_nil_r. reflexivity.
    - intros x [].
    - intros w k [].
    - (* what the server accepted before *)
      intros k k0 Ha Hanc Hpos. rewrite <- Hid in Ha. cbn [nj' gn_run].
      destruct (zv_av cfg Ps g C LL A V HI (gn_id nj) k nj k0 Ha Hin eq_refl Hanc Hpos) as [H|(T2 & c2 & tl2 & H1 & H2 & H3 & H4)].
      + left. rewrite Hr in H. simpl in H. apply (snap_covers g C LL A V nj s _ _ k0 HI Hin Hr Heff Hpos H).
      + right. exists T2, c2, tl2. split; [exact H1|]. split; [exact H2|]. split; [|exact H4].
        unfold dtn in *. rewrite Hr in H3. cbn [nj' gn_run]. rewrite Hdt'. exact H3.
    - intros w k x k0 [].
    - intros w T' c kw rq [].
    - intros se' Hse'. left. exists se'. split; [|reflexivity]. cbn [nj' gn_sess] in Hse'. unfold keep_sess in Hse'.
      destruct r' as [s'|s']; [|discriminate]. destruct (gn_sess nj); [|discriminate]. destruct (v_role s' =? Candidate); [exact Hse'|discriminate].
    - intros w T' c kw rq xc se [].
    - rewrite Hgr. reflexivity.
    - intros w T' c [].
    - (* a runCandidate invocation that goes on *)
      intros se Hse. cbn [nj' gn_sess gn_run] in *. unfold keep_sess in Hse.
      destruct r' as [s'|s']; [|discriminate]. destruct (gn_sess nj) as [se0|] eqn:Es0; [|discriminate].
      destruct (N.eqb_spec (v_role s') Candidate) as [Hrc|]; [|discriminate]. inversion Hse; subst se0.
      exists s'. split; [reflexivity|].
      destruct (zv_se cfg Ps g C LL A V HI nj se Hin Es0) as (s0 & Hs0 & Hcase0). rewrite Hr in Hs0. inversion Hs0; subst s0.
      destruct Hcase as [(_ & Hf0 & _)|Hsd]; [rewrite Hf0 in Hrc; discriminate|].
      rewrite (snap_last g C LL A V nj s s' HI Hin Hr Hsd). exact Hcase0.
    - (* the handler does not vote *)
      intros T' c Hlv. cbn [nj' gn_run] in Hlv.
      pose proof (step_good (gn_P nj) (Up s) NSnapshot cut fs Hw) as Hg. rewrite Hsf in Hg. destruct Hg as (_ & (_ & _ & _ & Hcast) & _).
      destruct (live_dec_o (live (image (Up s))) (Some (T', c))) as [Eo|No].
      + destruct (zv_live cfg Ps g C LL A V HI nj T' c Hin) as [(kw & rq & H)|H]; [rewrite Hr; exact Eo| |right; exact H].
        left. exists kw, rq. rewrite <- Hid. exact H.
      + exfalso. destruct (Hcast T' c Hlv No) as [(q & Eq & _)|(Eq & _)]; discriminate.
    - rewrite Hld. apply (zv_ll cfg Ps g C LL A V HI).
    - intros i _. rewrite Hleads. reflexivity.
    - intros y p [].
    - (* still a leader *)
      intros s' Hs' Hrole'. cbn [nj' gn_run] in Hs'. subst r'.
      destruct Hcase as [(_ & Hf0 & _)|Hsd]; [rewrite Hf0 in Hrole'; discriminate|].
      assert (Hsame : v_role s' = v_role s /\ v_term s' = v_term s /\ topk s' = topk s /\ v_commit s' = v_commit s /\ v_lastLogIdx s' = v_lastLogIdx s /\
                (v_lastSnapIdx s' = v_lastSnapIdx s \/ (fst (v_fsmLast s) <> 0 /\ v_lastSnapIdx s' = fst (v_fsmLast s)))).
      { destruct Hsd as [->|(Hnz & m' & -> & _)]; [auto 10|]. cbn. auto 10. }
      destruct Hsame as (S1 & S2 & S3 & S4 & S5 & S6). rewrite S1 in Hrole'.
      destruct (zv_lead cfg Ps g C LL A V HI nj s Hin Hr Hrole') as [(tl & ld & L1 & L2 & L3 & L4 & L5 & L6 & L7 & L8 & L9 & L10 & L11) [Z1 Z2]].
      split; [|split].
      + exists tl, ld. change (gn_id nj') with (gn_id nj). rewrite Hleads, S2, S3, S4. cbn [app].
        split; [exact L1|]. split; [exact L2|]. split; [exact L3|]. split; [unfold topk in S3; congruence|]. split; [exact L5|]. split; [exact L6|].
        split; [exact L7|]. split; [exact L8|]. split; [exact L9|]. split; [exact L10|exact L11].
      + rewrite S5. destruct S6 as [-> |[Hnz ->]]; [exact Z1|].
        destruct (fsm_facts g C LL A V nj s HI Hin Hr Hnz) as (_ & _ & _ & _ & _ & F6).
        destruct (zv_kc cfg Ps g C LL A V HI nj s Hin Hr) as [K1 _]. unfold last_index in K1. lia.
      + change (gn_id nj') with (gn_id nj). rewrite Hleads. cbn [app]. intros ldx Hx e fid He. rewrite S2. apply (Z2 ldx Hx e fid He).
  Qed.
  Theorem zinv_snapshot sn g C LL A V j cut fs g' : zinv cfg Ps g C LL A V ->
    cstep sn [cfg] g (CBase (LElect (GInput j NSnapshot cut fs))) = Some g' -> zinv cfg Ps g' C LL A V.
  Proof.
    intros HI Hstep. apply cstep_base_inv in Hstep. destruct Hstep as (_ & l' & Hl & ->).
    pose proof (zv_l cfg Ps g C LL A V HI) as Hlinv. pose proof (ci_ok C LL (zv_ci cfg Ps g C LL A V HI)) as HC.
    unfold lstep, ClusterLog.label_ok in Hl. destruct (input_ok sn NSnapshot); [|discriminate].
    destruct (gstep [cfg] (lg_g (cg_l g)) (GInput j NSnapshot cut fs)) as [g1|] eqn:Hg; [|discriminate].
    inversion Hl; subst l'. clear Hl.
    pose proof (gstep_inv [cfg] _ _ _ (zl_g [cfg] _ C Hlinv) Hg) as Hg1.
    unfold gstep in Hg. fold (cnodes g) in Hg.
    destruct (find_node (cnodes g) j) as [nj|] eqn:Hfj; [|discriminate].
    destruct (step_full (gn_P nj) (gn_run nj) NSnapshot cut fs) as [[r' ob] out] eqn:Hsf.
    inversion Hg; subst g1. clear Hg.
    destruct (find_node_in _ _ _ Hfj) as [Hinj Hidj].
    cbn [lg_g g_nodes base_leads base_hb base_ans].
    destruct (gn_run nj) as [s|sd] eqn:Hr.
    - (* the server is running *)
      pose proof (zv_node cfg Ps g C LL A V HI nj Hinj) as Hcn. rewrite Hr in Hcn.
      destruct (znode_log_in cfg Ps g C LL A V HI nj s Hinj Hr) as [Hz Hw].
      assert (Hfsm : fst (v_fsmLast s) <> 0 -> created C (v_fsmLast s) /\ snd (v_fsmLast s) <= d_term s /\
                anc C (v_fsmLast s) (last_entry s) /\ v_lastSnapIdx s <= fst (v_fsmLast s)).
      { intros Hnz. destruct (fsm_facts g C LL A V nj s HI Hinj Hr Hnz) as (F1 & F2 & F3 & F4 & _). auto. }
      destruct (snapshot_step_z cfg Ps C (gn_P nj) s cut fs r' ob out HC (zinv_pclosed cfg Ps g C LL A V HI) Hz Hcn Hfsm Hsf) as (Hnl' & _ & _ & _ & Hcase & Hob).
      assert (Hgg : grant_ghost j ob = []) by (destruct Hob as [-> | ->]; reflexivity). rewrite Hgg. cbn [app].
      assert (Hlead' : forall s', r' = Up s' -> v_role s' = Leader -> v_role s = Leader /\ v_term s' = v_term s /\ v_lastLogIdx s' = v_lastLogIdx s).
      { intros s' -> Hrole. destruct Hcase as [(_ & Hf0 & _)|[->|(Hnz & m' & -> & _)]]; [rewrite Hf0 in Hrole; discriminate|auto|auto]. }
      assert (Hl1 : zlinv [cfg] (mkLG (mkG (upd_node (cnodes g) j (mkGN (gn_P nj) r' (keep_sess r' (gn_sess nj)) (gn_next nj)))
                 (g_resps (lg_g (cg_l g))) (g_leaders (lg_g (cg_l g))) (g_grants (lg_g (cg_l g)))) (lg_msgs (cg_l g))) C).
      { rewrite Hgg in Hg1. rewrite <- Hr in Hsf. apply (zhandler_linv [cfg] HQ (cg_l g) C j nj _ cut fs r' ob out _ Hlinv Hfj Hsf Hg1 eq_refl eq_refl).
        split; [exact Hnl'|]. intros s' Hs' Hrole. destruct (Hlead' s' Hs' Hrole) as (A1 & A2 & A3). exists s. auto. }
      rewrite (refresh_handler (cnodes g) j nj r' _ (znodes_nodup cfg Ps g C LL A V HI) Hfj).
      2:{ intros s' E Hrole. destruct (Hlead' s' E Hrole) as (A1 & _). rewrite Hr. exact A1. }
      eapply (zinv_snapshot_up g _ C LL A V j nj s cut fs r' ob out HI Hfj Hr Hsf); try reflexivity. exact Hl1.
    - (* the server is down: nothing happens *)
      simpl in Hsf. inversion Hsf; subst r' ob out. cbn [grant_ghost app].
      assert (Hl1 : zlinv [cfg] (mkLG (mkG (upd_node (cnodes g) j (mkGN (gn_P nj) (Down sd) (keep_sess (Down sd) (gn_sess nj)) (gn_next nj)))
                 (g_resps (lg_g (cg_l g))) (g_leaders (lg_g (cg_l g))) (g_grants (lg_g (cg_l g)))) (lg_msgs (cg_l g))) C).
      { assert (Hsf' : step_full (gn_P nj) (gn_run nj) NSnapshot cut fs = (Down sd, ONone, [0])) by (rewrite Hr; reflexivity).
        apply (zhandler_linv [cfg] HQ (cg_l g) C j nj _ cut fs (Down sd) ONone [0] _ Hlinv Hfj Hsf' Hg1 eq_refl eq_refl).
        split; [|intros s' H; discriminate]. destruct (zl_nodes [cfg] _ C Hlinv nj Hinj) as [H _]. rewrite Hr in H. exact H. }
      rewrite (refresh_handler (cnodes g) j nj (Down sd) _ (znodes_nodup cfg Ps g C LL A V HI) Hfj) by (intros s' H; discriminate).
      set (nj' := mkGN (gn_P nj) (Down sd) (keep_sess (Down sd) (gn_sess nj)) (gn_next nj)).
      match goal with |- zinv _ _ ?G _ _ _ _ => set (g' := G) end.
      change V with ([] ++ V).
      apply (zinv_quiet cfg Ps HVn g g' C LL A V [] [] j nj nj' HI Hfj Hidj eq_refl Hl1).
      + rewrite Hr. apply quietS_refl.
      + pose proof (zv_node cfg Ps g C LL A V HI nj Hinj) as Hcn. rewrite Hr in Hcn. exact Hcn.
      + reflexivity.
      + reflexivity.
      + reflexivity.
      + reflexivity.
      + intros i _. reflexivity.
      + intros se' H. discriminate.
      + intros se H. discriminate.
      + intros s' H. discriminate.
      + intros w T' c kw rq kk k0 [].
      + intros w T' c kw rq [].
      + intros w T' c kw rq [].
      + intros w T' c kw rq xc se [].
      + intros w T' c [].
      + intros T' c Hlv. cbn [nj' gn_run image] in Hlv.
        destruct (zv_live cfg Ps g C LL A V HI nj T' c Hinj) as [(kw & rq & H)|H]; [rewrite Hr; exact Hlv| |right; exact H].
        left. exists kw, rq. rewrite <- Hidj. exact H.
  Qed.
End StepU.
