(* ClusterCommitNode3.v — the leader-side events at one server keep the per-server invariant:
   dispatchLogs of one entry (also the no-op of a new leader), the commitCh case of leaderLoop,
   stepping down, and the states runCandidate moves through. *)
From Coq Require Import List NArith Bool Lia.
From stdpp Require Import gmap.
From RaftModel Require Import Base Config Compaction Commitment Node NodeCodec Candidate Leader Cluster ClusterLog ClusterCommit.
From RaftProofs Require Import VoteProofs AdvLeaderProofs AppendProofs RecoverProofs ClusterProofs
  ClusterLogSpec ClusterLogChain ClusterLogNode ClusterLogCut ClusterLogVote ClusterLogAppend ClusterLogLeader
  ClusterCommitSpec ClusterCommitInit ClusterCommitChain ClusterCommitAE ClusterCommitAE2 ClusterCommitNode ClusterCommitLog.
Open Scope N_scope.

(* dispatchLogs of one entry, with any commitment / inflight list *)
Lemma dispatch_one_full P s cm infl fs ty data fid :
  let '(ls', _, _, _) := dispatch P (mkLS s cm infl) fs [(ty, data, fid)] in
  let s' := l_node ls' in
  let e := new_entry s ty data in
  l_node (fst (fst (fst (dispatch P (leader_setup s) fs [(ty, data, fid)])))) = s' /\
  v_commit s' = v_commit s /\ v_applied s' = v_applied s /\ v_latest s' = v_latest s /\ v_committed s' = v_committed s /\
  l_inflight ls' = infl ++ [(e, fid)] /\
  ((fst (next_fail fs) = true /\ l_cm ls' = cm) \/
   (fst (next_fail fs) = false /\ l_cm ls' = cm_step cm (CMatch (p_self P) (e_idx e)))).
Proof.
  unfold dispatch, leader_setup. cbn [l_node l_inflight l_cm number_logs map fst snd app].
  fold (new_entry s ty data).
  assert (K : let s1 := fst (do_stage P s (v_commit s)) in
              v_commit s1 = v_commit s /\ v_applied s1 = v_applied s /\ v_latest s1 = v_latest s /\ v_committed s1 = v_committed s).
  { unfold do_stage. destruct (p_track P); simpl; repeat split. }
  destruct (do_stage P s (v_commit s)) as [s1 trs]. cbv zeta in K. simpl in K. destruct K as (K1 & K2 & K3 & K4).
  unfold do_store. destruct (next_fail fs) as [f fs']. destruct f; cbn [negb fst snd l_node l_cm l_inflight].
  - split; [reflexivity|]. repeat (split; [assumption|]). split; [reflexivity|]. left. auto.
  - split; [reflexivity|]. cbn. repeat (split; [assumption|]). split; [reflexivity|]. right. auto.
Qed.

Section LeaderSteps.
  Variable cfg : config.
  Variable Ps : list params.

  (* the leader stored the new entry e right after its last index *)
  Lemma append_cnode_up s s' e : cnode_up cfg Ps s -> dec_ok cfg Ps e -> e_idx e = v_lastLogIdx s + 1 ->
    d_log s' = log_store (d_log s) [e] -> v_lastLogIdx s' = e_idx e ->
    v_commit s' = v_commit s -> v_applied s' = v_applied s -> v_latest s' = v_latest s -> v_committed s' = v_committed s ->
    cnode_up cfg Ps s'.
  Proof.
    intros (Hlc & Hdec & Htop & Hl & Hcm & Hac) Hde Hi Hlog Hci K1 K2 K3 K4.
    assert (Hc : contig (v_lastLogIdx s) [e]) by (simpl; auto).
    destruct (store_after_top (d_log s) (v_lastLogIdx s) [e] Hlc Htop Hc ltac:(discriminate)) as [A B].
    unfold cnode_up. rewrite Hlog, Hci, K1, K2, K3, K4. split; [exact A|]. split.
    { intros i x Hx. rewrite log_store_one in Hx. destruct (e_idx e =? i); [inversion Hx; subst; exact Hde|apply (Hdec i x Hx)]. }
    split; [exact B|]. auto.
  Qed.

  (* the commitCh case: only commitIndex, lastApplied and the committed configuration move *)
  Lemma commit_cnode_up s cm infl ls2 tr res : cnode_up cfg Ps s -> v_commit s <= cm_commit cm ->
    leader_commit (mkLS s cm infl) = Some (ls2, tr, res) -> cnode_up cfg Ps (l_node ls2).
  Proof.
    intros (Hlc & Hdec & Htop & Hl & Hcm & Hac) Hle H. apply leader_commit_ckeep in H. cbn [l_node l_cm] in H.
    destruct H as (K & Kc & _ & Kcc & Ka). unfold ckeep in K. decompose [and] K. clear K.
    unfold cnode_up. rewrite H1, H6, H10. split; [exact Hlc|]. split; [exact Hdec|]. split; [exact Htop|]. split; [exact Hl|].
    split; [destruct Kcc as [-> | ->]; assumption|]. rewrite Kc. destruct Ka as [-> | Ka]; lia.
  Qed.
End LeaderSteps.
