(* ClusterCommitSnapFinal.v — the invariant of Proofs/ClusterCommitSnapInv.v implies the statements of
   Proofs/ClusterCommitSnapSpec.v; facts about committed keys used by the step lemmas. *)
From Coq Require Import List NArith Bool Lia.
From stdpp Require Import gmap.
From RaftModel Require Import Base Config Compaction Commitment Node NodeCodec Candidate Leader Replicate Cluster ClusterLog ClusterCommit.
From RaftProofs Require Import ConfigProofs VoteProofs ClusterProofs
  ClusterLogSpec ClusterLogChain ClusterLogNode ClusterLogVote ClusterLogInv ClusterLogSteps
  ClusterCommitSpec ClusterCommitChain ClusterCommitNode ClusterCommitGhost ClusterCommitInv
  ClusterCommitSnapSpec ClusterCommitSnapLog ClusterCommitSnapNode ClusterCommitSnapLinv ClusterCommitSnapInv.
Open Scope N_scope.

Section Final.
  Variable cfg : config.
  Variable Ps : list params.
  Hypothesis HV : NoDup (voters cfg).

  Variable g : cgstate.
  Variable C : chain.
  Variable LL : LLt.
  Variable A : At.
  Variable V : Vt.
  Hypothesis HI : zinv cfg Ps g C LL A V.

  Let Hci := zv_ci cfg Ps g C LL A V HI.
  Let Hvi := zv_vi cfg Ps g C LL A V HI.

  Lemma zCK_mono b b' k : b <= b' -> CK cfg C LL A b k -> CK cfg C LL A b' k.
  Proof. intros Hb (T & q & H1 & H2). exists T, q. split; [lia|exact H2]. Qed.

  Lemma zCK_anc b k k0 : CK cfg C LL A b k -> anc C k0 k -> CK cfg C LL A b k0.
  Proof.
    intros (T & q & H1 & H2 & H3 & H4) Ha. exists T, q. split; [exact H1|]. split; [exact H2|].
    split; [apply (tchain_anc C LL Hci T k k0 H3 Ha)|]. destruct (anc_le C k0 k (ci_ok C LL Hci) Ha). lia.
  Qed.

  (* keys known to be committed lie on one branch *)
  Lemma zCK_linear b1 b2 k1 k2 : CK cfg C LL A b1 k1 -> CK cfg C LL A b2 k2 -> fst k1 <= fst k2 -> anc C k1 k2.
  Proof.
    intros (T1 & q1 & _ & Q1 & H1 & L1) (T2 & q2 & _ & Q2 & H2 & L2) E.
    destruct (N.lt_trichotomy T1 T2) as [Hlt|[->|Hlt]].
    - destruct H2 as (c2 & tl2 & Hl2 & H2).
      pose proof (lc_core cfg C LL A V HV Hci Hvi q1 T1 k1 Q1 H1 L1 T2 c2 tl2 Hl2 Hlt) as Ha.
      apply (tchain_linear C LL Hci T2); [exists c2, tl2; auto|exists c2, tl2; auto|exact E].
    - apply (tchain_linear C LL Hci T2); assumption.
    - destruct H1 as (c1 & tl1 & Hl1 & H1).
      pose proof (lc_core cfg C LL A V HV Hci Hvi q2 T2 k2 Q2 H2 L2 T1 c1 tl1 Hl1 Hlt) as Ha.
      apply (tchain_linear C LL Hci T1); [exists c1, tl1; auto|exists c1, tl1; auto|exact E].
  Qed.

  Lemma zCK_same_idx b1 b2 k1 k2 : CK cfg C LL A b1 k1 -> CK cfg C LL A b2 k2 -> fst k1 = fst k2 -> k1 = k2.
  Proof.
    intros H1 H2 E. apply (anc_idx_eq C k1 k2 (ci_ok C LL Hci)); [|exact E]. apply (zCK_linear b1 b2); auto. lia.
  Qed.

  Lemma zinv_pclosed : pclosed C.
  Proof. exact (ci_pred C LL Hci). Qed.

  Lemma znode_log_in n s : In n (cnodes g) -> gn_run n = Up s -> zup C s /\ wfu s.
  Proof.
    intros Hin Hr. pose proof (zv_l cfg Ps g C LL A V HI) as Hl.
    destruct (zl_nodes [cfg] (cg_l g) C Hl n Hin) as [Hn _]. rewrite Hr in Hn.
    pose proof (znode_wfr [cfg] (cg_l g) C n Hl Hin) as Hw. rewrite Hr in Hw. auto.
  Qed.

  (* the snapshot boundary of a running server is a committed key *)
  Lemma bk_CK n s : In n (cnodes g) -> gn_run n = Up s -> v_lastSnapIdx s = 0 \/ CK cfg C LL A (d_term s) (bk s).
  Proof.
    intros Hin Hr. destruct (znode_log_in n s Hin Hr) as [Hz _].
    destruct (zs_has _ _ _ _ _ _ Hz) as [E|(sn & Hsn & E)]; [left; rewrite <- bk_fst; exact E|right].
    rewrite <- E. pose proof (zv_sk cfg Ps g C LL A V HI n sn Hin) as H. unfold dtn in H. rewrite Hr in H. apply H, Hsn.
  Qed.

  (* so is everything the log holds at or below the boundary, or at or below the commit index *)
  Lemma held_CK n s i e : In n (cnodes g) -> gn_run n = Up s -> d_log s !! i = Some e ->
    i <= N.max (v_commit s) (v_lastSnapIdx s) -> CK cfg C LL A (d_term s) (key e).
  Proof.
    intros Hin Hr He Hi. destruct (zv_kc cfg Ps g C LL A V HI n s Hin Hr) as [_ K].
    destruct (N.le_gt_cases i (v_commit s)) as [Hc|Hc]; [apply (K i e He Hc)|].
    destruct (znode_log_in n s Hin Hr) as [Hz _]. pose proof (ci_ok C LL Hci) as HC.
    destruct (bk_CK n s Hin Hr) as [E|Hb]; [lia|].
    apply (zCK_anc _ (bk s)); [exact Hb|]. apply (zshape_log_b C HC _ _ _ _ _ Hz i e He). simpl. lia.
  Qed.

  (* every key of the server's branch at or below its commit index or its snapshot index *)
  Lemma lastk_CK n s k0 : In n (cnodes g) -> gn_run n = Up s -> anc C k0 (last_entry s) -> 1 <= fst k0 ->
    fst k0 <= N.max (v_commit s) (v_lastSnapIdx s) -> CK cfg C LL A (d_term s) k0.
  Proof.
    intros Hin Hr Ha Hpos Hle. destruct (znode_log_in n s Hin Hr) as [Hz _]. pose proof (ci_ok C LL Hci) as HC.
    rewrite last_entry_lk in Ha.
    destruct (N.le_gt_cases (fst k0) (v_lastSnapIdx s)) as [Hs|Hs].
    - destruct (bk_CK n s Hin Hr) as [E|Hb]; [lia|]. apply (zCK_anc _ (bk s) k0 Hb).
      apply (anc_linear C k0 (bk s) _ HC Ha (zshape_b_lk C _ _ _ _ _ Hz)). simpl. exact Hs.
    - assert (Hk : anc C k0 (topk s)).
      { unfold lk in Ha. destruct (N.leb_spec (fst (bk s)) (fst (topk s))); [exact Ha|].
        destruct (anc_le C _ _ HC Ha) as [Hx _]. simpl in Hx. lia. }
      destruct (zshape_holds C HC _ _ _ _ _ Hz k0 Hk) as (x & Hx & Ex); [simpl; lia|].
      rewrite <- Ex. apply (held_CK n s _ x Hin Hr Hx). lia.
  Qed.

  Lemma zCK_term b k : CK cfg C LL A b k -> snd k <= b.
  Proof.
    intros (T & q & HT & _ & (c & tl & Hl & Hk) & _). destruct Hk as [[E _]|Ha]; [lia|].
    destruct (anc_le C k tl (ci_ok C LL Hci) Ha) as [_ H]. destruct (ci_tl C LL Hci _ _ _ Hl) as [H2 _]. lia.
  Qed.

  (* a committed key at or below the commit index or the snapshot index of a server is on that server's branch *)
  Lemma CK_below_last n s b k : In n (cnodes g) -> gn_run n = Up s -> CK cfg C LL A b k -> 1 <= fst k ->
    fst k <= N.max (v_commit s) (v_lastSnapIdx s) -> anc C k (last_entry s).
  Proof.
    intros Hin Hr Hk Hpos Hle. destruct (znode_log_in n s Hin Hr) as [Hz _]. pose proof (ci_ok C LL Hci) as HC.
    rewrite last_entry_lk.
    destruct (N.le_gt_cases (fst k) (v_lastSnapIdx s)) as [Hs|Hs].
    - destruct (bk_CK n s Hin Hr) as [E|Hb]; [lia|].
      eapply anc_trans; [apply (zCK_linear _ _ k (bk s) Hk Hb); simpl; exact Hs|apply (zshape_b_lk C _ _ _ _ _ Hz)].
    - destruct (zv_kc cfg Ps g C LL A V HI n s Hin Hr) as [K1 K2]. unfold last_index in K1.
      destruct (zs_seg _ _ _ _ _ _ Hz (fst k)) as [x Hx]; [simpl; lia|simpl; lia|].
      destruct (zs_in _ _ _ _ _ _ Hz _ x Hx) as (Ix & _).
      assert (E : key x = k) by (apply (zCK_same_idx _ _ _ _ (K2 _ x Hx ltac:(lia)) Hk); unfold key; simpl; exact Ix).
      rewrite <- E. apply (zshape_log_lk C _ _ _ _ _ Hz _ x Hx).
  Qed.

  Theorem zinv_committed_agree : committed_agree g.
  Proof.
    intros a b sa sb Ha Hb Ra Rb i ea eb Hia Hib Hea Heb.
    destruct (zv_kc cfg Ps g C LL A V HI a sa Ha Ra) as [_ Ka]. destruct (zv_kc cfg Ps g C LL A V HI b sb Hb Rb) as [_ Kb].
    destruct (znode_log_in a sa Ha Ra) as [Hza _]. destruct (znode_log_in b sb Hb Rb) as [Hzb _].
    destruct (zs_in _ _ _ _ _ _ Hza i ea Hea) as (Ia & (pa & Pa) & _). destruct (zs_in _ _ _ _ _ _ Hzb i eb Heb) as (Ib & (pb & Pb) & _).
    assert (E : key ea = key eb).
    { apply (zCK_same_idx _ _ _ _ (Ka i ea Hea Hia) (Kb i eb Heb Hib)). unfold key. simpl. congruence. }
    apply (co_fun C (ci_ok C LL Hci) ea pa eb pb Pa Pb E).
  Qed.

  Theorem zinv_applied_within_snap : applied_within_snap g.
  Proof.
    intros a sa Ha Ra. destruct (zv_kc cfg Ps g C LL A V HI a sa Ha Ra) as [Kc _].
    pose proof (zv_node cfg Ps g C LL A V HI a Ha) as (_ & _ & Hn). rewrite Ra in Hn.
    split; [apply (zn_ac cfg Ps sa Hn)|exact Kc].
  Qed.
  (* the last log key of a leader is a created key of its term, above the leader's election key *)
  Lemma leader_topk l sl : In l (cnodes g) -> gn_run l = Up sl -> v_role sl = Leader ->
    exists tl, In (v_term sl, gn_id l, tl) LL /\ created C (topk sl) /\ snd (topk sl) = v_term sl /\ anc C tl (topk sl) /\
      tchain C LL (v_term sl) (topk sl).
  Proof.
    intros Hl Rl Hrole. pose proof (ci_ok C LL Hci) as HC.
    destruct (znode_log_in l sl Hl Rl) as [Hz _].
    destruct (zv_lead cfg Ps g C LL A V HI l sl Hl Rl Hrole) as [(tl & ld & Hll & _ & _ & Htt & _) _].
    destruct (ci_tl C LL Hci _ _ _ Hll) as [Htl1 _].
    assert (Hcr : created C (topk sl)).
    { destruct (zs_tk _ _ _ _ _ _ Hz) as [E|H]; [|exact H]. unfold topk in E. inversion E. lia. }
    exists tl. split; [exact Hll|]. split; [exact Hcr|]. split; [exact Htt|].
    destruct Hcr as (xt & pt & Pt & Ekt). assert (Ett : e_term xt = v_term sl) by (unfold key, topk in Ekt; inversion Ekt; congruence).
    split.
    - rewrite <- Ekt. eapply anc_trans; [apply (ci_root C LL Hci _ _ _ xt pt Hll Pt Ett)|].
      eapply anc_up; [exact Pt|reflexivity|apply anc_refl].
    - eapply tchain_created; [exact Hll|exists xt, pt; auto|exact Htt].
  Qed.

  (* a key known to be committed under a bound not above a leader's term is below the leader's last log key *)
  Lemma leader_has_CK l sl b k : In l (cnodes g) -> gn_run l = Up sl -> v_role sl = Leader -> b <= v_term sl ->
    CK cfg C LL A b k -> created C k -> anc C k (topk sl).
  Proof.
    intros Hl Rl Hrole Hb (T & q & HT & Q & Htc & Hq) Hkc.
    destruct (leader_topk l sl Hl Rl Hrole) as (tl & Hll & Hcr & Htt & Htla & _).
    destruct (zv_lead cfg Ps g C LL A V HI l sl Hl Rl Hrole) as [(tl' & ld & Hll' & _ & Hall & _) _].
    destruct (N.lt_trichotomy T (v_term sl)) as [Hlt|[->|Hgt]]; [| |lia].
    - eapply anc_trans; [|exact Htla].
      apply (lc_core cfg C LL A V HV Hci Hvi q T k Q Htc Hq (v_term sl) (gn_id l) tl Hll Hlt).
    - destruct Htc as (c' & tl2 & Hl2 & Hk). destruct (ci_uniq C LL Hci _ _ _ _ _ Hl2 Hll) as [-> ->].
      destruct Hk as [[Hk1 _]|Hk]; [|eapply anc_trans; eauto].
      destruct Hkc as (x & p & Px & Ex). rewrite <- Ex. apply (Hall x p Px). rewrite <- Ex in Hk1. exact Hk1.
  Qed.

  Theorem zinv_leader_complete_snap : leader_complete_snap g.
  Proof.
    intros a l sa sl Ha Hl Ra Rl Hrole Hterm i e Hi He. pose proof (ci_ok C LL Hci) as HC.
    destruct (zv_kc cfg Ps g C LL A V HI a sa Ha Ra) as [_ Ka].
    destruct (znode_log_in a sa Ha Ra) as [Hza [_ Hwa]]. destruct (znode_log_in l sl Hl Rl) as [Hzl [_ Hwl]].
    destruct (zs_in _ _ _ _ _ _ Hza i e He) as (Ie & (p & Pe) & _).
    destruct (N.le_gt_cases i (v_lastSnapIdx sl)) as [Hs|Hs]; [right; exact Hs|left].
    assert (Hanc : anc C (key e) (topk sl)).
    { apply (leader_has_CK l sl (d_term sa) (key e) Hl Rl Hrole); [lia|apply (Ka i e He Hi)|exists e, p; auto]. }
    destruct (zshape_holds C HC _ _ _ _ _ Hzl (key e) Hanc) as (y & Hy & Ey); [unfold key, bk; simpl; lia|].
    unfold key in Hy at 1. simpl in Hy. rewrite Ie in Hy.
    destruct (zs_in _ _ _ _ _ _ Hzl i y Hy) as (_ & (py & Py) & _).
    rewrite Hy. f_equal. apply (co_fun C HC y py e p Py Pe Ey).
  Qed.

  Theorem zinv_snapshots_committed : snapshots_committed g.
  Proof.
    split.
    - intros a b sa sn e Ha Hb Ra Hsn Hi He.
      destruct (zv_kc cfg Ps g C LL A V HI a sa Ha Ra) as [_ Ka].
      destruct (znode_log_in a sa Ha Ra) as [Hza _]. destruct (zs_in _ _ _ _ _ _ Hza _ e He) as (Ie & _).
      assert (E : key e = sk sn).
      { apply (zCK_same_idx _ _ _ _ (Ka _ e He Hi) (zv_sk cfg Ps g C LL A V HI b sn Hb Hsn)). unfold key, sk. simpl. exact Ie. }
      unfold key, sk in E. congruence.
    - intros a b sna snb Ha Hb Hsa Hsb Ei.
      assert (E : sk sna = sk snb).
      { apply (zCK_same_idx _ _ _ _ (zv_sk cfg Ps g C LL A V HI a sna Ha Hsa) (zv_sk cfg Ps g C LL A V HI b snb Hb Hsb)). exact Ei. }
      unfold sk in E. congruence.
  Qed.
End Final.
