(* ClusterLogNode.v — what the Log Matching invariant says about one server's log store and cached
   last-log, and that NewRaft (boot) re-establishes it from any durable image that satisfies the
   durable part. *)
From Coq Require Import List NArith Bool Lia.
From stdpp Require Import gmap.
From RaftModel Require Import Base Config Compaction Node NodeCodec.
From RaftProofs Require Import RecoverProofs ClusterLogSpec ClusterLogChain.
Open Scope N_scope.

(* every stored entry sits under its own index, was created (is in the ghost history), and is of a
   term the holder has seen *)
Definition log_in (C : chain) (m : gmap N entry) (dt : N) : Prop :=
  forall i e, m !! i = Some e -> e_idx e = i /\ (exists p, In (e, p) C) /\ e_term e <= dt.

(* every stored entry is an ancestor of (or is) top *)
Definition log_below (C : chain) (m : gmap N entry) (top : N * N) : Prop :=
  forall i e, m !! i = Some e -> anc C (key e) top.

(* a durable image *)
Definition nlog_img (C : chain) (s : nstate) : Prop :=
  d_snaps s = [] /\ log_in C (d_log s) (d_term s) /\ exists top, log_below C (d_log s) top.

(* a running server: the cached last-log dominates the store.  The invariant does not ask it to be
   the last stored entry (that is all the proof needs).  After DeleteRange succeeded inside
   appendEntries the cache moves at once to the entry before the truncation point
   (Node.conflict_pred; ClusterLogAppend.pred_key_good shows that key dominates what survives), so
   a failed StoreLogs on that path no longer leaves a stale cache. *)
Definition nlog_up (C : chain) (s : nstate) : Prop :=
  d_snaps s = [] /\ log_in C (d_log s) (d_term s) /\ v_lastSnapIdx s = 0 /\
  v_lastLogTerm s <= d_term s /\ (v_lastLogIdx s = 0 -> v_lastLogTerm s = 0) /\
  log_below C (d_log s) (v_lastLogIdx s, v_lastLogTerm s).

Definition nlog (C : chain) (r : nrun) : Prop :=
  match r with Up s => nlog_up C s | Down s => nlog_img C s end.

Definition log_sub (m' m : gmap N entry) : Prop := forall i e, m' !! i = Some e -> m !! i = Some e.

Lemma log_sub_refl m : log_sub m m.
Proof. intros i e H. exact H. Qed.

Lemma log_in_sub C m m' dt dt' : log_sub m' m -> dt <= dt' -> log_in C m dt -> log_in C m' dt'.
Proof. intros Hs Hd H i e Hl. destruct (H i e (Hs i e Hl)) as (A & B & D). repeat split; auto. lia. Qed.

Lemma log_below_sub C m m' top : log_sub m' m -> log_below C m top -> log_below C m' top.
Proof. intros Hs H i e Hl. apply (H i e (Hs i e Hl)). Qed.

Lemma log_in_mono C C' m dt : incl C C' -> log_in C m dt -> log_in C' m dt.
Proof.
  intros Hi H i e Hl. destruct (H i e Hl) as (A & (p & B) & D). repeat split; auto. exists p. apply Hi, B.
Qed.

Lemma log_below_mono C C' m top : incl C C' -> log_below C m top -> log_below C' m top.
Proof. intros Hi H i e Hl. eapply anc_mono; [exact Hi|apply (H i e Hl)]. Qed.

Lemma nlog_up_img C s : nlog_up C s -> nlog_img C s.
Proof. intros (A & B & _ & _ & _ & D). split; [exact A|]. split; [exact B|]. eexists. exact D. Qed.

Lemma nlog_image C r : nlog C r -> nlog_img C (image r).
Proof. destruct r as [s|s]; simpl; [apply nlog_up_img|auto]. Qed.

Lemma nlog_mono C C' r : incl C C' -> nlog C r -> nlog C' r.
Proof.
  intros Hi. destruct r as [s|s]; simpl.
  - intros (A & B & D & E & F & G). split; [exact A|]. split; [eapply log_in_mono; eauto|].
    split; [exact D|]. split; [exact E|]. split; [exact F|]. eapply log_below_mono; eauto.
  - intros (A & B & top & D). split; [exact A|]. split; [eapply log_in_mono; eauto|].
    exists top. eapply log_below_mono; eauto.
Qed.

(* a durable image with a sub-log, the same (empty) snapshot store and a term not below *)
Lemma nlog_img_sub C s s' : nlog_img C s -> log_sub (d_log s') (d_log s) -> d_snaps s' = d_snaps s ->
  d_term s <= d_term s' -> nlog_img C s'.
Proof.
  intros (A & B & top & D) Hs Hn Ht. split; [congruence|]. split; [eapply log_in_sub; eauto|].
  exists top. eapply log_below_sub; eauto.
Qed.

(* stored entries have positive indices *)
Lemma log_in_pos C m dt i e : chain_ok C -> log_in C m dt -> m !! i = Some e -> 1 <= i.
Proof.
  intros HC H Hl. destruct (H i e Hl) as (A & (p & B) & _). destruct (co_idx C HC e p B) as [E _]. lia.
Qed.

(* ---------------------------------------------------------------- LastIndex of the log store *)
Lemma fold_max_ge l : forall a, a <= fold_left N.max l a /\ forall x, In x l -> x <= fold_left N.max l a.
Proof.
  induction l as [|y r IH]; intros a; simpl; [split; [lia|intros x []]|].
  destruct (IH (N.max a y)) as [A B]. split; [lia|]. intros x [<-|Hx]; [lia|apply B, Hx].
Qed.

Lemma fold_max_in l : forall a, fold_left N.max l a = a \/ In (fold_left N.max l a) l.
Proof.
  induction l as [|y r IH]; intros a; simpl; [left; reflexivity|].
  destruct (IH (N.max a y)) as [E|Hin]; [|right; right; exact Hin].
  rewrite E. destruct (N.max_spec a y) as [[_ ->]|[_ ->]]; [right; left; reflexivity|left; reflexivity].
Qed.

Lemma keys_of_in (m : gmap N entry) k : In k (keys_of m) <-> exists e, m !! k = Some e.
Proof.
  unfold keys_of. rewrite in_map_iff. split.
  - intros ([k' e] & E & Hin). simpl in E. subst k'. exists e.
    apply elem_of_map_to_list. apply elem_of_list_In. exact Hin.
  - intros (e & He). exists (k, e). split; [reflexivity|].
    apply elem_of_list_In. apply elem_of_map_to_list. exact He.
Qed.

Lemma log_last_ge (m : gmap N entry) i e : m !! i = Some e -> i <= log_last m.
Proof.
  intros H. unfold log_last. apply (fold_max_ge (keys_of m) 0). apply keys_of_in. eauto.
Qed.

Lemma log_last_in (m : gmap N entry) : log_last m = 0 \/ exists e, m !! log_last m = Some e.
Proof.
  unfold log_last. destruct (fold_max_in (keys_of m) 0) as [E|Hin]; [left; exact E|right].
  apply keys_of_in. exact Hin.
Qed.

(* ---------------------------------------------------------------- NewRaft *)
Lemma log_in_keys C m dt : log_in C m dt -> keys_ok m.
Proof. intros H i e Hl. apply (H i e Hl). Qed.

Lemma boot_nlog C P img r out : chain_ok C -> nlog_img C img -> boot P img = (r, out) ->
  nlog C r /\ d_term (image r) = d_term img /\ d_log (image r) = d_log img /\
  (forall s, r = Up s -> v_role s = Follower).
Proof.
  intros HC Himg. pose proof Himg as (Hsn & Hin & top & Hbel). unfold boot.
  destruct (recover P img) as [s tr| | |] eqn:ER; intros HB; inversion HB; subst r out; clear HB;
    try (simpl; split; [exact Himg|]; split; [reflexivity|]; split; [reflexivity|]; intros s0 Hs0; discriminate).
  apply recover_ok in ER; [|eapply log_in_keys; exact Hin].
  destruct ER as (Hd & Hvt & Hrole & Hli & Hlt & Hsnap & _).
  destruct Hd as (Dt & _ & _ & Dl & _ & _ & Ds).
  rewrite Hsn in Hsnap. change (find sn_ok (list_snaps [])) with (@None snapshot) in Hsnap.
  destruct Hsnap as [Hsi _]. simpl.
  split; [|split; [exact Dt|split; [exact Dl|intros s0 Hs0; inversion Hs0; subst; exact Hrole]]].
  unfold nlog_up. rewrite Dl, Dt, Ds.
  split; [exact Hsn|]. split; [exact Hin|]. split; [exact Hsi|].
  destruct (log_last_in (d_log img)) as [E0|(le & Hle)].
  - (* empty store *)
    rewrite E0 in Hlt. change (0 <? 0) with false in Hlt. cbv iota in Hlt.
    split; [rewrite Hlt; lia|]. split; [intros _; exact Hlt|].
    intros i e Hl. exfalso. pose proof (log_in_pos C _ _ i e HC Hin Hl). pose proof (log_last_ge _ i e Hl). lia.
  - pose proof (log_in_pos C _ _ _ le HC Hin Hle) as Hpos.
    destruct (N.ltb_spec 0 (log_last (d_log img))) as [_|Hc]; [|lia].
    destruct Hlt as (e0 & He0 & Hlt). rewrite Hle in He0. inversion He0; subst e0. clear He0.
    destruct (Hin _ le Hle) as (Hk & _ & Hterm).
    split; [rewrite Hlt; exact Hterm|]. split; [intros E; lia|].
    intros i e Hl. rewrite Hli, Hlt, <- Hk. change (e_idx le, e_term le) with (key le).
    apply (anc_linear C (key e) (key le) top HC); [apply (Hbel i e Hl)|apply (Hbel _ le Hle)|].
    unfold key. simpl. destruct (Hin i e Hl) as (Hk' & _). rewrite Hk', Hk. apply (log_last_ge _ i e Hl).
Qed.
