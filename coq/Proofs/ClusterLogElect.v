(* ClusterLogElect.v — election steps (timer, vote response), a new leader's no-op and
   dispatchLogs at a leader keep the invariant. *)
From Coq Require Import List NArith Bool Lia.
From stdpp Require Import gmap.
From RaftModel Require Import Base Config Compaction Commitment Node NodeCodec Candidate Leader Replicate Cluster ClusterLog.
From RaftProofs Require Import ConfigProofs VoteProofs ClusterProofs
  ClusterLogSpec ClusterLogChain ClusterLogNode ClusterLogVote ClusterLogLeader ClusterLogInv ClusterLogSteps.
Open Scope N_scope.

Section Elect.
  Variable cfgs : list config.
  Hypothesis HQ : quorums_intersect cfgs.

  (* the server's state changed outside the log store and it is not Leader afterwards *)
  Lemma plain_linv g C g1 j n s s' sess' next' :
    linv cfgs g C -> ginv cfgs g1 ->
    find_node (g_nodes (lg_g g)) j = Some n -> gn_run n = Up s ->
    g_nodes g1 = upd_node (g_nodes (lg_g g)) j (mkGN (gn_P n) (Up s') sess' next') ->
    g_leaders g1 = g_leaders (lg_g g) ->
    lkeep s' s -> d_term s <= d_term s' -> v_role s' <> Leader ->
    (forall se, sess' = Some se ->
       (exists se0, gn_sess n = Some se0 /\ vq_term (se_req se) = vq_term (se_req se0)) \/ d_term s < vq_term (se_req se)) ->
    linv cfgs (mkLG g1 (lg_msgs g)) C.
  Proof.
    intros Hinv Hg1 Hfind Hrun Hn1 Hl1 Hk Hdt Hrole Hsess.
    destruct (find_node_in _ _ _ Hfind) as [Hin Hid].
    destruct (li_nodes cfgs g C Hinv n Hin) as [Hnl _]. rewrite Hrun in Hnl. simpl in Hnl.
    apply (linv_update cfgs HQ g (mkLG g1 (lg_msgs g)) C C j n (mkGN (gn_P n) (Up s') sess' next') Hinv Hg1 Hfind Hid Hn1).
    - simpl. rewrite Hl1. apply incl_refl.
    - simpl. rewrite Hl1. intros T i H. left. exact H.
    - apply incl_refl.
    - apply (li_chain cfgs g C Hinv).
    - intros x p H. left. exact H.
    - unfold dt. simpl. rewrite Hrun. exact Hdt.
    - intros se Hse. simpl in Hse. unfold dt. rewrite Hrun. simpl. apply Hsess, Hse.
    - simpl. eapply nlog_up_keep; eauto.
    - intros s0 Hs0 Hr. simpl in Hs0. inversion Hs0; subst. contradiction.
    - intros m Hm. left. exact Hm.
  Qed.

  (* runLeader: the server is recorded as leader of its term and stores the no-op *)
  Lemma become_leader_linv g C g1 j n s sL next' :
    linv cfgs g C -> ginv cfgs g1 ->
    find_node (g_nodes (lg_g g)) j = Some n -> gn_run n = Up s ->
    g_nodes g1 = upd_node (g_nodes (lg_g g)) j (mkGN (gn_P n) (Up (become_leader (gn_P n) sL)) None next') ->
    g_leaders g1 = (v_term sL, j) :: g_leaders (lg_g g) ->
    lkeep sL s -> d_term s <= d_term sL -> v_term sL = d_term sL -> v_role sL = Leader ->
    (forall T', T' <= dt n -> (forall se, gn_sess n = Some se -> T' < vq_term (se_req se)) -> T' <> v_term sL) ->
    exists C', linv cfgs (mkLG g1 (lg_msgs g)) C'.
  Proof.
    intros Hinv Hg1 Hfind Hrun Hn1 Hl1 Hk Hdt Hvt Hrole Hfresh.
    destruct (find_node_in _ _ _ Hfind) as [Hin Hid].
    pose proof (li_chain cfgs g C Hinv) as HC.
    destruct (li_nodes cfgs g C Hinv n Hin) as [Hnl _]. rewrite Hrun in Hnl. simpl in Hnl.
    assert (HnL : nlog_up C sL) by (eapply nlog_up_keep; eauto).
    pose proof HnL as (_ & _ & Hsi & Hlt & Hz & _).
    assert (Hli : last_index sL = v_lastLogIdx sL) by (unfold last_index; rewrite Hsi; lia).
    set (e := new_entry sL LogNoop 0).
    set (ck := (v_lastLogIdx sL, v_lastLogTerm sL)).
    set (s' := become_leader (gn_P n) sL).
    pose proof (dispatch_one (gn_P n) sL [] LogNoop 0 0) as Hd. cbv zeta in Hd. fold (become_leader (gn_P n) sL) in Hd. fold s' in Hd. fold e in Hd.
    destruct Hd as (Dd & Dv & Dsn & Dsi & [(Hf & _)|(_ & Dl & Dci & Dct & Dr)]); [simpl in Hf; discriminate|].
    assert (Dt : d_term s' = d_term sL) by (unfold dproj in Dd; inversion Dd; reflexivity).
    (* no entry of the new term exists yet *)
    assert (Hnone : forall x p, In (x, p) C -> e_term x <> v_term sL).
    { intros x p Hx Ht. destruct (li_src cfgs g C Hinv x p Hx) as [(id & Hl)|Hdead].
      - assert (id = j).
        { apply (leaders_fun cfgs g1 (v_term sL) id j HQ Hg1); rewrite Hl1; [right; rewrite <- Ht; exact Hl|left; reflexivity]. }
        subst id. destruct (li_leaders cfgs g C Hinv _ _ Hl n Hin Hid) as [A B]. apply (Hfresh (e_term x) A B Ht).
      - destruct (Hdead n Hin) as [A B]. apply (Hfresh (e_term x) A B Ht). }
    assert (He1 : e_idx e = v_lastLogIdx sL + 1) by (unfold e, new_entry; simpl; rewrite Hli; reflexivity).
    assert (He2 : e_term e = v_term sL) by reflexivity.
    exists ((e, ck) :: C).
    apply (linv_update cfgs HQ g (mkLG g1 (lg_msgs g)) C ((e, ck) :: C) j n
             (mkGN (gn_P n) (Up s') None next') Hinv Hg1 Hfind Hid Hn1).
    - simpl. rewrite Hl1. intros x Hx. right. exact Hx.
    - simpl. rewrite Hl1. intros T i [E|H]; [|left; exact H]. inversion E; subst. right.
      split; [reflexivity|]. split; [|reflexivity]. unfold dt. simpl. rewrite Dt. lia.
    - intros x Hx. right. exact Hx.
    - apply chain_ok_cons; auto.
      + intros x q Hx Hkey. apply (Hnone x q Hx). unfold key in Hkey. inversion Hkey. congruence.
      + change (v_lastLogTerm sL <= v_term sL). lia.
      + unfold ck. simpl. intros E. rewrite (Hz E), E. reflexivity.
    - intros x p [E|H]; [|left; exact H]. inversion E; subst. right. simpl. rewrite Hl1. left. reflexivity.
    - unfold dt. simpl. rewrite Hrun, Dt. exact Hdt.
    - intros se Hse. discriminate.
    - simpl. apply (leader_append_nlog C sL s' e HnL He1).
      + rewrite Dt, He2. lia.
      + exact Dl.
      + rewrite Dci, He1, Hli. reflexivity.
      + rewrite Dct, He2. reflexivity.
      + exact Dsn.
      + exact Dsi.
      + rewrite Dt. lia.
    - intros s0 Hs0 Hr. simpl in Hs0. inversion Hs0; subst s0. simpl. rewrite Hl1, Dv.
      split; [left; change (gn_id (mkGN (gn_P n) (Up s') None next')) with (gn_id n); rewrite Hid; reflexivity|]. split; [reflexivity|].
      intros x p [E|H] Ht; [inversion E; subst; rewrite Dci, Hli; simpl; lia|].
      exfalso. apply (Hnone x p H Ht).
    - intros m Hm. left. exact Hm.
  Qed.

  (* the election timer fires at i: runCandidate is entered *)
  Lemma timeout_linv g C i g1 :
    linv cfgs g C -> gstep cfgs (lg_g g) (GTimeout i) = Some g1 ->
    exists C', linv cfgs (mkLG g1 (lg_msgs g)) C'.
  Proof.
    intros Hinv Hstep.
    pose proof (gstep_inv cfgs _ _ _ (li_g cfgs g C Hinv) Hstep) as Hg1.
    unfold gstep in Hstep.
    destruct (find_node (g_nodes (lg_g g)) i) as [n|] eqn:Hfind; [|discriminate].
    destruct (find_node_in _ _ _ Hfind) as [Hin Hid].
    destruct (gn_run n) as [s|s] eqn:Hrun; [|discriminate].
    destruct (existsb (config_eqb (v_latest s)) cfgs); [|discriminate]. cbn [negb orb] in Hstep.
    destruct (v_role s =? Leader); [discriminate|].
    pose proof (node_wfr cfgs g C n Hinv Hin) as Hw. rewrite Hrun in Hw. destruct Hw as [_ Hvt].
    set (s0 := match gn_sess n with Some _ => set_transfer s false | None => s end) in *.
    assert (K0 : lkeep s0 s /\ d_term s0 = d_term s /\ v_term s0 = v_term s).
    { unfold s0. destruct (gn_sess n); repeat split. }
    destruct K0 as (K0 & Kd0 & Kv0).
    pose proof (sess_enter_cases (gn_P n) s0) as Hc. cbv zeta in Hc.
    destruct (sess_enter (gn_P n) false s0) as [x tr]. simpl fst in Hc.
    assert (Kvoted : lkeep (voted (gn_P n) s0) s /\ d_term (voted (gn_P n) s0) = v_term s + 1).
    { split; [eapply lkeep_trans; [|exact K0]; repeat split|rewrite <- Kv0; reflexivity]. }
    assert (Kent : lkeep (entered (gn_P n) s0) s /\ d_term (entered (gn_P n) s0) = v_term s + 1).
    { split; [eapply lkeep_trans; [|exact K0]; repeat split|rewrite <- Kv0; reflexivity]. }
    destruct (self_is_voter (gn_P n) s0).
    - destruct (quorum_size (v_latest s0) <=? 1).
      + (* single voter: leader at once *)
        subst x. inversion Hstep; subst g1. clear Hstep.
        match goal with |- context [become_leader _ ?SL] => set (sL := SL) in * end.
        apply (become_leader_linv g C _ i n s sL _ Hinv Hg1 Hfind Hrun eq_refl eq_refl).
        * destruct Kvoted as [Kl _]. eapply lkeep_trans; [|exact Kl]. repeat split.
        * change (d_term sL) with (d_term (voted (gn_P n) s0)). destruct Kvoted as [_ ->]. lia.
        * reflexivity.
        * reflexivity.
        * intros T' HT' _. change (v_term sL) with (v_term s0 + 1). unfold dt in HT'. rewrite Hrun in HT'. simpl in HT'. lia.
      + subst x. cbn [c_granted] in Hstep. change (1 <=? 1) with true in Hstep. cbn iota in Hstep.
        inversion Hstep; subst g1. clear Hstep. exists C.
        destruct Kvoted as [Kl Kt].
        apply (plain_linv g C _ i n s (voted (gn_P n) s0) _ _ Hinv Hg1 Hfind Hrun eq_refl eq_refl Kl).
        * rewrite Kt. lia.
        * discriminate.
        * intros se Hse. right. inversion Hse; subst se. cbn [se_req].
          destruct (req_of_fields (gn_P n) (voted (gn_P n) s0)) as [-> _].
          change (v_term (voted (gn_P n) s0)) with (v_term s0 + 1). lia.
    - subst x. cbn [c_granted] in Hstep. change (1 <=? 0) with false in Hstep. cbn iota in Hstep.
      inversion Hstep; subst g1. clear Hstep. exists C.
      destruct Kent as [Kl Kt].
      apply (plain_linv g C _ i n s (entered (gn_P n) s0) _ _ Hinv Hg1 Hfind Hrun eq_refl eq_refl Kl).
      + rewrite Kt. lia.
      + discriminate.
      + intros se Hse. right. inversion Hse; subst se. cbn [se_req].
        destruct (req_of_fields (gn_P n) (entered (gn_P n) s0)) as [-> _].
        change (v_term (entered (gn_P n) s0)) with (v_term s0 + 1). lia.
  Qed.

  (* j's answer reaches i's runCandidate *)
  Lemma voteresp_linv g C i j g1 :
    linv cfgs g C -> gstep cfgs (lg_g g) (GVoteResp i j) = Some g1 ->
    exists C', linv cfgs (mkLG g1 (lg_msgs g)) C'.
  Proof.
    intros Hinv Hstep.
    pose proof (gstep_inv cfgs _ _ _ (li_g cfgs g C Hinv) Hstep) as Hg1.
    unfold gstep in Hstep.
    destruct (find_node (g_nodes (lg_g g)) i) as [n|] eqn:Hfind; [|discriminate].
    destruct (find_node_in _ _ _ Hfind) as [Hin Hid].
    destruct (gn_run n) as [s|s] eqn:Hrun; [|discriminate].
    destruct (gn_sess n) as [se|] eqn:Hse; [|discriminate].
    destruct (mem j (se_got se)); [discriminate|].
    destruct (find_resp (g_resps (lg_g g)) i (se_epoch se) j) as [rp|]; [|discriminate].
    pose proof (gi_nodes cfgs _ (li_g cfgs g C Hinv) n Hin) as [_ Hs]. unfold sess_ok in Hs. rewrite Hse in Hs.
    destruct Hs as (c & s0 & _ & E1 & E2 & _ & E4 & _). rewrite Hrun in E1. inversion E1; subst s0. clear E1.
    pose proof (node_wfr cfgs g C n Hinv Hin) as Hw. rewrite Hrun in Hw. destruct Hw as [_ Hvt].
    pose proof (sess_vote_cases (gn_P n) s (se_c se) (mkVR (rp_term rp) (rp_granted rp)) E4) as Hcs.
    destruct (sess_step (gn_P n) false (SCand s (se_c se)) (CVote (mkVR (rp_term rp) (rp_granted rp)))) as [x tr].
    simpl fst in Hcs. cbn [vr_term vr_granted] in Hcs.
    destruct (N.ltb_spec (v_term s) (rp_term rp)) as [Hlt|Hge].
    - (* a higher term: back to follower *)
      subst x. inversion Hstep; subst g1. clear Hstep. exists C.
      match goal with |- context [Up ?S] => set (sF := S) in * end.
      apply (plain_linv g C _ i n s sF None _ Hinv Hg1 Hfind Hrun eq_refl eq_refl).
      + repeat split.
      + change (d_term sF) with (rp_term rp). lia.
      + discriminate.
      + intros se0 H0. discriminate.
    - cbv zeta in Hcs.
      destruct (c_needed (se_c se) <=? (if rp_granted rp then c_granted (se_c se) + 1 else c_granted (se_c se))).
      + (* elected *)
        subst x. inversion Hstep; subst g1. clear Hstep.
        match goal with |- context [become_leader _ ?SL] => set (sL := SL) in * end.
        apply (become_leader_linv g C _ i n s sL _ Hinv Hg1 Hfind Hrun eq_refl eq_refl).
        * repeat split.
        * apply N.le_refl.
        * exact Hvt.
        * reflexivity.
        * intros T' _ HT'. specialize (HT' se Hse). change (v_term sL) with (v_term s). lia.
      + (* keeps counting *)
        subst x. inversion Hstep; subst g1. clear Hstep. exists C.
        apply (plain_linv g C _ i n s s _ _ Hinv Hg1 Hfind Hrun eq_refl eq_refl).
        * apply lkeep_refl.
        * apply N.le_refl.
        * intros Hr. destruct (li_nodes cfgs g C Hinv n Hin) as [_ Hlo].
          destruct (Hlo s Hrun Hr) as (_ & Hn & _). congruence.
        * intros se0 H0. inversion H0; subst se0. left. exists se. auto.
  Qed.

  (* dispatchLogs of one entry at leader i *)
  Lemma propose_linv g C i ty data fs g' :
    linv cfgs g C -> lstep false cfgs g (LPropose i ty data fs) = Some g' -> exists C', linv cfgs g' C'.
  Proof.
    intros Hinv Hstep. unfold lstep in Hstep.
    destruct (find_node (g_nodes (lg_g g)) i) as [n|] eqn:Hfind; [|discriminate].
    destruct (find_node_in _ _ _ Hfind) as [Hin Hid].
    destruct (gn_run n) as [s|s] eqn:Hrun; [|discriminate].
    destruct (N.eqb_spec (v_role s) Leader) as [Hrole|]; [|discriminate].
    pose proof (dispatch_one (gn_P n) s fs ty data 0) as Hd. cbv zeta in Hd.
    destruct (dispatch (gn_P n) (leader_setup s) fs [(ty, data, 0)]) as [[[ls' res] tr] fs'].
    cbn [fst] in Hd. set (s' := l_node ls') in *.
    inversion Hstep; subst g'. clear Hstep.
    destruct Hd as (Dd & Dv & Dsn & Dsi & Hcase).
    assert (Dt : d_term s' = d_term s) by (unfold dproj in Dd; inversion Dd; reflexivity).
    pose proof (li_g cfgs g C Hinv) as Hg.
    pose proof (li_chain cfgs g C Hinv) as HC.
    destruct (li_nodes cfgs g C Hinv n Hin) as [Hnl Hlo]. rewrite Hrun in Hnl. simpl in Hnl.
    destruct (Hlo s Hrun Hrole) as (L1 & L2 & L3).
    pose proof (gi_nodes cfgs _ Hg n Hin) as [(Hw & Hig & Hfun) _]. rewrite Hrun in Hw, Hig. simpl in Hw.
    destruct Hw as [Hwd Hvt].
    assert (Hks : keep_sess (Up s') (gn_sess n) = None) by (rewrite L2; reflexivity).
    unfold set_node_run. rewrite Hks.
    set (n' := mkGN (gn_P n) (Up s') None (gn_next n)).
    set (g1 := mkG (upd_node (g_nodes (lg_g g)) i n') (g_resps (lg_g g)) (g_leaders (lg_g g)) (g_grants (lg_g g))).
    (* the election invariant *)
    assert (Hg1 : ginv cfgs g1).
    { eapply (ginv_update cfgs (lg_g g) g1 i n n' []); try reflexivity; try exact Hg; try exact Hfind.
      - exact Hid.
      - intros x [].
      - unfold node_ok. cbn [gn_run n']. change (gn_id n') with (gn_id n).
        change (Gof g1 (gn_id n)) with (Gof (lg_g g) (gn_id n)).
        split; [|split; [|exact Hfun]].
        + simpl. eapply wfu_dproj; [split; [exact Hwd|exact Hvt]|exact Dd|exact Dv].
        + eapply inv_grants_dproj; [|exact Hig]. simpl. symmetry. exact Dd.
      - intros rp Hrp. split; [|left; exact Hrp].
        destruct (gi_resps cfgs _ Hg rp Hrp) as [_ Hall]. specialize (Hall n Hin).
        unfold resp_node in *. change (gn_id n') with (gn_id n). cbn [gn_sess gn_next n'].
        intros Hc. destruct (Hall Hc) as [A _]. split; [exact A|]. intros se0 H0. discriminate.
      - intros x Hx. left. exact Hx. }
    pose proof Hnl as (_ & _ & Hsi & Hlt & Hz & _).
    assert (Hli : last_index s = v_lastLogIdx s) by (unfold last_index; rewrite Hsi; lia).
    destruct Hcase as [(_ & Hk & Hr')|(_ & Dl & Dci & Dct & Dr)].
    - (* StoreLogs failed: nothing stored, the leader steps down *)
      exists C. apply (plain_linv g C g1 i n s s' None (gn_next n) Hinv Hg1 Hfind Hrun eq_refl eq_refl Hk).
      + lia.
      + rewrite Hr'. discriminate.
      + intros se0 H0. discriminate.
    - set (e := new_entry s ty data) in *.
      assert (He1 : e_idx e = v_lastLogIdx s + 1) by (unfold e, new_entry; simpl; rewrite Hli; reflexivity).
      assert (He2 : e_term e = v_term s) by reflexivity.
      exists ((e, (v_lastLogIdx s, v_lastLogTerm s)) :: C).
      apply (linv_update cfgs HQ g (mkLG g1 (lg_msgs g)) C _ i n n' Hinv Hg1 Hfind Hid eq_refl).
      + apply incl_refl.
      + intros T k H. left. exact H.
      + intros x Hx. right. exact Hx.
      + apply chain_ok_cons; auto.
        * intros x q Hx Hkey. unfold key in Hkey. inversion Hkey as [[K1 K2]].
          pose proof (L3 x q Hx (eq_trans K2 He2)). lia.
        * change (v_lastLogTerm s <= v_term s). lia.
        * simpl. intros E. rewrite (Hz E), E. reflexivity.
      + intros x p [E|H]; [|left; exact H]. inversion E; subst x p. right. change (In (v_term s, i) (g_leaders (lg_g g))). rewrite <- Hid. exact L1.
      + unfold dt. simpl. rewrite Hrun, Dt. simpl. lia.
      + intros se0 H0. discriminate.
      + simpl. apply (leader_append_nlog C s s' e Hnl He1).
        * rewrite Dt, He2. lia.
        * exact Dl.
        * rewrite Dci, He1, Hli. reflexivity.
        * rewrite Dct, He2. reflexivity.
        * exact Dsn.
        * exact Dsi.
        * rewrite Dt. lia.
      + intros s0 Hs0 Hr. simpl in Hs0. inversion Hs0; subst s0. simpl. rewrite Dv.
        change (gn_id n') with (gn_id n). split; [exact L1|]. split; [reflexivity|].
        intros x p [E|H] Ht.
        * inversion E; subst. rewrite Dci, Hli. simpl. rewrite Hli. lia.
        * pose proof (L3 x p H Ht). rewrite Dci, Hli. lia.
      + intros m Hm. left. exact Hm.
  Qed.
End Elect.
