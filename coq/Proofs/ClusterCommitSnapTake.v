(* ClusterCommitSnapTake.v — takeSnapshot at one server: the snapshot it stores is taken at the
   (index, term) the FSM goroutine reported, the compaction removes log entries at or below that
   index only; the node invariant of Proofs/ClusterCommitSnapLog.v is kept, also across a crash. *)
From Coq Require Import List NArith Bool Lia.
From stdpp Require Import gmap.
From RaftModel Require Import Base Config Compaction Node NodeCodec.
From RaftProofs Require Import CompactionProofs VoteProofs AdvLeaderProofs AppendProofs RecoverProofs
  ClusterLogSpec ClusterLogChain ClusterLogNode ClusterLogCut ClusterLogSnapCut
  ClusterCommitChain ClusterCommitInv ClusterCommitSnapLog ClusterCommitSnapBoot ClusterCommitSnapAE2 ClusterCommitSnapCut.
Open Scope N_scope.

Definition snap_of (s : nstate) : snapshot :=
  mkSnap (fst (v_fsmLast s)) (snd (v_fsmLast s)) (v_committed s) (v_committedIdx s) (v_fsm s) true.

Lemma take_cases P s fs :
  exists s' r tr fs', take_snapshot P s fs = Done s' r tr fs' /\
    ((s' = s /\ dlf tr = []) \/
     (fst (v_fsmLast s) <> 0 /\
      let s1 := set_lastsnap (set_snaps s (d_snaps s ++ [snap_of s])) (fst (v_fsmLast s)) (snd (v_fsmLast s)) in
      ((s' = s1 /\ dlf tr = [ESnap (fst (v_fsmLast s)) (snd (v_fsmLast s)) true]) \/
       (exists lo hi, hi <= fst (v_fsmLast s) /\ s' = set_log s1 (log_delete (d_log s) lo hi) (d_staged s) (d_pcommit s) /\
          dlf tr = [ESnap (fst (v_fsmLast s)) (snd (v_fsmLast s)) true; EDelete lo hi true])))).
Proof.
  unfold take_snapshot, fsm_index, snap_of. destruct (v_fsmLast s) as [fi ft]. cbn [fst snd].
  destruct (N.eqb_spec fi 0) as [Ez|Hnz]; [do 4 eexists; split; [reflexivity|left; auto]|].
  destruct (fi <? v_committedIdx s); [do 4 eexists; split; [reflexivity|left; auto]|].
  destruct (next_fail fs) as [fc fs1]. destruct fc; [do 4 eexists; split; [reflexivity|left; auto]|].
  destruct (next_fail fs1) as [fcl fs2]. destruct fcl; [do 4 eexists; split; [reflexivity|left; auto]|].
  unfold run_compaction.
  match goal with |- context [compact ?F ?S ?L ?T] => destruct (compact F S L T) as [[lo hi]|] eqn:Ec end.
  - apply compaction_range in Ec. destruct Ec as (_ & Hhi & _).
    unfold do_delete. destruct (next_fail fs2) as [fd fs3]. destruct fd.
    + do 4 eexists. split; [reflexivity|]. right. split; [exact Hnz|]. left. auto.
    + do 4 eexists. split; [reflexivity|]. right. split; [exact Hnz|]. right. exists lo, hi. auto.
  - do 4 eexists. split; [reflexivity|]. right. split; [exact Hnz|]. left. auto.
Qed.

(* the effect on (log store, snapshot store) *)
Definition snap_eff (s : nstate) (m' : gmap N entry) (sns' : list snapshot) : Prop :=
  (m' = d_log s /\ sns' = d_snaps s) \/
  (fst (v_fsmLast s) <> 0 /\ sns' = d_snaps s ++ [snap_of s] /\
   (m' = d_log s \/ exists lo hi, m' = log_delete (d_log s) lo hi /\ hi <= fst (v_fsmLast s))).

Lemma take_images P s fs k :
  let img := cut_image P (Some (snap_of s)) s (trace_of (take_snapshot P s fs)) k in
  d_term img = d_term s /\ snap_eff s (d_log img) (d_snaps img).
Proof.
  cbv zeta. destruct (cut_some_dpr P (Some (snap_of s)) s (trace_of (take_snapshot P s fs)) k) as (j & Hj).
  set (img := cut_image _ _ _ _ _) in *.
  assert (Hd : d_term img = di_term (dpr img) /\ d_log img = di_log (dpr img) /\ d_snaps img = di_snaps (dpr img)) by (split; [|split]; reflexivity).
  destruct Hd as (-> & -> & ->). rewrite Hj. clear Hj img.
  destruct (take_cases P s fs) as (s' & r & tr & fs' & -> & Hc). cbn [trace_of].
  destruct Hc as [[_ ->]|(Hnz & [[_ ->]|(lo & hi & Hhi & _ & ->)])].
  - destruct j; simpl; (split; [reflexivity|left; auto]).
  - destruct j as [|[|j]]; simpl; (split; [reflexivity|]); [left; auto|right; auto|right; auto].
  - destruct j as [|[|[|j]]]; simpl; (split; [reflexivity|]); [left; auto|right; auto|right|right];
      (split; [exact Hnz|]; split; [reflexivity|]; right; exists lo, hi; auto).
Qed.

(* a snapshot at a created key b' of the server's branch, at or above the boundary; log entries are
   removed at or below its index only *)
Lemma zshape_snapshot C T m sns tk b b' m' sn : chain_ok C -> zshape C T m sns tk b ->
  created C b' -> snd b' <= T -> anc C b' (lk tk b) -> fst b <= fst b' ->
  log_sub m' m -> (forall i, fst b' < i -> m' !! i = m !! i) ->
  sk sn = b' -> sn_ok sn = true ->
  zshape C T m' (sns ++ [sn]) tk b'.
Proof.
  intros HC HS Hcr Ht Hanc Hle Hsub Hkeep Hsk Hok.
  pose proof (zshape_tk_lk C _ _ _ _ _ HS) as Htk. pose proof (zshape_b_lk C _ _ _ _ _ HS) as Hb.
  assert (Hbb : anc C b b') by (apply (anc_linear C b b' _ HC Hb Hanc Hle)).
  constructor.
  - eapply log_in_sub; [exact Hsub|apply N.le_refl|apply (zs_in _ _ _ _ _ _ HS)].
  - eapply log_below_sub; [exact Hsub|apply (zs_below _ _ _ _ _ _ HS)].
  - apply (zs_tk _ _ _ _ _ _ HS).
  - apply (zs_tkt _ _ _ _ _ _ HS).
  - right. exact Hcr.
  - exact Ht.
  - intros H. apply (anc_linear C b' tk _ HC Hanc Htk H).
  - intros H. apply (anc_linear C tk b' _ HC Htk Hanc). lia.
  - intros i Hi Hi'. rewrite Hkeep by exact Hi. apply (zs_seg _ _ _ _ _ _ HS); lia.
  - intros z Hz. apply in_app_iff in Hz. destruct Hz as [Hz|[<-|[]]].
    + destruct (zs_sn _ _ _ _ _ _ HS z Hz) as (A & B & D & E). repeat split; auto. eapply anc_trans; eauto.
    + rewrite Hsk. split; [exact Hok|]. split; [exact Hcr|]. split; [|apply anc_refl].
      change (sn_term sn) with (snd (sk sn)). rewrite Hsk. exact Ht.
  - right. exists sn. split; [apply in_app_iff; right; left; reflexivity|exact Hsk].
Qed.

Section Take.
  Variable C : chain.
  Hypothesis HC : chain_ok C.
  Hypothesis Hp : pclosed C.
  Variables (P : params) (s : nstate).
  Hypothesis Hrc : p_rc P = false.
  Hypothesis HS : zup C s.
  (* what the FSM goroutine reports is a created key of the server's branch at or above the boundary *)
  Hypothesis Hfsm : fst (v_fsmLast s) <> 0 ->
    created C (v_fsmLast s) /\ snd (v_fsmLast s) <= d_term s /\ anc C (v_fsmLast s) (last_entry s) /\
    v_lastSnapIdx s <= fst (v_fsmLast s).

  Lemma snap_eff_shape m' sns' : snap_eff s m' sns' ->
    (m' = d_log s /\ sns' = d_snaps s) \/ zshape C (d_term s) m' sns' (topk s) (v_fsmLast s).
  Proof.
    intros [H|(Hnz & -> & Hm)]; [left; exact H|right].
    destruct (Hfsm Hnz) as (F1 & F2 & F3 & F4). rewrite last_entry_lk in F3. rewrite <- bk_fst in F4.
    apply (zshape_snapshot C _ (d_log s) (d_snaps s) (topk s) (bk s) (v_fsmLast s) m' (snap_of s) HC HS F1 F2 F3 F4).
    - destruct Hm as [->|(lo & hi & -> & _)]; [apply log_sub_refl|apply log_delete_sub].
    - intros i Hi. destruct Hm as [->|(lo & hi & -> & Hhi)]; [reflexivity|].
      rewrite log_delete_lookup. destruct (N.leb_spec lo i); [|reflexivity]. destruct (N.leb_spec i hi); [lia|reflexivity].
    - unfold sk, snap_of. simpl. destruct (v_fsmLast s); reflexivity.
    - reflexivity.
  Qed.

  Lemma snap_eff_img T m' sns' : T = d_term s -> snap_eff s m' sns' -> zimgS C T m' sns'.
  Proof.
    intros -> H. destruct (snap_eff_shape m' sns' H) as [[-> ->]|Hz].
    - apply (zshape_img C HC _ _ _ _ _ HS).
    - apply (zshape_img C HC _ _ _ _ _ Hz).
  Qed.
End Take.
