(* ConvergeProofs.v — catch-up converges: the leader's replicateTo (Model/Replicate.v) against the
   follower's AppendEntries handler (Model/Node.v), composed in Model/Converge.v. *)
From Coq Require Import List NArith Bool Lia.
From stdpp Require Import gmap.
From RaftModel Require Import Base Config Compaction Commitment Node NodeCodec Leader Replicate Converge.
From RaftProofs Require Import AppendProofs ReplicateProofs ConvergeLeader ConvergeFollower.
Open Scope N_scope.

(* ---------------------------------------------------------------- one trip, accepted *)
Lemma cu_round_accept PL PF sL s n rs B :
  leader_ok PL sL n -> follower_wf (v_term sL) s -> 1 <= r_next rs <= n -> r_match rs < r_next rs ->
  caught_up sL s (r_next rs - 1) -> v_applied s <= B -> v_commit sL <= B ->
  exists rs' s', cu_round PL PF sL rs s n = Some (rs', s', if r_next rs' <=? n then None else Some false) /\
    follower_wf (v_term sL) s' /\ r_next rs < r_next rs' <= n + 1 /\ r_match rs' = r_next rs' - 1 /\
    caught_up sL s' (r_next rs' - 1) /\ v_applied s' <= B.
Proof.
  intros HL Hwf Hn Hm Hcu Ha Hc.
  destruct (setup_send_ok PL sL n (r_next rs) HL Hn) as (pt & es & Hsend & Hne & Hcontig & Hprev & Hes & Hlast).
  unfold cu_round. rewrite Hsend.
  destruct (append_accept PF s (mkAReq (v_term sL) (p_self PL) (p_self PL) (r_next rs - 1) pt es (v_commit sL))
              (v_term sL) Hwf eq_refl) as (s' & r & tr & E & R1 & R2 & W & Hbelow & Hheld & Happ).
  { exact Hcontig. }
  { intros e He. apply (Hes e He). }
  { cbn [aq_prevIdx aq_prevTerm]. destruct (N.eq_dec (r_next rs) 1) as [E1|E1]; [left; lia|right].
    destruct Hprev as (pe & Hpe & Hpt); [lia|].
    destruct (Hcu (r_next rs - 1) pe ltac:(lia) Hpe) as (pe' & H1 & H2). exists pe'. split; [exact H1|congruence]. }
  cbn [aq_prevIdx aq_entries aq_commit] in *.
  rewrite E, R1, R2. unfold round_step. rewrite N.ltb_irrefl.
  destruct (contig_last _ _ Hcontig Hne) as [_ Hli]. change (e_idx (last_of es)) with (last_idx_of es) in Hli.
  destruct es as [|e0 r0]; [contradiction|]. set (es := e0 :: r0) in *.
  cbv zeta. cbn [r_next r_match].
  exists (mkRS (last_idx_of es + 1) 0 (N.max (r_match rs) (last_idx_of es))), s'.
  split; [reflexivity|]. cbn [r_next r_match].
  split; [exact W|]. split; [lia|]. split; [lia|]. split; [|lia].
  replace (last_idx_of es + 1 - 1) with (last_idx_of es) by lia.
  intros i e Hi He. destruct (N.le_gt_cases i (r_next rs - 1)) as [Hlow|Hhigh].
  - rewrite Hbelow by exact Hlow. apply Hcu; [lia|exact He].
  - destruct (contig_nth _ _ Hcontig i) as (x & Hx & Hxi); [lia|].
    destruct (Hes x Hx) as (Hlx & _). rewrite Hxi, He in Hlx. inversion Hlx; subst x.
    destruct (Hheld e Hx) as (se & S1 & S2). exists se. rewrite <- Hxi. auto.
Qed.

(* ---------------------------------------------------------------- one trip, refused *)
Lemma cu_round_reject PL PF sL s n rs :
  leader_ok PL sL n -> follower_wf (v_term sL) s -> 1 < r_next rs <= n ->
  (forall pe pe', d_log sL !! (r_next rs - 1) = Some pe -> d_log s !! (r_next rs - 1) = Some pe' ->
                  e_term pe' <> e_term pe) ->
  exists rs' s', cu_round PL PF sL rs s n = Some (rs', s', None) /\
    follower_wf (v_term sL) s' /\ d_log s' = d_log s /\ v_applied s' = v_applied s /\
    1 <= r_next rs' < r_next rs /\ r_match rs' = r_match rs.
Proof.
  intros HL Hwf Hn Hno.
  destruct (setup_send_ok PL sL n (r_next rs) HL ltac:(lia)) as (pt & es & Hsend & Hne & Hcontig & Hprev & Hes & Hlast).
  unfold cu_round. rewrite Hsend.
  destruct Hprev as (pe & Hpe & Hpt); [lia|].
  destruct (append_reject PF s (mkAReq (v_term sL) (p_self PL) (p_self PL) (r_next rs - 1) pt es (v_commit sL))
              (v_term sL) Hwf eq_refl) as (s' & r & tr & E & R1 & R2 & R3 & R4 & W & D & A).
  { cbn [aq_prevIdx]. lia. }
  { cbn [aq_prevIdx aq_prevTerm]. intros pe' Hpe'. rewrite <- Hpt. eapply Hno; eauto. }
  rewrite E, R1, R2, R3, R4. unfold round_step. rewrite N.ltb_irrefl. cbv zeta.
  set (nx := N.max (N.min (r_next rs - 1) (v_lastLogIdx s + 1)) 1).
  assert (Hnx : 1 <= nx < r_next rs) by (unfold nx; lia).
  destruct (N.leb_spec nx n); [|lia].
  exists (mkRS nx 0 (r_match rs)), s'. split; [reflexivity|]. cbn [r_next r_match]. auto 10.
Qed.

(* ---------------------------------------------------------------- after the first acceptance *)
Lemma phase2 PL PF sL n B : leader_ok PL sL n -> v_commit sL <= B ->
  forall fuel rs s, follower_wf (v_term sL) s -> 1 <= r_next rs <= n -> r_match rs < r_next rs ->
  caught_up sL s (r_next rs - 1) -> v_applied s <= B -> (N.to_nat (n + 1 - r_next rs) <= fuel)%nat ->
  exists rs' s' k, cu_run fuel PL PF sL rs s n = Some (rs', s', k) /\
    r_next rs' = n + 1 /\ r_match rs' = n /\ caught_up sL s' n /\ follower_wf (v_term sL) s' /\
    v_applied s' <= B /\ (k <= N.to_nat (n + 1 - r_next rs))%nat.
Proof.
  intros HL Hc. induction fuel as [|fuel IH]; intros rs s Hwf Hn Hm Hcu Ha Hf; [lia|].
  destruct (cu_round_accept PL PF sL s n rs B HL Hwf Hn Hm Hcu Ha Hc) as (rs1 & s1 & E & W1 & N1 & M1 & C1 & A1).
  cbn [cu_run]. rewrite E. destruct (N.leb_spec (r_next rs1) n) as [Hle|Hgt].
  - destruct (IH rs1 s1 W1 ltac:(lia) ltac:(lia) C1 A1 ltac:(lia)) as (rs' & s' & k & E' & R1 & R2 & R3 & R4 & R5 & R6).
    rewrite E'. exists rs', s', (S k). split; [reflexivity|]. repeat (split; [assumption|]). lia.
  - exists rs1, s1, 1%nat. split; [reflexivity|]. assert (r_next rs1 = n + 1) by lia.
    split; [assumption|]. split; [lia|]. split; [|split; [exact W1|split; [exact A1|lia]]].
    replace n with (r_next rs1 - 1) by lia. exact C1.
Qed.

(* ---------------------------------------------------------------- before it: refusals lower nextIndex *)
Lemma phase1 PL PF sL n B : leader_ok PL sL n -> v_commit sL <= B ->
  forall fuel rs s, follower_wf (v_term sL) s -> log_matching_premise sL s -> 1 <= r_next rs <= n ->
  r_match rs = 0 -> v_applied s <= B -> (N.to_nat (r_next rs + n) <= fuel)%nat ->
  exists rs' s' k, cu_run fuel PL PF sL rs s n = Some (rs', s', k) /\
    r_next rs' = n + 1 /\ r_match rs' = n /\ caught_up sL s' n /\ follower_wf (v_term sL) s' /\
    v_applied s' <= B /\ (k <= N.to_nat (r_next rs + n))%nat.
Proof.
  intros HL Hc. induction fuel as [|fuel IH]; intros rs s Hwf Hlm Hn Hm Ha Hf; [lia|].
  assert (P2 : caught_up sL s (r_next rs - 1) ->
          exists rs' s' k, cu_run (S fuel) PL PF sL rs s n = Some (rs', s', k) /\
            r_next rs' = n + 1 /\ r_match rs' = n /\ caught_up sL s' n /\ follower_wf (v_term sL) s' /\
            v_applied s' <= B /\ (k <= N.to_nat (r_next rs + n))%nat).
  { intros Hcu.
    destruct (phase2 PL PF sL n B HL Hc (S fuel) rs s Hwf Hn ltac:(lia) Hcu Ha ltac:(lia))
      as (rs' & s' & k & E' & R1 & R2 & R3 & R4 & R5 & R6).
    exists rs', s', k. repeat (split; [assumption|]). lia. }
  assert (P1 : (forall pe pe', d_log sL !! (r_next rs - 1) = Some pe -> d_log s !! (r_next rs - 1) = Some pe' ->
                               e_term pe' <> e_term pe) -> 1 < r_next rs ->
          exists rs' s' k, cu_run (S fuel) PL PF sL rs s n = Some (rs', s', k) /\
            r_next rs' = n + 1 /\ r_match rs' = n /\ caught_up sL s' n /\ follower_wf (v_term sL) s' /\
            v_applied s' <= B /\ (k <= N.to_nat (r_next rs + n))%nat).
  { intros Hno H1.
    destruct (cu_round_reject PL PF sL s n rs HL Hwf ltac:(lia) Hno) as (rs1 & s1 & E & W1 & D1 & A1 & N1 & M1).
    cbn [cu_run]. rewrite E.
    destruct (IH rs1 s1 W1) as (rs' & s' & k & E' & R1 & R2 & R3 & R4 & R5 & R6); try lia.
    { unfold log_matching_premise. rewrite D1. exact Hlm. }
    rewrite E'. exists rs', s', (S k). split; [reflexivity|]. repeat (split; [assumption|]). lia. }
  destruct (N.eq_dec (r_next rs) 1) as [E1|E1].
  { apply P2. intros i e Hi. lia. }
  destruct HL as (Hk & Hall & Hrest). destruct (Hall (r_next rs - 1)) as (pe & Hpe & _); [lia|].
  destruct (d_log s !! (r_next rs - 1)) as [pe'|] eqn:Hpe'.
  - destruct (N.eq_dec (e_term pe') (e_term pe)) as [Et|Et].
    + apply P2. intros j ej Hj Hej. apply (Hlm (r_next rs - 1) pe pe' Hpe Hpe' (eq_sym Et) j ej Hj Hej).
    + apply P1; [|lia]. intros x y Hx Hy. congruence.
  - apply P1; [|lia]. intros x y Hx Hy. congruence.
Qed.

(* ---------------------------------------------------------------- the theorems *)
(* The statement first asked for,

     Theorem catch_up_converges : forall PL PF sL sF n next0,
       leader_ok PL sL n -> follower_ok (v_term sL) sF -> log_matching_premise sL sF -> 1 <= next0 <= n ->
       exists rs' sF' k,
         cu_run (N.to_nat (next0 + n) + 1) PL PF sL (mkRS next0 0 0) sF n = Some (rs', sF', k) /\
         r_next rs' = n + 1 /\ r_match rs' = n /\
         caught_up sL sF' n /\ follower_ok (v_term sL) sF' /\ (k <= N.to_nat (next0 + n))%nat.

   is false for the models as written: the last clause of follower_ok (v_applied <= v_lastLogIdx) does
   not survive a conflict truncation below lastApplied (Proofs/ConvergeCounter.v, by vm_compute; before
   the fix: commit of the follower's commit rule a leader commit index above n against a follower log
   longer than n broke it as well).  Everything else holds:
   follower_wf is follower_ok without that clause, and lastApplied stays below max(lastApplied, leader commit). *)
Theorem catch_up_converges_partial : forall PL PF sL sF n next0,
  leader_ok PL sL n -> follower_ok (v_term sL) sF -> log_matching_premise sL sF -> 1 <= next0 <= n ->
  exists rs' sF' k,
    cu_run (N.to_nat (next0 + n) + 1) PL PF sL (mkRS next0 0 0) sF n = Some (rs', sF', k) /\
    r_next rs' = n + 1 /\ r_match rs' = n /\
    caught_up sL sF' n /\ follower_wf (v_term sL) sF' /\ n <= v_lastLogIdx sF' /\
    v_applied sF' <= N.max (v_applied sF) (v_commit sL) /\ (k <= N.to_nat (next0 + n))%nat.
Proof.
  intros PL PF sL sF n next0 HL HF Hlm Hn.
  destruct (follower_ok_wf _ _ HF) as [Hwf _].
  destruct (phase1 PL PF sL n (N.max (v_applied sF) (v_commit sL)) HL ltac:(lia)
              (N.to_nat (next0 + n) + 1)%nat (mkRS next0 0 0) sF Hwf Hlm Hn eq_refl ltac:(lia))
    as (rs' & s' & k & E & R1 & R2 & R3 & R4 & R5 & R6).
  { cbn [r_next]. lia. }
  cbn [r_next] in R6. exists rs', s', k. repeat (split; [assumption|]). split; [|split; assumption].
  destruct HL as (_ & Hall & _). destruct (Hall n) as (e & He & _); [lia|].
  destruct (R3 n e ltac:(lia) He) as (e' & He' & _).
  destruct R4 as (_ & _ & _ & (W1 & _) & _).
  destruct (N.le_gt_cases n (v_lastLogIdx s')) as [|Hgt]; [assumption|].
  rewrite (W1 _ Hgt) in He'. discriminate.
Qed.

(* with the leader's commit index and the follower's lastApplied within 1..n, exactly the conclusion asked for *)
Theorem catch_up_converges_bounded : forall PL PF sL sF n next0,
  leader_ok PL sL n -> follower_ok (v_term sL) sF -> log_matching_premise sL sF -> 1 <= next0 <= n ->
  v_commit sL <= n -> v_applied sF <= n ->
  exists rs' sF' k,
    cu_run (N.to_nat (next0 + n) + 1) PL PF sL (mkRS next0 0 0) sF n = Some (rs', sF', k) /\
    r_next rs' = n + 1 /\ r_match rs' = n /\
    caught_up sL sF' n /\ follower_ok (v_term sL) sF' /\ (k <= N.to_nat (next0 + n))%nat.
Proof.
  intros PL PF sL sF n next0 HL HF Hlm Hn Hc Ha.
  destruct (catch_up_converges_partial PL PF sL sF n next0 HL HF Hlm Hn)
    as (rs' & s' & k & E & R1 & R2 & R3 & R4 & R5 & R6 & R7).
  exists rs', s', k. repeat (split; [assumption|]). split; [|assumption].
  apply follower_wf_ok; [assumption|lia].
Qed.

Print Assumptions catch_up_converges_partial.
Print Assumptions catch_up_converges_bounded.
