(* ClusterCommitSnapStepF.v — with snapshots: RequestVote, pre-vote, restart and TimeoutNow at one
   server keep the invariant; a newly granted vote is recorded with the voter's last entry
   (getLastEntry: the last log entry or the snapshot boundary). *)
From Coq Require Import List NArith Bool Lia.
From stdpp Require Import gmap.
From RaftModel Require Import Base Config Compaction Commitment Node NodeCodec Candidate Leader Replicate Cluster ClusterLog ClusterCommit.
From RaftProofs Require Import ConfigProofs CommitmentProofs VoteProofs ClusterProofs
  ClusterLogSpec ClusterLogChain ClusterLogNode ClusterLogVote ClusterLogLeader ClusterLogInv ClusterLogSteps
  ClusterCommitSpec ClusterCommitLog ClusterCommitChain ClusterCommitNode ClusterCommitGhost
  ClusterCommitInv ClusterCommitUpd ClusterCommitStepA ClusterCommitStepE ClusterCommitStepF
  ClusterCommitSnapLog ClusterCommitSnapNode ClusterCommitSnapLinv ClusterCommitSnapInv ClusterCommitSnapFinal
  ClusterCommitSnapUpd ClusterCommitSnapStepA ClusterCommitSnapStepD ClusterCommitSnapStepE.
Open Scope N_scope.

Section Handler.
  Variable cfg : config.
  Variable Ps : list params.
  Hypothesis HVn : NoDup (voters cfg).

  Lemma zinv_simple_handler g g' C LL A V j nj e cut fs r' ob out :
    zinv cfg Ps g C LL A V -> find_node (cnodes g) j = Some nj -> simple_event e ->
    step_full (gn_P nj) (gn_run nj) e cut fs = (r', ob, out) ->
    cnodes g' = upd_node (cnodes g) j (mkGN (gn_P nj) r' (keep_sess r' (gn_sess nj)) (gn_next nj)) ->
    zlinv [cfg] (cg_l g') C ->
    lg_msgs (cg_l g') = lg_msgs (cg_l g) -> cg_ans g' = cg_ans g -> cg_lead g' = cg_lead g ->
    g_leaders (gof g') = g_leaders (gof g) -> g_grants (gof g') = grant_ghost j ob ++ g_grants (gof g) ->
    (* a vote request comes from the runCandidate invocation of another server *)
    (forall q, e = NVote q -> exists ni se, In ni (cnodes g) /\ gn_id ni = vq_addr q /\ vq_addr q <> j /\
                                 gn_sess ni = Some se /\ se_req se = q) ->
    exists Vn, zinv cfg Ps g' C LL A (Vn ++ V).
  Proof.
    intros HI Hfind He Hstep Hnodes Hl' Hmsgs Hans Hleads Hld Hgr Hcand.
    destruct (find_node_in _ _ _ Hfind) as [Hin Hid].
    pose proof (zv_l cfg Ps g C LL A V HI) as Hl. pose proof (ci_ok C LL (zv_ci cfg Ps g C LL A V HI)) as HC.
    pose proof (znode_wfr [cfg] _ C nj Hl Hin) as Hw.
    destruct (zl_nodes [cfg] _ C Hl nj Hin) as [Hnl _].
    pose proof (zv_node cfg Ps g C LL A V HI nj Hin) as Hcn.
    pose proof (zinv_pclosed cfg Ps g C LL A V HI) as Hp.
    destruct (simple_step_z cfg Ps C (gn_P nj) (gn_run nj) e cut fs r' ob out HC Hp Hw Hnl Hcn He Hstep) as (Hnl' & Hcn' & Hq & Hpost).
    pose proof (step_good (gn_P nj) (gn_run nj) e cut fs Hw) as Hg. rewrite Hstep in Hg.
    destruct Hg as (Hw' & (_ & Hdt & Hkeep & Hcast) & Hobs & _).
    set (nj' := mkGN (gn_P nj) r' (keep_sess r' (gn_sess nj)) (gn_next nj)) in *.
    (* the vote that is newly in force, if any *)
    set (newv := match e with
                 | NVote q => if live_dec (live (image r')) (Some (vq_term q, vq_addr q)) then
                                if live_dec (live (image (gn_run nj))) (Some (vq_term q, vq_addr q)) then []
                                else if ll_has LL (vq_term q) then []
                                else [(j, vq_term q, vq_addr q, last_entry (image (gn_run nj)), (vq_lastIdx q, vq_lastTerm q))]
                              else []
                 | _ => []
                 end : Vt).
    assert (Hnewv : forall w T' c kw rq, In (w, T', c, kw, rq) newv ->
              exists q s, e = NVote q /\ gn_run nj = Up s /\ w = j /\ T' = vq_term q /\ c = vq_addr q /\ kw = last_entry s /\
                rq = (vq_lastIdx q, vq_lastTerm q) /\ live (image r') = Some (T', c) /\ ll_has LL T' = false /\
                v_term s <= T' /\ log_ok s (vq_lastIdx q) (vq_lastTerm q) = true).
    { intros w T' c kw rq Hv. unfold newv in Hv. destruct e as [q|q|a|q| | | | |]; try contradiction.
      destruct (live_dec (live (image r')) _) as [E1|]; [|contradiction].
      destruct (live_dec (live (image (gn_run nj))) _) as [|N2]; [contradiction|].
      destruct (ll_has LL (vq_term q)) eqn:E3; [contradiction|]. destruct Hv as [Hv|[]]. inversion Hv; subst.
      destruct (Hcast (vq_term q) (vq_addr q) E1 N2) as [(q' & Eq & C1 & C2 & C3 & C4 & _)|(Eq & _)]; [|discriminate].
      inversion Eq; subst q'. destruct (gn_run nj) as [s|s] eqn:Er.
      - exists q, s. simpl in *. auto 12.
      - exfalso. simpl in Hstep. inversion Hstep; subst. apply N2. exact E1. }
    exists newv.
    assert (Hlive' : forall T' c, live (image r') = Some (T', c) ->
              (exists kw rq, In (j, T', c, kw, rq) (newv ++ V)) \/ (exists c' tl', In (T', c', tl') LL)).
    { intros T' c Hlv. destruct (live_dec (live (image (gn_run nj))) (Some (T', c))) as [Eo|No].
      - destruct (zv_live cfg Ps g C LL A V HI nj T' c Hin Eo) as [(kw & rq & H)|H]; [left|right; exact H].
        exists kw, rq. apply in_app_iff. right. rewrite <- Hid. exact H.
      - destruct (Hcast T' c Hlv No) as [(q & Eq & C1 & C2 & _)|(Eq & _)].
        2:{ subst e. contradiction. }
        subst e T' c. destruct (ll_has LL (vq_term q)) eqn:E3; [right; apply ll_has_true, E3|left].
        exists (last_entry (image (gn_run nj))), (vq_lastIdx q, vq_lastTerm q). apply in_app_iff. left. unfold newv.
        destruct (live_dec (live (image r')) _) as [|N1]; [|contradiction].
        destruct (live_dec (live (image (gn_run nj))) _) as [|]; [contradiction|]. try rewrite E3. left. reflexivity. }
    apply (zinv_quiet cfg Ps HVn g g' C LL A V newv (grant_ghost j ob) j nj nj' HI Hfind Hid Hnodes Hl' Hq Hcn' Hmsgs Hans Hld Hgr).
    - intros i _. rewrite Hleads. reflexivity.
    - intros se' Hse'. left. exists se'. split; [|reflexivity]. cbn [nj' gn_sess] in Hse'. unfold keep_sess in Hse'.
      destruct r' as [s'|s']; [|discriminate]. destruct (gn_sess nj); [|discriminate]. destruct (v_role s' =? Candidate); [exact Hse'|discriminate].
    - (* a runCandidate invocation that goes on *)
      intros se Hse. cbn [nj' gn_sess gn_run] in *. unfold keep_sess in Hse.
      destruct r' as [s'|s']; [|discriminate]. destruct (gn_sess nj) as [se0|] eqn:Es0; [|discriminate].
      destruct (N.eqb_spec (v_role s') Candidate) as [Hrc|]; [|discriminate]. inversion Hse; subst se0.
      exists s'. split; [reflexivity|].
      destruct (zv_se cfg Ps g C LL A V HI nj se Hin Es0) as (s & Hs & Hcase). destruct Hcase as [Hle|Hll]; [left|right; exact Hll].
      destruct Hq as (Elog & _ & _ & [(s0 & Hs0 & K)|(_ & Hf & _)]); [|rewrite Hf in Hrc; discriminate].
      rewrite Hs in Hs0. inversion Hs0; subst s0. rewrite (zkeep_last_entry s s' K). exact Hle.
    - (* still a leader *)
      intros s' Hs' Hr'. cbn [nj' gn_run] in Hs'. subst r'. destruct (Hpost s' eq_refl Hr') as (s & Hs & Hrs & Et).
      destruct (zv_lead cfg Ps g C LL A V HI nj s Hin Hs Hrs) as [(tl & ld & _ & L2 & _) _].
      exists s, ld, ld. split; [exact Hs|]. split; [exact Hrs|]. split; [exact Et|].
      destruct Hq as (Elog & _ & _ & [(s0 & Hs0 & K)|(_ & Hf & _)]); [|rewrite Hf in Hr'; discriminate].
      rewrite Hs in Hs0. inversion Hs0; subst s0. destruct K as (_ & (_ & _ & _ & K4 & _) & _).
      split; [exact K4|]. rewrite Hleads, <- Hid. auto 10.
    - (* what the voter accepted before *)
      intros w T' c kw rq k k0 Hv Ha Hlt Hanc Hpos.
      destruct (Hnewv _ _ _ _ _ Hv) as (q & s & _ & Hs & -> & -> & -> & -> & _ & _ & Hno & Hvt & _).
      rewrite <- Hid in Ha. rewrite Hs in Hw. destruct Hw as [_ Hvd].
      apply (zcast_va cfg Ps g C LL A V nj s (vq_term q) k k0 HI Hin Hs); auto. lia.
    - intros w T' c kw rq Hv. destruct (Hnewv _ _ _ _ _ Hv) as (q & s & _ & Hs & -> & -> & -> & -> & -> & _ & _ & _ & Hlo).
      rewrite Hs in Hnl. simpl in Hnl.
      split; [apply log_ok_uptodateS; exact Hlo|rewrite last_entry_lk; apply (zshape_lk_root C _ _ _ _ _ Hnl)].
    - (* the voter and the candidate exist, in terms at least T' *)
      intros w T' c kw rq Hv. destruct (Hnewv _ _ _ _ _ Hv) as (q & s & Eq & Hs & -> & -> & -> & _ & _ & Hlv & _).
      split.
      + exists nj'. split; [rewrite Hnodes; apply in_upd_node with (n := nj); assumption|]. split; [exact Hid|].
        unfold dtn. cbn [nj' gn_run]. destruct (live_term _ _ _ Hlv) as [-> _]. lia.
      + destruct (Hcand q Eq) as (ni & se & Hni & Hnid & Hne & Hse & Hrq).
        exists ni. split; [rewrite Hnodes; unfold upd_node; apply in_map_iff; exists ni; destruct (N.eqb_spec (gn_id ni) j); [congruence|auto]|].
        split; [exact Hnid|]. pose proof (gi_nodes [cfg] _ (zl_g [cfg] _ C Hl) ni Hni) as [(Hwi & _) Hso].
        unfold sess_ok in Hso. rewrite Hse in Hso. destruct Hso as (c0 & si & _ & Hsi & Hti & _). rewrite Hrq in Hti.
        unfold dtn. rewrite Hsi in *. destruct Hwi as [_ Hvi]. simpl. lia.
    - intros w T' c kw rq xc se Hv Hxc Hxci Hse Hst.
      destruct (Hnewv _ _ _ _ _ Hv) as (q & s & Eq & Hs & -> & -> & -> & _ & -> & _).
      destruct (Hcand q Eq) as (ni & se0 & Hni & Hnid & Hne & Hse0 & Hrq).
      assert (xc = ni).
      { rewrite Hnodes in Hxc. destruct (in_upd_cases _ _ _ _ Hxc) as [->|[Hxo _]]; [exfalso; apply Hne; rewrite <- Hxci; exact Hid|].
        apply (nodup_id_eq _ xc ni (znodes_nodup cfg Ps g C LL A V HI) Hxo Hni). congruence. }
      subst xc. rewrite Hse0 in Hse. inversion Hse; subst se0. rewrite Hrq. reflexivity.
    - (* the ghost grant *)
      intros w T' c Hg. unfold grant_ghost in Hg. destruct ob as [q t gr|q t gr|a r|q r|q sf| |]; try contradiction.
      destruct gr; [|contradiction]. destruct Hg as [Hg|[]]. inversion Hg; subst w T' c.
      apply Hlive'. apply (Hobs q t eq_refl).
    - exact Hlive'.
  Qed.
End Handler.
