(* ConvergeFollower.v — liveness direction of the AppendEntries handler: with no store failure and a
   hole-free follower log, a request whose previous entry matches is accepted, any other is refused
   with the state unchanged (up to the advertised leader). *)
From Coq Require Import List NArith Bool Lia.
From stdpp Require Import gmap.
From RaftModel Require Import Base Config Compaction Commitment Node NodeCodec Leader Replicate Converge.
From RaftProofs Require Import AppendProofs ReplicateProofs.
Open Scope N_scope.

Definition known (e : entry) : Prop := (prepare_kind (e_ty e) =? 3) = false.

(* a log holding exactly the indices 1..last, each under its own key, of known types *)
Definition log_wf (m : gmap N entry) (last : N) : Prop :=
  (forall i, last < i -> m !! i = None) /\
  (forall i e, m !! i = Some e -> e_idx e = i) /\
  (forall i, 0 < i <= last -> exists e, m !! i = Some e /\ known e).

(* follower_ok without its last clause (lastApplied <= lastLogIndex), which the handler does not keep *)
Definition follower_wf (T : N) (s : nstate) : Prop :=
  v_term s = T /\ v_role s = Follower /\ v_lastSnapIdx s = 0 /\
  log_wf (d_log s) (v_lastLogIdx s) /\
  (0 < v_lastLogIdx s -> exists e, d_log s !! v_lastLogIdx s = Some e /\ e_term e = v_lastLogTerm s).

Lemma follower_ok_wf T s : follower_ok T s -> follower_wf T s /\ v_applied s <= v_lastLogIdx s.
Proof.
  intros (H1 & H2 & H3 & H4 & H5 & H6 & H7 & H8). unfold follower_wf, log_wf, known. auto 10.
Qed.

Lemma follower_wf_ok T s : follower_wf T s -> v_applied s <= v_lastLogIdx s -> follower_ok T s.
Proof.
  intros (H1 & H2 & H3 & (H4 & H5 & H6) & H7) H8. unfold follower_ok. auto 10.
Qed.

(* ---------------------------------------------------------------- contiguous lists *)
Lemma contig_nth q es : contig q es ->
  forall i, q < i <= q + N.of_nat (length es) -> exists e, In e es /\ e_idx e = i.
Proof.
  revert q. induction es as [|x r IH]; intros q Hc i Hi; simpl in *; [lia|].
  destruct Hc as [Hx Hr]. destruct (N.eq_dec i (q + 1)) as [->|Hne].
  - exists x. auto.
  - destruct (IH _ Hr i) as (e & He & Hei); [lia|]. exists e. auto.
Qed.

Lemma contig_bound q es : contig q es -> forall e, In e es -> q < e_idx e <= q + N.of_nat (length es).
Proof.
  revert q. induction es as [|x r IH]; intros q Hc e He; simpl in *; [contradiction|].
  destruct Hc as [Hx Hr]. destruct He as [<-|He]; [lia|]. specialize (IH _ Hr e He). lia.
Qed.

Lemma contig_last q es : contig q es -> es <> [] ->
  In (last_of es) es /\ e_idx (last_of es) = q + N.of_nat (length es).
Proof.
  unfold last_of. revert q. induction es as [|x r IH]; intros q Hc Hne; [contradiction|].
  destruct Hc as [Hx Hr]. destruct r as [|y r'].
  - simpl. split; [auto|lia].
  - destruct (IH _ Hr ltac:(discriminate)) as [A B].
    change (last (x :: y :: r') (mkE 0 0 0 0)) with (last (y :: r') (mkE 0 0 0 0)).
    split; [right; exact A|]. rewrite B. simpl length. lia.
Qed.

(* ---------------------------------------------------------------- store operations on a well-formed log *)
Lemma log_wf_store m q news : log_wf m q -> contig q news -> (forall e, In e news -> known e) ->
  log_wf (log_store m news) (q + N.of_nat (length news)) /\
  (forall i, i <= q -> log_store m news !! i = m !! i) /\
  (forall e, In e news -> log_store m news !! e_idx e = Some e).
Proof.
  intros (W1 & W2 & W3) Hc Hk.
  assert (Hlow : forall i, i <= q -> log_store m news !! i = m !! i).
  { intros i Hi. rewrite log_store_lookup. destruct (find_last i news) as [y|] eqn:F; [|reflexivity].
    apply find_last_In in F. destruct F as [F1 F2]. pose proof (contig_idx _ _ Hc y F1). lia. }
  assert (Hin : forall e, In e news -> log_store m news !! e_idx e = Some e).
  { intros e He. rewrite log_store_lookup, (contig_find_last _ _ _ Hc He). reflexivity. }
  split; [|split; assumption]. split; [|split].
  - intros i Hi. rewrite log_store_lookup. destruct (find_last i news) as [y|] eqn:F.
    + apply find_last_In in F. destruct F as [F1 F2]. pose proof (contig_bound _ _ Hc y F1). lia.
    + apply W1. lia.
  - intros i e. rewrite log_store_lookup. destruct (find_last i news) as [y|] eqn:F.
    + apply find_last_In in F. destruct F as [F1 F2]. intros H; inversion H; subst. reflexivity.
    + apply W2.
  - intros i Hi. destruct (N.le_gt_cases i q) as [Hle|Hgt].
    + rewrite Hlow by exact Hle. apply W3. lia.
    + destruct (contig_nth _ _ Hc i) as (e & He & Hei); [lia|]. exists e. rewrite <- Hei.
      split; [apply Hin; exact He|apply Hk; exact He].
Qed.

Lemma log_wf_delete m last c : log_wf m last -> 0 < c <= last ->
  log_wf (log_delete m c last) (c - 1) /\ (forall i, i < c -> log_delete m c last !! i = m !! i).
Proof.
  intros (W1 & W2 & W3) Hc.
  assert (Hlow : forall i, i < c -> log_delete m c last !! i = m !! i).
  { intros i Hi. rewrite log_delete_lookup. destruct (N.leb_spec c i); [lia|]. reflexivity. }
  split; [|exact Hlow]. split; [|split].
  - intros i Hi. rewrite log_delete_lookup. destruct (N.leb_spec c i); [|lia].
    destruct (N.leb_spec i last); simpl; [reflexivity|]. apply W1. lia.
  - intros i e. rewrite log_delete_lookup. destruct (_ && _); [discriminate|]. apply W2.
  - intros i Hi. rewrite Hlow by lia. apply W3. lia.
Qed.

(* ---------------------------------------------------------------- the scan on a well-formed log *)
Definition held (m : gmap N entry) (e : entry) : Prop :=
  exists se, m !! e_idx e = Some se /\ e_term se = e_term e.

Lemma scan_wf m last : log_wf m last -> forall es prev, contig prev es -> prev <= last ->
  match scan_entries m last es with
  | ScanNone => forall e, In e es -> held m e
  | ScanMissing => False
  | ScanNew news => exists dup, es = dup ++ news /\ news <> [] /\ contig last news /\
                    (forall e, In e dup -> held m e)
  | ScanConflict c news => exists dup, es = dup ++ news /\ news <> [] /\ prev < c <= last /\
                    contig (c - 1) news /\ (forall e, In e dup -> e_idx e < c /\ held m e)
  end.
Proof.
  intros (W1 & W2 & W3). induction es as [|e r IH]; intros prev Hc Hp; simpl.
  - intros e [].
  - destruct Hc as [He Hr]. destruct (N.ltb_spec last (e_idx e)) as [Hlt|Hge].
    + exists []. split; [reflexivity|]. split; [discriminate|]. split; [|intros x []].
      assert (prev = last) by lia. subst prev. split; assumption.
    + destruct (W3 (e_idx e)) as (se & Hse & _); [lia|]. rewrite Hse.
      destruct (N.eqb_spec (e_term e) (e_term se)) as [Ht|Ht].
      * assert (Hh : held m e) by (exists se; auto).
        specialize (IH (prev + 1) Hr ltac:(lia)).
        destruct (scan_entries m last r) as [news|c news| |].
        -- destruct IH as (dup & I1 & I2 & I3 & I4). exists (e :: dup).
           split; [simpl; f_equal; exact I1|]. split; [exact I2|]. split; [exact I3|].
           intros x [<-|Hx]; [exact Hh|apply I4; exact Hx].
        -- destruct IH as (dup & I1 & I2 & I3 & I4 & I5). exists (e :: dup).
           split; [simpl; f_equal; exact I1|]. split; [exact I2|]. split; [lia|]. split; [exact I4|].
           intros x [<-|Hx]; [split; [lia|exact Hh]|apply I5; exact Hx].
        -- exact IH.
        -- intros x [<-|Hx]; [exact Hh|apply IH; exact Hx].
      * exists []. split; [reflexivity|]. split; [discriminate|]. split; [lia|]. split; [|intros x []].
        simpl. rewrite He. replace (prev + 1 - 1) with prev by lia. split; [reflexivity|].
        replace (prev + 1 - 1 + 1) with (prev + 1) by lia. exact Hr.
Qed.

(* ---------------------------------------------------------------- store_new *)
Lemma fold_config_vol P es : forall s,
  let s' := fold_left (process_config_entry P) es s in
  v_term s' = v_term s /\ v_role s' = v_role s /\ v_lastSnapIdx s' = v_lastSnapIdx s /\
  v_applied s' = v_applied s /\ d_log s' = d_log s.
Proof.
  induction es as [|e r IH]; intros s; simpl; [auto 10|].
  destruct (IH (process_config_entry P s e)) as (A & B & C & D & E).
  rewrite A, B, C, D, E. unfold process_config_entry.
  destruct (e_ty e =? LogConfiguration); auto 10.
Qed.

Lemma store_new_ok P fr lc s3 tr3 news q T :
  news <> [] -> contig q news -> (forall e, In e news -> known e) ->
  v_term s3 = T -> v_role s3 = Follower -> v_lastSnapIdx s3 = 0 -> log_wf (d_log s3) q ->
  exists s7 tr7, store_new P fr lc s3 tr3 [] news = inl (Some (s7, tr7, [])) /\ follower_wf T s7 /\
    d_log s7 = log_store (d_log s3) news /\ v_applied s7 = v_applied s3 /\
    v_lastLogIdx s7 = q + N.of_nat (length news).
Proof.
  intros Hne Hc Hk Ht Hr Hs Hw.
  destruct (log_wf_store _ _ _ Hw Hc Hk) as (L1 & L2 & L3).
  destruct (contig_last _ _ Hc Hne) as [La Lb].
  assert (G : forall s4 : nstate, v_term s4 = T -> v_role s4 = Follower -> v_lastSnapIdx s4 = 0 ->
     d_log s4 = d_log s3 -> forall st pc,
     let s7 := set_lastlog (fold_left (process_config_entry P) news (set_log s4 (log_store (d_log s4) news) st pc))
                           (e_idx (last_of news)) (e_term (last_of news)) in
     follower_wf T s7 /\ d_log s7 = log_store (d_log s3) news /\ v_applied s7 = v_applied s4 /\
     v_lastLogIdx s7 = q + N.of_nat (length news)).
  { intros s4 H1 H2 H3 H4 st pc.
    destruct (fold_config_vol P news (set_log s4 (log_store (d_log s4) news) st pc)) as (A & B & C & D & E).
    cbn zeta. unfold follower_wf.
    cbn [set_lastlog v_term v_role v_lastSnapIdx v_applied d_log v_lastLogIdx v_lastLogTerm].
    rewrite A, B, C, D, E. cbn [set_log v_term v_role v_lastSnapIdx v_applied d_log]. rewrite H4, Lb.
    repeat split; auto.
    - apply L1. - apply L1. - apply L1.
    - intros _. exists (last_of news). split; [|reflexivity]. rewrite <- Lb. apply L3. exact La. }
  unfold store_new, do_stage, do_store.
  destruct (p_track P); cbn [next_fail negb]; eexists; eexists; (split; [reflexivity|]).
  - destruct (G (set_log s3 (d_log s3) (N.min lc (e_idx (last_of news))) (d_pcommit s3)) Ht Hr Hs eq_refl
                (N.min lc (e_idx (last_of news))) (N.min lc (e_idx (last_of news)))) as (G1 & G2 & G3 & G4).
    exact (conj G1 (conj G2 (conj G3 G4))).
  - destruct (G s3 Ht Hr Hs eq_refl (d_staged s3) (d_pcommit s3)) as (G1 & G2 & G3 & G4).
    exact (conj G1 (conj G2 (conj G3 G4))).
Qed.

(* ---------------------------------------------------------------- the entries block *)
Lemma held_bound m last e : log_wf m last -> held m e -> e_idx e <= last.
Proof.
  intros (W1 & _) (se & H & _). destruct (N.le_gt_cases (e_idx e) last) as [|Hgt]; [assumption|].
  rewrite (W1 _ Hgt) in H. discriminate.
Qed.

(* storing `news` (contiguous after q) into a log m3 that agrees with m below q+1 *)
Lemma store_after P fr lc s3 tr3 T m prev dup news q :
  news <> [] -> contig q news -> (forall e, In e news -> known e) ->
  v_term s3 = T -> v_role s3 = Follower -> v_lastSnapIdx s3 = 0 -> log_wf (d_log s3) q ->
  (forall i, i <= q -> d_log s3 !! i = m !! i) -> prev <= q ->
  (forall e, In e dup -> e_idx e <= q /\ held m e) ->
  exists s8 tr8, store_new P fr lc s3 tr3 [] news = inl (Some (s8, tr8, [])) /\ follower_wf T s8 /\
    (forall i, i <= prev -> d_log s8 !! i = m !! i) /\
    (forall e, In e (dup ++ news) -> held (d_log s8) e) /\ v_applied s8 = v_applied s3.
Proof.
  intros Hne Hc Hk Ht Hr Hs Hw Hm Hp Hd.
  destruct (store_new_ok P fr lc s3 tr3 news q T Hne Hc Hk Ht Hr Hs Hw) as (s8 & tr8 & E & F & L & A & _).
  destruct (log_wf_store _ _ _ Hw Hc Hk) as (_ & L2 & L3).
  exists s8, tr8. split; [exact E|]. split; [exact F|]. split; [|split; [|exact A]].
  - intros i Hi. rewrite L, L2 by lia. apply Hm. lia.
  - intros e He. apply in_app_iff in He. destruct He as [He|He].
    + destruct (Hd e He) as (Hq & se & H1 & H2). exists se. rewrite L, L2 by exact Hq.
      rewrite Hm by exact Hq. auto.
    + exists e. rewrite L, (L3 e He). auto.
Qed.

Lemma ae_entries_ok P fr s2 tr1 a T :
  follower_wf T s2 -> contig (aq_prevIdx a) (aq_entries a) -> aq_prevIdx a <= v_lastLogIdx s2 ->
  (forall e, In e (aq_entries a) -> known e) ->
  exists s8 tr8, ae_entries P fr s2 tr1 [] a = inl (Some (s8, tr8, [])) /\ follower_wf T s8 /\
    (forall i, i <= aq_prevIdx a -> d_log s8 !! i = d_log s2 !! i) /\
    (forall e, In e (aq_entries a) -> held (d_log s8) e) /\ v_applied s8 = v_applied s2.
Proof.
  intros Hwf Hc Hp Hk. pose proof Hwf as (Ht & Hr & Hs & Hw & Hl). unfold ae_entries.
  destruct (aq_entries a) as [|e0 es0] eqn:Ees.
  { exists s2, tr1. split; [reflexivity|]. split; [exact Hwf|]. split; [reflexivity|]. split; [intros e []|reflexivity]. }
  rewrite <- Ees in *. clear Ees e0 es0.
  pose proof (scan_wf _ _ Hw _ _ Hc Hp) as Hscan.
  destruct (scan_entries (d_log s2) (v_lastLogIdx s2) (aq_entries a)) as [news|c news| |].
  - destruct Hscan as (dup & E1 & E2 & E3 & E4). rewrite E1 in *.
    apply (store_after P fr (aq_commit a) s2 tr1 T (d_log s2) (aq_prevIdx a) dup news (v_lastLogIdx s2)); auto.
    + intros e He. apply Hk. apply in_app_iff. auto.
    + intros e He. split; [eapply held_bound; eauto|auto].
  - destruct Hscan as (dup & E1 & E2 & E3 & E4 & E5). rewrite E1 in *.
    destruct (log_wf_delete _ _ c Hw ltac:(lia)) as [D1 D2].
    unfold do_delete. cbn [next_fail negb]. destruct (conflict_pred a news) as [cpi cpt].
    match goal with |- context [store_new _ _ _ ?S3 _ _ _] => set (s3 := S3) end.
    assert (Hd3 : d_log s3 = log_delete (d_log s2) c (v_lastLogIdx s2))
      by (unfold s3; destruct (c <=? v_latestIdx _); reflexivity).
    assert (Hv3 : v_term s3 = T /\ v_role s3 = Follower /\ v_lastSnapIdx s3 = 0 /\ v_applied s3 = v_applied s2)
      by (unfold s3; destruct (c <=? v_latestIdx _); cbn; auto).
    destruct Hv3 as (V1 & V2 & V3 & V4). rewrite <- V4.
    apply (store_after P fr (aq_commit a) s3 _ T (d_log s2) (aq_prevIdx a) dup news (c - 1)); auto.
    + intros e He. apply Hk. apply in_app_iff. auto.
    + rewrite Hd3. exact D1.
    + intros i Hi. rewrite Hd3. apply D2. lia.
    + lia.
    + intros e He. destruct (E5 e He). split; [lia|assumption].
  - contradiction.
  - exists s2, tr1. split; [reflexivity|]. split; [exact Hwf|]. split; [reflexivity|]. split; [exact Hscan|reflexivity].
Qed.

(* ---------------------------------------------------------------- the commit block *)
Lemma collect_ok m last : log_wf m last -> forall cnt idx, idx + N.of_nat cnt <= last ->
  exists l, collect_logs m idx cnt = Some l.
Proof.
  intros (W1 & W2 & W3). induction cnt as [|cnt IH]; intros idx Hi; simpl.
  - exists []. reflexivity.
  - destruct (W3 (idx + 1)) as (e & He & Hk); [lia|]. rewrite He. unfold known in Hk. rewrite Hk.
    destruct (IH (idx + 1)) as (l & Hl); [lia|]. rewrite Hl. eexists. reflexivity.
Qed.

Lemma process_logs_ok s T idx : follower_wf T s -> idx <= v_lastLogIdx s ->
  exists s' tr, process_logs s idx = Some (s', tr) /\ follower_wf T s' /\ d_log s' = d_log s /\
    v_applied s' <= N.max (v_applied s) idx.
Proof.
  intros Hwf Hi. pose proof Hwf as (Ht & Hr & Hs & Hw & Hl). unfold process_logs.
  destruct (N.leb_spec idx (v_applied s)).
  - exists s, []. split; [reflexivity|]. split; [exact Hwf|]. split; [reflexivity|lia].
  - destruct (collect_ok _ _ Hw (N.to_nat (idx - v_applied s)) (v_applied s)) as (l & El); [lia|].
    rewrite El. eexists. eexists. split; [reflexivity|]. split; [exact Hwf|]. split; [reflexivity|].
    cbn [set_applied_fsm v_applied]. lia.
Qed.

Lemma ae_commit_ok okr s8 tr8 a T : follower_wf T s8 ->
  exists s' tr, ae_commit okr s8 tr8 [] a = Done s' okr tr [] /\ follower_wf T s' /\
    d_log s' = d_log s8 /\ v_applied s' <= N.max (v_applied s8) (aq_commit a).
Proof.
  intros Hwf. pose proof Hwf as (Ht & Hr & Hs & Hw & Hl). unfold ae_commit.
  destruct ((0 <? aq_commit a) && (v_commit s8 <? aq_commit a)).
  - cbv zeta. destruct (v_commit s8 <? _).
    2:{ exists s8, tr8. split; [reflexivity|]. split; [exact Hwf|]. split; [reflexivity|lia]. }
    match goal with |- context [process_logs ?S ?I] => set (s10 := S); set (idx := I) end.
    assert (H10 : follower_wf T s10 /\ d_log s10 = d_log s8 /\ v_applied s10 = v_applied s8 /\
                  v_lastLogIdx s10 = v_lastLogIdx s8).
    { unfold s10. destruct (v_latestIdx _ <=? _); (split; [exact Hwf|auto]). }
    destruct H10 as (W10 & D10 & A10 & L10).
    assert (Hidx : idx <= v_lastLogIdx s10 /\ idx <= aq_commit a).
    { rewrite L10. unfold idx, last_index. rewrite Hs. lia. }
    destruct (process_logs_ok s10 T idx W10 (proj1 Hidx)) as (s' & tr & E & W & D & A).
    rewrite E. exists s', (tr8 ++ tr). split; [reflexivity|]. split; [exact W|]. split; [congruence|]. lia.
  - exists s8, tr8. split; [reflexivity|]. split; [exact Hwf|]. split; [reflexivity|lia].
Qed.

(* ---------------------------------------------------------------- the handler *)
Lemma ae_enter P s fs a : v_term s = aq_term a -> v_role s = Follower ->
  append_entries P s fs a = ae_body P s (set_leader s (aq_addr a) (aq_id a)) (v_term s) [] fs a.
Proof.
  intros H1 H2. unfold append_entries. rewrite <- H1, N.ltb_irrefl, H2. reflexivity.
Qed.

Lemma prev_check_wf T s2 a : follower_wf T s2 ->
  prev_check s2 a = if 0 <? aq_prevIdx a
                    then match d_log s2 !! aq_prevIdx a with
                         | None => None
                         | Some pe => Some (aq_prevTerm a =? e_term pe)
                         end
                    else Some true.
Proof.
  intros (Ht & Hr & Hs & Hw & Hl). unfold prev_check, last_entry. rewrite Hs.
  destruct (N.ltb_spec 0 (aq_prevIdx a)) as [Hp|]; [|reflexivity].
  destruct (N.leb_spec 0 (v_lastLogIdx s2)); [|lia].
  destruct (N.eqb_spec (aq_prevIdx a) (v_lastLogIdx s2)) as [E|E].
  - rewrite E. destruct Hl as (e & He & Hte); [lia|]. rewrite He, Hte. reflexivity.
  - destruct (N.eqb_spec (aq_prevIdx a) 0); [lia|]. reflexivity.
Qed.

Lemma wf_set_leader T s x y : follower_wf T s -> follower_wf T (set_leader s x y).
Proof. intros H. exact H. Qed.

Lemma last_index_wf T s : follower_wf T s -> last_index s = v_lastLogIdx s.
Proof. intros (_ & _ & Hs & _). unfold last_index. rewrite Hs. lia. Qed.

Theorem append_reject P s a T : follower_wf T s -> aq_term a = T -> 0 < aq_prevIdx a ->
  (forall pe, d_log s !! aq_prevIdx a = Some pe -> e_term pe <> aq_prevTerm a) ->
  exists s' r tr, append_entries P s [] a = Done s' r tr [] /\
    ar_success r = false /\ ar_noretry r = true /\ ar_term r = T /\ ar_last r = v_lastLogIdx s /\
    follower_wf T s' /\ d_log s' = d_log s /\ v_applied s' = v_applied s.
Proof.
  intros Hwf Ha Hp Hno. pose proof Hwf as (Ht & Hr & _).
  rewrite ae_enter by congruence. unfold ae_body.
  pose proof (wf_set_leader T s (aq_addr a) (aq_id a) Hwf) as Hwf2.
  rewrite (prev_check_wf T _ a Hwf2). destruct (N.ltb_spec 0 (aq_prevIdx a)); [|lia].
  change (d_log (set_leader s (aq_addr a) (aq_id a))) with (d_log s).
  rewrite (last_index_wf T s Hwf).
  destruct (d_log s !! aq_prevIdx a) as [pe|] eqn:E.
  - destruct (N.eqb_spec (aq_prevTerm a) (e_term pe)) as [Eq|_]; [exfalso; eapply Hno; eauto|].
    eexists. eexists. eexists. split; [reflexivity|]. cbn [ar_success ar_noretry ar_term ar_last]. auto 10.
  - eexists. eexists. eexists. split; [reflexivity|]. cbn [ar_success ar_noretry ar_term ar_last]. auto 10.
Qed.

Theorem append_accept P s a T : follower_wf T s -> aq_term a = T ->
  contig (aq_prevIdx a) (aq_entries a) -> (forall e, In e (aq_entries a) -> known e) ->
  (aq_prevIdx a = 0 \/ exists pe, d_log s !! aq_prevIdx a = Some pe /\ e_term pe = aq_prevTerm a) ->
  exists s' r tr, append_entries P s [] a = Done s' r tr [] /\
    ar_success r = true /\ ar_term r = T /\ follower_wf T s' /\
    (forall i, i <= aq_prevIdx a -> d_log s' !! i = d_log s !! i) /\
    (forall e, In e (aq_entries a) -> held (d_log s') e) /\
    v_applied s' <= N.max (v_applied s) (aq_commit a).
Proof.
  intros Hwf Ha Hc Hk Hprev. pose proof Hwf as (Ht & Hr & _ & Hw & _).
  rewrite ae_enter by congruence. unfold ae_body.
  pose proof (wf_set_leader T s (aq_addr a) (aq_id a) Hwf) as Hwf2.
  rewrite (prev_check_wf T _ a Hwf2).
  change (d_log (set_leader s (aq_addr a) (aq_id a))) with (d_log s).
  assert (Hpc : (if 0 <? aq_prevIdx a
                 then match d_log s !! aq_prevIdx a with
                      | None => None | Some pe => Some (aq_prevTerm a =? e_term pe) end
                 else Some true) = Some true /\ aq_prevIdx a <= v_lastLogIdx s).
  { destruct Hprev as [E|(pe & E1 & E2)].
    - rewrite E. split; [reflexivity|lia].
    - rewrite E1, E2, N.eqb_refl. split; [destruct (0 <? aq_prevIdx a); reflexivity|].
      apply (held_bound (d_log s) _ (mkE (aq_prevIdx a) (e_term pe) 0 0) Hw). exists pe. auto. }
  destruct Hpc as [Hpc Hle]. rewrite Hpc.
  destruct (ae_entries_ok P (mkAResp (v_term s) (last_index s) false false false) _ [] a T Hwf2 Hc Hle Hk)
    as (s8 & tr8 & E8 & W8 & B8 & H8 & A8).
  rewrite E8.
  destruct (ae_commit_ok (mkAResp (v_term s) (last_index s) true false false) s8 tr8 a T W8)
    as (s' & tr & E & W & D & A).
  rewrite E. eexists. eexists. eexists. split; [reflexivity|].
  cbn [ar_success ar_term]. split; [reflexivity|]. split; [exact Ht|]. split; [exact W|].
  rewrite D. split; [exact B8|]. split; [exact H8|]. rewrite A8 in A. exact A.
Qed.
