(* ClusterLogSnapVote.v — stage 2: RequestVote, pre-vote, restart and TimeoutNow keep the node
   invariant (they touch neither the log store nor the snapshot store nor any commit index). *)
From Coq Require Import List NArith Bool Lia.
From stdpp Require Import gmap.
From RaftModel Require Import Base Config Compaction Node NodeCodec.
From RaftProofs Require Import VoteProofs AdvLeaderProofs RecoverProofs ClusterLogSpec ClusterLogChain ClusterLogNode
  ClusterLogCut ClusterLogInit ClusterLogSnapSpec ClusterLogSnapNode ClusterLogSnapState ClusterLogSnapBoot ClusterLogSnapCut.
Open Scope N_scope.

Definition term_only2 (s : nstate) (tr : list ev) : Prop :=
  dlf tr = [] \/ exists t, dlf tr = [ESetTerm t true] /\ d_term s <= t.

Lemma persist_vote_skeep s fs t c :
  let '(s', _, tr, _) := persist_vote s fs t c in
  skeep s' s /\ d_term s' = d_term s /\ v_role s' = v_role s /\ v_term s' = v_term s /\ dlf tr = [].
Proof.
  pose proof (persist_vote_spec s fs t c) as H.
  destruct (persist_vote s fs t c) as [[[s' ok] tr] fs'].
  destruct H as [(-> & _ & ->)|[(-> & _ & ->)|(-> & _ & ->)]]; repeat split.
Qed.

Lemma request_vote_skeep s fs q : wfu s ->
  match request_vote s fs q with
  | Done s' r tr fs' =>
      skeep s' s /\ d_term s <= d_term s' /\
      (v_role s' = Leader -> v_role s = Leader /\ v_term s' = v_term s) /\ term_only2 s tr
  | Panic s' tr => term_only2 s tr
  end.
Proof.
  intros [Hwd Hvt].
  assert (Hsame : skeep s s /\ d_term s <= d_term s /\ (v_role s = Leader -> v_role s = Leader /\ v_term s = v_term s) /\ term_only2 s []).
  { split; [apply skeep_refl|]. split; [lia|]. split; [auto|left; reflexivity]. }
  unfold request_vote.
  destruct (negb (vq_id q =? 0) && nonempty (v_latest s) && negb (in_config (v_latest s) (vq_id q))); [exact Hsame|].
  destruct (negb (v_leader s =? 0) && negb (v_leader s =? vq_addr q) && negb (vq_transfer q)); [exact Hsame|].
  destruct (vq_term q <? v_term s); [exact Hsame|].
  destruct (N.ltb_spec (v_term s) (vq_term q)) as [Hlt|Hge].
  - unfold do_set_term. destruct (next_fail fs) as [f fs1]. destruct f.
    { left. reflexivity. }
    set (s1 := set_vol_term (set_durable_term (set_state s Follower) (vq_term q)) (vq_term q)).
    assert (K1 : skeep s1 s) by (repeat split).
    assert (T1 : d_term s1 = vq_term q) by reflexivity.
    assert (R1 : v_role s1 = Follower) by reflexivity.
    assert (Htr : term_only2 s [ESetTerm (vq_term q) true]).
    { right. exists (vq_term q). split; [reflexivity|lia]. }
    assert (G : skeep s1 s /\ d_term s <= d_term s1 /\ (v_role s1 = Leader -> v_role s = Leader /\ v_term s1 = v_term s) /\
                term_only2 s [ESetTerm (vq_term q) true]).
    { split; [exact K1|]. split; [rewrite T1; lia|]. split; [rewrite R1; discriminate|exact Htr]. }
    destruct (negb (vq_id q =? 0) && nonempty (v_latest s1) && negb (has_vote (v_latest s1) (vq_id q))); [exact G|].
    destruct (if d_vterm s1 =? vq_term q then d_vcand s1 else None); [exact G|].
    destruct (negb (log_ok s1 (vq_lastIdx q) (vq_lastTerm q))); [exact G|].
    pose proof (persist_vote_skeep s1 fs1 (vq_term q) (vq_addr q)) as Hp.
    destruct (persist_vote s1 fs1 (vq_term q) (vq_addr q)) as [[[s2 ok] tr2] fs2].
    destruct Hp as (P1 & P2 & P3 & P4 & P5).
    split; [eapply skeep_trans; eauto|]. split; [rewrite P2, T1; lia|].
    split; [rewrite P3, R1; discriminate|]. right. exists (vq_term q).
    split; [|lia]. change (dlf (ESetTerm (vq_term q) true :: tr2) = [ESetTerm (vq_term q) true]).
    unfold dlf in *. simpl. rewrite P5. reflexivity.
  - destruct (negb (vq_id q =? 0) && nonempty (v_latest s) && negb (has_vote (v_latest s) (vq_id q))); [exact Hsame|].
    destruct (if d_vterm s =? vq_term q then d_vcand s else None); [exact Hsame|].
    destruct (negb (log_ok s (vq_lastIdx q) (vq_lastTerm q))); [exact Hsame|].
    pose proof (persist_vote_skeep s fs (vq_term q) (vq_addr q)) as Hp.
    destruct (persist_vote s fs (vq_term q) (vq_addr q)) as [[[s2 ok] tr2] fs2].
    destruct Hp as (P1 & P2 & P3 & P4 & P5).
    split; [exact P1|]. split; [lia|]. split; [rewrite P3, P4; auto|]. left. simpl. exact P5.
Qed.

Section SnapVote.
  Variable base : list entry.
  Variable c0 : N.
  Hypothesis Hh : hist_ok (0, 0) base.

  Lemma good_d5_term C d t : good_d5 base c0 C d -> di_term d <= t ->
    good_d5 base c0 C (mkD t (di_log d) (di_snaps d) (di_staged d) (di_pcommit d)).
  Proof.
    intros [A B D E F G H] Ht. constructor; simpl; auto.
    - eapply log_in_sub; [apply log_sub_refl|exact Ht|exact B].
    - intros e He. specialize (H e He). lia.
  Qed.

  Lemma sprefixes_term_only C P si s tr : good_d5 base c0 C (dpr s) -> term_only2 s tr -> sprefixes_good base c0 C P si s tr.
  Proof.
    intros Hg [E|(t & E & Ht)] j; rewrite E.
    - destruct j; exact Hg.
    - destruct j as [|[|j]]; simpl; try exact Hg.
      all: apply (good_d5_term C (dpr s) t Hg Ht).
  Qed.

  Definition step_post2 (C : chain) (r r' : nrun) : Prop :=
    snlog base c0 C r' /\
    forall s', r' = Up s' -> v_role s' = Leader ->
      exists s, r = Up s /\ v_role s = Leader /\ v_term s' = v_term s /\ v_lastLogIdx s' = v_lastLogIdx s.

  Definition simple_event2 (e : nevent) : Prop :=
    match e with NVote _ | NPreVote _ | NRestart | NTimeoutNow => True | _ => False end.

  Lemma simple_step2 C P r e cut fs r' ob out : cb_ok base c0 C -> wfr r -> snlog base c0 C r -> simple_event2 e ->
    step_full P r e cut fs = (r', ob, out) -> step_post2 C r r'.
  Proof.
    intros HC Hw Hn He. unfold step_full.
    assert (Hrestart : forall rr oo, boot P (image r) = (rr, oo) -> step_post2 C r rr).
    { intros rr oo HB. destruct (boot_snlog base c0 Hh C P _ rr oo HC (snlog_image base c0 C r Hn) HB) as (A & _ & D).
      split; [exact A|]. intros s' Hs' Hr. rewrite (D s' Hs') in Hr. discriminate. }
    assert (Hsame : step_post2 C r r).
    { split; [exact Hn|]. intros s' Hs' Hr. exists s'. auto. }
    destruct r as [s|s]; destruct e as [q|q|a|q| | | | |]; try contradiction.
    - intros HF. pose proof (request_vote_skeep s fs q Hw) as Hk. simpl in Hn.
      assert (H1 : sprefixes_good base c0 C P None s (trace_of (request_vote s fs q))).
      { apply sprefixes_term_only; [apply simg_good_d5, sup_img, Hn|].
        destruct (request_vote s fs q); simpl; [apply Hk|exact Hk]. }
      assert (H2 : forall s' rr tr fs', request_vote s fs q = Done s' rr tr fs' -> sup base c0 C s').
      { intros s' rr tr fs' Ho. rewrite Ho in Hk. destruct Hk as (K1 & K2 & _). eapply sup_keep; eauto. }
      destruct (finish_snlog base c0 Hh C P _ _ None s cut _ r' ob out HC H1 H2 HF) as [A B].
      split; [exact A|]. intros s' Hs' Hr. destruct (B s' Hs' Hr) as (rr & tr & fs' & Ho).
      rewrite Ho in Hk. destruct Hk as ((_ & _ & _ & _ & K5 & _) & _ & K & _). destruct (K Hr) as [K1 K2].
      exists s. auto.
    - destruct (request_prevote s q) as [t g]. intros H; inversion H; subst. exact Hsame.
    - intros H; inversion H; subst. split.
      + simpl. eapply sup_keep; [exact Hn|repeat split|simpl; lia].
      + intros s' Hs' Hr. inversion Hs'; subst. change (v_role (timeout_now s)) with Candidate in Hr. discriminate.
    - destruct (boot P (image (Up s))) as [rr oo] eqn:EB. intros H; inversion H; subst r' ob out. exact (Hrestart _ _ eq_refl).
    - intros H; inversion H; subst. exact Hsame.
    - intros H; inversion H; subst. exact Hsame.
    - intros H; inversion H; subst. exact Hsame.
    - destruct (boot P (image (Down s))) as [rr oo] eqn:EB. intros H; inversion H; subst r' ob out. exact (Hrestart _ _ eq_refl).
  Qed.
End SnapVote.
