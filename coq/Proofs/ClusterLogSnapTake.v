(* ClusterLogSnapTake.v — stage 2: takeSnapshot with its compaction keeps the node invariant. *)
From Coq Require Import List NArith Bool Lia.
From stdpp Require Import gmap.
From RaftModel Require Import Base Config Compaction Node NodeCodec.
From RaftProofs Require Import CompactionProofs VoteProofs AdvLeaderProofs AppendProofs RecoverProofs
  ClusterLogSpec ClusterLogChain ClusterLogNode ClusterLogCut ClusterLogInit
  ClusterLogSnapSpec ClusterLogSnapNode ClusterLogSnapState ClusterLogSnapBoot ClusterLogSnapCut ClusterLogSnapVote.
Open Scope N_scope.

Section SnapTake.
  Variable base : list entry.
  Variable c0 : N.
  Hypothesis Hh : hist_ok (0, 0) base.

  Lemma snaps_ok_app l sn : snaps_ok base c0 l -> sn_ok sn = true -> bkey base c0 (sn_idx sn, sn_term sn) ->
    snaps_ok base c0 (l ++ [sn]).
  Proof.
    intros H Ho Hk z Hz. apply in_app_iff in Hz. destruct Hz as [Hz|[<-|[]]]; [apply H, Hz|auto].
  Qed.

  Lemma log_delete_sub m lo hi : log_sub (log_delete m lo hi) m.
  Proof.
    intros i x Hl. rewrite log_delete_lookup in Hl. destruct ((lo <=? i) && (i <=? hi)); [discriminate|exact Hl].
  Qed.

  (* the snapshot covers what the compaction removes *)
  Lemma has_c0_compact m l sn lo hi : has_c0 c0 m l -> hi <= sn_idx sn -> sn_idx sn <= c0 ->
    has_c0 c0 (log_delete m lo hi) (l ++ [sn]).
  Proof.
    intros [E0|[(e & He)|(z & Hz & Ez)]] Hhi Hsn.
    - left. exact E0.
    - destruct ((lo <=? c0) && (c0 <=? hi)) eqn:Ed.
      + right. right. exists sn. split; [apply in_app_iff; right; left; reflexivity|].
        apply andb_prop in Ed. destruct Ed as [_ Ed]. apply N.leb_le in Ed. lia.
      + right. left. exists e. rewrite log_delete_lookup, Ed. exact He.
    - right. right. exists z. split; [apply in_app_iff; left; exact Hz|exact Ez].
  Qed.

  Lemma has_c0_snap m l sn : has_c0 c0 m l -> has_c0 c0 m (l ++ [sn]).
  Proof.
    intros [E0|[He|(z & Hz & Ez)]]; [left; exact E0|right; left; exact He|].
    right. right. exists z. split; [apply in_app_iff; left; exact Hz|exact Ez].
  Qed.

  Theorem snapshot_step C P s cut fs r' ob out : cb_ok base c0 C -> sup base c0 C s ->
    step_full P (Up s) NSnapshot cut fs = (r', ob, out) -> step_post2 base c0 C (Up s) r'.
  Proof.
    intros HC Hn HF. unfold step_full in HF. destruct (fsm_index s) as [fi ft] eqn:Efi. unfold fsm_index in Efi.
    set (sn := mkSnap fi ft (v_committed s) (v_committedIdx s) (v_fsm s) true) in *.
    pose proof (simg_good_d5 base c0 C s (sup_img base c0 C s Hn)) as Hg0.
    (* what takeSnapshot does *)
    assert (Hts : sprefixes_good base c0 C P (Some sn) s (trace_of (take_snapshot P s fs)) /\
                  forall s' r tr fs', take_snapshot P s fs = Done s' r tr fs' ->
                    sup base c0 C s' /\ v_lastLogIdx s' = v_lastLogIdx s).
    { assert (Hnoop : forall tr, dlf tr = [] -> sprefixes_good base c0 C P (Some sn) s tr).
      { intros tr E j. rewrite E. destruct j; exact Hg0. }
      unfold take_snapshot, fsm_index. rewrite Efi.
      destruct (N.eqb_spec fi 0) as [Ez|Hnz].
      { split; [apply Hnoop; reflexivity|]. intros s' r tr fs' H; inversion H; subst. auto. }
      destruct (fi <? v_committedIdx s).
      { split; [apply Hnoop; reflexivity|]. intros s' r tr fs' H; inversion H; subst. auto. }
      destruct (next_fail fs) as [fc fs1]. destruct fc.
      { split; [apply Hnoop; reflexivity|]. intros s' r tr fs' H; inversion H; subst. auto. }
      destruct (next_fail fs1) as [fcl fs2]. destruct fcl.
      { split; [apply Hnoop; reflexivity|]. intros s' r tr fs' H; inversion H; subst. auto. }
      fold sn.
      (* the FSM goroutine's last index is an entry of the committed prefix *)
      assert (Hbk : bkey base c0 (fi, ft)).
      { destruct (su_fsm base c0 C s Hn) as [E|K]; rewrite Efi in *; [simpl in E; contradiction|exact K]. }
      assert (Hfi : fi <= c0) by (destruct Hbk as ((_ & H) & _); exact H).
      set (s1 := set_lastsnap (set_snaps s (d_snaps s ++ [sn])) fi ft).
      assert (Hsnaps1 : snaps_ok base c0 (d_snaps s ++ [sn])) by (apply snaps_ok_app; [apply Hn|reflexivity|exact Hbk]).
      (* the state after the snapshot, with a sub-log m' of the log *)
      assert (Hsup : forall s2, d_log s2 = d_log s1 \/ (exists lo hi, d_log s2 = log_delete (d_log s1) lo hi /\ hi <= fi) ->
                d_snaps s2 = d_snaps s1 -> d_term s2 = d_term s1 -> d_pcommit s2 = d_pcommit s1 -> d_staged s2 = d_staged s1 ->
                v_lastLogIdx s2 = v_lastLogIdx s1 -> v_lastLogTerm s2 = v_lastLogTerm s1 ->
                v_lastSnapIdx s2 = fi -> v_lastSnapTerm s2 = ft -> v_commit s2 = v_commit s1 ->
                v_applied s2 = v_applied s1 -> v_fsmLast s2 = v_fsmLast s1 -> sup base c0 C s2).
      { intros s2 Hlog K2 K3 K4 K5 K6 K7 K8 K9 K10 K11 K12.
        assert (Hsub : log_sub (d_log s2) (d_log s)).
        { destruct Hlog as [->|(lo & hi & -> & _)]; [apply log_sub_refl|apply log_delete_sub]. }
        constructor; rewrite ?K2, ?K3, ?K4, ?K5, ?K6, ?K7, ?K8, ?K9, ?K10, ?K11, ?K12; try apply Hn; auto.
        - eapply log_in_sub; [exact Hsub|apply N.le_refl|apply Hn].
        - destruct Hlog as [->|(lo & hi & -> & Hhi)].
          + apply has_c0_snap, Hn.
          + apply has_c0_compact; [apply Hn|exact Hhi|exact Hfi].
        - eapply log_below_sub; [exact Hsub|apply Hn].
        - destruct (su_u base c0 C s Hn) as [U|U]; [left; exact U|right].
          destruct (su_w3 base c0 C s Hn) as [W|W]; rewrite Efi in W; simpl in W; [contradiction|]. change (v_lastSnapIdx s1) with fi. lia.
        - change (v_applied s1) with (v_applied s). pose proof (su_w2 base c0 C s Hn) as W. rewrite Efi in W. exact W.
        - change (v_fsmLast s1) with (v_fsmLast s). rewrite Efi. right. simpl. lia. }
      (* good durable images along the trace *)
      assert (Hg1 : good_d5 base c0 C (mkD (d_term s) (d_log s) (d_snaps s ++ [sn]) (d_staged s) (d_pcommit s))).
      { destruct Hg0 as [A B D E F G H]. constructor; simpl in *; auto. apply has_c0_snap, G. }
      unfold run_compaction.
      destruct (compact (log_first (d_log s1)) fi (v_lastLogIdx s1) (p_trailing P)) as [[lo hi]|] eqn:Ec.
      - apply compaction_range in Ec. destruct Ec as (_ & Hhi & _).
        unfold do_delete. destruct (next_fail fs2) as [fd fs3]. destruct fd.
        + split.
          * intros j. destruct j as [|[|j]]; simpl; first [exact Hg0|exact Hg1].
          * intros s' r tr fs' H; inversion H; subst. split; [|reflexivity]. apply Hsup; auto.
        + split.
          * intros j. destruct j as [|[|[|j]]]; simpl; try exact Hg0; try exact Hg1.
            all: destruct Hg1 as [A B [top D] E F G H]; constructor; simpl in *; auto;
              [eapply log_in_sub; [apply log_delete_sub|apply N.le_refl|exact B]
              |exists top; eapply log_below_sub; [apply log_delete_sub|exact D]
              |apply has_c0_compact; [apply Hn|exact Hhi|exact Hfi]].
          * intros s' r tr fs' H; inversion H; subst. split; [|reflexivity]. apply Hsup; auto.
            right. exists lo, hi. split; [reflexivity|exact Hhi].
      - split.
        + intros j. destruct j as [|[|j]]; simpl; first [exact Hg0|exact Hg1].
        + intros s' r tr fs' H; inversion H; subst. split; [|reflexivity]. apply Hsup; auto. }
    destruct Hts as [H1 H2].
    destruct (finish_snlog base c0 Hh C P _ _ (Some sn) s cut _ r' ob out HC H1 (fun s' r tr fs' H => proj1 (H2 s' r tr fs' H)) HF) as [A B].
    split; [exact A|]. intros s' Hs' Hr. destruct (B s' Hs' Hr) as (rr & tr & fs' & Ho).
    destruct (H2 s' rr tr fs' Ho) as [_ Hli]. apply take_snapshot_same in Ho. destruct Ho as (_ & R & T).
    exists s. split; [reflexivity|]. split; [congruence|]. split; [exact T|exact Hli].
  Qed.
End SnapTake.
