(* ClusterLogSnapAppend3.v — stage 2: commit index and processLogs inside appendEntries, the whole
   handler, and one delivered request at a server. *)
From Coq Require Import List NArith Bool Lia.
From stdpp Require Import gmap.
From RaftModel Require Import Base Config Compaction Node NodeCodec.
From RaftProofs Require Import VoteProofs AdvLeaderProofs AppendProofs RecoverProofs
  ClusterLogSpec ClusterLogChain ClusterLogNode ClusterLogCut ClusterLogVote ClusterLogAppend ClusterLogInit
  ClusterLogSnapSpec ClusterLogSnapNode ClusterLogSnapState ClusterLogSnapBoot ClusterLogSnapCut ClusterLogSnapVote
  ClusterLogSnapTake ClusterLogSnapAppend ClusterLogSnapAppend2.
Open Scope N_scope.

Section SnapAppend3.
  Variable base : list entry.
  Variable c0 : N.
  Hypothesis Hh : hist_ok (0, 0) base.
  Variable C : chain.
  Hypothesis HCB : cb_ok base c0 C.
  Variable P : params.

  Definition out_good2 {R} (s2 : nstate) (tr1 : list ev) (o : outcome R) : Prop :=
    exists ext, dlf (trace_of o) = dlf tr1 ++ ext /\ ext_good2 base c0 C P s2 ext /\
      match o with Done s' _ _ _ => sup base c0 C s' /\ d_term s' = d_term s2 | Panic _ _ => True end.

  (* the commit index moves to a value of the committed prefix *)
  Lemma sup_commit s c : sup base c0 C s -> c <= c0 -> sup base c0 C (set_commit s c).
  Proof. intros Hn Hc. constructor; try apply Hn. exact Hc. Qed.

  Lemma ae_commit_good2 okr s2 tr1 s8 tr8 fs8 a : aq_commit a <= c0 ->
    ent_good2 base c0 C P s2 tr1 s8 tr8 -> out_good2 s2 tr1 (ae_commit okr s8 tr8 fs8 a).
  Proof.
    intros Hcm (ext & E1 & E2 & E3 & E4). unfold ae_commit.
    destruct ((0 <? aq_commit a) && (v_commit s8 <? aq_commit a)).
    2:{ exists ext. simpl. auto. }
    cbv zeta. set (idx := N.min (aq_commit a) (N.min (last_new a) (last_index s8))).
    destruct (v_commit s8 <? idx).
    2:{ exists ext. simpl. auto. }
    assert (Hidx : idx <= c0) by (unfold idx; lia).
    set (s9 := set_commit s8 idx).
    set (s10 := if v_latestIdx s9 <=? idx then set_committed s9 (v_latest s9) (v_latestIdx s9) else s9).
    assert (Hn10 : sup base c0 C s10 /\ d_term s10 = d_term s8).
    { assert (Hn9 : sup base c0 C s9) by (apply sup_commit; assumption).
      unfold s10. destruct (v_latestIdx s9 <=? idx); [|split; [exact Hn9|reflexivity]].
      split; [|reflexivity]. eapply sup_keep; [exact Hn9|repeat split|apply N.le_refl]. }
    destruct Hn10 as [Hn10 Ht10].
    destruct (process_logs s10 idx) as [[s11 tra]|] eqn:EP.
    - destruct (sup_process base c0 Hh C HCB s10 idx s11 tra Hn10 Hidx EP) as (Hn11 & Ht11 & Htr).
      exists ext. simpl. split; [rewrite dlf_app, Htr, app_nil_r; exact E1|]. split; [exact E2|].
      split; [exact Hn11|congruence].
    - exists ext. simpl. auto.
  Qed.

  Lemma ae_body_good2 s0 s2 rt tr1 fs1 a :
    sup base c0 C s2 -> mchain C (aq_prevIdx a, aq_prevTerm a) (aq_entries a) ->
    (forall e, In e (aq_entries a) -> e_term e <= d_term s2) -> aq_commit a <= c0 ->
    out_good2 s2 tr1 (ae_body P s0 s2 rt tr1 fs1 a).
  Proof.
    intros Hn Hm Hterm Hcm. unfold ae_body.
    assert (Hsame : forall (r : aresp) fs, out_good2 s2 tr1 (Done s2 r tr1 fs)).
    { intros r fs. destruct (ent_good2_same base c0 C P s2 tr1 Hn) as (ext & E1 & E2 & E3 & E4). exists ext. simpl. auto. }
    destruct (prev_check s2 a) as [[|]|] eqn:Epc; try apply Hsame.
    pose proof (ae_entries_good2 base c0 Hh C HCB P (mkAResp rt (last_index s0) false false false) s2 tr1 fs1 a Hn Epc Hm Hterm Hcm) as Hae.
    destruct (ae_entries P _ s2 tr1 fs1 a) as [[[[s8 tr8] fs8]|]|[[[resp s'] tr'] fs']]; simpl in Hae.
    - apply ae_commit_good2; assumption.
    - exists []. simpl. split; [rewrite app_nil_r; reflexivity|].
      split; [apply ext_good2_nil, simg_good_d5, sup_img, Hn|exact I].
    - destruct Hae as (ext & E1 & E2 & E3 & E4). exists ext. simpl. auto.
  Qed.

  Theorem append_good2 s fs a :
    wfu s -> sup base c0 C s ->
    mchain C (aq_prevIdx a, aq_prevTerm a) (aq_entries a) ->
    (forall e, In e (aq_entries a) -> e_term e <= aq_term a) -> aq_commit a <= c0 ->
    sprefixes_good base c0 C P None s (trace_of (append_entries P s fs a)) /\
    (forall s' r tr fs', append_entries P s fs a = Done s' r tr fs' -> sup base c0 C s').
  Proof.
    intros [Hwd Hvt] Hn Hm Hterm Hcm.
    pose proof (simg_good_d5 base c0 C s (sup_img base c0 C s Hn)) as Hg0.
    unfold append_entries. destruct (N.ltb_spec (aq_term a) (v_term s)) as [Hlt|Hge].
    { split; [intros j; destruct j; exact Hg0|]. intros s' r tr fs' H; inversion H; subst. exact Hn. }
    set (bump := (v_term s <? aq_term a) || (negb (v_role s =? Follower) && negb (v_transfer s))).
    destruct bump eqn:Eb.
    - unfold do_set_term. destruct (next_fail fs) as [f fs1]. destruct f.
      { split; [intros j; destruct j as [|[|j]]; exact Hg0|]. intros s' r tr fs' H; discriminate. }
      set (s2 := set_leader (set_vol_term (set_durable_term (set_state s Follower) (aq_term a)) (aq_term a)) (aq_addr a) (aq_id a)).
      assert (Hn2 : sup base c0 C s2) by (eapply sup_keep; [exact Hn|repeat split|simpl; lia]).
      pose proof (ae_body_good2 s s2 (aq_term a) [ESetTerm (aq_term a) true] fs1 a Hn2 Hm Hterm Hcm) as Hb.
      destruct Hb as (ext & E1 & E2 & E3). change (dlf [ESetTerm (aq_term a) true]) with [ESetTerm (aq_term a) true] in E1.
      split.
      + intros j. rewrite E1. destruct j as [|j]; [exact Hg0|]. simpl. apply (E2 j).
      + intros s' r tr fs' H. rewrite H in E3. apply E3.
    - assert (Hle : aq_term a <= d_term s).
      { unfold bump in Eb. apply orb_false_elim in Eb. destruct Eb as [Eb _]. apply N.ltb_ge in Eb. lia. }
      set (s2 := set_leader s (aq_addr a) (aq_id a)).
      assert (Hn2 : sup base c0 C s2) by (eapply sup_keep; [exact Hn|repeat split|simpl; lia]).
      assert (Hterm2 : forall e, In e (aq_entries a) -> e_term e <= d_term s2).
      { intros e He. specialize (Hterm e He). simpl. lia. }
      pose proof (ae_body_good2 s s2 (v_term s) [] fs a Hn2 Hm Hterm2 Hcm) as Hb.
      destruct Hb as (ext & E1 & E2 & E3). simpl in E1.
      split.
      + intros j. rewrite E1. apply E2.
      + intros s' r tr fs' H. rewrite H in E3. apply E3.
  Qed.

  Theorem append_step2 s a cut fs r' ob out :
    wfu s -> sup base c0 C s ->
    mchain C (aq_prevIdx a, aq_prevTerm a) (aq_entries a) ->
    (forall e, In e (aq_entries a) -> e_term e <= aq_term a) -> aq_commit a <= c0 ->
    (v_role s = Leader -> aq_term a <> v_term s) ->
    step_full P (Up s) (NAppend a) cut fs = (r', ob, out) -> step_post2 base c0 C (Up s) r'.
  Proof.
    intros Hw Hn Hm Hterm Hcm Hlead HF. unfold step_full in HF.
    destruct (append_good2 s fs a Hw Hn Hm Hterm Hcm) as [H1 H2].
    destruct (finish_snlog base c0 Hh C P _ _ None s cut _ r' ob out HCB H1 H2 HF) as [A B].
    split; [exact A|]. intros s' Hs' Hr. destruct (B s' Hs' Hr) as (rr & tr & fs' & Ho).
    destruct (append_entries_role P s fs a s' rr tr fs' Ho Hr) as [->|[Hl Ht]].
    - exists s. auto.
    - exfalso. apply (Hlead Hl Ht).
  Qed.
End SnapAppend3.
