(* ClusterCommitSnapStepO.v — with snapshots: an AppendEntries request is executed by its target; what
   the target's log, commit index, snapshots and FSM position look like afterwards. *)
From Coq Require Import List NArith Bool Lia.
From stdpp Require Import gmap.
From RaftModel Require Import Base Config Compaction Commitment Node NodeCodec Candidate Leader Replicate Cluster ClusterLog ClusterCommit.
From RaftProofs Require Import ConfigProofs CommitmentProofs VoteProofs AppendProofs ClusterProofs
  ClusterLogSpec ClusterLogChain ClusterLogNode ClusterLogCut ClusterLogVote ClusterLogAppend ClusterLogLeader ClusterLogInv ClusterLogSteps
  ClusterCommitSpec ClusterCommitLog ClusterCommitChain ClusterCommitAE3 ClusterCommitNode ClusterCommitGhost
  ClusterCommitInv ClusterCommitUpd ClusterCommitStepA ClusterCommitStepN
  ClusterCommitSnapLog ClusterCommitSnapBoot ClusterCommitSnapAE ClusterCommitSnapAE5 ClusterCommitSnapNode ClusterCommitSnapNode2
  ClusterCommitSnapLinv ClusterCommitSnapInv ClusterCommitSnapFinal
  ClusterCommitSnapUpd ClusterCommitSnapStepA ClusterCommitSnapStepK ClusterCommitSnapStepN.
Open Scope N_scope.

Section Deliver.
  Variable cfg : config.
  Variable Ps : list params.
  Hypothesis HVn : NoDup (voters cfg).

  Variables (g : cgstate) (C : chain) (LL : LLt) (A : At) (V : Vt).
  Hypothesis HI : zinv cfg Ps g C LL A V.
  Variables (nj : gnode) (s : nstate) (m : amsg).
  Hypothesis Hin : In nj (cnodes g).
  Hypothesis Hr : gn_run nj = Up s.
  Hypothesis Hm : In m (lg_msgs (cg_l g)).
  Hypothesis Hto : am_to m = gn_id nj.

  Let a := am_req m.
  Let Hl := zv_l cfg Ps g C LL A V HI.
  Let Hci := zv_ci cfg Ps g C LL A V HI.
  Let HC := ci_ok C LL Hci.
  Let Hp := zinv_pclosed cfg Ps g C LL A V HI.

  Lemma zmsg_facts : mchain C (aq_prevIdx a, aq_prevTerm a) (aq_entries a) /\
    (forall e, In e (aq_entries a) -> e_term e <= aq_term a) /\ (forall e, In e (aq_entries a) -> dec_ok cfg Ps e) /\
    contig (aq_prevIdx a) (aq_entries a) /\ am_from m <> am_to m /\
    exists tl2, In (aq_term a, am_from m, tl2) LL.
  Proof.
    destruct (zl_msgs [cfg] _ C Hl m Hm) as (M1 & M2 & M3 & M4). destruct (zv_msg cfg Ps g C LL A V HI m Hm) as (N1 & _).
    split; [exact M3|]. split; [exact M4|]. split; [intros e He; apply (N1 e He)|].
    split; [apply (mchain_contig C _ _ HC M3)|]. split; [exact M1|]. apply (zv_ll cfg Ps g C LL A V HI). exact M2.
  Qed.

  (* everything at or below the last entry of the request is on the branch of the request's term *)
  Lemma zmsg_tchain k : anc C k (key (last_of (aq_entries a))) -> tchain C LL (aq_term a) k.
  Proof.
    intros Ha. destruct zmsg_facts as (_ & _ & _ & _ & _ & tl2 & Hl2).
    destruct (aq_entries a) as [|e0 er] eqn:Ees.
    - apply anc_root in Ha; [|exact HC]. subst k. exists (am_from m), tl2. split; [exact Hl2|right].
      apply (anc_root_all C HC Hp). destruct (ci_tl C LL Hci _ _ _ Hl2) as [_ H]. exact H.
    - destruct (zv_msg cfg Ps g C LL A V HI m Hm) as (N1 & _). fold a in N1. rewrite Ees in N1.
      destruct (N1 (last_of (e0 :: er))) as [_ Ht]; [apply last_in; discriminate|].
      apply (tchain_anc C LL Hci _ _ k Ht Ha).
  Qed.

  (* the request and the target's snapshot boundary lie on one branch *)
  Lemma zmsg_cmp : d_term s <= aq_term a -> forall k, anc C k (key (last_of (aq_entries a))) ->
    (fst k <= v_lastSnapIdx s -> anc C k (bk s)) /\ (v_lastSnapIdx s <= fst k -> anc C (bk s) k).
  Proof.
    intros Ht k Ha. pose proof (zmsg_tchain k Ha) as Hk.
    destruct zmsg_facts as (_ & _ & _ & _ & _ & tl2 & Hl2).
    assert (Hb : tchain C LL (aq_term a) (bk s)).
    { destruct (bk_CK cfg Ps g C LL A V HI nj s Hin Hr) as [E|Hb].
      - destruct (znode_log_in cfg Ps g C LL A V HI nj s Hin Hr) as [Hz _].
        rewrite (rootc_zero C (bk s) HC (zs_b _ _ _ _ _ _ Hz) E). exists (am_from m), tl2. split; [exact Hl2|right].
        apply (anc_root_all C HC Hp). destruct (ci_tl C LL Hci _ _ _ Hl2) as [_ H]. exact H.
      - apply (zcommitted_on_branch cfg Ps HVn g C LL A V (d_term s) (bk s) _ (am_from m) tl2 HI Hb Ht Hl2). }
    split; intros Hle.
    - apply (tchain_linear C LL Hci (aq_term a) k (bk s) Hk Hb). simpl. exact Hle.
    - apply (tchain_linear C LL Hci (aq_term a) (bk s) k Hb Hk). simpl. exact Hle.
  Qed.

  (* the target afterwards, whether its handler returned or the process died in it *)
  Lemma zdeliver_reach cut fs r' ob out : step_full (gn_P nj) (Up s) (NAppend a) cut fs = (r', ob, out) ->
    znlog C r' /\ znode cfg Ps (gn_P nj) r' /\ d_snaps (image r') = d_snaps s /\
    exists k, ae_reachS s a (tlp (image r')) k /\
      match r' with
      | Up s' => (fresh_up s' /\ ob = OLost) \/
                 (exists r tr fs', append_entries (gn_P nj) s fs a = Done s' r tr fs' /\ ob = OAppend a r /\ topk s' = k /\ sf_done s s')
      | Down _ => ob = OLost
      end.
  Proof.
    intros Hsf. destruct zmsg_facts as (M3 & M4 & Md & _).
    destruct (znode_log_in cfg Ps g C LL A V HI nj s Hin Hr) as [Hnl Hw].
    pose proof (zv_node cfg Ps g C LL A V HI nj Hin) as Hcn. rewrite Hr in Hcn.
    apply (deliver_step_z cfg Ps C (gn_P nj) s a cut fs r' ob out HC Hp Hw Hnl Hcn M3 M4 Md zmsg_cmp Hsf).
  Qed.

  (* a server in role Leader is not touched by a request of its own term: it is not from itself *)
  Lemma zdeliver_role fs s' r tr fs' : append_entries (gn_P nj) s fs a = Done s' r tr fs' -> v_role s' = Leader -> s' = s.
  Proof.
    intros Hd Hrole'. destruct zmsg_facts as (_ & _ & _ & _ & Mne & _).
    destruct (append_entries_role _ _ _ _ _ _ _ _ Hd Hrole') as [E|[Hl0 Ht]]; [exact E|]. exfalso.
    destruct (zl_nodes [cfg] _ C Hl nj Hin) as [_ Hlo]. destruct (Hlo s Hr Hl0) as (L1 & _).
    destruct (zl_msgs [cfg] _ C Hl m Hm) as (_ & M2 & _). fold a in M2. rewrite Ht in M2. apply Mne. rewrite Hto.
    apply (leaders_fun [cfg] _ _ _ _ (quorums_intersect_one' cfg HVn) (zl_g [cfg] _ C Hl) M2 L1).
  Qed.

  (* an accepted request: the last key the request vouches for is at or below the target's last entry *)
  Lemma zaccepted_last fs s' r tr fs' k : append_entries (gn_P nj) s fs a = Done s' r tr fs' -> ar_success r = true ->
    zup C s' -> ae_reachS s a (tlp s') k -> topk s' = k -> bk s' = bk s ->
    fst (last_key_of a) = 0 \/ anc C (last_key_of a) (last_entry s').
  Proof.
    intros Hdone Hsucc Hz' Hreach Hk Hbk. destruct zmsg_facts as (M3 & M4 & Md & Mc & _).
    destruct (znode_log_in cfg Ps g C LL A V HI nj s Hin Hr) as [Hz Hw].
    destruct (append_entries_log (gn_P nj) s fs a s' r tr fs' (zup_cache_ok C s HC Hz) Mc Hdone) as [Hfail Hs]. destruct (Hs Hsucc) as [_ Hmatch].
    unfold last_key_of. destruct (aq_entries a) as [|e0 er] eqn:Ees.
    - destruct (N.eq_dec (aq_prevIdx a) 0) as [E0|Hpos]; [left; exact E0|right].
      (* no entries: the log and the cached keys are untouched *)
      assert (El : last_entry s' = last_entry s).
      { rewrite !last_entry_lk, Hbk, Hk. destruct Hreach as [[_ ->]|(_ & _ & [[_ ->]|[_ (dup & news & Hes & Hnn & _)]])]; try reflexivity.
        fold a in Hes. rewrite Ees in Hes. symmetry in Hes. apply app_eq_nil in Hes. destruct Hes; contradiction. }
      rewrite El, last_entry_lk.
      destruct (append_success_prev (gn_P nj) s fs a s' r tr fs' Hdone Hsucc ltac:(lia)) as [[E1 E2]|[[E1 E2]|(pe & Hpe & Ept)]].
      + assert (E : (aq_prevIdx a, aq_prevTerm a) = last_entry s) by (destruct (last_entry s); simpl in *; congruence).
        rewrite E, last_entry_lk. apply anc_refl.
      + assert (E : (aq_prevIdx a, aq_prevTerm a) = bk s) by (rewrite bk_pos by lia; congruence). rewrite E. apply (zshape_b_lk C _ _ _ _ _ Hz).
      + destruct (zs_in _ _ _ _ _ _ Hz _ pe Hpe) as (I & _).
        assert (E : (aq_prevIdx a, aq_prevTerm a) = key pe) by (unfold key; congruence). rewrite E. apply (zshape_log_lk C _ _ _ _ _ Hz _ pe Hpe).
    - right. rewrite <- Ees in *. assert (Hlast : In (last_of (aq_entries a)) (aq_entries a)) by (apply last_in; rewrite Ees; discriminate).
      destruct (Hmatch _ Hlast) as (e' & He' & Ht' & _). destruct (zs_in _ _ _ _ _ _ Hz' _ e' He') as (I & _).
      assert (E : key (last_of (aq_entries a)) = key e') by (unfold key; congruence).
      rewrite E, last_entry_lk. apply (zshape_log_lk C _ _ _ _ _ Hz' _ e' He').
  Qed.
  (* the commit knowledge of the target afterwards *)
  Lemma zdeliver_kc cut fs r' ob out s' : step_full (gn_P nj) (Up s) (NAppend a) cut fs = (r', ob, out) -> r' = Up s' ->
    v_commit s' <= last_index s' /\ forall i e, d_log s' !! i = Some e -> i <= v_commit s' -> CK cfg C LL A (d_term s') (key e).
  Proof.
    intros Hsf ->. destruct (zdeliver_reach cut fs _ ob out Hsf) as (Hz' & Hcn' & Hsn & k & Hreach & Hcase). simpl in Hz'.
    destruct zmsg_facts as (M3 & M4 & Md & Mc & Mne & tl2 & Hl2).
    pose proof (zv_node cfg Ps g C LL A V HI nj Hin) as Hcn. rewrite Hr in Hcn. destruct Hcn as (_ & HP & Hup).
    destruct (znode_log_in cfg Ps g C LL A V HI nj s Hin Hr) as [Hz Hw].
    destruct (zv_kc cfg Ps g C LL A V HI nj s Hin Hr) as [K1 K2].
    pose proof (zs_in _ _ _ _ _ _ Hz') as Li'.
    destruct Hcase as [((Hc0 & _) & _)|(r & tr & fs' & Hdone & _ & Hk & Hsfd)].
    { rewrite Hc0. split; [lia|]. intros i e He Hi. exfalso. pose proof (log_in_pos C _ _ i e HC Li' He). lia. }
    assert (Hdp : forall e, In e (aq_entries a) -> e_ty e = LogConfiguration -> p_decode (gn_P nj) (e_data e) = cfg).
    { intros e He Hty. apply (Md e He Hty _ HP). }
    destruct (append_done_vol cfg (gn_P nj) s fs a s' r tr fs' Hw (zup_cache_ok C s HC Hz) Mc Hdp (zn_lat cfg Ps s Hup) (zn_com cfg Ps s Hup) Hdone)
      as [(_ & -> & _)|(Hge & Hvt' & Hdt' & Hrt & _ & _ & _ & _ & Hcommit)]; [split; [exact K1|exact K2]|].
    destruct Hw as [_ Hvd]. destruct Hsfd as (S1 & S2 & S3 & _).
    destruct (reachS_src C s a _ k HC Hz Mc Hreach) as (Hfail & Hsrc & Hdt & _). cbn [tlp fst snd image] in Hfail, Hsrc, Hdt.
    assert (Hta : d_term s <= aq_term a) by lia.
    destruct Hcommit as [[Ec Ea]|(Hsucc & Hlt & Hlc' & Hln & Hli & _)].
    - (* the commit index did not move: nothing at or below it was touched *)
      assert (Hkept : forall i x, d_log s !! i = Some x -> i <= v_commit s -> d_log s' !! i = Some x).
      { intros i x Hx Hi. apply (zkept_committed cfg Ps HVn g C LL A V HI nj s m (d_log s') (am_from m) tl2 Hin Hr Hm Hl2 Hta Hfail i x Hx Hi). }
      rewrite Ec. split.
      + unfold last_index in *. rewrite S2. destruct (N.le_gt_cases (v_commit s) (v_lastSnapIdx s)) as [|Hgt]; [lia|].
        destruct (zs_seg _ _ _ _ _ _ Hz (v_commit s)) as [x Hx]; [simpl; lia|simpl; lia|].
        pose proof (Hkept _ x Hx (N.le_refl _)) as Hx'. pose proof (zshape_bound C HC _ _ _ _ _ Hz' _ x Hx') as Hb. simpl in Hb. lia.
      + intros i e He Hi. destruct (Li' i e He) as (Ie & _). pose proof (log_in_pos C _ _ i e HC Li' He) as Hpos.
        destruct (d_log s !! i) as [x|] eqn:Ex.
        * pose proof (Hkept _ x Ex Hi) as Hx'. rewrite He in Hx'. inversion Hx'; subst x.
          eapply (zCK_mono cfg); [exact Hdt|apply (K2 i e Ex Hi)].
        * destruct (Hsrc i e He) as [H|Hes]; [congruence|].
          assert (His : i <= v_lastSnapIdx s).
          { destruct (N.le_gt_cases i (v_lastSnapIdx s)) as [|Hgt]; [assumption|exfalso].
            destruct (zs_seg _ _ _ _ _ _ Hz i) as [x Hx]; [simpl; lia|unfold last_index in K1; simpl; lia|congruence]. }
          destruct (bk_CK cfg Ps g C LL A V HI nj s Hin Hr) as [E0|Hb]; [lia|].
          eapply (zCK_mono cfg); [exact Hdt|]. apply (zCK_anc cfg Ps g C LL A V HI _ (bk s) _ Hb).
          apply (zmsg_cmp Hta (key e)); [apply (mchain_last C _ _ M3 e Hes)|unfold key; simpl; lia].
    - (* the commit index follows the request: at most the last index the request vouches for *)
      split; [exact Hli|]. intros i e He Hi. rewrite Hdt'.
      destruct (zv_msg cfg Ps g C LL A V HI m Hm) as (_ & _ & M3c). fold a in M3c.
      pose proof (log_in_pos C _ _ i e HC Li' He) as Hpos. destruct (Li' i e He) as (Ie & _).
      apply M3c; [|unfold key; simpl; lia|unfold key; simpl; lia].
      assert (Hbk : bk s' = bk s) by (apply bk_ext; congruence).
      destruct (zaccepted_last fs s' r tr fs' k Hdone Hsucc Hz' Hreach Hk Hbk) as [E0|Hh].
      + exfalso. unfold last_new in Hln. unfold last_key_of in E0. destruct (aq_entries a); simpl in E0; [lia|].
        unfold key in E0. simpl in E0. lia.
      + rewrite last_entry_lk in Hh. apply (anc_linear C (key e) _ _ HC (zshape_log_lk C _ _ _ _ _ Hz' i e He) Hh).
        unfold last_new in Hln. unfold last_key_of. destruct (aq_entries a); simpl; [lia|unfold key; simpl; lia].
  Qed.

  (* the position of the target's FSM afterwards *)
  Lemma zdeliver_fsm cut fs r' ob out s' : step_full (gn_P nj) (Up s) (NAppend a) cut fs = (r', ob, out) -> r' = Up s' ->
    fst (v_fsmLast s') = 0 \/ (created C (v_fsmLast s') /\ CK cfg C LL A (d_term s') (v_fsmLast s')).
  Proof.
    intros Hsf E. pose proof (zdeliver_kc cut fs r' ob out s' Hsf E) as [_ Kc']. subst r'.
    destruct (zdeliver_reach cut fs _ ob out Hsf) as (Hz' & _ & _ & k & Hreach & Hcase). simpl in Hz'.
    destruct zmsg_facts as (_ & _ & _ & Mc & _).
    destruct (znode_log_in cfg Ps g C LL A V HI nj s Hin Hr) as [Hz _].
    destruct Hcase as [((_ & _ & Hf & _) & _)|(r & tr & fs' & Hdone & _ & Hk & Hsfd)]; [left; rewrite Hf; reflexivity|].
    destruct (reachS_src C s a _ k HC Hz Mc Hreach) as (_ & _ & Hdt & _). cbn [tlp fst snd image] in Hdt.
    destruct Hsfd as (_ & _ & _ & [[_ E2]|(E1 & E2 & [E3|(e & E4 & E5 & E6)])]).
    - rewrite E2. destruct (zv_fsm cfg Ps g C LL A V HI nj s Hin Hr) as [E|[F1 F2]]; [left; exact E|right].
      split; [exact F1|eapply (zCK_mono cfg); eauto].
    - rewrite E3. destruct (zv_fsm cfg Ps g C LL A V HI nj s Hin Hr) as [E|[F1 F2]]; [left; exact E|right].
      split; [exact F1|eapply (zCK_mono cfg); eauto].
    - right. rewrite E6. destruct (zs_in _ _ _ _ _ _ Hz' _ e E4) as (_ & (p & Pp) & _).
      split; [exists e, p; auto|]. apply (Kc' _ e E4). lia.
  Qed.

  (* what the target accepted before *)
  Lemma zdeliver_av cut fs r' ob out k k0 : step_full (gn_P nj) (Up s) (NAppend a) cut fs = (r', ob, out) ->
    In (gn_id nj, k) A -> anc C k0 k -> 1 <= fst k0 ->
    covers C (image r') k0 \/
    exists T2 c2 tl2, In (T2, c2, tl2) LL /\ snd k < T2 /\ T2 <= d_term (image r') /\ ~ anc C k0 tl2.
  Proof.
    intros Hsf Ha Hanc Hpos. destruct (zdeliver_reach cut fs _ ob out Hsf) as (_ & _ & Hsn & kk & Hreach & _).
    destruct zmsg_facts as (M3 & M4 & Md & Mc & Mne & tl2 & Hl2).
    destruct (znode_log_in cfg Ps g C LL A V HI nj s Hin Hr) as [Hz _].
    destruct (reachS_src C s a _ kk HC Hz Mc Hreach) as (Hfail & _ & Hdt & _). cbn [tlp fst snd] in Hfail, Hdt.
    destruct (zv_av cfg Ps g C LL A V HI _ k nj k0 Ha Hin eq_refl Hanc Hpos) as [Hc|(T2 & c2 & tl2' & H1 & H2 & H3 & H4)].
    - rewrite Hr in Hc. simpl in Hc. destruct Hc as [Hh|(sn & Hs1 & Hs2)].
      + destruct Hreach as [[E _]|(Hle & Ht & _)].
        * left. left. unfold tlp in E. inversion E as [[E1 E2]]. rewrite E2. exact Hh.
        * cbn [tlp fst] in Ht.
          destruct (zkept_accepted cfg Ps g C LL A V HI nj s m (d_log (image r')) (am_from m) tl2 Hin Hr Hm Hl2 Hle Hfail k k0 Ha Hanc Hpos Hh)
            as [H|[H5 H6]]; [left; left; exact H|right].
          exists (aq_term a), (am_from m), tl2. split; [exact Hl2|]. split; [exact H5|]. split; [rewrite Ht; lia|exact H6].
      + left. right. exists sn. rewrite Hsn. auto.
    - right. exists T2, c2, tl2'. split; [exact H1|]. split; [exact H2|]. split; [|exact H4].
      unfold dtn in H3. rewrite Hr in H3. simpl in H3. lia.
  Qed.

  (* a new acceptance: the target covers every ancestor of the request's last entry *)
  Lemma zdeliver_new fs s' r tr fs' kk k0 : append_entries (gn_P nj) s fs a = Done s' r tr fs' -> ar_success r = true ->
    zup C s' -> ae_reachS s a (tlp s') kk -> topk s' = kk -> bk s' = bk s -> aq_entries a <> [] ->
    anc C k0 (key (last_of (aq_entries a))) -> 1 <= fst k0 -> covers C s' k0.
  Proof.
    intros Hdone Hsucc Hz' Hreach Hk Hbk Hne Hanc Hpos. apply (zup_covers C s' k0 HC Hz'); [|exact Hpos].
    destruct (zaccepted_last fs s' r tr fs' kk Hdone Hsucc Hz' Hreach Hk Hbk) as [E0|Hh].
    - exfalso. unfold last_key_of in E0. destruct (aq_entries a) as [|e0 er] eqn:Ees; [congruence|].
      destruct zmsg_facts as (M3 & _). fold a in M3. rewrite Ees in M3.
      destruct (mchain_in C _ _ M3 (last_of (e0 :: er))) as [q Hq]; [apply last_in; discriminate|].
      destruct (co_idx C HC _ _ Hq) as [Hi _]. unfold key in E0. simpl in E0. lia.
    - unfold last_key_of in Hh. destruct (aq_entries a) as [|e0 er] eqn:Ees; [congruence|]. eapply anc_trans; eauto.
  Qed.
End Deliver.
