(* ClusterCoverMain.v — C11 "snapshots and compaction never lose history" (Proofs/ClusterCoverSpec.v), in
   every state reachable in Model/ClusterCommit.v WITH takeSnapshot and log compaction (crun true), for
   the durable state of every server, running or stopped (crashed at any point inside any handler or
   inside takeSnapshot).

   The invariant is the one of Proofs/ClusterCommitSnapMain.v (Zinv: in particular the log store of a
   durable image has no hole above ALL its snapshots, zi_seg) together with: every snapshot store is
   sorted by index.  Sortedness is kept because the only step that changes a snapshot store is
   takeSnapshot (Proofs/ClusterCoverStep.v), which appends a snapshot at the FSM index of a running
   server; that index is not below the server's snapshot index (zn_fs), which is not below the index
   of any stored snapshot (zs_sn).  With sorted stores the newest snapshot is the largest one, and
   "no hole above all snapshots" is "no hole above the newest snapshot".

   Side conditions: cinit_snap_ok (Proofs/ClusterCommitSnapSpec.v), label_ok (Proofs/ClusterCommitSpec.v). *)
From Coq Require Import List NArith Bool Lia.
From stdpp Require Import gmap.
From RaftModel Require Import Base Config Compaction Commitment Node NodeCodec Candidate Leader Replicate Cluster ClusterLog ClusterCommit.
From RaftProofs Require Import ClusterLogSpec ClusterLogChain ClusterLogNode ClusterLogInv
  ClusterCommitSpec ClusterCommitChain ClusterCommitGhost ClusterCommitInv
  ClusterCommitSnapSpec ClusterCommitSnapLog ClusterCommitSnapNode ClusterCommitSnapLinv ClusterCommitSnapInv ClusterCommitSnapMain
  ClusterCoverSpec ClusterCoverInv ClusterCoverStep.
Open Scope N_scope.

Section Main.
  Variable cfg : config.
  Variable Ps : list params.
  Hypothesis HVn : NoDup (voters cfg).

  Definition Cinv (g : cgstate) : Prop :=
    Zinv cfg Ps g /\ forall n, In n (cnodes g) -> snaps_sorted (snaps_of n).

  Theorem cstep_cinv g l g' : Cinv g -> label_ok l -> cstep true [cfg] g l = Some g' -> Cinv g'.
  Proof.
    intros [HZ Hs] Hl Hstep. split; [apply (cstep_zinv cfg Ps HVn true g l g' HZ Hl Hstep)|].
    destruct HZ as (C & LL & A & V & HI). intros x Hx.
    destruct (cstep_snaps cfg Ps HVn g C LL A V HI l g' Hstep x Hx) as (n0 & Hn0 & Hst).
    pose proof (ci_ok C LL (zv_ci cfg Ps g C LL A V HI)) as HC.
    destruct (zl_nodes [cfg] _ C (zv_l cfg Ps g C LL A V HI) n0 Hn0) as [Hnl _].
    apply (sorted_snaps_step cfg Ps C (gn_P n0) (gn_run n0) (snaps_of x) HC Hnl (zv_node cfg Ps g C LL A V HI n0 Hn0) (Hs n0 Hn0) Hst).
  Qed.

  Theorem crun_cinv ls : forall g g', Cinv g -> Forall label_ok ls -> crun true [cfg] g ls = Some g' -> Cinv g'.
  Proof.
    induction ls as [|l r IH]; intros g g' Hinv Hls H; simpl in H.
    - inversion H; subst. exact Hinv.
    - destruct (cstep true [cfg] g l) as [g1|] eqn:E; [|discriminate]. inversion Hls as [|? ? Hl Hr]; subst.
      eapply IH; [eapply cstep_cinv; eassumption|exact Hr|exact H].
  Qed.

  (* the invariant gives both statements *)
  Lemma cinv_no_history_lost g : Cinv g -> no_history_lost g.
  Proof.
    intros [(C & LL & A & V & HI) Hs] n Hin.
    pose proof (ci_ok C LL (zv_ci cfg Ps g C LL A V HI)) as HC.
    destruct (zl_nodes [cfg] _ C (zv_l cfg Ps g C LL A V HI) n Hin) as [Hnl _].
    apply (zimg_covered C _ (znlog_image C _ HC Hnl) (Hs n Hin)).
  Qed.

  Lemma cinv_snaps_increasing g : Cinv g -> snaps_increasing g.
  Proof. intros [_ Hs] n l1 a l2 b l3 Hin E. apply (Hs n Hin l1 a l2 b l3 E). Qed.
End Main.

(* the initial states: no snapshot anywhere *)
Lemma cinit_cinv cfg g0 : cinit_snap_ok cfg g0 -> Cinv cfg (map gn_P (cnodes g0)) g0.
Proof.
  intros H0. split; [apply (cinit_zinv cfg g0 H0)|].
  destruct H0 as [((_ & _ & base & _ & Hni) & _) _]. intros n Hin.
  destruct (Hni n Hin) as (Hsn & _). unfold snaps_of. rewrite Hsn. apply snaps_sorted_nil.
Qed.

(* SNAPSHOTS AND COMPACTION NEVER LOSE HISTORY: in the durable state of every server, every index is
   covered by the newest stored snapshot, or present in the log store, or beyond the end of the log
   store; and the snapshot stores are in index order — in every state reachable with takeSnapshot, log
   compaction and crashes at any point *)
Theorem no_history_lost_all_runs : forall cfg g0 ls g,
  cinit_snap_ok cfg g0 -> Forall label_ok ls -> crun true [cfg] g0 ls = Some g ->
  no_history_lost g /\ snaps_increasing g.
Proof.
  intros cfg g0 ls g H0 Hls Hrun. pose proof H0 as ((_ & _ & _ & _ & HVn & _) & _).
  pose proof (crun_cinv cfg (map gn_P (cnodes g0)) HVn ls g0 g (cinit_cinv cfg g0 H0) Hls Hrun) as HI.
  split; [apply (cinv_no_history_lost cfg _ g HI)|apply (cinv_snaps_increasing cfg _ g HI)].
Qed.

Print Assumptions no_history_lost_all_runs.
