(* ClusterCommitNode2.v — one delivered AppendEntries at one server keeps the per-server invariant
   (Proofs/ClusterCommitNode.v), whether the handler returns or the process dies inside it; the
   resulting (term, log) is described by ae_reach. *)
From Coq Require Import List NArith Bool Lia.
From stdpp Require Import gmap.
From RaftModel Require Import Base Config Compaction Commitment Node NodeCodec Candidate Leader.
From RaftProofs Require Import VoteProofs AdvLeaderProofs AppendProofs RecoverProofs ClusterProofs
  ClusterLogSpec ClusterLogChain ClusterLogNode ClusterLogCut ClusterLogVote ClusterLogAppend ClusterLogLeader
  ClusterCommitSpec ClusterCommitInit ClusterCommitChain ClusterCommitAE ClusterCommitAE2 ClusterCommitAE3 ClusterCommitNode.
Open Scope N_scope.

Section Deliver.
  Variable cfg : config.
  Variable Ps : list params.

  (* what a (term, log) reached by the handler looks like *)
  Lemma reach_facts s a d t : cnode_up cfg Ps s -> contig (aq_prevIdx a) (aq_entries a) ->
    (forall e, In e (aq_entries a) -> dec_ok cfg Ps e) -> ae_reach s a d t ->
    lcontig (snd d) /\ log_dec cfg Ps (snd d) /\ top_of (snd d) t /\
    log_ok_fail (aq_prevIdx a) (aq_entries a) (d_log s) (snd d) /\ d_term s <= fst d /\
    (fst d = d_term s \/ fst d = aq_term a) /\ (snd d <> d_log s -> fst d = aq_term a) /\
    (forall i x, snd d !! i = Some x -> d_log s !! i = Some x \/ In x (aq_entries a)).
  Proof.
    intros (Hlc & Hdec & Htop & _) Hc Hde [[-> ->]|(Hle & Ht & [[Hm ->]|Hlog])].
    - simpl. split; [exact Hlc|]. split; [exact Hdec|]. split; [exact Htop|]. split; [apply log_ok_fail_refl|].
      split; [lia|]. split; [left; reflexivity|]. split; [congruence|auto].
    - rewrite Hm, Ht. split; [exact Hlc|]. split; [exact Hdec|]. split; [exact Htop|]. split; [apply log_ok_fail_refl|].
      split; [exact Hle|]. split; [right; reflexivity|]. split; [congruence|auto].
    - destruct (ae_log_ok (d_log s) (v_lastLogIdx s) a (snd d) t Hlc Htop Hc Hlog) as (A & B & D & E).
      split; [exact A|]. split.
      { intros i x Hx. destruct (E i x Hx) as [H|H]; [apply (Hdec i x H)|apply Hde, H]. }
      split; [exact B|]. split; [exact D|]. split; [lia|]. split; [right; exact Ht|]. split; [intros _; exact Ht|exact E].
  Qed.

  (* one AppendEntries delivered to a running server *)
  Theorem deliver_step_cnode C P s a cut fs r' ob out :
    chain_ok C -> wfu s -> nlog_up C s -> cnode cfg Ps P (Up s) ->
    mchain C (aq_prevIdx a, aq_prevTerm a) (aq_entries a) ->
    (forall e, In e (aq_entries a) -> e_term e <= aq_term a) ->
    (forall e, In e (aq_entries a) -> dec_ok cfg Ps e) ->
    step_full P (Up s) (NAppend a) cut fs = (r', ob, out) ->
    cnode cfg Ps P r' /\
    exists t, ae_reach s a (tlp (image r')) t /\
      match r' with
      | Up s' => (v_commit s' = 0 /\ v_role s' = Follower /\ ob = OLost) \/
                 (exists r tr fs', append_entries P s fs a = Done s' r tr fs' /\ ob = OAppend a r /\ v_lastLogIdx s' = t)
      | Down _ => ob = OLost
      end.
  Proof.
    intros HC Hw Hn Hcn Hm Hterm Hde HF. pose proof Hcn as (Hrc & HP & Hup).
    pose proof Hup as (Hlc & Hdec & Htop & Hl & Hcm & Hac).
    assert (Hcache : cache_ok s) by (exact (proj1 Htop)).
    assert (Hsi : v_lastSnapIdx s = 0) by apply Hn.
    pose proof (mchain_contig C _ _ HC Hm) as Hc. simpl fst in Hc.
    destruct (append_reach P s fs a Hw Hsi Hcache Hc) as [Hpre Hdone].
    destruct (append_good C P s fs a HC Hw Hn Hm Hterm) as [Hgood _].
    unfold step_full, finish in HF.
    assert (Hcrash : forall k rr oo, boot P (cut_image P None s (trace_of (append_entries P s fs a)) k) = (rr, oo) ->
              cnode cfg Ps P rr /\ exists t, ae_reach s a (tlp (image rr)) t /\
              match rr with Up s' => v_commit s' = 0 /\ v_role s' = Follower | Down _ => True end).
    { intros k rr oo HB. set (tr := trace_of (append_entries P s fs a)) in *.
      destruct (cut_image_tl P tr s k) as (j & Hj & Hs).
      destruct (prefix_tlf tr (tlp s) j) as (j' & Hj'). rewrite Hj' in Hj.
      assert (Himg : nlog_img C (cut_image P None s tr k)).
      { apply good_tl_img; [rewrite Hs; apply Hn|]. rewrite Hj. apply Hgood. }
      destruct (Hpre j') as [t Hr]. rewrite <- Hj in Hr.
      destruct (reach_facts s a _ t Hup Hc Hde Hr) as (R1 & R2 & _).
      assert (Hci : cnode_img cfg Ps (cut_image P None s tr k)) by (split; assumption).
      destruct (boot_cnode cfg Ps C P _ rr oo HC Himg Hrc HP Hci HB) as (A & B & D).
      pose proof (boot_nlog C P _ rr oo HC Himg HB) as (_ & Dt & _).
      split; [exact A|]. exists t. split; [|exact D].
      unfold tlp. rewrite Dt, B. exact Hr. }
    destruct (append_entries P s fs a) as [s1 r tr fs'|s1 tr] eqn:EA.
    - destruct ((0 <? cut) && (N.to_nat cut <=? count_durable tr)%nat).
      + destruct (boot P (cut_image P None s tr (N.to_nat cut))) as [rr oo] eqn:EB.
        inversion HF; subst r' ob out. destruct (Hcrash _ _ _ EB) as (A & t & B & D).
        split; [exact A|]. exists t. split; [exact B|]. destruct rr; [left; tauto|reflexivity].
      + inversion HF; subst r' ob out. clear HF.
        pose proof (Hdone s1 eq_refl) as Hr.
        destruct (reach_facts s a _ _ Hup Hc Hde Hr) as (R1 & R2 & R3 & _).
        assert (Hdp : forall e, In e (aq_entries a) -> e_ty e = LogConfiguration -> p_decode P (e_data e) = cfg).
        { intros e He Hty. apply (Hde e He Hty P HP). }
        pose proof (append_done_vol cfg P s fs a s1 r tr fs' Hw Hcache Hc Hdp Hl Hcm EA) as Hv.
        split.
        * split; [exact Hrc|]. split; [exact HP|].
          destruct Hv as [(_ & -> & _)|(_ & _ & _ & _ & _ & _ & V1 & V2 & V3)]; [exact Hup|].
          split; [exact R1|]. split; [exact R2|]. split; [exact R3|]. split; [exact V1|]. split; [exact V2|].
          destruct V3 as [[E1 E2]|(_ & E1 & _ & _ & _ & [E2|E2])]; lia.
        * exists (v_lastLogIdx s1). split; [exact Hr|]. right. exists r, tr, fs'. auto.
    - destruct (boot P (cut_image P None s tr (length tr))) as [rr oo] eqn:EB.
      inversion HF; subst r' ob out. destruct (Hcrash _ _ _ EB) as (A & t & B & D).
      split; [exact A|]. exists t. split; [exact B|]. destruct rr; [left; tauto|reflexivity].
  Qed.
End Deliver.
