(* GenTreesProofs.v — proofs of the statements of GenTreesSpec.v: the decision trees regenerated from the
   Go source (Model/GenTrees.v) decide what the hand-written model functions decide, for all inputs. *)
From Coq Require Import List String NArith Bool Lia ZifyBool ZifyN.
From stdpp Require Import gmap.
From RaftModel Require Import Base Config Compaction Commitment Node Leader GenTrees Trees.
From RaftProofs Require Import GenTreesSpec.
Import ListNotations.
Open Scope string_scope.
Open Scope N_scope.

(* ------------------------------------------------------------------ evaluation with a continuation:
   run_k v t pre k = k (run_tree v t) (with the events seen so far in pre, reversed).  Evaluating run_k
   with symbolic atom values leaves a nest of `if`s over the stuck comparisons, with k applied to a
   CONCRETE event list at every leaf. *)
Fixpoint run_k {A : Type} (v : valuation) (t : tree) (pre : list (event * valuation))
         (k : list (event * valuation) * string -> A) : A :=
  match t with
  | TRet r => k (rev pre, r)
  | TEv e t' => run_k v t' ((e, v) :: pre) k
  | TLet x e t' => run_k (upd v x (eval_n v e)) t' pre k
  | TIf c a b => if eval_b v c then run_k v a pre k else run_k v b pre k
  end.

Lemma run_k_spec : forall (A : Type) t v pre (k : list (event * valuation) * string -> A),
  run_k v t pre k = k (let '(l, r) := run_tree v t in ((rev pre ++ l)%list, r)).
Proof.
  induction t; intros; simpl.
  - rewrite app_nil_r. reflexivity.
  - rewrite IHt. simpl. destruct (run_tree v t) as [l r]. rewrite <- app_assoc. reflexivity.
  - apply IHt.
  - destruct (eval_b v c); [apply IHt1 | apply IHt2].
Qed.

Lemma run_k_intro : forall (A : Type) (k : list (event * valuation) * string -> A) v t,
  k (run_tree v t) = run_k v t [] k.
Proof.
  intros. rewrite run_k_spec. simpl. destruct (run_tree v t); reflexivity.
Qed.

Ltac tree_eval :=
  lazy -[N.eqb N.ltb N.leb N.min N.max N.sub N.add N.of_nat negb andb orb b2N].

Lemma b2N_nz : forall b, negb (b2N b =? 0) = b.
Proof. destruct b; reflexivity. Qed.
Lemma b2N_z : forall b, (b2N b =? 0) = negb b.
Proof. destruct b; reflexivity. Qed.
Lemma b2N_pos : forall b, (0 <? b2N b) = b.
Proof. destruct b; reflexivity. Qed.

(* ------------------------------------------------------------------ configurationChangeChIfStable *)
Theorem gate_tree_agrees_holds : gate_tree_agrees.
Proof.
  split; [vm_compute; reflexivity|].
  intros ls. unfold gate_val, config_gate_open.
  generalize (v_latestIdx (l_node ls)) (v_committedIdx (l_node ls)) (v_commit (l_node ls)) (cm_start (l_cm ls)).
  intros a b c d.
  match goal with |- context [run_tree ?v ?t] => pattern (run_tree v t) end.
  rewrite run_k_intro. tree_eval.
  destruct (a =? b), (d <=? c); simpl; repeat split; intros; try reflexivity; try discriminate.
Qed.

(* ------------------------------------------------------------------ persistVote *)
Theorem persist_vote_tree_agrees_holds : persist_vote_tree_agrees.
Proof.
  split; [vm_compute; reflexivity|].
  intros s fs t c. cbv zeta. unfold pv_val, persist_vote.
  destruct (next_fail fs) as [f1 fs1]. cbn [fst snd].
  destruct (next_fail fs1) as [f2 fs2]. cbn [fst snd].
  match goal with |- context [run_tree ?v ?t] => pattern (run_tree v t) end.
  rewrite run_k_intro. tree_eval.
  destruct f1; [simpl; split; [reflexivity|split; intros; discriminate]|].
  destruct f2; simpl; (split; [reflexivity|split; intros; try reflexivity; discriminate]).
Qed.

(* ------------------------------------------------------------------ compactLogsWithTrailing *)
Theorem compaction_tree_agrees_holds : compaction_tree_agrees.
Proof.
  split; [vm_compute; reflexivity|].
  intros first snap last trailing delfail. unfold compact_val, compact.
  match goal with |- context [run_tree ?v ?t] => pattern (run_tree v t) end.
  rewrite run_k_intro. tree_eval.
  destruct (last <=? trailing); [reflexivity|].
  destruct (N.min snap (last - trailing) <? first); [reflexivity|].
  destruct (b2N delfail =? 0); reflexivity.
Qed.

(* ------------------------------------------------------------------ requestVote: the syntactic statement *)
Theorem vote_granted_only_after_durable_record_holds : vote_granted_only_after_durable_record.
Proof. vm_compute. reflexivity. Qed.

(* ------------------------------------------------------------------ requestPreVote *)
Lemma len_pos_nonempty : forall c : config, (0 <? N.of_nat (length c)) = nonempty c.
Proof. destruct c; reflexivity. Qed.

Ltac case_atom :=
  match goal with
  | |- context [N.eqb ?a ?b] => destruct (N.eqb a b) eqn:?
  | |- context [N.ltb ?a ?b] => destruct (N.ltb a b) eqn:?
  | |- context [N.leb ?a ?b] => destruct (N.leb a b) eqn:?
  end; cbn [andb negb orb].

Theorem request_prevote_tree_agrees_holds : request_prevote_tree_agrees.
Proof.
  split; [vm_compute; reflexivity|].
  split; [vm_compute; reflexivity|].
  intros s q. cbv zeta. unfold pvq_val, request_prevote, log_ok.
  destruct (last_entry s) as [li lt]. cbn [fst snd].
  generalize (len_pos_nonempty (v_latest s)).
  generalize (N.of_nat (length (v_latest s))) (nonempty (v_latest s)) (in_config (v_latest s) (vq_id q))
             (has_vote (v_latest s) (vq_id q)) (v_leader s) (vq_addr q) (vq_term q) (v_term s)
             (vq_lastIdx q) (vq_lastTerm q).
  intros len ne inc hv ld cand qt ct qli qlt Hne.
  match goal with |- context [run_tree ?v ?t] => pattern (run_tree v t) end.
  rewrite run_k_intro. tree_eval.
  rewrite !b2N_z, Hne. clear Hne len.
  destruct ne, inc, hv; cbn [andb negb orb];
  repeat (case_atom); cbn; split; reflexivity.
Qed.

(* ------------------------------------------------------------------ requestVote *)
(* evaluation with the three comparisons abstracted: with eqb/ltb/leb variables, vm_compute walks the
   whole tree (string lookups, event lists, the summary at the leaves) and leaves exactly the
   comparisons of atom values stuck *)
Section Ops.
  Variables (eqb ltb leb : N -> N -> bool).
  Fixpoint eval_bg (v : valuation) (e : expr) : bool :=
    match e with
    | EBin op a b =>
      if String.eqb op "&&" then eval_bg v a && eval_bg v b
      else if String.eqb op "||" then eval_bg v a || eval_bg v b
      else if String.eqb op "==" then eqb (eval_n v a) (eval_n v b)
      else if String.eqb op "!=" then negb (eqb (eval_n v a) (eval_n v b))
      else if String.eqb op "<" then ltb (eval_n v a) (eval_n v b)
      else if String.eqb op ">" then ltb (eval_n v b) (eval_n v a)
      else if String.eqb op "<=" then leb (eval_n v a) (eval_n v b)
      else if String.eqb op ">=" then leb (eval_n v b) (eval_n v a)
      else false
    | ENot a => negb (eval_bg v a)
    | EAtom s => negb (eqb (v s) 0)
    | _ => false
    end.
  Fixpoint run_kg {A : Type} (v : valuation) (t : tree) (pre : list (event * valuation))
           (k : list (event * valuation) * string -> A) : A :=
    match t with
    | TRet r => k (rev pre, r)
    | TEv e t' => run_kg v t' ((e, v) :: pre) k
    | TLet x e t' => run_kg (upd v x (eval_n v e)) t' pre k
    | TIf c a b => if eval_bg v c then run_kg v a pre k else run_kg v b pre k
    end.
End Ops.

Lemma eval_bg_eq : forall e v, eval_bg N.eqb N.ltb N.leb v e = eval_b v e.
Proof.
  induction e; intros; simpl; try reflexivity;
    try rewrite IHe1; try rewrite IHe2; try rewrite IHe; reflexivity.
Qed.
Lemma run_kg_eq : forall (A : Type) t v pre (k : list (event * valuation) * string -> A),
  run_kg N.eqb N.ltb N.leb v t pre k = run_k v t pre k.
Proof.
  induction t; intros; simpl.
  - reflexivity.
  - apply IHt.
  - apply IHt.
  - rewrite eval_bg_eq, IHt1, IHt2. reflexivity.
Qed.

(* what the statement reads off the events of requestVote *)
Definition rv_sum (evs : list (event * valuation)) : bool * bool * list string * bool :=
  (has_assign evs "resp.Granted" "true", has_assign evs "resp.Term" "req.Term",
   calls_among rv_effects evs, mem_s "setCurrentTerm" (calls evs)).

Definition rv_gen (eqb ltb leb : N -> N -> bool)
  (lenid len inc hv ld cand tr qt ct lvt lvcb beq li lt qli qlt pe : N) :=
  run_kg eqb ltb leb (val_of [
    ("r.protocolVersion", 3); ("len(req.Addr)", 1);
    ("len(req.ID)", lenid);
    ("len(r.configurations.latest.Servers)", len);
    ("inConfiguration(r.configurations.latest,candidateID)", inc);
    ("hasVote(r.configurations.latest,candidateID)", hv);
    ("leaderAddr@r.LeaderWithID()", ld); ("candidate", cand);
    ("req.LeadershipTransfer", tr);
    ("req.Term", qt); ("r.getCurrentTerm()", ct);
    ("err", 0); ("err.Error()", 0); ("'not found'", 0);
    ("lastVoteTerm", lvt);
    ("lastVoteCandBytes", lvcb);
    ("bytes.Equal(lastVoteCandBytes,candidateBytes)", beq);
    ("lastIdx", li); ("lastTerm", lt);
    ("req.LastLogIndex", qli); ("req.LastLogTerm", qlt);
    ("err@r.persistVote(req.Term,candidateBytes)", pe) ]) gen_requestVote [] (fun p => rv_sum (fst p)).

Definition rv_fun := Eval vm_compute in rv_gen.
Lemma rv_fun_eq : rv_gen = rv_fun.
Proof. vm_compute. reflexivity. Qed.

Definition rv_fun2 lenid len inc hv ld cand tr qt ct lvt lvcb beq li lt qli qlt pe :=
  Eval cbv beta delta [rv_fun] in rv_fun N.eqb N.ltb N.leb lenid len inc hv ld cand tr qt ct lvt lvcb beq li lt qli qlt pe.
Lemma rv_fun3_sig : forall lenid len inc hv ld cand tr qt ct lvt lvcb beq li lt qli qlt pe,
  { r | rv_fun2 lenid len inc hv ld cand tr qt ct lvt lvcb beq li lt qli qlt pe = r }.
Proof.
  intros. unfold rv_fun2.
  change (3 <? 2) with false. change (0 <? 1) with true. change (0 =? 0) with true.
  cbn [andb negb orb]. eexists. reflexivity.
Defined.
Definition rv_fun3 lenid len inc hv ld cand tr qt ct lvt lvcb beq li lt qli qlt pe :=
  Eval cbv beta iota delta [rv_fun3_sig proj1_sig] in proj1_sig (rv_fun3_sig lenid len inc hv ld cand tr qt ct lvt lvcb beq li lt qli qlt pe).

Lemma rv_char : forall lenid len inc hv ld cand tr qt ct lvt lvcb beq li lt qli qlt pe,
  rv_sum (fst (run_tree (val_of [
    ("r.protocolVersion", 3); ("len(req.Addr)", 1);
    ("len(req.ID)", lenid);
    ("len(r.configurations.latest.Servers)", len);
    ("inConfiguration(r.configurations.latest,candidateID)", inc);
    ("hasVote(r.configurations.latest,candidateID)", hv);
    ("leaderAddr@r.LeaderWithID()", ld); ("candidate", cand);
    ("req.LeadershipTransfer", tr);
    ("req.Term", qt); ("r.getCurrentTerm()", ct);
    ("err", 0); ("err.Error()", 0); ("'not found'", 0);
    ("lastVoteTerm", lvt);
    ("lastVoteCandBytes", lvcb);
    ("bytes.Equal(lastVoteCandBytes,candidateBytes)", beq);
    ("lastIdx", li); ("lastTerm", lt);
    ("req.LastLogIndex", qli); ("req.LastLogTerm", qlt);
    ("err@r.persistVote(req.Term,candidateBytes)", pe) ]) gen_requestVote))
  = rv_fun3 lenid len inc hv ld cand tr qt ct lvt lvcb beq li lt qli qlt pe.
Proof.
  intros.
  transitivity (rv_gen N.eqb N.ltb N.leb lenid len inc hv ld cand tr qt ct lvt lvcb beq li lt qli qlt pe).
  { unfold rv_gen. rewrite run_kg_eq, <- run_k_intro. reflexivity. }
  rewrite rv_fun_eq.
  exact (proj2_sig (rv_fun3_sig lenid len inc hv ld cand tr qt ct lvt lvcb beq li lt qli qlt pe)).
Qed.

Lemma last_entry_bump : forall s r t t', last_entry (set_vol_term (set_durable_term (set_state s r) t) t') = last_entry s.
Proof. reflexivity. Qed.

Ltac simp := cbn [andb negb orb fst snd has_set_term has_vote_write existsb app].
Ltac leaf := simp; try solve [repeat split; reflexivity].
Ltac ca c := match goal with |- context [c] => destruct c; leaf | _ => idtac end.

Theorem request_vote_tree_agrees_holds : request_vote_tree_agrees.
Proof.
  split; [vm_compute; reflexivity|].
  intros s fs q. cbv zeta.
  set (evs := fst (run_tree (rv_val s fs q) gen_requestVote)).
  change (has_assign evs "resp.Granted" "true") with (fst (fst (fst (rv_sum evs)))).
  change (has_assign evs "resp.Term" "req.Term") with (snd (fst (fst (rv_sum evs)))).
  change (calls_among rv_effects evs) with (snd (fst (rv_sum evs))).
  change (mem_s "setCurrentTerm" (calls evs)) with (snd (rv_sum evs)).
  assert (HS : rv_sum evs = rv_sum evs) by reflexivity.
  unfold evs at 2 in HS. unfold rv_val in HS. cbv zeta in HS. rewrite rv_char in HS.
  rewrite HS. clear HS evs.
  unfold request_vote, rv_fun3.
  rewrite !b2N_pos, !b2N_z, !len_pos_nonempty.
  destruct (last_entry s) as [li lt] eqn:Ele. cbn [fst snd].
  unfold persist_vote, log_ok.
  destruct (d_vcand s) as [vc|] eqn:Evc; rewrite ?b2N_z; simp.
  all: destruct (v_term s <? vq_term q);
    [ unfold do_set_term; destruct (next_fail fs) as [f0 fs0]; cbn [fst snd]; destruct f0;
      cbn [v_latest d_vterm d_vcand set_vol_term set_durable_term set_state set_role set_leader];
      rewrite ?last_entry_bump | ];
    rewrite ?Ele, ?Evc;
    repeat match goal with
           | |- context [next_fail ?x] =>
             is_var x; let f := fresh "f" in let r := fresh "fs" in
             destruct (next_fail x) as [f r]; cbn [fst snd]
           end.
  all: ca (vq_id q =? 0).
  all: ca (nonempty (v_latest s)).
  all: ca (in_config (v_latest s) (vq_id q)).
  all: ca (v_leader s =? 0).
  all: ca (v_leader s =? vq_addr q).
  all: ca (vq_transfer q).
  all: ca (vq_term q <? v_term s).
  all: ca (has_vote (v_latest s) (vq_id q)).
  all: ca (d_vterm s =? vq_term q).
  all: cbn [N.eqb]; leaf.
  all: try ca (vc =? vq_addr q).
  all: ca (vq_lastTerm q <? lt).
  all: ca (lt =? vq_lastTerm q).
  all: ca (vq_lastIdx q <? li).
  all: repeat match goal with f : bool |- _ => destruct f; leaf end.
Qed.
