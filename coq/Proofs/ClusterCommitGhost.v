(* ClusterCommitGhost.v — the ghost state of the commitment proof and the invariants that speak
   about it alone.
     C  : every entry ever created, with the key it was appended after (Proofs/ClusterLogChain.v);
     LL : per recorded leadership (term, leader, the leader's last key when it was elected);
     A  : (server, key): the server accepted an AppendEntries of term T that ended with that key, of
          term T (or created it as the leader of T);
     V  : (voter, term, candidate, the voter's last key when it granted, the request's last key).
   tchain T k: k lies on the branch of the history that the leader of T extends: it is a created
   key of term T, or an ancestor of the leader's last key at its election. *)
From Coq Require Import List NArith Bool Lia.
From stdpp Require Import gmap.
From RaftModel Require Import Base Config Node.
From RaftProofs Require Import ConfigProofs ClusterLogSpec ClusterLogChain ClusterLogNode ClusterCommitChain.
Open Scope N_scope.

Definition LLt : Type := list (N * N * (N * N)).
Definition At : Type := list (N * (N * N)).
Definition Vt : Type := list (N * N * N * (N * N) * (N * N)).

Definition tchain (C : chain) (LL : LLt) (T : N) (k : N * N) : Prop :=
  exists c tl, In (T, c, tl) LL /\ ((snd k = T /\ created C k) \/ anc C k tl).

Record chain_inv (C : chain) (LL : LLt) : Prop := {
  ci_ok : chain_ok C;
  (* the key an entry was appended after is the root or a created key *)
  ci_pred : forall e p, In (e, p) C -> p = (0, 0) \/ created C p;
  ci_uniq : forall T c tl c' tl', In (T, c, tl) LL -> In (T, c', tl') LL -> c = c' /\ tl = tl';
  (* every entry of term T descends from the leader's last key at its election *)
  ci_root : forall T c tl x p, In (T, c, tl) LL -> In (x, p) C -> e_term x = T -> anc C tl p;
  ci_step : forall T c tl x p, In (T, c, tl) LL -> In (x, p) C -> e_term x = T -> p = tl \/ (snd p = T /\ created C p);
  (* the entries of one term lie on one branch *)
  ci_lin : forall x p y q, In (x, p) C -> In (y, q) C -> e_term x = e_term y -> e_idx x <= e_idx y -> anc C (key x) (key y);
  ci_tl : forall T c tl, In (T, c, tl) LL -> snd tl < T /\ (tl = (0, 0) \/ created C tl);
  (* the no-op of the new leader *)
  ci_noop : forall T c tl, In (T, c, tl) LL -> exists x, In (x, tl) C /\ e_term x = T;
  (* an entry of a term without recorded leader comes from the initial history: its term is below every recorded term *)
  ci_base : forall x p, In (x, p) C -> (exists c tl, In (e_term x, c, tl) LL) \/ (forall T c tl, In (T, c, tl) LL -> e_term x < T);
}.

Section Tchain.
  Variable C : chain.
  Variable LL : LLt.
  Hypothesis HI : chain_inv C LL.

  Lemma tchain_anc T k k0 : tchain C LL T k -> anc C k0 k -> tchain C LL T k0.
  Proof.
    intros (c & tl & Hl & Hk) Ha. exists c, tl. split; [exact Hl|].
    induction Ha as [|e p k Hin Hke Hap IH]; [exact Hk|].
    destruct Hk as [[Ht _]|Hk].
    - assert (Het : e_term e = T) by (rewrite <- Ht, <- Hke; reflexivity).
      destruct (ci_step C LL HI T c tl e p Hl Hin Het) as [->|[Hs Hc]]; [apply IH; right; apply anc_refl|apply IH; left; auto].
    - right. eapply anc_trans; [exact Hap|]. eapply anc_trans; [|exact Hk].
      eapply anc_up; [exact Hin|exact Hke|apply anc_refl].
  Qed.

  Lemma tchain_linear T k1 k2 : tchain C LL T k1 -> tchain C LL T k2 -> fst k1 <= fst k2 -> anc C k1 k2.
  Proof.
    intros (c & tl & Hl & H1) (c' & tl' & Hl' & H2) Hle.
    destruct (ci_uniq C LL HI T c tl c' tl' Hl Hl') as [<- <-]. pose proof (ci_ok C LL HI) as HC.
    destruct H1 as [[T1 (x & p & Hx & Ex)]|A1], H2 as [[T2 (y & q & Hy & Ey)]|A2].
    - rewrite <- Ex, <- Ey. apply (ci_lin C LL HI x p y q Hx Hy).
      + rewrite <- Ex in T1. rewrite <- Ey in T2. simpl in T1, T2. congruence.
      + rewrite <- Ex, <- Ey in Hle. exact Hle.
    - exfalso. assert (Het : e_term x = T) by (rewrite <- T1, <- Ex; reflexivity).
      pose proof (ci_root C LL HI T c tl x p Hl Hx Het) as Hr.
      destruct (anc_le C tl p HC Hr) as [L1 _]. destruct (anc_le C k2 tl HC A2) as [L2 _].
      destruct (co_idx C HC x p Hx) as [L3 _]. rewrite <- Ex in Hle. unfold key in Hle. simpl in Hle. lia.
    - assert (Het : e_term y = T) by (rewrite <- T2, <- Ey; reflexivity).
      pose proof (ci_root C LL HI T c tl y q Hl Hy Het) as Hr.
      eapply anc_trans; [exact A1|]. eapply anc_trans; [exact Hr|]. eapply anc_up; [exact Hy|exact Ey|apply anc_refl].
    - apply (anc_linear C k1 k2 tl HC A1 A2 Hle).
  Qed.

  Lemma tchain_same_idx T k1 k2 : tchain C LL T k1 -> tchain C LL T k2 -> fst k1 = fst k2 -> k1 = k2.
  Proof.
    intros H1 H2 E. apply (anc_idx_eq C k1 k2 (ci_ok C LL HI)); [apply (tchain_linear T); auto; lia|exact E].
  Qed.

  (* a created key of a term with a recorded leader is on that leader's branch *)
  Lemma tchain_created T c tl k : In (T, c, tl) LL -> created C k -> snd k = T -> tchain C LL T k.
  Proof. intros Hl Hc Ht. exists c, tl. split; [exact Hl|left; auto]. Qed.

  Lemma tchain_tl T c tl : In (T, c, tl) LL -> tchain C LL T tl.
  Proof. intros Hl. exists c, tl. split; [exact Hl|right; apply anc_refl]. Qed.
End Tchain.

(* ---------------------------------------------------------------- acceptors, votes, Leader Completeness *)
Definition uptodate (rq kw : N * N) : Prop := snd kw < snd rq \/ (snd kw = snd rq /\ fst kw <= fst rq).

Section LC.
  Variable cfg : config.
  Variable C : chain.
  Variable LL : LLt.
  Variable A : At.
  Variable V : Vt.

  (* a majority of the voters accepted, in term T, a key of term T at or above index q *)
  Definition QA (q T : N) : Prop :=
    exists W, majority (voters cfg) W /\ forall w, In w W -> exists v, q <= v /\ In (w, (v, T)) A.

  Record vote_inv : Prop := {
    (* a key accepted in term T is still below the voter's last key when it votes in a later term T',
       unless a leader of a term in between did not hold it *)
    vi_va : forall w T' c kw rq k k0, In (w, T', c, kw, rq) V -> In (w, k) A -> snd k < T' -> anc C k0 k -> 1 <= fst k0 ->
              anc C k0 kw \/ exists T3 c3 tl3, In (T3, c3, tl3) LL /\ snd k < T3 /\ T3 < T' /\ ~ anc C k0 tl3;
    (* a leader was elected by a majority that had checked its last key *)
    vi_lv : forall T' c tl', In (T', c, tl') LL -> exists W, majority (voters cfg) W /\ forall w, In w W -> exists kw, In (w, T', c, kw, tl') V;
    vi_up : forall w T' c kw rq, In (w, T', c, kw, rq) V -> uptodate rq kw /\ (kw = (0, 0) \/ created C kw);
    vi_ac : forall w k, In (w, k) A -> created C k /\ exists c tl, In (snd k, c, tl) LL;
  }.

  Hypothesis HV : NoDup (voters cfg).
  Hypothesis HI : chain_inv C LL.
  Hypothesis HVI : vote_inv.

  (* LEADER COMPLETENESS, the core: a key of term T that a majority accepted in term T is below the
     last key every leader of a later term had when it was elected *)
  Lemma lc_term_key T kq : snd kq = T -> created C kq ->
    (exists W, majority (voters cfg) W /\ forall w, In w W -> exists v, fst kq <= v /\ In (w, (v, T)) A) ->
    forall T' c' tl', In (T', c', tl') LL -> T < T' -> anc C kq tl'.
  Proof.
    intros Hkt Hkc (W & HW & HA) T'. pattern T'. apply (well_founded_induction N.lt_wf_0). clear T'.
    intros T' IH c' tl' Hl' Hlt. pose proof (ci_ok C LL HI) as HC.
    destruct (vi_lv HVI T' c' tl' Hl') as (W' & HW' & HVr).
    destruct (majorities_intersect (voters cfg) W W' HV HW HW') as (w & Hw & Hw').
    destruct (HA w Hw) as (v & Hv & Hacc). destruct (HVr w Hw') as (kw & Hvote).
    destruct (vi_ac HVI w (v, T) Hacc) as [Hcv (cT & tlT & HlT)]. simpl in HlT.
    assert (Hpos : 1 <= fst kq) by (apply (created_pos C kq HC Hkc)).
    assert (Hanc : anc C kq (v, T)).
    { apply (tchain_linear C LL HI T); [eapply tchain_created; eauto|eapply tchain_created; eauto|exact Hv]. }
    destruct (vi_va HVI w T' c' kw tl' (v, T) kq Hvote Hacc Hlt Hanc Hpos) as [Hkw|(T3 & c3 & tl3 & Hl3 & H3a & H3b & Hn3)].
    2:{ exfalso. apply Hn3. apply (IH T3 H3b c3 tl3 Hl3 H3a). }
    destruct (vi_up HVI w T' c' kw tl' Hvote) as [Hup Hkwc].
    destruct (anc_le C kq kw HC Hkw) as [_ Hterm]. rewrite Hkt in Hterm.
    destruct (ci_tl C LL HI T' c' tl' Hl') as [Htl' Htlc].
    destruct (ci_tl C LL HI T cT tlT HlT) as [HT1 _].
    assert (Htlc' : created C tl').
    { destruct Htlc as [->|H]; [|exact H]. exfalso. unfold uptodate in Hup. simpl in Hup. lia. }
    destruct (N.lt_trichotomy (snd tl') T) as [Hc|[Hc|Hc]].
    - exfalso. destruct Hup as [H|[H _]]; lia.
    - (* the candidate's last entry is of term T too: same branch, and at least as long *)
      assert (Ekw : snd kw = T) by (destruct Hup as [H|[H _]]; lia).
      assert (Hkwc' : created C kw) by (destruct Hkwc as [->|H]; [simpl in Ekw; lia|exact H]).
      eapply anc_trans; [exact Hkw|].
      apply (tchain_linear C LL HI T); [eapply tchain_created; eauto|eapply tchain_created; eauto|].
      destruct Hup as [H|[_ H]]; [lia|exact H].
    - (* the candidate's last entry is of a later term, whose leader held kq *)
      destruct Htlc' as (x & p & Hx & Ex).
      assert (Ext : e_term x = snd tl') by (rewrite <- Ex; reflexivity).
      destruct (ci_base C LL HI x p Hx) as [(c3 & tl3 & Hl3)|Hb].
      + rewrite Ext in Hl3. pose proof (IH (snd tl') Htl' c3 tl3 Hl3 Hc) as H3.
        eapply anc_trans; [exact H3|]. eapply anc_trans; [apply (ci_root C LL HI _ c3 tl3 x p Hl3 Hx Ext)|].
        eapply anc_up; [exact Hx|exact Ex|apply anc_refl].
      + specialize (Hb T cT tlT HlT). lia.
  Qed.

  (* every key of the branch of T at or below the accepted index *)
  Theorem lc_core q T k0 : QA q T -> tchain C LL T k0 -> fst k0 <= q ->
    forall T' c' tl', In (T', c', tl') LL -> T < T' -> anc C k0 tl'.
  Proof.
    intros (W & HW & HA) Htc Hle T' c' tl' Hl' Hlt. pose proof (ci_ok C LL HI) as HC.
    destruct Htc as (c & tl & Hl & [[Ht Hc]|Ha]).
    - apply (lc_term_key T k0 Ht Hc) with (T' := T') (c' := c'); [|exact Hl'|exact Hlt]. exists W. split; [exact HW|].
      intros w Hw. destruct (HA w Hw) as (v & Hv & Hin). exists v. split; [lia|exact Hin].
    - destruct (ci_noop C LL HI T c tl Hl) as (x & Hx & Ext).
      destruct (co_idx C HC x tl Hx) as [Hxi _].
      eapply anc_trans; [exact Ha|]. eapply anc_trans; [eapply anc_up; [exact Hx|reflexivity|apply anc_refl]|].
      apply (lc_term_key T (key x)) with (T' := T') (c' := c'); [exact Ext|exists x, tl; auto| |exact Hl'|exact Hlt].
      exists W. split; [exact HW|]. intros w Hw. destruct (HA w Hw) as (v & Hv & Hin). exists v. split; [|exact Hin].
      destruct (vi_ac HVI w (v, T) Hin) as [(y & p & Hy & Ey) _].
      assert (Eyt : e_term y = T) by (change T with (snd (v, T)); rewrite <- Ey; reflexivity).
      pose proof (ci_root C LL HI T c tl y p Hl Hy Eyt) as Hr. destruct (anc_le C tl p HC Hr) as [L1 _].
      destruct (co_idx C HC y p Hy) as [L2 _]. inversion Ey. unfold key. simpl. lia.
  Qed.
End LC.
