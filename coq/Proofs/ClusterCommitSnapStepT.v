(* ClusterCommitSnapStepT.v — with snapshots: a vote response reaches a candidate (GVoteResp): newer term,
   elected, or keeps counting. *)
From Coq Require Import List NArith Bool Lia.
From stdpp Require Import gmap.
From RaftModel Require Import Base Config Compaction Commitment Node NodeCodec Candidate Leader Replicate Cluster ClusterLog ClusterCommit.
From RaftProofs Require Import ConfigProofs CommitmentProofs VoteProofs ClusterProofs
  ClusterLogSpec ClusterLogChain ClusterLogNode ClusterLogVote ClusterLogLeader ClusterLogInv ClusterLogSteps ClusterLogElect
  ClusterCommitSpec ClusterCommitLog ClusterCommitChain ClusterCommitNode ClusterCommitNode3 ClusterCommitGhost
  ClusterCommitInv ClusterCommitUpd ClusterCommitStepA ClusterCommitStepC ClusterCommitStepE ClusterCommitStepG
  ClusterCommitStepJ ClusterCommitStepK ClusterCommitStepQ ClusterCommitStepS
  ClusterCommitSnapLog ClusterCommitSnapNode ClusterCommitSnapLinv ClusterCommitSnapLinv2 ClusterCommitSnapInv ClusterCommitSnapFinal
  ClusterCommitSnapUpd ClusterCommitSnapStepA ClusterCommitSnapStepD ClusterCommitSnapStepE ClusterCommitSnapStepK ClusterCommitSnapStepL
  ClusterCommitSnapStepQ ClusterCommitSnapStepR ClusterCommitSnapStepS.
Open Scope N_scope.

Section StepT.
  Variable cfg : config.
  Variable Ps : list params.
  Hypothesis HVn : NoDup (voters cfg).
  Let HQ := quorums_intersect_one' cfg HVn.

  (* the candidate's state changes without touching the log, it is no leader afterwards, its invocation ends or goes on *)
  Lemma zinv_cand_quiet g g' C LL A V i n s s' sess' :
    zinv cfg Ps g C LL A V -> find_node (cnodes g) i = Some n -> gn_run n = Up s ->
    zkeep s' s -> d_term s <= d_term s' -> v_role s' <> Leader ->
    (forall se', sess' = Some se' -> s' = s /\ exists se, gn_sess n = Some se /\ se_req se' = se_req se) ->
    (forall T' c, live s' = Some (T', c) -> live s = Some (T', c)) ->
    cnodes g' = upd_node (cnodes g) i (mkGN (gn_P n) (Up s') sess' (gn_next n)) ->
    ginv [cfg] (gof g') -> lg_msgs (cg_l g') = lg_msgs (cg_l g) -> cg_ans g' = cg_ans g -> cg_lead g' = cg_lead g ->
    g_leaders (gof g') = g_leaders (gof g) -> g_grants (gof g') = g_grants (gof g) ->
    zinv cfg Ps g' C LL A V.
  Proof.
    intros HI Hf Hr Hzk Hdt Hnl Hsess Hlive Hnodes Hg' Hmsgs Hans Hleads Hld Hgr. pose proof Hzk as (Hvk & Hk & Hsnt & Hfl0).
    destruct (find_node_in _ _ _ Hf) as [Hin Hid].
    pose proof (zv_l cfg Ps g C LL A V HI) as Hlinv.
    pose proof (zv_node cfg Ps g C LL A V HI n Hin) as Hcn. rewrite Hr in Hcn. destruct Hcn as (N1 & N2 & N3).
    set (n' := mkGN (gn_P n) (Up s') sess' (gn_next n)) in *.
    assert (Hl' : zlinv [cfg] (cg_l g') C).
    { assert (Eg : cg_l g' = mkLG (gof g') (lg_msgs (cg_l g))).
      { unfold gof. rewrite <- Hmsgs. destruct (cg_l g') as [gg mm]. reflexivity. }
      rewrite Eg. apply (plain_zlinv [cfg] HQ (cg_l g) C (gof g') i n s s' sess' (gn_next n) Hlinv Hg' Hf Hr Hnodes Hld Hk Hsnt Hdt Hnl).
      intros se0 E. left. destruct (Hsess se0 E) as (_ & se & H1 & H2). exists se. split; [exact H1|congruence]. }
    apply (zinv_quiet cfg Ps HVn g g' C LL A V [] [] i n n' HI Hf Hid Hnodes Hl').
    - rewrite Hr. split; [apply Hvk|]. split; [apply Hk|]. split; [exact Hdt|]. left. exists s. auto.
    - split; [exact N1|]. split; [exact N2|]. eapply znode_up_keep; eauto.
    - exact Hmsgs.
    - exact Hans.
    - exact Hld.
    - exact Hgr.
    - intros j _. rewrite Hleads. reflexivity.
    - intros se' E. left. destruct (Hsess se' E) as (_ & se & H1 & H2). exists se. auto.
    - intros se' E. destruct (Hsess se' E) as (-> & se & H1 & H2). exists s. split; [reflexivity|]. rewrite H2.
      destruct (zv_se cfg Ps g C LL A V HI n se Hin H1) as (s0 & Hs0 & Hc). rewrite Hr in Hs0. inversion Hs0; subst s0. exact Hc.
    - intros s0 E Hl0. cbn [n' gn_run] in E. inversion E; subst s0. contradiction.
    - intros w T' c kw rq k k0 [].
    - intros w T' c kw rq [].
    - intros w T' c kw rq [].
    - intros w T' c kw rq xc se [].
    - intros w T' c [].
    - intros T' c Hlv. cbn [n' gn_run image] in Hlv.
      destruct (zv_live cfg Ps g C LL A V HI n T' c Hin) as [(kw & rq & H)|H]; [rewrite Hr; apply Hlive, Hlv| |right; exact H].
      left. exists kw, rq. rewrite <- Hid. exact H.
  Qed.

  Theorem zinv_voteresp sn g C LL A V i j g' : zinv cfg Ps g C LL A V ->
    cstep sn [cfg] g (CBase (LElect (GVoteResp i j))) = Some g' -> exists Cn LLn An, zinv cfg Ps g' (Cn ++ C) (LLn ++ LL) (An ++ A) V.
  Proof.
    intros HI Hstep. apply cstep_base_inv in Hstep. destruct Hstep as (_ & l' & Hl & ->).
    pose proof (zv_l cfg Ps g C LL A V HI) as Hlinv. pose proof (zv_ci cfg Ps g C LL A V HI) as Hci. pose proof (ci_ok C LL Hci) as HC.
    unfold lstep, ClusterLog.label_ok in Hl.
    destruct (gstep [cfg] (lg_g (cg_l g)) (GVoteResp i j)) as [g1|] eqn:Hg; [|discriminate].
    inversion Hl; subst l'. clear Hl.
    pose proof (gstep_inv [cfg] _ _ _ (zl_g [cfg] _ C Hlinv) Hg) as Hg1.
    unfold gstep in Hg. fold (cnodes g) in Hg.
    destruct (find_node (cnodes g) i) as [n|] eqn:Hf; [|discriminate].
    destruct (find_node_in _ _ _ Hf) as [Hin Hid].
    destruct (gn_run n) as [s|s] eqn:Hr; [|discriminate].
    destruct (gn_sess n) as [se|] eqn:Hse; [|discriminate].
    destruct (mem j (se_got se)); [discriminate|].
    destruct (find_resp (g_resps (lg_g (cg_l g))) i (se_epoch se) j) as [rp|]; [|discriminate].
    pose proof (gi_nodes [cfg] _ (zl_g [cfg] _ C Hlinv) n Hin) as [_ Hs]. unfold sess_ok in Hs. rewrite Hse in Hs.
    destruct Hs as (c & s0 & _ & E1 & E2 & _ & E4 & _). rewrite Hr in E1. inversion E1; subst s0. clear E1.
    destruct (znode_log_in cfg Ps g C LL A V HI n s Hin Hr) as [Hnlog [Hwd Hvt]].
    pose proof (znodes_nodup cfg Ps g C LL A V HI) as Hnd.
    pose proof (sess_vote_cases (gn_P n) s (se_c se) (mkVR (rp_term rp) (rp_granted rp)) E4) as Hcs.
    destruct (sess_step (gn_P n) false (SCand s (se_c se)) (CVote (mkVR (rp_term rp) (rp_granted rp)))) as [x tr].
    simpl fst in Hcs. cbn [vr_term vr_granted] in Hcs.
    assert (Hnl : v_role s <> Leader).
    { intros Hl0. destruct (zl_nodes [cfg] _ C Hlinv n Hin) as [_ Hlo]. destruct (Hlo s Hr Hl0) as (_ & Hn0 & _). congruence. }
    cbn [lg_g g_nodes base_leads base_hb base_ans].
    destruct (N.ltb_spec (v_term s) (rp_term rp)) as [Hlt|Hge].
    - (* a newer term: back to follower *)
      subst x. inversion Hg; subst g1. clear Hg.
      match goal with |- context [mkGN _ (Up ?S) None _] => set (sF := S) in * end.
      exists [], [], []. cbn [app]. match goal with |- zinv _ _ ?G _ _ _ _ => set (g' := G) end.
      apply (zinv_cand_quiet g g' C LL A V i n s sF None HI Hf Hr); try reflexivity.
      + split; [repeat split|split; [repeat split|split; reflexivity]].
      + change (d_term sF) with (rp_term rp). lia.
      + discriminate.
      + intros se' E. discriminate.
      + intros T' c0 Hlv. exfalso. unfold live, live_d, dproj in Hlv. change (d_term sF) with (rp_term rp) in Hlv.
        change (d_vterm sF) with (d_vterm s) in Hlv. destruct (N.eqb_spec (d_vterm s) (rp_term rp)) as [E|]; [|discriminate].
        unfold wfd in Hwd. lia.
      + exact Hg1.
      + cbn [g' cg_lead]. eapply (refresh_quiet (cnodes g) i n _ (cg_lead g) Hnd Hf); [exact Hid|]. intros s' E. inversion E. discriminate.
    - cbv zeta in Hcs.
      destruct (c_needed (se_c se) <=? (if rp_granted rp then c_granted (se_c se) + 1 else c_granted (se_c se))).
      + (* elected *)
        subst x. inversion Hg; subst g1. clear Hg.
        match goal with |- context [become_leader _ ?SL] => set (sL := SL) in * end.
        assert (KL : zkeep sL s) by (split; [repeat split|split; [repeat split|split; reflexivity]]).
        assert (XR : v_role sL = Leader) by reflexivity.
        assert (XT : v_term sL = d_term sL) by exact Hvt.
        assert (HnoT : forall c0 tl, ~ In (v_term s, c0, tl) LL).
        { intros c0 tl Hx. assert (Hc0 : In (v_term s, c0) (g_leaders (lg_g (cg_l g)))) by (apply (zv_ll cfg Ps g C LL A V HI); eauto).
          assert (c0 = i).
          { apply (leaders_fun [cfg] _ (v_term s) c0 i HQ Hg1); cbn [g_leaders]; [right; exact Hc0|left; reflexivity]. }
          subst c0. destruct (zl_leaders [cfg] _ C Hlinv _ _ Hc0 n Hin Hid) as [_ Hs2]. specialize (Hs2 se Hse). lia. }
        match goal with |- exists Cn LLn An, zinv _ _ ?G _ _ _ _ => set (g' := G) end.
        destruct (zinv_become cfg Ps HVn g g' C LL A V [] [] i n s sL (gn_next n) HI Hf Hr KL XR XT) as (C' & LL' & A' & Hc');
          [ | | | reflexivity | exact Hg1 | reflexivity | reflexivity | reflexivity | reflexivity | | | | | | |exists C', LL', A'; exact Hc'].
        * apply N.le_refl.
        * change (v_term sL) with (v_term s). rewrite E2. apply (zv_se1 cfg Ps g C LL A V HI n se Hin Hse).
        * intros T' _ H2. change (v_term sL) with (v_term s). rewrite E2. apply (H2 se Hse).
        * intros j0. cbn [g' cg_lead]. apply (refresh_one (cnodes g) i n (mkGN (gn_P n) (Up (become_leader (gn_P n) sL)) None (gn_next n)) (become_leader (gn_P n) sL) (cg_lead g) Hnd Hf Hid eq_refl).
          -- apply become_leader_role. reflexivity.
          -- rewrite Hr. exact Hnl.
        * (* the votes that elected it carry its last key *)
          intros w Hw. cbn [g' cg_l lg_g g_grants gof app] in Hw. change (v_term sL) with (v_term s) in *. change (last_entry sL) with (last_entry s).
          destruct (zv_gv cfg Ps g C LL A V HI w (v_term s) i Hw) as [(kw & rq & Hv)|(c' & tl' & Hx)]; [|exfalso; apply (HnoT _ _ Hx)].
          exists kw. rewrite (zv_v2 cfg Ps g C LL A V HI w (v_term s) i kw rq n se Hv Hin Hid Hse (eq_sym E2)) in Hv.
          destruct (zv_se cfg Ps g C LL A V HI n se Hin Hse) as (s0 & Hs0 & [Hle|(c' & tl' & Hx)]); [|exfalso; rewrite <- E2 in Hx; apply (HnoT _ _ Hx)].
          rewrite Hr in Hs0. inversion Hs0; subst s0. rewrite <- Hle in Hv. exact Hv.
        * intros w T' c0 kw rq k k0 [].
        * intros w T' c0 kw rq [].
        * intros w T' c0 [].
        * intros T' c0 Hlv. change (live sL) with (live s) in Hlv.
          destruct (zv_live cfg Ps g C LL A V HI n T' c0 Hin) as [(kw & rq & H)|H]; [rewrite Hr; exact Hlv| |right; exact H].
          left. exists kw, rq. rewrite <- Hid. exact H.
      + (* keeps counting *)
        subst x. inversion Hg; subst g1. clear Hg.
        exists [], [], []. cbn [app]. match goal with |- context [mkGN _ (Up s) (Some ?X) _] => set (se' := X) in * end.
        match goal with |- zinv _ _ ?G _ _ _ _ => set (g' := G) end.
        apply (zinv_cand_quiet g g' C LL A V i n s s (Some se') HI Hf Hr); try reflexivity.
        * apply zkeep_refl.
        * exact Hnl.
        * intros se0 E. inversion E; subst se0. split; [reflexivity|]. exists se. auto.
        * auto.
        * exact Hg1.
        * cbn [g' cg_lead]. eapply (refresh_quiet (cnodes g) i n _ (cg_lead g) Hnd Hf); [exact Hid|]. intros s' E Hl0. inversion E; subst s'. contradiction.
  Qed.
End StepT.
