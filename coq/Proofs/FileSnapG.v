(* FileSnapG.v — Inv is preserved by Close / Cancel of a finished sink and by Cancel. *)
From Coq Require Import List Arith NArith Bool Lia Permutation.
From RaftModel Require Import FileSnap FileSnapSpec.
From RaftProofs Require Import FileSnapA FileSnapB FileSnapC FileSnapD FileSnapE FileSnapF.
Import ListNotations.
Open Scope N_scope.

Definition set_done (k : sink) : sink := mkSink (k_sid k) (k_term k) (k_index k) (k_buf k) true.

Definition is_end (o : sop) : Prop := match o with SClose _ | SCancel _ => True | _ => False end.

Lemma ended_end : forall o, is_end o -> ended [o] (sop_sid o) <> None.
Proof. intros [] H; simpl in *; try contradiction; rewrite N.eqb_refl; discriminate. Qed.

Lemma created_end : forall s o, is_end o -> created (s ++ [o]) = created s.
Proof. intros s [] H; simpl in H; try contradiction; rewrite created_app; simpl; apply app_nil_r. Qed.

(* the sinks after Close / Cancel of an open sink *)
Lemma sinks_end : forall retain s st h o h' f',
  Inv retain s st h -> is_end o ->
  (forall x, x <> sop_sid o -> ~ In (FRename x) h -> ~ In (FRename x) h') ->
  (forall x, x <> sop_sid o -> OpenDir (st_fs st) x -> OpenDir f' x) ->
  forall sid', In sid' (created (s ++ [o])) ->
  exists k, find_sink (upd_sink (st_sinks st) (sop_sid o) set_done) sid' = Some k /\ SinkOK (s ++ [o]) h' f' k.
Proof.
  intros retain s st h o h' f' HI Ho Hh Hf sid' Hin. rewrite created_end in Hin by exact Ho.
  destruct (i_sinks _ _ _ _ HI sid' Hin) as [k [Hfk Hok]].
  rewrite find_sink_upd by reflexivity. rewrite Hfk. eexists. split; [reflexivity|].
  destruct (N.eqb_spec (k_sid k) (sop_sid o)) as [E|E].
  - destruct Hok as [Hc Hd]. split; simpl; [eapply created_as_app_some; eauto|].
    rewrite ended_snoc. destruct (ended s (k_sid k)); [discriminate|].
    rewrite E. apply ended_end. exact Ho.
  - eapply SinkOK_frame; eauto.
Qed.

Lemma dom_end : forall retain s st h o, Inv retain s st h ->
  forall sid' k, find_sink (upd_sink (st_sinks st) (sop_sid o) set_done) sid' = Some k -> In sid' (created (s ++ [o])).
Proof.
  intros retain s st h o HI sid' k Hf. rewrite find_sink_upd in Hf by reflexivity.
  destruct (find_sink (st_sinks st) sid') eqn:E; [|discriminate].
  apply in_created_snoc. eapply (i_dom _ _ _ _ HI); eauto.
Qed.

(* Close / Cancel of a sink that is already finished: nothing happens *)
Lemma Inv_noop : forall retain s st h o, Inv retain s st h -> is_end o ->
  (forall k, find_sink (st_sinks st) (sop_sid o) = Some k -> k_done k = true) ->
  In (sop_sid o) (created s) -> Inv retain (s ++ [o]) st h.
Proof.
  intros retain s st h o HI Ho Hdone Hin. constructor.
  - apply (i_retain _ _ _ _ HI).
  - apply Q_mono, (i_q _ _ _ _ HI).
  - intros d Hd Ht. apply Complete_mono. apply (i_allc _ _ _ _ HI); assumption.
  - intros d Hd. apply in_created_snoc. apply (i_sids _ _ _ _ HI); assumption.
  - intros sid' Hin'. rewrite created_end in Hin' by exact Ho.
    destruct (i_sinks _ _ _ _ HI sid' Hin') as [k [Hfk Hok]]. exists k. split; [exact Hfk|].
    assert (Hks := find_sink_sid _ _ _ Hfk).
    destruct (N.eq_dec (k_sid k) (sop_sid o)) as [E|E].
    + destruct Hok as [Hc Hd]. split; [eapply created_as_app_some; eauto|].
      rewrite (Hdone k) in * by (rewrite <- E, Hks; exact Hfk).
      rewrite ended_snoc. destruct (ended s (k_sid k)); [discriminate|contradiction].
    + eapply SinkOK_frame; eauto.
  - intros sid' k Hf. apply in_created_snoc. eapply (i_dom _ _ _ _ HI); eauto.
  - apply NoTouch_snoc; [apply (i_notouch _ _ _ _ HI)|]. destruct o; simpl in *; auto; contradiction.
Qed.

(* ---------------------------------------------------------------- Cancel of an open sink *)
Definition cancel_ops (sfirst : bool) (f : fs) (k : sink) : list fsop :=
  flush_ops k ++ remove_all sfirst (fs_run f (flush_ops k)) (k_sid k).

Lemma exec_cancel : forall sfirst st sid k, find_sink (st_sinks st) sid = Some k -> k_done k = false ->
  exec_op sfirst st (SCancel sid) =
  (mkStore (st_retain st) (fs_run (st_fs st) (cancel_ops sfirst (st_fs st) k)) (upd_sink (st_sinks st) sid set_done),
   cancel_ops sfirst (st_fs st) k).
Proof.
  intros sfirst st sid k Hf Hd. unfold exec_op. rewrite Hf, Hd. unfold cancel_ops.
  rewrite fs_run_app. rewrite (find_sink_sid _ _ _ Hf). reflexivity.
Qed.

Lemma cancel_tmp : forall sfirst f k o, In o (cancel_ops sfirst f k) -> tmp_op (k_sid k) o.
Proof.
  intros sfirst f k o H. unfold cancel_ops in H. apply in_app_or in H. destruct H as [H|H].
  - apply flush_tmp. exact H.
  - apply remove_all_ops in H. destruct H. apply rm_tmp_op; assumption.
Qed.

Section CancelOpen.
  Variables (sfirst : bool) (retain : N) (s : list sop) (st : store) (h : list fsop) (sid : N) (k : sink).
  Hypothesis HI : Inv retain s st h.
  Hypothesis Hfk : find_sink (st_sinks st) sid = Some k.
  Hypothesis Hnd : k_done k = false.
  Hypothesis Hin : In sid (created s).
  Let o := SCancel sid.
  Let seg := cancel_ops sfirst (st_fs st) k.

  Lemma cancel_sinkok : k_sid k = sid /\ ~ In (FRename sid) h.
  Proof.
    assert (Hks := find_sink_sid _ _ _ Hfk). split; [exact Hks|].
    destruct (i_sinks _ _ _ _ HI sid Hin) as [k' [Hf' [_ Hok]]].
    rewrite Hfk in Hf'. inversion Hf'; subst k'. rewrite Hnd, Hks in Hok. tauto.
  Qed.

  Lemma cancel_QP : QP (N.to_nat retain) (s ++ [o]) h (st_fs st) seg /\ ~ In (FRename sid) (h ++ seg).
  Proof.
    destruct cancel_sinkok as [Hks Hnr]. apply QP_tmp.
    - apply Q_mono, (i_q _ _ _ _ HI).
    - exact Hnr.
    - intros o' Ho'. rewrite <- Hks. eapply cancel_tmp; eauto.
  Qed.

  Lemma cancel_seg_tmp : forall o', In o' seg -> tmp_op sid o'.
  Proof. intros o' Ho'. destruct cancel_sinkok as [Hks _]. rewrite <- Hks. eapply cancel_tmp; eauto. Qed.
End CancelOpen.

Lemma tmp_seg_norename : forall sid seg x h, (forall o, In o seg -> tmp_op sid o) ->
  ~ In (FRename x) h -> ~ In (FRename x) (h ++ seg).
Proof.
  intros sid seg x h Hall Hn Hi. apply in_app_or in Hi. destruct Hi as [Hi|Hi]; [contradiction|].
  destruct (Hall _ Hi) as [_ [Hr _]]. eapply Hr. reflexivity.
Qed.

Lemma Inv_tmp_end : forall retain s st h o seg, Inv retain s st h -> is_end o ->
  In (sop_sid o) (created s) -> (forall o', In o' seg -> tmp_op (sop_sid o) o') ->
  ~ In (FRename (sop_sid o)) h ->
  Inv retain (s ++ [o])
      (mkStore (st_retain st) (fs_run (st_fs st) seg) (upd_sink (st_sinks st) (sop_sid o) set_done)) (h ++ seg).
Proof.
  intros retain s st h o seg HI Ho Hin Hall Hnr.
  destruct (QP_tmp (N.to_nat retain) (s ++ [o]) (sop_sid o) seg h (st_fs st)) as [HQP Hnr'];
    [apply Q_mono, (i_q _ _ _ _ HI)|exact Hnr|exact Hall|].
  assert (HQ := QP_end _ _ _ _ _ HQP).
  assert (Hnomk : forall o', In o' seg -> forall x, o' <> FMkdir x).
  { intros o' Ho'. apply (Hall o' Ho'). }
  constructor; cbn [st_fs st_retain st_sinks].
  - apply (i_retain _ _ _ _ HI).
  - exact HQ.
  - intros d Hd Ht. apply Complete_mono. apply (i_allc _ _ _ _ HI); [|exact Ht].
    apply (run_back seg); [exact Hnomk|exact Hd|].
    intros o' Ho' E. destruct (Hall o' Ho') as [Hs _]. rewrite Hs in E. inversion E as [E'].
    apply Hnr'. rewrite E'. apply (q_ren _ _ _ _ HQ); assumption.
  - intros d Hd. apply in_created_snoc. destruct (run_sids seg _ d Hd) as [H|H].
    + apply in_map_iff in H. destruct H as [d1 [E H1]]. rewrite <- E. apply (i_sids _ _ _ _ HI). exact H1.
    + exfalso. eapply Hnomk; eauto.
  - apply (sinks_end retain s st h o); auto.
    + intros x Hx Hn. eapply tmp_seg_norename; eauto.
    + intros x Hx [d [Hd Hrest]]. exists d. split; [|exact Hrest].
      apply run_keep; [exact Hd|]. intros o' Ho' E. destruct (Hall o' Ho') as [Hs _].
      rewrite Hs in E. inversion E as [E']. apply Hx. destruct Hrest as [Hr _]. congruence.
  - eapply dom_end; eauto.
  - apply NoTouch_snoc; [apply (i_notouch _ _ _ _ HI)|]. destruct o; simpl in *; auto; contradiction.
Qed.
