(* ClusterSnapCex.v - with snapshot transfer in the system (Model/ClusterSnap.v) Log Matching is false on
   this code: known finding F3-ii.  The witness is a script found by component 104 on REAL servers
   (the model agreed with them step by step): a server installs a snapshot and keeps a stale
   never-committed entry below the snapshot index in its log store. *)
From Coq Require Import List NArith Bool Lia.
From stdpp Require Import gmap.
From RaftModel Require Import Base Config Node NodeCodec Cluster ClusterLog ClusterCommit ClusterSnap.
From RaftProofs Require Import ClusterLogSnapCex.
Open Scope N_scope.

Definition f3ii_labels : list N := [1; 2; 1; 1; 2; 1; 3; 1; 1; 2; 1; 3; 2; 2; 1; 3; 1; 3; 11; 1; 11; 1; 8; 1; 2; 2; 2; 11; 1; 1; 3; 2; 3; 1; 3; 3; 1; 2; 3; 2; 3; 3; 2; 5; 1; 1; 2; 2; 2; 3; 2; 2; 1; 3; 2; 3; 11; 2; 8; 2; 1; 3; 3; 7; 2; 501; 11; 2; 10; 1; 10; 1; 10; 0; 8; 2; 3; 3; 4; 10; 2; 12; 3; 8; 2; 3; 2; 4; 13; 2; 3; 12; 1; 8; 2; 1; 2; 3; 13; 2; 1; 7; 2; 502; 11; 2; 10; 2; 11; 2; 10; 1; 10; 3; 10; 2; 7; 2; 503; 5; 3; 8; 2; 3; 2; 5; 10; 5; 99; 12; 8; 14; 2; 11; 2; 10; 3; 10; 0; 11; 3; 4; 3; 5; 3; 0; 1; 7; 2; 504; 1; 3; 4; 3; 6; 1; 2; 2; 2; 3; 1; 10; 1; 15; 2; 1; 5; 16; 0; 17; 0; 2; 3; 2; 3; 3; 2; 1; 1; 2; 1; 2; 2; 1; 3; 3; 3; 1; 3; 1; 2; 3; 1; 3; 1; 1; 2; 1; 2; 3; 1; 2; 2; 1; 3; 3; 1; 3; 16; 0; 8; 1; 3; 6; 1; 10; 6; 12; 12; 11; 2; 10; 5; 8; 2; 3; 6; 7; 10; 6; 8; 1; 3; 6; 6; 10; 8; 99; 12; 15; 14; 1].
Definition f3ii_init : sstate := install_init 1 3 [0; 1; 0].
Definition f3ii_final : sstate := run_ss_state (mk_cfg 3) (length f3ii_labels) f3ii_init f3ii_labels.

Lemma labels_taken_run cfg : forall fuel g l,
  srun [cfg] g (labels_taken cfg fuel g l) = Some (run_ss_state cfg fuel g l).
Proof.
  induction fuel as [|f IH]; intros g l; [reflexivity|].
  cbn [labels_taken run_ss_state].
  destruct (dec_sslabel (match l with 99 :: r => r | _ => l end)) as [[lb rest]|]; [|reflexivity].
  destruct (sstep [cfg] g lb) as [g'|] eqn:E.
  - cbn [srun]. rewrite E. apply IH.
  - apply IH.
Qed.

(* servers 1 and 3 both hold the entry (index 6, term 7) and differ at index 2 *)
Theorem log_matching_with_snapshot_transfer_refuted :
  exists ls g, srun [mk_cfg 3] f3ii_init ls = Some g /\ ~ log_matching (lg_of g).
Proof.
  exists (labels_taken (mk_cfg 3) (length f3ii_labels) f3ii_init f3ii_labels), f3ii_final.
  split; [apply labels_taken_run|].
  apply (lm_violation_sound (lg_of f3ii_final) 1 3 6 2). vm_compute. reflexivity.
Qed.
Print Assumptions log_matching_with_snapshot_transfer_refuted.
