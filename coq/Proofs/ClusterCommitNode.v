(* ClusterCommitNode.v — the per-server part of the commitment invariant that needs no ghost state:
   the log store is hole-free from index 1, the cached last index is the real one, every stored
   configuration entry decodes to cfg, the latest / committed configurations are cfg or empty,
   lastApplied <= commitIndex; and that NewRaft re-establishes it from the durable part. *)
From Coq Require Import List NArith Bool Lia.
From stdpp Require Import gmap.
From RaftModel Require Import Base Config Compaction Commitment Node NodeCodec Candidate Leader.
From RaftProofs Require Import VoteProofs AdvLeaderProofs AppendProofs RecoverProofs ClusterProofs
  ClusterLogSpec ClusterLogChain ClusterLogNode ClusterLogCut ClusterLogVote ClusterLogAppend ClusterLogLeader
  ClusterCommitSpec ClusterCommitInit ClusterCommitChain ClusterCommitAE ClusterCommitAE2.
Open Scope N_scope.

Section Node.
  Variable cfg : config.
  Variable Ps : list params.       (* the parameters of the servers of the cluster *)

  (* a configuration entry decodes to cfg at every server *)
  Definition dec_ok (e : entry) : Prop :=
    e_ty e = LogConfiguration -> forall P, In P Ps -> p_decode P (e_data e) = cfg.
  Definition log_dec (m : gmap N entry) : Prop := forall i e, m !! i = Some e -> dec_ok e.

  Definition cnode_img (s : nstate) : Prop := lcontig (d_log s) /\ log_dec (d_log s).

  Definition cnode_up (s : nstate) : Prop :=
    lcontig (d_log s) /\ log_dec (d_log s) /\ top_of (d_log s) (v_lastLogIdx s) /\
    cfg_or_nil cfg (v_latest s) /\ cfg_or_nil cfg (v_committed s) /\ v_applied s <= v_commit s.

  Definition cnode (P : params) (r : nrun) : Prop :=
    p_rc P = false /\ In P Ps /\ match r with Up s => cnode_up s | Down s => cnode_img s end.

  Lemma cnode_up_img s : cnode_up s -> cnode_img s.
  Proof. intros (A & B & _). split; assumption. Qed.

  Lemma cnode_image P r : cnode P r -> cnode_img (image r).
  Proof. intros (_ & _ & H). destruct r; [apply cnode_up_img|]; exact H. Qed.

  (* the fields cnode_up reads *)
  Definition vkeep (s' s : nstate) : Prop :=
    d_log s' = d_log s /\ v_lastLogIdx s' = v_lastLogIdx s /\ v_latest s' = v_latest s /\
    v_committed s' = v_committed s /\ v_applied s' = v_applied s /\ v_commit s' = v_commit s.

  Lemma vkeep_refl s : vkeep s s.
  Proof. repeat split. Qed.

  Lemma vkeep_trans a b c : vkeep a b -> vkeep b c -> vkeep a c.
  Proof. unfold vkeep. intros H1 H2. decompose [and] H1. decompose [and] H2. repeat split; congruence. Qed.

  Lemma cnode_up_vkeep s s' : cnode_up s -> vkeep s' s -> cnode_up s'.
  Proof.
    intros (A & B & D & E & F & G) (K1 & K2 & K3 & K4 & K5 & K6). unfold cnode_up.
    rewrite K1, K2, K3, K4, K5, K6. auto 10.
  Qed.

  (* ---------------------------------------------------------------- NewRaft *)
  Lemma log_last_top (m : gmap N entry) : top_of m (log_last m).
  Proof.
    split.
    - intros i Hi. destruct (m !! i) as [e|] eqn:E; [|reflexivity]. pose proof (log_last_ge m i e E). lia.
    - intros Hpos. destruct (log_last_in m) as [E0|(e & He)]; [lia|]. rewrite He. eauto.
  Qed.

  Lemma boot_cnode C P img r out : chain_ok C -> nlog_img C img -> p_rc P = false -> In P Ps -> cnode_img img ->
    boot P img = (r, out) -> cnode P r /\ d_log (image r) = d_log img /\
    match r with Up s => v_commit s = 0 /\ v_role s = Follower | Down _ => True end.
  Proof.
    intros HC Hn Hrc HP [Hlc Hd] HB. pose proof Hn as (Hsn & Hin & _).
    destruct (boot_fresh P img r out Hrc Hsn HB) as [Hlog Hr].
    split; [|split; [exact Hlog|]].
    - split; [exact Hrc|]. split; [exact HP|]. destruct r as [s|s].
      + destruct Hr as (Hc0 & Ha0 & Hcf). simpl in Hlog.
        unfold boot in HB. destruct (recover P img) as [s0 tr| | |] eqn:ER; inversion HB; subst s0.
        apply recover_ok in ER; [|eapply log_in_keys; exact Hin].
        destruct ER as (_ & _ & _ & Hli & _).
        destruct (Hcf cfg) as [L1 L2].
        { intros i e He Hty. apply (Hd i e He Hty P HP). }
        unfold cnode_up. rewrite Hlog, Hli, Hc0, Ha0.
        split; [exact Hlc|]. split; [exact Hd|]. split; [apply log_last_top|]. split; [exact L1|]. split; [exact L2|lia].
      + simpl in Hlog. unfold cnode_img. rewrite Hlog. split; assumption.
    - destruct r as [s|s]; [|exact I]. destruct Hr as (Hc0 & _). split; [exact Hc0|].
      eapply boot_not_candidate; [exact HB|reflexivity].
  Qed.
End Node.

(* ---------------------------------------------------------------- transitions of one server *)
(* the log store is untouched; a running server keeps the fields cnode_up reads, or was restarted *)
Definition quiet (r r' : nrun) : Prop :=
  d_log (image r') = d_log (image r) /\ d_term (image r) <= d_term (image r') /\
  match r' with
  | Up s' => (exists s, r = Up s /\ vkeep s' s) \/ (v_commit s' = 0 /\ v_role s' = Follower)
  | Down _ => True
  end.

Lemma quiet_refl r : quiet r r.
Proof. split; [reflexivity|]. split; [lia|]. destruct r as [s|s]; [left; exists s; split; [reflexivity|apply vkeep_refl]|exact I]. Qed.

Section NodeSteps.
  Variable cfg : config.
  Variable Ps : list params.

  Lemma cnode_quiet_up P s s' : cnode cfg Ps P (Up s) -> vkeep s' s -> cnode cfg Ps P (Up s').
  Proof. intros (A & B & D) K. split; [exact A|]. split; [exact B|]. eapply cnode_up_vkeep; eauto. Qed.

  (* a handler that only writes the term (and the vote): Done keeps the fields, a crash restarts from the same log *)
  Lemma finish_quiet {R} C P (enc : R -> list N) (mk : R -> nobs) s cut (o : outcome R) r' ob out :
    chain_ok C -> nlog_up C s -> cnode cfg Ps P (Up s) -> term_only s (trace_of o) ->
    (forall s' r tr fs', o = Done s' r tr fs' -> vkeep s' s /\ d_term s <= d_term s') ->
    finish P enc mk None s cut o = (r', ob, out) ->
    cnode cfg Ps P r' /\ quiet (Up s) r'.
  Proof.
    intros HC Hn Hcn Hto Hdone. pose proof Hcn as (Hrc & HP & Hup). unfold finish.
    assert (Hcrash : forall k rr oo, boot P (cut_image P None s (trace_of o) k) = (rr, oo) ->
              cnode cfg Ps P rr /\ quiet (Up s) rr).
    { intros k rr oo HB. destruct (cut_image_tl P (trace_of o) s k) as (j & Hj & Hs).
      destruct (prefix_tlf (trace_of o) (tlp s) j) as (j' & Hj'). rewrite Hj' in Hj.
      pose proof (prefixes_term_only C s (trace_of o) (nlog_img_good C s (nlog_up_img C s Hn)) Hto j') as Hgood.
      rewrite <- Hj in Hgood.
      assert (Himg : nlog_img C (cut_image P None s (trace_of o) k)).
      { apply good_tl_img; [|exact Hgood]. rewrite Hs. apply Hn. }
      assert (Hlog : d_log (cut_image P None s (trace_of o) k) = d_log s /\ d_term s <= d_term (cut_image P None s (trace_of o) k)).
      { assert (E : tlp (cut_image P None s (trace_of o) k) = fold_left tl_apply (firstn j' (tlf (trace_of o))) (tlp s)) by exact Hj.
        destruct Hto as [E0|(t & E0 & Ht)]; rewrite E0 in E.
        - destruct j'; simpl in E; inversion E; (split; [reflexivity|lia]).
        - destruct j' as [|[|j']]; simpl in E; inversion E; (split; [reflexivity|lia]). }
      destruct Hlog as [Hlog Hterm].
      assert (Hci : cnode_img cfg Ps (cut_image P None s (trace_of o) k)).
      { unfold cnode_img. rewrite Hlog. apply (cnode_up_img cfg Ps s Hup). }
      destruct (boot_cnode cfg Ps C P _ rr oo HC Himg Hrc HP Hci HB) as (A & B & D).
      split; [exact A|]. split; [simpl; congruence|]. split.
      - pose proof (boot_nlog C P _ rr oo HC Himg HB) as (_ & Dt & _). simpl. rewrite Dt. exact Hterm.
      - destruct rr as [sr|sr]; [right; exact D|exact I]. }
    destruct o as [s1 r tr fs'|s1 tr].
    - destruct ((0 <? cut) && (N.to_nat cut <=? count_durable tr)%nat).
      + destruct (boot P (cut_image P None s tr (N.to_nat cut))) as [rr oo] eqn:EB.
        intros H; inversion H; subst. apply (Hcrash _ _ _ EB).
      + intros H; inversion H; subst. destruct (Hdone s1 r tr fs' eq_refl) as [K Ht].
        split; [eapply cnode_quiet_up; eauto|]. split; [apply K|]. split; [exact Ht|]. left. exists s. auto.
    - destruct (boot P (cut_image P None s tr (length tr))) as [rr oo] eqn:EB.
      intros H; inversion H; subst. apply (Hcrash _ _ _ EB).
  Qed.
End NodeSteps.

(* ---------------------------------------------------------------- RequestVote and the simple events *)
Lemma persist_vote_vkeep s fs t c : let '(s', _, _, _) := persist_vote s fs t c in vkeep s' s.
Proof.
  pose proof (persist_vote_spec s fs t c) as H. destruct (persist_vote s fs t c) as [[[s' ok] tr] fs'].
  destruct H as [(_ & _ & ->)|[(_ & _ & ->)|(_ & _ & ->)]]; repeat split.
Qed.

Lemma request_vote_vkeep s fs q s' r tr fs' : request_vote s fs q = Done s' r tr fs' -> vkeep s' s.
Proof.
  unfold request_vote.
  destruct (negb (vq_id q =? 0) && nonempty (v_latest s) && negb (in_config (v_latest s) (vq_id q)));
    [intros H; inversion H; apply vkeep_refl|].
  destruct (negb (v_leader s =? 0) && negb (v_leader s =? vq_addr q) && negb (vq_transfer q));
    [intros H; inversion H; apply vkeep_refl|].
  destruct (vq_term q <? v_term s); [intros H; inversion H; apply vkeep_refl|].
  destruct (v_term s <? vq_term q).
  - unfold do_set_term. destruct (next_fail fs) as [f fs1]. destruct f; [discriminate|].
    set (s1 := set_vol_term (set_durable_term (set_state s Follower) (vq_term q)) (vq_term q)).
    assert (K1 : vkeep s1 s) by (repeat split).
    destruct (negb (vq_id q =? 0) && nonempty (v_latest s1) && negb (has_vote (v_latest s1) (vq_id q)));
      [intros H; inversion H; subst; exact K1|].
    destruct (if d_vterm s1 =? vq_term q then d_vcand s1 else None); [intros H; inversion H; subst; exact K1|].
    destruct (negb (log_ok s1 (vq_lastIdx q) (vq_lastTerm q))); [intros H; inversion H; subst; exact K1|].
    pose proof (persist_vote_vkeep s1 fs1 (vq_term q) (vq_addr q)) as Hp.
    destruct (persist_vote s1 fs1 (vq_term q) (vq_addr q)) as [[[s2 ok] tr2] fs2].
    intros H; inversion H; subst. eapply vkeep_trans; eauto.
  - destruct (negb (vq_id q =? 0) && nonempty (v_latest s) && negb (has_vote (v_latest s) (vq_id q)));
      [intros H; inversion H; apply vkeep_refl|].
    destruct (if d_vterm s =? vq_term q then d_vcand s else None); [intros H; inversion H; apply vkeep_refl|].
    destruct (negb (log_ok s (vq_lastIdx q) (vq_lastTerm q))); [intros H; inversion H; apply vkeep_refl|].
    pose proof (persist_vote_vkeep s fs (vq_term q) (vq_addr q)) as Hp.
    destruct (persist_vote s fs (vq_term q) (vq_addr q)) as [[[s2 ok] tr2] fs2].
    intros H; inversion H; subst. exact Hp.
Qed.

Section SimpleSteps.
  Variable cfg : config.
  Variable Ps : list params.

  (* RequestVote, pre-vote, restart, TimeoutNow at one server *)
  Lemma simple_step_cnode C P r e cut fs r' ob out : chain_ok C -> wfr r -> nlog C r -> cnode cfg Ps P r -> simple_event e ->
    step_full P r e cut fs = (r', ob, out) -> cnode cfg Ps P r' /\ quiet r r'.
  Proof.
    intros HC Hw Hn Hcn He. pose proof Hcn as (Hrc & HP & Hst). unfold step_full.
    assert (Hrestart : forall rr oo, boot P (image r) = (rr, oo) -> cnode cfg Ps P rr /\ quiet r rr).
    { intros rr oo HB.
      destruct (boot_cnode cfg Ps C P _ rr oo HC (nlog_image C r Hn) Hrc HP (cnode_image cfg Ps P r Hcn) HB) as (A & B & D).
      pose proof (boot_nlog C P _ rr oo HC (nlog_image C r Hn) HB) as (_ & Dt & _).
      split; [exact A|]. split; [exact B|]. split; [rewrite Dt; lia|]. destruct rr; [right; exact D|exact I]. }
    destruct r as [s|s]; destruct e as [q|q|a|q| | | | |]; try contradiction.
    - intros HF. simpl in Hn. pose proof (request_vote_keep s fs q Hw) as Hk.
      eapply (finish_quiet cfg Ps C P _ _ s cut (request_vote s fs q) r' ob out HC Hn Hcn); [| |exact HF].
      + destruct (request_vote s fs q); simpl; [apply Hk|exact Hk].
      + intros s' rr tr fs' Ho. rewrite Ho in Hk. destruct Hk as (_ & K2 & _).
        split; [eapply request_vote_vkeep; exact Ho|exact K2].
    - destruct (request_prevote s q) as [t g]. intros H; inversion H; subst. split; [exact Hcn|apply quiet_refl].
    - intros H; inversion H; subst. split.
      + eapply cnode_quiet_up; [exact Hcn|repeat split].
      + split; [reflexivity|]. split; [simpl; lia|]. left. exists s. split; [reflexivity|repeat split].
    - destruct (boot P (image (Up s))) as [rr oo] eqn:EB. intros H; inversion H; subst r' ob out. exact (Hrestart _ _ eq_refl).
    - intros H; inversion H; subst. split; [exact Hcn|apply quiet_refl].
    - intros H; inversion H; subst. split; [exact Hcn|apply quiet_refl].
    - intros H; inversion H; subst. split; [exact Hcn|apply quiet_refl].
    - destruct (boot P (image (Down s))) as [rr oo] eqn:EB. intros H; inversion H; subst r' ob out. exact (Hrestart _ _ eq_refl).
  Qed.
End SimpleSteps.
