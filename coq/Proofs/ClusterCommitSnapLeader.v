(* ClusterCommitSnapLeader.v — the leader side at one server with snapshots: dispatchLogs of one entry
   (appended after getLastEntry, which may be the snapshot boundary), the commitCh case, and the
   requests setupAppendEntries builds (the previous entry may be the snapshot boundary). *)
From Coq Require Import List NArith Bool Lia.
From stdpp Require Import gmap.
From RaftModel Require Import Base Config Compaction Commitment Node NodeCodec Leader Replicate.
From RaftProofs Require Import VoteProofs AppendProofs ClusterLogSpec ClusterLogChain ClusterLogNode ClusterLogVote ClusterLogLeader
  ClusterCommitChain ClusterCommitLog ClusterCommitInv ClusterCommitSnapLog ClusterCommitSnapBoot ClusterCommitSnapAE2.
Open Scope N_scope.

(* the leader stored the new entry e right after its last entry *)
Lemma leader_append_zup C s s' e : let C' := (e, last_entry s) :: C in
  chain_ok C' -> zup C s -> e_idx e = last_index s + 1 -> e_term e <= d_term s' -> d_term s <= d_term s' ->
  d_log s' = log_store (d_log s) [e] -> topk s' = key e -> d_snaps s' = d_snaps s -> bk s' = bk s ->
  zup C' s'.
Proof.
  intros C'. subst C'. rewrite last_entry_lk. set (C' := (e, lk (topk s) (bk s)) :: C).
  intros HC' Hz Hi Ht Hdt Hl Htk Hsn Hbk. unfold zup. rewrite Hl, Htk, Hsn, Hbk.
  assert (Hinc : incl C C') by (intros x Hx; right; exact Hx).
  pose proof (zshape_mono C C' _ _ _ _ _ _ Hinc (N.le_refl _) Hz) as Hz'.
  rewrite last_index_lk in Hi.
  change (key e) with (key (last_of [e])).
  apply (zshape_store C' HC' (d_term s) (d_log s) (d_snaps s) (topk s) (bk s) Hz' (d_term s') [e] (lk (topk s) (bk s)) Hdt).
  - discriminate.
  - simpl. split; [left; reflexivity|exact I].
  - intros x [<-|[]]. exact Ht.
  - unfold lk. destruct (N.leb_spec (fst (bk s)) (fst (topk s))); [left; reflexivity|right; auto].
  - intros H. exfalso. unfold last_of, key in H. simpl in H. rewrite Hi in H. unfold lk in H.
    destruct (N.leb_spec (fst (bk s)) (fst (topk s))); simpl in *; lia.
  - intros _. eapply anc_up; [left; reflexivity|reflexivity|]. apply (zshape_b_lk C' _ _ _ _ _ Hz').
Qed.

Lemma zup_ckeep C s s' : zup C s -> ckeep s' s -> zup C s'.
Proof.
  intros H K. unfold ckeep in K. decompose [and] K. clear K. unfold zup in *.
  assert (Et : d_term s' = d_term s) by (unfold dproj in *; congruence).
  assert (Eb : bk s' = bk s) by (apply bk_ext; assumption).
  assert (Ek : topk s' = topk s) by (unfold topk; congruence).
  rewrite Et, Eb, Ek. congruence.
Qed.

(* ---------------------------------------------------------------- setupAppendEntries *)
Lemma get_range_mchainS C m dt top : chain_ok C -> log_in C m dt -> log_below C m top ->
  forall n from es p, get_range m from n = Some es ->
  ((p = (0, 0) /\ from = 1) \/ (anc C p top /\ fst p + 1 = from)) ->
  mchain C p es /\ forall e, In e es -> e_term e <= dt.
Proof.
  intros HC Hin Hbel. induction n as [|n IH]; intros from es p Hg Hp; simpl in Hg.
  - inversion Hg; subst. split; [exact I|intros e []].
  - destruct (m !! from) as [e|] eqn:Ee; [|discriminate].
    destruct (get_range m (from + 1) n) as [r|] eqn:Er; [|discriminate]. inversion Hg; subst es. clear Hg.
    destruct (Hin from e Ee) as (Hk & (p0 & Hp0) & Ht).
    destruct (co_idx C HC e p0 Hp0) as [Hi0 _].
    assert (p0 = p).
    { destruct Hp as [[-> ->]|[Ha Hf]].
      - apply (co_zero C HC e p0 Hp0). lia.
      - symmetry. apply (anc_pred C p e p0 HC Hp0); [|lia].
        apply (anc_linear C p (key e) top HC Ha (Hbel _ e Ee)). unfold key. simpl. lia. }
    subst p0.
    destruct (IH (from + 1) r (key e) Er) as [I1 I2].
    { right. split; [apply (Hbel _ e Ee)|unfold key; simpl; lia]. }
    split; [simpl; auto|]. intros x [<-|Hx]; [exact Ht|apply I2, Hx].
Qed.

Theorem setup_send_chainS C P s next last pi pt es c : chain_ok C -> zup C s -> 1 <= next ->
  setup_send P s next last = SendAE pi pt es c ->
  mchain C (pi, pt) es /\ (forall e, In e es -> e_term e <= d_term s) /\ rootc C (pi, pt) /\
  (forall e, In e es -> exists i, d_log s !! i = Some e) /\ c = v_commit s /\
  ((pi, pt) = (0, 0) \/ (pi, pt) = bk s \/ holds (d_log s) (pi, pt)).
Proof.
  intros HC Hz Hnext. unfold setup_send.
  destruct (prev_of s next) as [[pi' pt']|] eqn:Ep.
  2:{ destruct (newest_snap s); discriminate. }
  destruct (get_range (d_log s) next _) as [es'|] eqn:Eg.
  2:{ destruct (newest_snap s); discriminate. }
  intros H; inversion H; subst. clear H.
  assert (Hpk : ((pi, pt) = (0, 0) /\ next = 1) \/ ((pi, pt) = bk s /\ v_lastSnapIdx s + 1 = next /\ next <> 1) \/
                (exists pe, d_log s !! (next - 1) = Some pe /\ (pi, pt) = key pe /\ next <> 1)).
  { unfold prev_of in Ep. destruct (N.eqb_spec next 1) as [->|Hne]; [inversion Ep; auto|].
    destruct (N.eqb_spec (next - 1) (v_lastSnapIdx s)) as [E|_].
    - inversion Ep; subst. right. left. split; [rewrite bk_pos by lia; reflexivity|]. split; [lia|exact Hne].
    - destruct (d_log s !! (next - 1)) as [pe|] eqn:Epe; [|discriminate]. inversion Ep; subst. right. right. exists pe. auto. }
  pose proof (zs_in _ _ _ _ _ _ Hz) as Hin.
  assert (Hbel : log_below C (d_log s) (lk (topk s) (bk s))) by (intros i x Hx; apply (zshape_log_lk C _ _ _ _ _ Hz i x Hx)).
  destruct (get_range_mchainS C (d_log s) (d_term s) _ HC Hin Hbel _ next es (pi, pt) Eg) as [M1 M2].
  { destruct Hpk as [[E1 E2]|[(E1 & E2 & _)|(pe & Hpe & E1 & Hn1)]]; [left; auto|right|right].
    - rewrite E1. split; [apply (zshape_b_lk C _ _ _ _ _ Hz)|exact E2].
    - rewrite E1. destruct (Hin _ pe Hpe) as (I & _). split; [apply (Hbel _ pe Hpe)|unfold key; simpl; lia]. }
  split; [exact M1|]. split; [exact M2|]. split; [|split; [|split; [reflexivity|]]].
  - destruct Hpk as [[E1 _]|[(E1 & _)|(pe & Hpe & E1 & _)]]; rewrite E1; [left; reflexivity|apply (zs_b _ _ _ _ _ _ Hz)|].
    destruct (Hin _ pe Hpe) as (_ & (q & Hq) & _). right. exists pe, q. auto.
  - clear -Eg. revert Eg. generalize (N.to_nat (N.min (next + p_maxappend P - 1) last + 1 - next)). intros n. revert next es.
    induction n as [|n IH]; intros from es H e He; simpl in H; [inversion H; subst; contradiction|].
    destruct (d_log s !! from) as [x|] eqn:Ex; [|discriminate]. destruct (get_range (d_log s) (from + 1) n) as [r|] eqn:Er; [|discriminate].
    inversion H; subst es. destruct He as [<-|He]; [eauto|apply (IH _ _ Er e He)].
  - destruct Hpk as [[E1 _]|[(E1 & _)|(pe & Hpe & E1 & _)]]; [left; exact E1|right; left; exact E1|right; right].
    rewrite E1. exists pe. destruct (Hin _ pe Hpe) as (I & _). split; [|reflexivity]. unfold key. simpl. rewrite I. exact Hpe.
Qed.
