(* ClusterCommitSnapUpd.v — the update lemma of Proofs/ClusterCommitUpd.v for the invariant with
   snapshots (Proofs/ClusterCommitSnapInv.v): one server changes, the ghost state is extended. *)
From Coq Require Import List NArith Bool Lia.
From stdpp Require Import gmap.
From RaftModel Require Import Base Config Compaction Commitment Node NodeCodec Candidate Leader Replicate Cluster ClusterLog ClusterCommit.
From RaftProofs Require Import ConfigProofs VoteProofs ClusterProofs
  ClusterLogSpec ClusterLogChain ClusterLogNode ClusterLogVote ClusterLogInv ClusterLogSteps
  ClusterCommitSpec ClusterCommitChain ClusterCommitNode ClusterCommitGhost ClusterCommitInv ClusterCommitUpd
  ClusterCommitSnapLog ClusterCommitSnapNode ClusterCommitSnapLinv ClusterCommitSnapInv.
Open Scope N_scope.

Lemma covers_mono C C' img k0 : incl C C' -> covers C img k0 -> covers C' img k0.
Proof. intros Hi [H|(sn & Hsn & Ha)]; [left; exact H|right; exists sn; split; [exact Hsn|eapply anc_mono; eauto]]. Qed.

Section Update.
  Variable cfg : config.
  Variable Ps : list params.
  Hypothesis HVn : NoDup (voters cfg).

  Variables g g' : cgstate.
  Variables C Cn : chain.
  Variables LL LLn : LLt.
  Variables A An : At.
  Variables V Vn : Vt.
  Variable j : N.
  Variables n n' : gnode.

  Notation C' := (Cn ++ C).
  Notation LL' := (LLn ++ LL).
  Notation A' := (An ++ A).
  Notation V' := (Vn ++ V).

  Hypothesis HI : zinv cfg Ps g C LL A V.
  Hypothesis Hfind : find_node (cnodes g) j = Some n.
  Hypothesis Hid' : gn_id n' = j.
  Hypothesis Hnodes : cnodes g' = upd_node (cnodes g) j n'.
  Hypothesis Hdt : dtn n <= dtn n'.
  Hypothesis Hl' : zlinv [cfg] (cg_l g') C'.
  Hypothesis Hci' : chain_inv C' LL'.

  Let HiC : incl C C' := incl_appr Cn (incl_refl C).
  Let HiL : incl LL LL' := incl_appr LLn (incl_refl LL).
  Let HiA : incl A A' := incl_appr An (incl_refl A).
  Let HiV : incl V V' := incl_appr Vn (incl_refl V).
  Let Hci := zv_ci cfg Ps g C LL A V HI.
  Let HC'ok := ci_ok C' LL' Hci'.

  Lemma upd_in_n : In n (cnodes g) /\ gn_id n = j.
  Proof. apply (find_node_in _ _ _ Hfind). Qed.

  Lemma upd_cases x : In x (cnodes g') -> x = n' \/ (In x (cnodes g) /\ gn_id x <> j).
  Proof. rewrite Hnodes. apply in_upd_cases. Qed.

  Lemma upd_in_n' : In n' (cnodes g').
  Proof. rewrite Hnodes. apply in_upd_node with (n := n); [exact Hfind|exact Hid']. Qed.

  Lemma upd_other x : In x (cnodes g) -> gn_id x <> j -> In x (cnodes g').
  Proof.
    intros Hx Hne. rewrite Hnodes. unfold upd_node. apply in_map_iff. exists x.
    destruct (N.eqb_spec (gn_id x) j); [contradiction|auto].
  Qed.

  (* a server of g has a successor in g' with the same id and a term not below *)
  Lemma upd_succ x : In x (cnodes g) -> exists x', In x' (cnodes g') /\ gn_id x' = gn_id x /\ dtn x <= dtn x'.
  Proof.
    intros Hx. destruct (N.eq_dec (gn_id x) j) as [E|Hne].
    - exists n'. split; [apply upd_in_n'|]. split; [congruence|].
      destruct upd_in_n as [Hn Hnj]. pose proof (zv_l cfg Ps g C LL A V HI) as Hl.
      assert (x = n) by (apply (nodup_id_eq _ x n (gi_ids [cfg] _ (zl_g [cfg] _ C Hl)) Hx Hn); congruence). subst x. exact Hdt.
    - exists x. split; [apply upd_other; assumption|]. split; [reflexivity|lia].
  Qed.

  (* ---------------------------------------------------------------- vote_inv *)
  Hypothesis Hva_newV : forall w T' c kw rq k k0, In (w, T', c, kw, rq) Vn -> In (w, k) A' -> snd k < T' -> anc C' k0 k -> 1 <= fst k0 ->
    anc C' k0 kw \/ exists T3 c3 tl3, In (T3, c3, tl3) LL' /\ snd k < T3 /\ T3 < T' /\ ~ anc C' k0 tl3.
  Hypothesis Hva_newA : forall w T' c kw rq k k0, In (w, T', c, kw, rq) V -> In (w, k) An -> snd k < T' -> anc C' k0 k -> 1 <= fst k0 ->
    anc C' k0 kw \/ exists T3 c3 tl3, In (T3, c3, tl3) LL' /\ snd k < T3 /\ T3 < T' /\ ~ anc C' k0 tl3.
  Hypothesis Hlv_new : forall T' c tl', In (T', c, tl') LLn ->
    exists W, majority (voters cfg) W /\ forall w, In w W -> exists kw, In (w, T', c, kw, tl') V'.
  Hypothesis Hup_new : forall w T' c kw rq, In (w, T', c, kw, rq) Vn -> uptodate rq kw /\ (kw = (0, 0) \/ created C' kw).
  Hypothesis Hac_new : forall w k, In (w, k) An -> created C' k /\ exists c tl, In (snd k, c, tl) LL'.

  Lemma upd_vote_inv : vote_inv cfg C' LL' A' V'.
  Proof.
    pose proof (zv_vi cfg Ps g C LL A V HI) as Hvi. constructor.
    - intros w T' c kw rq k k0 Hv Ha Hlt Hanc Hpos.
      apply in_app_iff in Hv. destruct Hv as [Hv|Hv]; [eapply Hva_newV; eauto|].
      apply in_app_iff in Ha. destruct Ha as [Ha|Ha]; [eapply Hva_newA; eauto|].
      destruct (vi_ac cfg C LL A V Hvi w k Ha) as [Hkc _].
      pose proof (anc_back C LL C' k0 k Hci HC'ok HiC (or_introl Hkc) Hanc) as Hanc0.
      destruct (vi_va cfg C LL A V Hvi w T' c kw rq k k0 Hv Ha Hlt Hanc0 Hpos) as [H|(T3 & c3 & tl3 & H1 & H2 & H3 & H4)].
      + left. eapply anc_mono; eauto.
      + right. exists T3, c3, tl3. split; [apply HiL, H1|]. split; [exact H2|]. split; [exact H3|].
        intros Hx. apply H4. destruct (ci_tl C LL Hci _ _ _ H1) as [_ Htc].
        apply (anc_back C LL C' k0 tl3 Hci HC'ok HiC); [destruct Htc; auto|exact Hx].
    - intros T' c tl' Hl. apply in_app_iff in Hl. destruct Hl as [Hl|Hl]; [apply Hlv_new, Hl|].
      destruct (vi_lv cfg C LL A V Hvi T' c tl' Hl) as (W & HW & H). exists W. split; [exact HW|].
      intros w Hw. destruct (H w Hw) as (kw & Hk). exists kw. apply HiV, Hk.
    - intros w T' c kw rq Hv. apply in_app_iff in Hv. destruct Hv as [Hv|Hv]; [apply (Hup_new _ _ _ _ _ Hv)|].
      destruct (vi_up cfg C LL A V Hvi _ _ _ _ _ Hv) as [H1 H2]. split; [exact H1|].
      destruct H2 as [->|H2]; [left; reflexivity|right; eapply created_mono; eauto].
    - intros w k Ha. apply in_app_iff in Ha. destruct Ha as [Ha|Ha]; [apply (Hac_new _ _ Ha)|].
      destruct (vi_ac cfg C LL A V Hvi _ _ Ha) as [H1 (c & tl & H2)]. split; [eapply created_mono; eauto|].
      exists c, tl. apply HiL, H2.
  Qed.

  (* ---------------------------------------------------------------- servers: local part, commit knowledge *)
  Hypothesis Hnode' : znode cfg Ps (gn_P n') (gn_run n').
  Hypothesis Hkc' : forall s, gn_run n' = Up s ->
    v_commit s <= last_index s /\ forall i e, d_log s !! i = Some e -> i <= v_commit s -> CK cfg C' LL' A' (d_term s) (key e).

  Lemma upd_node_inv x : In x (cnodes g') -> znode cfg Ps (gn_P x) (gn_run x).
  Proof. intros Hx. destruct (upd_cases x Hx) as [->|[Hxo _]]; [exact Hnode'|apply (zv_node cfg Ps g C LL A V HI x Hxo)]. Qed.

  Lemma upd_kc x s : In x (cnodes g') -> gn_run x = Up s ->
    v_commit s <= last_index s /\ forall i e, d_log s !! i = Some e -> i <= v_commit s -> CK cfg C' LL' A' (d_term s) (key e).
  Proof.
    intros Hx Hr. destruct (upd_cases x Hx) as [->|[Hxo _]]; [apply Hkc', Hr|].
    destruct (zv_kc cfg Ps g C LL A V HI x s Hxo Hr) as [K1 K2]. split; [exact K1|].
    intros i e He Hi. eapply CK_mono_g; [exact HiC|exact HiL|exact HiA|apply (K2 i e He Hi)].
  Qed.

  Hypothesis Hsk' : forall sn, In sn (d_snaps (image (gn_run n'))) -> CK cfg C' LL' A' (dtn n') (sk sn).
  Hypothesis Hfsm' : forall s, gn_run n' = Up s ->
    fst (v_fsmLast s) = 0 \/ (created C' (v_fsmLast s) /\ CK cfg C' LL' A' (d_term s) (v_fsmLast s)).

  Lemma upd_sk x sn : In x (cnodes g') -> In sn (d_snaps (image (gn_run x))) -> CK cfg C' LL' A' (dtn x) (sk sn).
  Proof.
    intros Hx Hsn. destruct (upd_cases x Hx) as [->|[Hxo _]]; [apply Hsk', Hsn|].
    eapply CK_mono_g; [exact HiC|exact HiL|exact HiA|apply (zv_sk cfg Ps g C LL A V HI x sn Hxo Hsn)].
  Qed.

  Lemma upd_fsm x s : In x (cnodes g') -> gn_run x = Up s ->
    fst (v_fsmLast s) = 0 \/ (created C' (v_fsmLast s) /\ CK cfg C' LL' A' (d_term s) (v_fsmLast s)).
  Proof.
    intros Hx Hr. destruct (upd_cases x Hx) as [->|[Hxo _]]; [apply Hfsm', Hr|].
    destruct (zv_fsm cfg Ps g C LL A V HI x s Hxo Hr) as [E|[H1 H2]]; [left; exact E|right].
    split; [eapply created_mono; eauto|eapply CK_mono_g; [exact HiC|exact HiL|exact HiA|exact H2]].
  Qed.

  (* ---------------------------------------------------------------- messages and answers *)
  Variable mn : list amsg.
  Hypothesis Hmsgs : lg_msgs (cg_l g') = lg_msgs (cg_l g) ++ mn.
  Hypothesis Hmsg_new : forall m, In m mn -> msg_inv cfg Ps C' LL' A' m.

  Lemma msg_inv_mono m : In m (lg_msgs (cg_l g)) -> msg_inv cfg Ps C LL A m -> msg_inv cfg Ps C' LL' A' m.
  Proof.
    intros Hm (M1 & M2 & M3). pose proof (zv_l cfg Ps g C LL A V HI) as Hl.
    destruct (zl_msgs [cfg] _ C Hl m Hm) as (_ & _ & Hmc & _). split; [|split].
    - intros e He. destruct (M1 e He) as [D T]. split; [exact D|eapply tchain_mono; eauto].
    - destruct M2 as [M2|M2]; [left; exact M2|right; eapply created_mono; eauto].
    - intros k0 Hanc Hpos Hle. eapply CK_mono_g; [exact HiC|exact HiL|exact HiA|]. apply M3; [|exact Hpos|exact Hle].
      apply (anc_back C LL C' k0 _ Hci HC'ok HiC); [|exact Hanc].
      unfold last_key_of. destruct (aq_entries (am_req m)) as [|e0 r] eqn:Ees.
      + destruct M2 as [M2|M2]; [right; exact M2|left; exact M2].
      + left. destruct (mchain_in C _ _ Hmc (last_of (e0 :: r))) as [q Hq]; [apply last_in; discriminate|].
        exists (last_of (e0 :: r)), q. auto.
  Qed.

  Lemma upd_msg m : In m (lg_msgs (cg_l g')) -> msg_inv cfg Ps C' LL' A' m.
  Proof.
    rewrite Hmsgs. intros Hm. apply in_app_iff in Hm. destruct Hm as [Hm|Hm]; [|apply Hmsg_new, Hm].
    apply msg_inv_mono; [exact Hm|apply (zv_msg cfg Ps g C LL A V HI m Hm)].
  Qed.

  Variable an : list ares.
  Hypothesis Hans : cg_ans g' = cg_ans g ++ an.
  Hypothesis Hans_new : forall x, In x an -> ans_inv g' A' x.

  Lemma upd_ans x : In x (cg_ans g') -> ans_inv g' A' x.
  Proof.
    rewrite Hans. intros Hx. apply in_app_iff in Hx. destruct Hx as [Hx|Hx]; [|apply Hans_new, Hx].
    destruct (zv_ans cfg Ps g C LL A V HI x Hx) as (m & Hn & Ha). exists m. split; [rewrite Hmsgs; apply nth_error_app_old, Hn|].
    intros H1 H2 H3. apply HiA, (Ha H1 H2 H3).
  Qed.

  (* ---------------------------------------------------------------- acceptors *)
  Hypothesis Ha1_new : forall w k, In (w, k) An -> exists x, In x (cnodes g') /\ gn_id x = w /\ snd k <= dtn x.

  Lemma upd_a1 w k : In (w, k) A' -> exists x, In x (cnodes g') /\ gn_id x = w /\ snd k <= dtn x.
  Proof.
    intros Ha. apply in_app_iff in Ha. destruct Ha as [Ha|Ha]; [apply Ha1_new, Ha|].
    destruct (zv_a1 cfg Ps g C LL A V HI w k Ha) as (x & Hx & Hxi & Hxt).
    destruct (upd_succ x Hx) as (x' & Hx' & Hi' & Ht'). exists x'. split; [exact Hx'|]. split; [congruence|lia].
  Qed.

  (* old acceptances at the server that changed, and new acceptances everywhere *)
  Hypothesis Hav_n' : forall k k0, In (j, k) A -> anc C k0 k -> 1 <= fst k0 ->
    covers C' (image (gn_run n')) k0 \/ exists T2 c2 tl2, In (T2, c2, tl2) LL' /\ snd k < T2 /\ T2 <= dtn n' /\ ~ anc C' k0 tl2.
  Hypothesis Hav_new : forall w k x k0, In (w, k) An -> In x (cnodes g') -> gn_id x = w -> anc C' k0 k -> 1 <= fst k0 ->
    covers C' (image (gn_run x)) k0 \/ exists T2 c2 tl2, In (T2, c2, tl2) LL' /\ snd k < T2 /\ T2 <= dtn x /\ ~ anc C' k0 tl2.

  Lemma upd_av w k x k0 : In (w, k) A' -> In x (cnodes g') -> gn_id x = w -> anc C' k0 k -> 1 <= fst k0 ->
    covers C' (image (gn_run x)) k0 \/ exists T2 c2 tl2, In (T2, c2, tl2) LL' /\ snd k < T2 /\ T2 <= dtn x /\ ~ anc C' k0 tl2.
  Proof.
    intros Ha Hx Hxi Hanc Hpos. apply in_app_iff in Ha. destruct Ha as [Ha|Ha]; [eapply Hav_new; eauto|].
    pose proof (zv_vi cfg Ps g C LL A V HI) as Hvi. destruct (vi_ac cfg C LL A V Hvi w k Ha) as [Hkc _].
    pose proof (anc_back C LL C' k0 k Hci HC'ok HiC (or_introl Hkc) Hanc) as Hanc0.
    destruct (upd_cases x Hx) as [->|[Hxo Hne]].
    - rewrite Hid' in Hxi. subst w. apply Hav_n'; assumption.
    - destruct (zv_av cfg Ps g C LL A V HI w k x k0 Ha Hxo Hxi Hanc0 Hpos) as [H|(T2 & c2 & tl2 & H1 & H2 & H3 & H4)]; [left; eapply covers_mono; eauto|].
      right. exists T2, c2, tl2. split; [apply HiL, H1|]. split; [exact H2|]. split; [exact H3|].
      intros Hy. apply H4. destruct (ci_tl C LL Hci _ _ _ H1) as [_ Htc].
      apply (anc_back C LL C' k0 tl2 Hci HC'ok HiC); [destruct Htc; auto|exact Hy].
  Qed.

  (* ---------------------------------------------------------------- votes *)
  Hypothesis Hv1_new : forall w T' c kw rq, In (w, T', c, kw, rq) Vn ->
    (exists x, In x (cnodes g') /\ gn_id x = w /\ T' <= dtn x) /\ (exists xc, In xc (cnodes g') /\ gn_id xc = c /\ T' <= dtn xc).

  Lemma upd_v1 w T' c kw rq : In (w, T', c, kw, rq) V' ->
    (exists x, In x (cnodes g') /\ gn_id x = w /\ T' <= dtn x) /\ (exists xc, In xc (cnodes g') /\ gn_id xc = c /\ T' <= dtn xc).
  Proof.
    intros Hv. apply in_app_iff in Hv. destruct Hv as [Hv|Hv]; [apply (Hv1_new _ _ _ _ _ Hv)|].
    destruct (zv_v1 cfg Ps g C LL A V HI _ _ _ _ _ Hv) as [(x & Hx & Hxi & Hxt) (xc & Hxc & Hxci & Hxct)]. split.
    - destruct (upd_succ x Hx) as (x' & Hx' & Hi' & Ht'). exists x'. split; [exact Hx'|]. split; [congruence|lia].
    - destruct (upd_succ xc Hxc) as (x' & Hx' & Hi' & Ht'). exists x'. split; [exact Hx'|]. split; [congruence|lia].
  Qed.

  (* the runCandidate invocation of the server that changed: kept with its request, or a new one in a higher term *)
  Hypothesis Hsess' : forall se', gn_sess n' = Some se' ->
    (exists se, gn_sess n = Some se /\ se_req se' = se_req se) \/ dtn n < vq_term (se_req se').
  Hypothesis Hv2_new : forall w T' c kw rq xc se, In (w, T', c, kw, rq) Vn -> In xc (cnodes g') -> gn_id xc = c ->
    gn_sess xc = Some se -> vq_term (se_req se) = T' -> rq = (vq_lastIdx (se_req se), vq_lastTerm (se_req se)).

  Lemma upd_v2 w T' c kw rq xc se : In (w, T', c, kw, rq) V' -> In xc (cnodes g') -> gn_id xc = c ->
    gn_sess xc = Some se -> vq_term (se_req se) = T' -> rq = (vq_lastIdx (se_req se), vq_lastTerm (se_req se)).
  Proof.
    intros Hv Hx Hxi Hse Ht. apply in_app_iff in Hv. destruct Hv as [Hv|Hv]; [eapply Hv2_new; eauto|].
    destruct (upd_cases xc Hx) as [->|[Hxo Hne]].
    - destruct upd_in_n as [Hn Hnj]. destruct (Hsess' se Hse) as [(se0 & Hse0 & Er)|Hlt].
      + rewrite Er. apply (zv_v2 cfg Ps g C LL A V HI w T' c kw rq n se0 Hv Hn); [congruence|exact Hse0|congruence].
      + exfalso. destruct (zv_v1 cfg Ps g C LL A V HI _ _ _ _ _ Hv) as [_ (xc & Hxc & Hxci & Hxct)].
        pose proof (zv_l cfg Ps g C LL A V HI) as Hl.
        assert (xc = n) by (apply (nodup_id_eq _ xc n (gi_ids [cfg] _ (zl_g [cfg] _ C Hl)) Hxc Hn); congruence). subst xc. lia.
    - apply (zv_v2 cfg Ps g C LL A V HI w T' c kw rq xc se Hv Hxo Hxi Hse Ht).
  Qed.

  Variable Gn : list (N * N * N).
  Hypothesis Hgrants : g_grants (gof g') = Gn ++ g_grants (gof g).
  Hypothesis Hgv_new : forall w T' c, In (w, T', c) Gn ->
    (exists kw rq, In (w, T', c, kw, rq) V') \/ (exists c' tl', In (T', c', tl') LL').

  Lemma upd_gv w T' c : In (w, T', c) (g_grants (gof g')) ->
    (exists kw rq, In (w, T', c, kw, rq) V') \/ (exists c' tl', In (T', c', tl') LL').
  Proof.
    rewrite Hgrants. intros Hg. apply in_app_iff in Hg. destruct Hg as [Hg|Hg]; [apply Hgv_new, Hg|].
    destruct (zv_gv cfg Ps g C LL A V HI w T' c Hg) as [(kw & rq & H)|(c' & tl' & H)].
    - left. exists kw, rq. apply HiV, H.
    - right. exists c', tl'. apply HiL, H.
  Qed.

  Lemma upd_se1 x se : In x (cnodes g') -> gn_sess x = Some se -> 1 <= vq_term (se_req se).
  Proof.
    intros Hx Hse. destruct (upd_cases x Hx) as [->|[Hxo _]]; [|apply (zv_se1 cfg Ps g C LL A V HI x se Hxo Hse)].
    destruct upd_in_n as [Hn _]. destruct (Hsess' se Hse) as [(se0 & Hse0 & ->)|Hlt]; [apply (zv_se1 cfg Ps g C LL A V HI n se0 Hn Hse0)|lia].
  Qed.

  Hypothesis Hse' : forall se, gn_sess n' = Some se ->
    exists s, gn_run n' = Up s /\
      (last_entry s = (vq_lastIdx (se_req se), vq_lastTerm (se_req se)) \/ exists c' tl', In (vq_term (se_req se), c', tl') LL').

  Lemma upd_se x se : In x (cnodes g') -> gn_sess x = Some se ->
    exists s, gn_run x = Up s /\
      (last_entry s = (vq_lastIdx (se_req se), vq_lastTerm (se_req se)) \/ exists c' tl', In (vq_term (se_req se), c', tl') LL').
  Proof.
    intros Hx Hse. destruct (upd_cases x Hx) as [->|[Hxo _]]; [apply Hse', Hse|].
    destruct (zv_se cfg Ps g C LL A V HI x se Hxo Hse) as (s & Hs & [H|(c' & tl' & H)]); exists s; (split; [exact Hs|]);
      [left; exact H|right; exists c', tl'; apply HiL, H].
  Qed.

  Hypothesis Hlive' : forall T' c, live (image (gn_run n')) = Some (T', c) ->
    (exists kw rq, In (j, T', c, kw, rq) V') \/ (exists c' tl', In (T', c', tl') LL').

  Lemma upd_live x T' c : In x (cnodes g') -> live (image (gn_run x)) = Some (T', c) ->
    (exists kw rq, In (gn_id x, T', c, kw, rq) V') \/ (exists c' tl', In (T', c', tl') LL').
  Proof.
    intros Hx Hlv. destruct (upd_cases x Hx) as [->|[Hxo _]]; [rewrite Hid'; apply Hlive', Hlv|].
    destruct (zv_live cfg Ps g C LL A V HI x T' c Hxo Hlv) as [(kw & rq & H)|(c' & tl' & H)].
    - left. exists kw, rq. apply HiV, H.
    - right. exists c', tl'. apply HiL, H.
  Qed.

  (* ---------------------------------------------------------------- leaders *)
  Hypothesis Hll' : forall T c, In (T, c) (g_leaders (gof g')) <-> exists tl, In (T, c, tl) LL'.
  Hypothesis Hlead_other : forall i, i <> j -> find_lead (cg_lead g') i = find_lead (cg_lead g) i.
  Hypothesis Hcn : forall y p, In (y, p) Cn -> In (e_term y, j) (g_leaders (gof g')).
  Hypothesis Hlead' : forall s, gn_run n' = Up s -> v_role s = Leader -> zlead_inv cfg g' C' LL' A' n' s.

  Lemma upd_lead x s : In x (cnodes g') -> gn_run x = Up s -> v_role s = Leader -> zlead_inv cfg g' C' LL' A' x s.
  Proof.
    intros Hx Hr Hrole. destruct (upd_cases x Hx) as [->|[Hxo Hne]]; [apply Hlead'; assumption|].
    destruct (zv_lead cfg Ps g C LL A V HI x s Hxo Hr Hrole) as [(tl & ld & L1 & L2 & L3 & L4 & L5 & L6 & L7 & L8 & L9 & L10 & L11) [Z1 Z2]].
    split; [|split; [exact Z1|]].
    2:{ intros ld' Hld'. rewrite Hlead_other in Hld' by exact Hne. intros e fid He. destruct (Z2 ld' Hld' e fid He) as [E (p & Pp)].
        split; [exact E|exists p; apply HiC, Pp]. }
    exists tl, ld. split; [apply HiL, L1|]. split; [rewrite Hlead_other by exact Hne; exact L2|]. split.
    { intros y p Hy Hty. apply in_app_iff in Hy. destruct Hy as [Hy|Hy]; [|eapply anc_mono; [exact HiC|apply (L3 y p Hy Hty)]].
      exfalso. apply Hne. pose proof (Hcn y p Hy) as Hj. rewrite Hty in Hj.
      assert (Hxl : In (v_term s, gn_id x) (g_leaders (gof g'))) by (apply Hll'; exists tl; apply HiL, L1).
      apply (leaders_fun [cfg] (gof g') (v_term s) (gn_id x) j (quorums_intersect_one' cfg HVn) (zl_g [cfg] _ C' Hl') Hxl Hj). }
    split; [exact L4|]. split; [exact L5|]. split; [exact L6|]. split.
    { intros i v Hm. destruct (L7 i v Hm) as [H|H]; [left; exact H|right; apply HiA, H]. }
    split; [exact L8|]. split.
    { destruct L9 as [H|[H1 H2]]; [left; exact H|right; split; [exact H1|eapply QA_mono; eauto]]. }
    split; [exact L10|exact L11].
  Qed.

  (* ---------------------------------------------------------------- all together *)
  Theorem zinv_update : zinv cfg Ps g' C' LL' A' V'.
  Proof.
    constructor.
    - exact Hl'.
    - exact Hci'.
    - exact upd_vote_inv.
    - exact Hll'.
    - exact upd_node_inv.
    - intros x s. apply upd_kc.
    - exact upd_sk.
    - intros x s. apply upd_fsm.
    - intros x s. apply upd_lead.
    - exact upd_msg.
    - exact upd_ans.
    - exact upd_a1.
    - intros w k x k0 H1 H2 H3 H4 H5. eapply upd_av; eauto.
    - exact upd_v1.
    - intros w T' c kw rq xc se. apply upd_v2.
    - exact upd_gv.
    - exact upd_live.
    - exact upd_se1.
    - exact upd_se.
  Qed.
End Update.
