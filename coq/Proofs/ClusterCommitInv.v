(* ClusterCommitInv.v — the invariant of Model/ClusterCommit.v from which State Machine Safety,
   Leader Completeness and applied <= commit <= lastIndex follow (this file: the definition, and
   that they follow).  Ghost state: Proofs/ClusterCommitGhost.v. *)
From Coq Require Import List NArith Bool Lia.
From stdpp Require Import gmap.
From RaftModel Require Import Base Config Compaction Commitment Node NodeCodec Candidate Leader Replicate Cluster ClusterLog ClusterCommit.
From RaftProofs Require Import ConfigProofs VoteProofs ClusterProofs
  ClusterLogSpec ClusterLogChain ClusterLogNode ClusterLogVote ClusterLogInv ClusterLogSteps
  ClusterCommitSpec ClusterCommitChain ClusterCommitAE2 ClusterCommitNode ClusterCommitGhost.
Open Scope N_scope.

Section Inv.
  Variable cfg : config.
  Variable Ps : list params.

  Definition gof (g : cgstate) : gstate := lg_g (cg_l g).
  Definition topk (s : nstate) : N * N := (v_lastLogIdx s, v_lastLogTerm s).

  (* k0 is known to be committed by a server whose term is bound: it lies on the branch of a term
     T <= bound at or below an index that a majority accepted in term T *)
  Definition CK (C : chain) (LL : LLt) (A : At) (bound : N) (k0 : N * N) : Prop :=
    exists T q, T <= bound /\ QA cfg A q T /\ tchain C LL T k0 /\ fst k0 <= q.

  (* the last key a request vouches for *)
  Definition last_key_of (a : areq) : N * N :=
    match aq_entries a with [] => (aq_prevIdx a, aq_prevTerm a) | es => key (last_of es) end.

  Definition msg_inv (C : chain) (LL : LLt) (A : At) (m : amsg) : Prop :=
    let a := am_req m in
    (forall e, In e (aq_entries a) -> dec_ok cfg Ps e /\ tchain C LL (aq_term a) (key e)) /\
    ((aq_prevIdx a, aq_prevTerm a) = (0, 0) \/ created C (aq_prevIdx a, aq_prevTerm a)) /\
    (forall k0, anc C k0 (last_key_of a) -> 1 <= fst k0 -> fst k0 <= aq_commit a -> CK C LL A (aq_term a) k0).

  Definition ans_inv (g : cgstate) (A : At) (x : ares) : Prop :=
    exists m, nth_error (lg_msgs (cg_l g)) (rs_req x) = Some m /\
      (ar_success (rs_resp x) = true -> aq_entries (am_req m) <> [] ->
       e_term (last_of (aq_entries (am_req m))) = aq_term (am_req m) ->
       In (am_to m, key (last_of (aq_entries (am_req m)))) A).

  Definition lead_inv (g : cgstate) (C : chain) (LL : LLt) (A : At) (n : gnode) (s : nstate) : Prop :=
    exists tl ld, In (v_term s, gn_id n, tl) LL /\ find_lead (cg_lead g) (gn_id n) = Some ld /\
      (forall x p, In (x, p) C -> e_term x = v_term s -> anc C (key x) (topk s)) /\
      v_lastLogTerm s = v_term s /\
      ld_next0 ld = fst tl + 1 /\ cm_start (ld_cm ld) = ld_next0 ld /\
      (forall j v, cm_match (ld_cm ld) !! j = Some v -> v < ld_next0 ld \/ In (j, (v, v_term s)) A) /\
      ((forall j, cm_match (ld_cm ld) !! j = None) \/ (forall j, is_Some (cm_match (ld_cm ld) !! j) <-> In j (voters cfg))) /\
      (cm_commit (ld_cm ld) = 0 \/ (ld_next0 ld <= cm_commit (ld_cm ld) /\ QA cfg A (cm_commit (ld_cm ld)) (v_term s))) /\
      (v_commit s < ld_next0 ld \/ v_commit s <= cm_commit (ld_cm ld)) /\
      (ld_notified ld = true -> cm_commit (ld_cm ld) <> 0).

  Definition dtn (n : gnode) : N := d_term (image (gn_run n)).
  Definition logn (n : gnode) : gmap N entry := d_log (image (gn_run n)).

  Record cinv (g : cgstate) (C : chain) (LL : LLt) (A : At) (V : Vt) : Prop := {
    cv_l : linv [cfg] (cg_l g) C;
    cv_ci : chain_inv C LL;
    cv_vi : vote_inv cfg C LL A V;
    cv_ll : forall T c, In (T, c) (g_leaders (gof g)) <-> exists tl, In (T, c, tl) LL;
    cv_node : forall n, In n (cnodes g) -> cnode cfg Ps (gn_P n) (gn_run n);
    (* what a running server knows to be committed *)
    cv_kc : forall n s, In n (cnodes g) -> gn_run n = Up s ->
              v_commit s <= v_lastLogIdx s /\
              forall i e, d_log s !! i = Some e -> i <= v_commit s -> CK C LL A (d_term s) (key e);
    cv_lead : forall n s, In n (cnodes g) -> gn_run n = Up s -> v_role s = Leader -> lead_inv g C LL A n s;
    cv_msg : forall m, In m (lg_msgs (cg_l g)) -> msg_inv C LL A m;
    cv_ans : forall x, In x (cg_ans g) -> ans_inv g A x;
    (* acceptors *)
    cv_a1 : forall w k, In (w, k) A -> exists n, In n (cnodes g) /\ gn_id n = w /\ snd k <= dtn n;
    cv_av : forall w k n k0, In (w, k) A -> In n (cnodes g) -> gn_id n = w -> anc C k0 k -> 1 <= fst k0 ->
              holds (logn n) k0 \/
              exists T2 c2 tl2, In (T2, c2, tl2) LL /\ snd k < T2 /\ T2 <= dtn n /\ ~ anc C k0 tl2;
    (* votes *)
    cv_v1 : forall w T' c kw rq, In (w, T', c, kw, rq) V ->
              (exists n, In n (cnodes g) /\ gn_id n = w /\ T' <= dtn n) /\ (exists nc, In nc (cnodes g) /\ gn_id nc = c /\ T' <= dtn nc);
    cv_v2 : forall w T' c kw rq nc se, In (w, T', c, kw, rq) V -> In nc (cnodes g) -> gn_id nc = c ->
              gn_sess nc = Some se -> vq_term (se_req se) = T' -> rq = (vq_lastIdx (se_req se), vq_lastTerm (se_req se));
    cv_gv : forall w T' c, In (w, T', c) (g_grants (gof g)) ->
              (exists kw rq, In (w, T', c, kw, rq) V) \/ (exists c' tl', In (T', c', tl') LL);
    (* a vote that is in force was checked against the voter's last key, unless the term already has its leader *)
    cv_live : forall n T' c, In n (cnodes g) -> live (image (gn_run n)) = Some (T', c) ->
              (exists kw rq, In (gn_id n, T', c, kw, rq) V) \/ (exists c' tl', In (T', c', tl') LL);
    cv_se1 : forall n se, In n (cnodes g) -> gn_sess n = Some se -> 1 <= vq_term (se_req se);
    cv_se : forall n se, In n (cnodes g) -> gn_sess n = Some se ->
              exists s, gn_run n = Up s /\
                (last_entry s = (vq_lastIdx (se_req se), vq_lastTerm (se_req se)) \/
                 exists c' tl', In (vq_term (se_req se), c', tl') LL);
  }.
End Inv.
