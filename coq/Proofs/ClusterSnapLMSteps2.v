(* ClusterSnapLMSteps2.v — in the system with snapshot transfer: dispatchLogs at a leader, and every step of the
   replication system (lstep), keep the invariant of Proofs/ClusterSnapLMInv.v. *)
From Coq Require Import List NArith Bool Lia.
From stdpp Require Import gmap.
From RaftModel Require Import Base Config Compaction Commitment Node NodeCodec Candidate Leader Replicate Cluster ClusterLog ClusterCommit ClusterSnap.
From RaftProofs Require Import ConfigProofs VoteProofs AppendProofs ClusterProofs
  ClusterLogSpec ClusterLogChain ClusterLogNode ClusterLogVote ClusterLogAppend ClusterLogLeader ClusterLogInv ClusterLogSteps
  ClusterCommitChain ClusterCommitLog ClusterCommitInv ClusterCommitSnapLog ClusterCommitSnapStepL
  ClusterSnapLMSpec ClusterSnapLMLog ClusterSnapLMLeader
  ClusterSnapLMInv ClusterSnapLMInv2 ClusterSnapLMStepL ClusterSnapLMElect ClusterSnapLMSteps.
Open Scope N_scope.

Section Steps.
  Variable cfgs : list config.
  Hypothesis HQ : quorums_intersect cfgs.

  (* dispatchLogs of one entry at leader i *)
  Lemma propose_ylinv sn B g sm C i ty data fs g' :
    ylinv cfgs B g sm C -> lstep sn cfgs g (LPropose i ty data fs) = Some g' -> exists C', ylinv cfgs B g' sm C'.
  Proof.
    intros Hinv Hstep. unfold lstep in Hstep.
    destruct (find_node (g_nodes (lg_g g)) i) as [n|] eqn:Hfind; [|discriminate].
    destruct (find_node_in _ _ _ Hfind) as [Hin Hid].
    destruct (gn_run n) as [s|s] eqn:Hrun; [|discriminate].
    destruct (N.eqb_spec (v_role s) Leader) as [Hrole|]; [|discriminate].
    pose proof (dispatch_one (gn_P n) s fs ty data 0) as Hd. cbv zeta in Hd.
    pose proof (dispatch_one_sf (gn_P n) s fs ty data 0) as Hsf. cbv zeta in Hsf.
    pose proof (propose_ylinv_ok cfgs HQ B g sm C i n s ty data fs Hinv Hfind Hrun Hrole) as Hok. cbv zeta in Hok.
    destruct (dispatch (gn_P n) (leader_setup s) fs [(ty, data, 0)]) as [[[ls' res] tr] fs'].
    cbn [fst] in Hd, Hsf, Hok. set (s' := l_node ls') in *.
    inversion Hstep; subst g'. clear Hstep.
    destruct Hd as (Dd & Dv & Dsn & Dsi & Hcase). destruct Hsf as [Dst Dfl].
    destruct Hcase as [(_ & Hk & Hr')|(Hf & _)]; [|eexists; apply Hok, Hf].
    (* StoreLogs failed: nothing stored, the leader steps down *)
    assert (Dt : d_term s' = d_term s) by (unfold dproj in Dd; inversion Dd; reflexivity).
    exists C. apply (ylinv_volatile cfgs HQ B g sm C i n s s' Hinv Hfind Hrun Hrole Dd Dv Hk Dst).
    - rewrite Dfl. destruct (yl_nodes cfgs B g sm C Hinv n Hin) as (Hnl & _). rewrite Hrun in Hnl. apply (ys_fl _ _ _ _ _ _ _ _ Hnl).
    - right. exact Hr'.
  Qed.

  (* every step of the replication system *)
  Theorem lstep_ylinv B g sm C bl g' : ylinv cfgs B g sm C -> lstep true cfgs g bl = Some g' ->
    exists C' B', B <= B' /\ ylinv cfgs B' g' sm C'.
  Proof.
    intros Hinv Hstep. destruct bl as [gl|i ty data fs|i j next last|i j|k cut fs].
    - unfold lstep in Hstep. destruct (label_ok true gl) eqn:Hok; [|discriminate].
      destruct (gstep cfgs (lg_g g) gl) as [g1|] eqn:Hg; [|discriminate]. inversion Hstep; subst g'. clear Hstep.
      destruct gl as [i|i j cut fs|i j|j e cut fs].
      + destruct (timeout_ylinv cfgs HQ B g sm C i g1 Hinv Hg) as [C' H]. exists C', B. split; [lia|exact H].
      + exists C, B. split; [lia|]. eapply votereq_ylinv; eauto.
      + destruct (voteresp_ylinv cfgs HQ B g sm C i j g1 Hinv Hg) as [C' H]. exists C', B. split; [lia|exact H].
      + simpl in Hok. destruct e as [q|q|a|q| | | | |]; try discriminate.
        * exists C, B. split; [lia|]. eapply input_ylinv; eauto. exact I.
        * exists C, B. split; [lia|]. eapply input_ylinv; eauto. exact I.
        * exists C, B. split; [lia|]. eapply input_ylinv; eauto. exact I.
        * exists C, B. split; [lia|]. eapply input_ylinv; eauto. exact I.
        * destruct (snapshot_ylinv cfgs HQ B g sm C j cut fs g1 Hinv Hg) as (B' & HB & H). exists C, B'. auto.
    - destruct (propose_ylinv true B g sm C i ty data fs g' Hinv Hstep) as [C' H]. exists C', B. split; [lia|exact H].
    - exists C, B. split; [lia|]. eapply lsend_ylinv; eauto.
    - exists C, B. split; [lia|]. eapply lheartbeat_ylinv; eauto.
    - unfold lstep in Hstep. destruct (nth_error (lg_msgs g) k) as [m|] eqn:Hk; [|discriminate].
      destruct (gstep cfgs (lg_g g) (GInput (am_to m) (NAppend (am_req m)) cut fs)) as [g1|] eqn:Hg; [|discriminate].
      inversion Hstep; subst g'. clear Hstep. exists C, B. split; [lia|].
      eapply deliver_ylinv; eauto. eapply nth_error_In; eauto.
  Qed.
End Steps.
