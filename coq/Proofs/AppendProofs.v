(* AppendEntries handler (C04, handler level): for every follower state and every request. *)
From Coq Require Import List NArith Bool Lia.
From stdpp Require Import gmap.
From RaftModel Require Import Base Config Compaction Node.
Open Scope N_scope.

(* ---------------------------------------------------------------- store lemmas *)
Definition find_last (i : N) (es : list entry) : option entry :=
  List.find (fun e => e_idx e =? i) (rev es).

Lemma find_app_last {A} (P : A -> bool) l x :
  List.find P (l ++ [x]) = match List.find P l with Some y => Some y | None => if P x then Some x else None end.
Proof.
  induction l as [|y l IH]; simpl.
  - destruct (P x); reflexivity.
  - destruct (P y); [reflexivity|exact IH].
Qed.

Lemma log_store_lookup es : forall m i,
  log_store m es !! i = match find_last i es with Some e => Some e | None => m !! i end.
Proof.
  unfold log_store, find_last.
  induction es as [|a es IH]; intros m i; simpl; [reflexivity|].
  rewrite IH. rewrite find_app_last.
  destruct (List.find _ (rev es)) as [y|]; [reflexivity|].
  destruct (N.eqb_spec (e_idx a) i) as [E|Hne].
  - rewrite E, lookup_insert. reflexivity.
  - rewrite lookup_insert_ne by exact Hne. reflexivity.
Qed.

Lemma log_delete_lookup m lo hi i :
  log_delete m lo hi !! i = if (lo <=? i) && (i <=? hi) then None else m !! i.
Proof.
  unfold log_delete. destruct ((lo <=? i) && (i <=? hi)) eqn:E.
  - apply map_filter_lookup_None. right. intros x Hx. simpl. rewrite E. simpl. discriminate.
  - destruct (m !! i) as [x|] eqn:Hm.
    + apply map_filter_lookup_Some. split; [exact Hm|]. simpl. rewrite E. reflexivity.
    + apply map_filter_lookup_None. left. exact Hm.
Qed.

Lemma find_last_In i es e : find_last i es = Some e -> In e es /\ e_idx e = i.
Proof.
  unfold find_last. intros H. apply find_some in H. destruct H as [H1 H2].
  apply in_rev in H1. apply N.eqb_eq in H2. auto.
Qed.

Lemma find_last_None i es : find_last i es = None -> forall e, In e es -> e_idx e <> i.
Proof.
  unfold find_last. intros H e He. pose proof (find_none _ _ H e) as Hn.
  rewrite <- in_rev in Hn. specialize (Hn He). simpl in Hn. apply N.eqb_neq in Hn. exact Hn.
Qed.

(* ---------------------------------------------------------------- well-formed requests / states *)
(* entries carry consecutive indices starting after prev *)
Fixpoint contig (prev : N) (es : list entry) : Prop :=
  match es with
  | [] => True
  | e :: r => e_idx e = prev + 1 /\ contig (prev + 1) r
  end.

Lemma contig_idx prev es : contig prev es -> forall e, In e es -> prev < e_idx e.
Proof.
  revert prev. induction es as [|x r IH]; intros prev H e He; simpl in *; [contradiction|].
  destruct H as [H1 H2]. destruct He as [->|He]; [lia|]. specialize (IH _ H2 e He). lia.
Qed.

Lemma contig_unique prev es : contig prev es ->
  forall e1 e2, In e1 es -> In e2 es -> e_idx e1 = e_idx e2 -> e1 = e2.
Proof.
  revert prev. induction es as [|x r IH]; intros prev H e1 e2 H1 H2 Hi; simpl in *; [contradiction|].
  destruct H as [Hx Hr].
  destruct H1 as [->|H1], H2 as [->|H2]; auto.
  - pose proof (contig_idx _ _ Hr e2 H2). lia.
  - pose proof (contig_idx _ _ Hr e1 H1). lia.
  - eapply IH; eauto.
Qed.

Lemma contig_find_last prev es e : contig prev es -> In e es -> find_last (e_idx e) es = Some e.
Proof.
  intros Hc He. destruct (find_last (e_idx e) es) as [e'|] eqn:F.
  - apply find_last_In in F. destruct F as [F1 F2]. f_equal. eapply contig_unique; eauto.
  - exfalso. eapply find_last_None; eauto.
Qed.

(* the cached last-log index bounds the store *)
Definition cache_ok (s : nstate) : Prop := forall i, v_lastLogIdx s < i -> d_log s !! i = None.

(* the first request entry whose stored term differs (what the handler truncates from) *)
Fixpoint first_conflict (m : gmap N entry) (es : list entry) : option N :=
  match es with
  | [] => None
  | e :: r => match m !! e_idx e with
              | Some se => if e_term e =? e_term se then first_conflict m r else Some (e_idx e)
              | None => first_conflict m r
              end
  end.

(* ---------------------------------------------------------------- the scan *)
Lemma scan_spec m last : forall es prev,
  contig prev es -> (forall i, last < i -> m !! i = None) ->
  match scan_entries m last es with
  | ScanNone => first_conflict m es = None /\
                forall e, In e es -> exists se, m !! e_idx e = Some se /\ e_term se = e_term e
  | ScanMissing => True
  | ScanNew news => first_conflict m es = None /\
                    exists dup, es = dup ++ news /\ news <> [] /\
                    (forall e, In e dup -> exists se, m !! e_idx e = Some se /\ e_term se = e_term e) /\
                    (forall e, In e news -> last < e_idx e)
  | ScanConflict c news => first_conflict m es = Some c /\
                    exists dup, es = dup ++ news /\ news <> [] /\ c = e_idx (hd (mkE 0 0 0 0) news) /\ c <= last /\
                    (forall e, In e dup -> exists se, m !! e_idx e = Some se /\ e_term se = e_term e)
  end.
Proof.
  induction es as [|e r IH]; intros prev Hc Hb; simpl.
  - split; [reflexivity|]. intros e [].
  - destruct Hc as [He Hr].
    destruct (N.ltb_spec last (e_idx e)) as [Hlt|Hge].
    + (* everything from here on is new *)
      split.
      * assert (G : forall l p, contig p l -> last <= p -> first_conflict m l = None).
        { induction l as [|x l IHl]; intros p Hp Hlp; simpl; [reflexivity|].
          destruct Hp as [Hx Hl]. rewrite (Hb (e_idx x)) by lia. apply (IHl (p + 1)); [exact Hl|lia]. }
        apply (G (e :: r) prev); [split; assumption|lia].
      * exists []. split; [reflexivity|]. split; [discriminate|]. split; [intros x []|].
        intros x [->|Hx]; [exact Hlt|]. pose proof (contig_idx _ _ Hr x Hx). lia.
    + destruct (m !! e_idx e) as [se|] eqn:Hm; [|exact I].
      destruct (N.eqb_spec (e_term e) (e_term se)) as [Ht|Ht].
      * specialize (IH (prev + 1) Hr Hb).
        destruct (scan_entries m last r) as [news|c news| |].
        -- destruct IH as (I1 & dup & I2 & I3 & I4 & I5). split; [exact I1|].
           exists (e :: dup). split; [simpl; f_equal; exact I2|]. split; [exact I3|]. split; [|exact I5].
           intros x [->|Hx]; [exists se; auto|apply I4; exact Hx].
        -- destruct IH as (I1 & dup & I2 & I3 & I4 & I5 & I6). split; [exact I1|].
           exists (e :: dup). split; [simpl; f_equal; exact I2|]. split; [exact I3|]. split; [exact I4|]. split; [exact I5|].
           intros x [->|Hx]; [exists se; auto|apply I6; exact Hx].
        -- exact I.
        -- destruct IH as (I1 & I2). split; [exact I1|].
           intros x [->|Hx]; [exists se; auto|apply I2; exact Hx].
      * split; [reflexivity|]. exists []. split; [reflexivity|]. split; [discriminate|].
        split; [reflexivity|]. split; [exact Hge|]. intros x [].
Qed.

Lemma contig_app prev a b : contig prev (a ++ b) ->
  contig prev a /\ contig (prev + N.of_nat (length a)) b /\
  (forall e, In e a -> e_idx e <= prev + N.of_nat (length a)).
Proof.
  revert prev. induction a as [|x a IH]; intros prev H; simpl in *.
  - rewrite N.add_0_r. split; [exact I|]. split; [exact H|]. intros e [].
  - destruct H as [Hx Hr]. destruct (IH _ Hr) as (I1 & I2 & I3).
    split; [split; assumption|]. split.
    + replace (prev + N.pos (Pos.of_succ_nat (length a))) with (prev + 1 + N.of_nat (length a)) by lia. exact I2.
    + intros e [->|He]; [lia|]. specialize (I3 e He). lia.
Qed.

Lemma contig_app_lt prev a b : contig prev (a ++ b) ->
  forall e x, In e a -> In x b -> e_idx e < e_idx x.
Proof.
  intros H e x He Hx. destruct (contig_app _ _ _ H) as (_ & Hb & Ha).
  specialize (Ha e He). pose proof (contig_idx _ _ Hb x Hx). lia.
Qed.

(* ---------------------------------------------------------------- what the entries block does to the log *)
Record log_ok_fail (prev : N) (es : list entry) (m m' : gmap N entry) : Prop := {
  lf_below : forall i, i <= prev -> m' !! i = m !! i;
  lf_conflict : forall i x, m !! i = Some x -> m' !! i <> Some x ->
                exists c, first_conflict m es = Some c /\ c <= i;
}.
Record log_ok_success (prev : N) (es : list entry) (m m' : gmap N entry) : Prop := {
  ls_fail : log_ok_fail prev es m m';
  ls_match : forall e, In e es -> exists e', m' !! e_idx e = Some e' /\ e_term e' = e_term e /\
                                     (e' = e \/ m !! e_idx e = Some e');
}.

Lemma log_ok_fail_refl prev es m : log_ok_fail prev es m m.
Proof. split; [reflexivity|]. intros i x H1 H2. contradiction. Qed.

Lemma do_stage_log P s c : d_log (fst (do_stage P s c)) = d_log s /\ v_lastLogIdx (fst (do_stage P s c)) = v_lastLogIdx s.
Proof. unfold do_stage. destruct (p_track P); simpl; auto. Qed.

Lemma fold_config_log P es : forall s, d_log (fold_left (process_config_entry P) es s) = d_log s.
Proof.
  induction es as [|e r IH]; intros s; simpl; [reflexivity|]. rewrite IH.
  unfold process_config_entry. destruct (e_ty e =? LogConfiguration); reflexivity.
Qed.

Definition cont_log (prev : N) (es : list entry) (m : gmap N entry) (c : ae_cont) : Prop :=
  match c with
  | inl (Some (s8, _, _)) => log_ok_success prev es m (d_log s8)
  | inl None => True
  | inr (_, s', _, _) => log_ok_fail prev es m (d_log s')
  end.

(* store_new on a log m1 obtained from m, for the part `news` of the request es = dup ++ news *)
Lemma store_new_log P fr lc s3 tr3 fs3 prev dup news m :
  contig prev (dup ++ news) ->
  (forall e, In e dup -> exists se, d_log s3 !! e_idx e = Some se /\ m !! e_idx e = Some se /\ e_term se = e_term e) ->
  (forall e, In e news -> d_log s3 !! e_idx e = None \/ True) ->
  log_ok_fail prev (dup ++ news) m (d_log s3) ->
  (* entries of m that news would overwrite are justified *)
  (forall i x y, m !! i = Some x -> In y news -> e_idx y = i -> y <> x ->
                 exists c, first_conflict m (dup ++ news) = Some c /\ c <= i) ->
  cont_log prev (dup ++ news) m (store_new P fr lc s3 tr3 fs3 news).
Proof.
  intros Hc Hdup _ Hf Hover. unfold store_new.
  pose proof (do_stage_log P s3 (N.min lc (e_idx (last_of news)))) as [S1 _].
  destruct (do_stage P s3 _) as [s4 trs]. simpl in S1.
  unfold do_store. destruct (next_fail fs3) as [f fs5]. destruct f; simpl.
  - rewrite S1. exact Hf.
  - rewrite fold_config_log. simpl. rewrite S1.
    destruct (contig_app _ _ _ Hc) as (_ & Hcn & _).
    split.
    + split.
      * intros i Hi. rewrite log_store_lookup.
        destruct (find_last i news) as [y|] eqn:F; [|apply Hf; exact Hi].
        apply find_last_In in F. destruct F as [F1 F2].
        assert (In y (dup ++ news)) by (apply in_app_iff; auto).
        pose proof (contig_idx _ _ Hc y H). lia.
      * intros i x Hm Hne. rewrite log_store_lookup in Hne.
        destruct (find_last i news) as [y|] eqn:F.
        -- apply find_last_In in F. destruct F as [F1 F2].
           apply (Hover i x y Hm F1 F2). intros E. subst y. apply Hne. reflexivity.
        -- apply (lf_conflict _ _ _ _ Hf i x Hm Hne).
    + intros e He. apply in_app_iff in He. destruct He as [He|He].
      * destruct (Hdup e He) as (se & H1 & H2 & H3). exists se.
        rewrite log_store_lookup.
        destruct (find_last (e_idx e) news) as [y|] eqn:F.
        -- apply find_last_In in F. destruct F as [F1 F2].
           pose proof (contig_app_lt _ _ _ Hc e y He F1). lia.
        -- auto.
      * exists e. rewrite log_store_lookup, (contig_find_last _ _ _ Hcn He). auto.
Qed.

Lemma ae_entries_log P fr s2 tr1 fs1 a :
  cache_ok s2 -> contig (aq_prevIdx a) (aq_entries a) ->
  cont_log (aq_prevIdx a) (aq_entries a) (d_log s2) (ae_entries P fr s2 tr1 fs1 a).
Proof.
  intros Hcache Hc. unfold ae_entries.
  destruct (aq_entries a) as [|e0 es0] eqn:Ees.
  { simpl. split; [apply log_ok_fail_refl|]. intros e []. }
  rewrite <- Ees in *. clear Ees e0 es0.
  pose proof (scan_spec (d_log s2) (v_lastLogIdx s2) (aq_entries a) (aq_prevIdx a) Hc Hcache) as Hs.
  destruct (aq_entries a) as [|e0 es0] eqn:Ees; [simpl; split; [apply log_ok_fail_refl|intros e []]|].
  rewrite <- Ees in *.
  destruct (scan_entries (d_log s2) (v_lastLogIdx s2) (aq_entries a)) as [news|c news| |].
  - (* new entries beyond the log *)
    destruct Hs as (Hfc & dup & Hes & Hnn & Hdup & Hnew). rewrite Hes in *.
    apply store_new_log; auto.
    + intros e He. destruct (Hdup e He) as (se & H1 & H2). exists se. auto.
    + apply log_ok_fail_refl.
    + intros i x y Hm Hy Hi _. specialize (Hnew y Hy). rewrite (Hcache i) in Hm by lia. discriminate.
  - (* conflict at c: truncate, then store *)
    destruct Hs as (Hfc & dup & Hes & Hnn & Hc0 & Hcl & Hdup). rewrite Hes in *.
    unfold do_delete. destruct (next_fail fs1) as [f fs3]. destruct f; simpl.
    + apply log_ok_fail_refl.
    + assert (Hcidx : forall y, In y news -> c <= e_idx y).
      { destruct news as [|n0 nr]; [congruence|]. simpl in Hc0.
        destruct (contig_app _ _ _ Hc) as (_ & Hcn & _). simpl in Hcn. destruct Hcn as [Hn0 Hnr].
        intros y [->|Hy]; [lia|]. pose proof (contig_idx _ _ Hnr y Hy). lia. }
      assert (Hdupidx : forall e, In e dup -> e_idx e < c).
      { intros e He. destruct news as [|n0 nr]; [congruence|]. simpl in Hc0. subst c.
        apply (contig_app_lt _ _ _ Hc e n0 He). left. reflexivity. }
      assert (Hprev : aq_prevIdx a < c).
      { destruct news as [|n0 nr]; [congruence|]. simpl in Hc0. subst c.
        apply (contig_idx _ _ Hc). apply in_app_iff. right. left. reflexivity. }
      destruct (conflict_pred a news) as [pi pt].
      match goal with |- cont_log _ _ _ (store_new _ _ _ ?S3 _ _ _) =>
        assert (Hd3 : d_log S3 = log_delete (d_log s2) c (v_lastLogIdx s2)) by (destruct (c <=? v_latestIdx _); reflexivity)
      end.
      apply store_new_log; auto.
      * intros e He. destruct (Hdup e He) as (se & H1 & H2). exists se.
        rewrite Hd3, log_delete_lookup. specialize (Hdupidx e He).
        destruct (N.leb_spec c (e_idx e)); [lia|]. simpl. auto.
      * rewrite Hd3. split.
        -- intros i Hi. rewrite log_delete_lookup. destruct (N.leb_spec c i); [lia|]. reflexivity.
        -- intros i x Hm Hne. rewrite log_delete_lookup in Hne.
           destruct ((c <=? i) && (i <=? v_lastLogIdx s2)) eqn:E; [|contradiction].
           apply andb_true_iff in E. destruct E as [E1 _]. apply N.leb_le in E1. exists c. auto.
      * intros i x y Hm Hy Hi _. exists c. split; [exact Hfc|]. specialize (Hcidx y Hy). lia.
  - simpl. apply log_ok_fail_refl.
  - simpl. split; [apply log_ok_fail_refl|].
    destruct Hs as (_ & Hs). intros e He. destruct (Hs e He) as (se & H1 & H2).
    exists se. auto.
Qed.

(* ---------------------------------------------------------------- the whole handler *)
Lemma process_logs_log s idx s' tr : process_logs s idx = Some (s', tr) -> d_log s' = d_log s.
Proof.
  unfold process_logs. destruct (idx <=? v_applied s).
  - intros H; inversion H; reflexivity.
  - destruct (collect_logs _ _ _); [|discriminate]. intros H; inversion H; reflexivity.
Qed.

Lemma ae_commit_log okr s8 tr8 fs8 a s' r tr fs' :
  ae_commit okr s8 tr8 fs8 a = Done s' r tr fs' -> d_log s' = d_log s8 /\ r = okr.
Proof.
  unfold ae_commit. destruct ((0 <? aq_commit a) && (v_commit s8 <? aq_commit a)).
  - cbv zeta. destruct (v_commit s8 <? _); [|intros H; inversion H; subst; auto].
    match goal with |- context [process_logs ?S ?I] => destruct (process_logs S I) as [[s11 tra]|] eqn:EP end; [|discriminate].
    intros H; inversion H; subst. apply process_logs_log in EP. rewrite EP.
    split; [destruct (v_latestIdx _ <=? _); reflexivity|reflexivity].
  - intros H; inversion H; subst. auto.
Qed.

Theorem ae_body_log P s0 s2 rt tr1 fs1 a s' r tr fs' :
  cache_ok s2 -> contig (aq_prevIdx a) (aq_entries a) ->
  ae_body P s0 s2 rt tr1 fs1 a = Done s' r tr fs' ->
  log_ok_fail (aq_prevIdx a) (aq_entries a) (d_log s2) (d_log s') /\
  (ar_success r = true -> log_ok_success (aq_prevIdx a) (aq_entries a) (d_log s2) (d_log s') /\ prev_check s2 a = Some true).
Proof.
  intros Hcache Hc. unfold ae_body.
  destruct (prev_check s2 a) as [[|]|] eqn:Epc.
  - pose proof (ae_entries_log P (mkAResp rt (last_index s0) false false false) s2 tr1 fs1 a Hcache Hc) as Hl.
    destruct (ae_entries P _ s2 tr1 fs1 a) as [[[[s8 tr8] fs8]|]|[[[resp s''] tr''] fs'']] eqn:Eae; simpl in Hl.
    + intros H. apply ae_commit_log in H. destruct H as [H1 H2]. rewrite H1.
      split; [apply Hl|]. intros _. split; [exact Hl|reflexivity].
    + discriminate.
    + intros H; inversion H; subst. split; [exact Hl|].
      (* an early answer from the entries block is never a success *)
      unfold ae_entries in Eae. intros Hsucc.
      assert (Hr : ar_success r = false).
      { destruct (aq_entries a); [discriminate|].
        destruct (scan_entries _ _ _) as [news|c news| |]; try discriminate.
        - unfold store_new in Eae. destruct (do_stage _ _ _). destruct (do_store _ _ _ _) as [[? ok] ?].
          destruct ok; simpl in Eae; inversion Eae; reflexivity.
        - destruct (do_delete _ _ _ _) as [[? ok] ?]. destruct ok; simpl in Eae.
          + destruct (conflict_pred _ _) as [pi pt].
            unfold store_new in Eae. destruct (do_stage _ _ _). destruct (do_store _ _ _ _) as [[? ok] ?].
            destruct ok; simpl in Eae; inversion Eae; reflexivity.
          + inversion Eae; reflexivity.
        - inversion Eae; reflexivity. }
      congruence.
  - intros H; inversion H; subst. split; [apply log_ok_fail_refl|]. simpl. discriminate.
  - intros H; inversion H; subst. split; [apply log_ok_fail_refl|]. simpl. discriminate.
Qed.

(* For every follower state whose cached last index bounds its store, and every request with
   consecutive entry indices: *)
Theorem append_entries_log P s fs a s' r tr fs' :
  cache_ok s -> contig (aq_prevIdx a) (aq_entries a) ->
  append_entries P s fs a = Done s' r tr fs' ->
  log_ok_fail (aq_prevIdx a) (aq_entries a) (d_log s) (d_log s') /\
  (ar_success r = true -> log_ok_success (aq_prevIdx a) (aq_entries a) (d_log s) (d_log s')).
Proof.
  intros Hcache Hc. unfold append_entries.
  destruct (aq_term a <? v_term s).
  { intros H; inversion H; subst. split; [apply log_ok_fail_refl|]. simpl. discriminate. }
  match goal with |- context [if ?B then _ else Some (s, fs, [])] => destruct B end.
  - destruct (do_set_term (set_state s Follower) fs (aq_term a)) as [[s1 fs1]|] eqn:E; [|discriminate].
    unfold do_set_term in E. destruct (next_fail fs) as [f fs2]. destruct f; [discriminate|].
    inversion E; subst. intros H.
    apply ae_body_log in H; auto. destruct H as [H1 H2]. split; [exact H1|]. intros Hs. apply H2. exact Hs.
  - intros H. apply ae_body_log in H; auto. destruct H as [H1 H2]. split; [exact H1|]. intros Hs. apply H2. exact Hs.
Qed.

(* success also means the previous entry matched: the leader's (prevIdx, prevTerm) is the
   follower's cached tail, its snapshot boundary, or an entry of its log *)
Theorem append_success_prev P s fs a s' r tr fs' :
  append_entries P s fs a = Done s' r tr fs' -> ar_success r = true -> 0 < aq_prevIdx a ->
  (aq_prevIdx a = fst (last_entry s) /\ aq_prevTerm a = snd (last_entry s)) \/
  (aq_prevIdx a = v_lastSnapIdx s /\ aq_prevTerm a = v_lastSnapTerm s) \/
  (exists pe, d_log s !! aq_prevIdx a = Some pe /\ e_term pe = aq_prevTerm a).
Proof.
  unfold append_entries. destruct (aq_term a <? v_term s).
  { intros H; inversion H; subst. simpl. discriminate. }
  assert (G : forall s1 s2 rt tr1 fs1, d_log s2 = d_log s -> last_entry s2 = last_entry s ->
     v_lastSnapIdx s2 = v_lastSnapIdx s -> v_lastSnapTerm s2 = v_lastSnapTerm s ->
     ae_body P s1 s2 rt tr1 fs1 a = Done s' r tr fs' -> ar_success r = true -> 0 < aq_prevIdx a ->
     (aq_prevIdx a = fst (last_entry s) /\ aq_prevTerm a = snd (last_entry s)) \/
     (aq_prevIdx a = v_lastSnapIdx s /\ aq_prevTerm a = v_lastSnapTerm s) \/
     (exists pe, d_log s !! aq_prevIdx a = Some pe /\ e_term pe = aq_prevTerm a)).
  { intros s1 s2 rt tr1 fs1 Hl Hle Hsi Hst Hb Hs Hp. unfold ae_body in Hb.
    destruct (prev_check s2 a) as [[|]|] eqn:Epc; try (inversion Hb; subst; simpl in Hs; discriminate).
    unfold prev_check in Epc. destruct (N.ltb_spec 0 (aq_prevIdx a)); [|lia].
    rewrite Hle, Hl, Hsi, Hst in Epc. destruct (last_entry s) as [li lt]. simpl.
    destruct (N.eqb_spec (aq_prevIdx a) li).
    - inversion Epc as [E]. apply N.eqb_eq in E. left. auto.
    - destruct (N.eqb_spec (aq_prevIdx a) (v_lastSnapIdx s)).
      + inversion Epc as [E]. apply N.eqb_eq in E. right. left. auto.
      + destruct (d_log s !! aq_prevIdx a) as [pe|]; [|discriminate]. inversion Epc as [E].
        apply N.eqb_eq in E. right. right. exists pe. auto. }
  match goal with |- context [if ?B then _ else Some (s, fs, [])] => destruct B end.
  - destruct (do_set_term (set_state s Follower) fs (aq_term a)) as [[s1 fs1]|] eqn:E; [|discriminate].
    unfold do_set_term in E. destruct (next_fail fs) as [f fs2]. destruct f; [discriminate|].
    inversion E; subst. apply G; reflexivity.
  - apply G; reflexivity.
Qed.
