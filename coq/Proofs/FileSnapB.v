(* FileSnapB.v — the file system: how one op acts on the directories, candidates, dirtiness,
   last_sync, and what the crash does to non-temporary directories. *)
From Coq Require Import List Arith NArith Bool Lia Permutation.
From RaftModel Require Import FileSnap FileSnapSpec.
From RaftProofs Require Import FileSnapA.
Import ListNotations.
Open Scope N_scope.

(* ---------------------------------------------------------------- lists *)
Lemma fs_run_app : forall a b f, fs_run f (a ++ b) = fs_run (fs_run f a) b.
Proof. intros. unfold fs_run. apply fold_left_app. Qed.

Lemma fs_run_snoc : forall a o f, fs_run f (a ++ [o]) = fs_apply (fs_run f a) o.
Proof. intros. rewrite fs_run_app. reflexivity. Qed.

Lemma in_firstn : forall (A : Type) n (l : list A) x, In x (firstn n l) -> In x l.
Proof.
  intros A n l x H. rewrite <- (firstn_skipn n l). apply in_or_app. left; exact H.
Qed.

Lemma in_firstn_le : forall (A : Type) j k (l : list A) x, (j <= k)%nat ->
  In x (firstn j l) -> In x (firstn k l).
Proof.
  intros A j k l x Hle H.
  replace (firstn j l) with (firstn j (firstn k l)) in H.
  - eapply in_firstn; eauto.
  - rewrite firstn_firstn. f_equal. lia.
Qed.

Lemma firstn_concat : forall (A : Type) (segs : list (list A)) j,
  firstn j (concat segs) = concat segs \/
  exists pre seg post j', segs = pre ++ seg :: post /\ firstn j (concat segs) = concat pre ++ firstn j' seg.
Proof.
  induction segs as [|seg r IH]; intros j; simpl.
  - left. destruct j; reflexivity.
  - rewrite firstn_app. destruct (le_lt_dec j (length seg)) as [Hle|Hgt].
    + right. exists [], seg, r, j. split; [reflexivity|]. simpl.
      replace (j - length seg)%nat with 0%nat by lia. simpl. apply app_nil_r.
    + rewrite (firstn_all2 seg) by lia.
      destruct (IH (j - length seg)%nat) as [E|[pre [s [post [j' [E1 E2]]]]]].
      * left. rewrite E. reflexivity.
      * right. exists (seg :: pre), s, post, j'. split; [rewrite E1; reflexivity|].
        rewrite E2. simpl. rewrite app_assoc. reflexivity.
Qed.

(* ---------------------------------------------------------------- one op, directory by directory *)
Definition op_sid (o : fsop) : option N :=
  match o with
  | FSyncParent => None
  | FMkdir s | FCreateMeta s | FWriteMeta s _ | FSyncMeta s | FCreateState s | FWriteState s _
  | FSyncState s | FRename s | FUnlinkMeta s | FUnlinkState s | FRmdir s => Some s
  end.

(* ops that rewrite the directory they name in place *)
Definition is_upd (o : fsop) : bool :=
  match o with FMkdir _ | FSyncParent | FRmdir _ => false | _ => true end.

Definition dstep (o : fsop) (d : dir) : dir :=
  match o with
  | FCreateMeta _ => mkDir (d_sid d) (d_tmp d)
      (Some (mkMF MEmpty (match d_meta d with Some x => mf_synced x | None => MEmpty end) true)) (d_state d)
  | FWriteMeta _ m => mkDir (d_sid d) (d_tmp d)
      (match d_meta d with Some x => Some (mkMF (MFull m) (mf_synced x) true) | None => None end) (d_state d)
  | FSyncMeta _ => mkDir (d_sid d) (d_tmp d)
      (match d_meta d with Some x => Some (mkMF (mf_c x) (mf_c x) false) | None => None end) (d_state d)
  | FCreateState _ => mkDir (d_sid d) (d_tmp d) (d_meta d)
      (Some (mkSF [] (match d_state d with Some x => sf_synced x | None => [] end) true))
  | FWriteState _ bytes => mkDir (d_sid d) (d_tmp d) (d_meta d)
      (match d_state d with Some x => Some (mkSF (sf_c x ++ bytes) (sf_synced x) true) | None => None end)
  | FSyncState _ => mkDir (d_sid d) (d_tmp d) (d_meta d)
      (match d_state d with Some x => Some (mkSF (sf_c x) (sf_c x) false) | None => None end)
  | FRename _ => mkDir (d_sid d) false (d_meta d) (d_state d)
  | FUnlinkMeta _ => mkDir (d_sid d) (d_tmp d) None (d_state d)
  | FUnlinkState _ => mkDir (d_sid d) (d_tmp d) (d_meta d) None
  | _ => d
  end.

Lemma apply_upd : forall f o sid, is_upd o = true -> op_sid o = Some sid ->
  fs_apply f o = upd f sid (dstep o).
Proof.
  intros f o sid Hu Hs. destruct o; simpl in *; try discriminate; inversion Hs; subst; reflexivity.
Qed.

Lemma dstep_sid : forall o d, d_sid (dstep o d) = d_sid d.
Proof. intros [] d; reflexivity. Qed.

Lemma dstep_tmp : forall o d, (forall s, o <> FRename s) -> d_tmp (dstep o d) = d_tmp d.
Proof. intros [] d H; try reflexivity. exfalso. eapply H; reflexivity. Qed.

Lemma upd_in : forall f sid g d', In d' (upd f sid g) <->
  exists d, In d f /\ d' = if d_sid d =? sid then g d else d.
Proof.
  intros. unfold upd. rewrite in_map_iff. split; intros [d [H1 H2]]; exists d; split; auto.
Qed.

Lemma upd_sids : forall f sid g, (forall d, d_sid (g d) = d_sid d) ->
  map d_sid (upd f sid g) = map d_sid f.
Proof.
  intros f sid g Hg. unfold upd. rewrite map_map. apply map_ext.
  intros d. destruct (d_sid d =? sid); auto.
Qed.

Lemma is_upd_sid : forall o, is_upd o = true -> exists s, op_sid o = Some s.
Proof. intros [] H; simpl in *; try discriminate; eauto. Qed.

Lemma apply_in_inv : forall f o d', (forall s, o <> FMkdir s) -> In d' (fs_apply f o) ->
  exists d, In d f /\ ((d' = d /\ op_sid o <> Some (d_sid d)) \/
                       (op_sid o = Some (d_sid d) /\ is_upd o = true /\ d' = dstep o d)).
Proof.
  intros f o d' Hm Hin. destruct (is_upd o) eqn:Hu.
  - destruct (is_upd_sid o Hu) as [s Hs]. rewrite (apply_upd f o s Hu Hs) in Hin.
    apply upd_in in Hin. destruct Hin as [d [Hd E]]. exists d. split; [exact Hd|].
    destruct (N.eqb_spec (d_sid d) s) as [Es|Es].
    + right. subst s. auto.
    + left. split; [exact E|]. rewrite Hs. congruence.
  - destruct o; simpl in Hu; try discriminate.
    + exfalso. eapply Hm; reflexivity.
    + exists d'. simpl in *. split; [exact Hin|]. left. split; [reflexivity|discriminate].
    + simpl in Hin. apply filter_In in Hin. destruct Hin as [Hin Hne]. exists d'. split; [exact Hin|].
      left. split; [reflexivity|]. simpl. intro E. inversion E; subst.
      rewrite N.eqb_refl in Hne. discriminate.
Qed.

Lemma apply_in_other : forall f o d, In d f -> op_sid o <> Some (d_sid d) -> In d (fs_apply f o).
Proof.
  intros f o d Hin Hne. destruct (is_upd o) eqn:Hu.
  - destruct (is_upd_sid o Hu) as [s Hs]. rewrite (apply_upd f o s Hu Hs).
    apply upd_in. exists d. split; [exact Hin|].
    destruct (N.eqb_spec (d_sid d) s) as [Es|Es]; [|reflexivity].
    exfalso. apply Hne. rewrite Hs, Es. reflexivity.
  - destruct o; simpl in Hu; try discriminate; simpl.
    + apply in_or_app. left; exact Hin.
    + exact Hin.
    + apply filter_In. split; [exact Hin|]. simpl in Hne.
      destruct (N.eqb_spec (d_sid d) sid) as [Es|Es]; [|reflexivity].
      exfalso. apply Hne. rewrite Es. reflexivity.
Qed.

Lemma apply_in_same : forall f o d, In d f -> op_sid o = Some (d_sid d) -> is_upd o = true ->
  In (dstep o d) (fs_apply f o).
Proof.
  intros f o d Hin Hs Hu. rewrite (apply_upd f o _ Hu Hs). apply upd_in.
  exists d. split; [exact Hin|]. rewrite N.eqb_refl. reflexivity.
Qed.

Lemma nodup_map_filter : forall (A B : Type) (g : A -> B) p (l : list A),
  NoDup (map g l) -> NoDup (map g (filter p l)).
Proof.
  induction l as [|a l IH]; simpl; intros H; [constructor|].
  inversion H as [|? ? Hn Hnd]; subst. destruct (p a); simpl; [|auto].
  constructor; [|auto]. intro Hi. apply Hn.
  apply in_map_iff in Hi. destruct Hi as [x [E Hx]]. apply filter_In in Hx.
  apply in_map_iff. exists x. tauto.
Qed.

Lemma apply_nodup : forall f o, (forall s, o <> FMkdir s) ->
  NoDup (map d_sid f) -> NoDup (map d_sid (fs_apply f o)).
Proof.
  intros f o Hm H. destruct (is_upd o) eqn:Hu.
  - destruct (is_upd_sid o Hu) as [s Hs]. rewrite (apply_upd f o s Hu Hs).
    rewrite upd_sids; [exact H|]. apply dstep_sid.
  - destruct o; simpl in Hu; try discriminate; simpl.
    + exfalso. eapply Hm; reflexivity.
    + exact H.
    + apply nodup_map_filter. exact H.
Qed.

(* ---------------------------------------------------------------- candidates *)
Lemma cand_iff : forall f s m, In (s, m) (candidates f) <->
  exists d, In d f /\ d_sid d = s /\ eligible d = Some m.
Proof.
  intros. unfold candidates. rewrite in_flat_map. split.
  - intros [d [Hd Hin]]. exists d. destruct (eligible d) as [m'|]; simpl in Hin; [|contradiction].
    destruct Hin as [E|[]]. inversion E; subst. auto.
  - intros [d [Hd [Hs He]]]. exists d. split; [exact Hd|]. rewrite He, Hs. left; reflexivity.
Qed.

Lemma cand_sid_in : forall f s, In s (map fst (candidates f)) -> In s (map d_sid f).
Proof.
  intros f s H. apply in_map_iff in H. destruct H as [[s' m] [E H]]. simpl in E; subst s'.
  apply cand_iff in H. destruct H as [d [Hd [Hs _]]]. apply in_map_iff. exists d; auto.
Qed.

Lemma cand_nodup : forall f, NoDup (map d_sid f) -> NoDup (map fst (candidates f)).
Proof.
  induction f as [|d f IH]; simpl; intros H; [constructor|].
  inversion H as [|? ? Hn Hnd]; subst. rewrite map_app.
  destruct (eligible d) as [m|]; simpl; [|auto].
  constructor; [|auto]. intro Hi. apply Hn. apply cand_sid_in. exact Hi.
Qed.

Lemma eligible_nontmp : forall d m, eligible d = Some m -> d_tmp d = false.
Proof. intros d m H. unfold eligible in H. destruct (d_tmp d); [discriminate|reflexivity]. Qed.

Definition is_rm (o : fsop) : bool :=
  match o with FUnlinkMeta _ | FUnlinkState _ | FRmdir _ => true | _ => false end.

Lemma eligible_rm : forall o d m, is_rm o = true -> eligible (dstep o d) = Some m -> eligible d = Some m.
Proof.
  intros o d m Hr H. destruct o; simpl in Hr; try discriminate; unfold eligible in *; simpl in *.
  - destruct (d_tmp d); discriminate.
  - exact H.
  - exact H.
Qed.

(* ---------------------------------------------------------------- dirtiness *)
Lemma dirty_app : forall a b sid st acc,
  dirty_after (a ++ b) sid st acc = dirty_after b sid st (dirty_after a sid st acc).
Proof. induction a as [|o a IH]; simpl; intros; [reflexivity|]. apply IH. Qed.

Lemma dirty_other : forall o sid st acc, op_sid o <> Some sid -> dirty_after [o] sid st acc = acc.
Proof.
  intros o sid st acc H. destruct o; simpl in *; try reflexivity;
    (destruct (N.eqb_spec sid0 sid) as [E|E]; [exfalso; apply H; rewrite E; reflexivity|reflexivity]).
Qed.

Lemma dirty_nowrite : forall o sid st acc, (is_rm o = true \/ (exists s, o = FRename s) \/ (exists s, o = FMkdir s) \/ o = FSyncParent) ->
  dirty_after [o] sid st acc = acc.
Proof.
  intros o sid st acc H. destruct o; simpl in *; try reflexivity;
    exfalso; destruct H as [H|[[s H]|[[s H]|H]]]; discriminate.
Qed.

(* ---------------------------------------------------------------- last_sync *)
Lemma last_sync_aux_ge : forall l pos best, (best <= pos)%nat -> (best <= last_sync_aux l pos best)%nat.
Proof.
  induction l as [|o l IH]; simpl; intros pos best H; [lia|].
  destruct (is_sync o).
  - specialize (IH (S pos) (S pos)). lia.
  - specialize (IH (S pos) best). lia.
Qed.

Lemma last_sync_aux_app : forall a b pos best,
  last_sync_aux (a ++ b) pos best = last_sync_aux b (pos + length a)%nat (last_sync_aux a pos best).
Proof.
  induction a as [|o a IH]; simpl; intros b pos best.
  - rewrite Nat.add_0_r. reflexivity.
  - rewrite IH. f_equal. lia.
Qed.

Lemma last_sync_ge : forall a o b, is_sync o = true -> (S (length a) <= last_sync (a ++ o :: b))%nat.
Proof.
  intros a o b Hs. unfold last_sync. rewrite last_sync_aux_app. simpl. rewrite Hs.
  apply last_sync_aux_ge. lia.
Qed.

(* ---------------------------------------------------------------- the crash leaves non-temporary directories alone *)
Definition junkify (opsk : list fsop) jm js (d : dir) : dir :=
  mkDir (d_sid d) (d_tmp d)
        (match d_meta d with
         | Some x => Some (if dirty_after opsk (d_sid d) false false
                           then mkMF (jm (d_sid d) (mf_c x) (mf_synced x)) (mf_synced x) true else x)
         | None => None end)
        (match d_state d with
         | Some y => Some (if dirty_after opsk (d_sid d) true false
                           then mkSF (js (d_sid d) (sf_c y) (sf_synced y)) (sf_synced y) true else y)
         | None => None end).

Lemma crash_tree_eq : forall ops k j jm js,
  crash_tree ops k j jm js = map (junkify (firstn k ops) jm js) (fs_run [] (firstn j ops)).
Proof. reflexivity. Qed.

Lemma junkify_clean : forall opsk jm js d,
  dirty_after opsk (d_sid d) false false = false -> dirty_after opsk (d_sid d) true false = false ->
  junkify opsk jm js d = d.
Proof.
  intros opsk jm js d H1 H2. unfold junkify. rewrite H1, H2.
  destruct d as [s t [x|] [y|]]; reflexivity.
Qed.

Section Junk.
  Variables (opsk : list fsop) (jm : N -> mcontent -> mcontent -> mcontent) (js : N -> list N -> list N -> list N).
  Variable f : fs.
  Hypothesis Hclean : forall d, In d f -> d_tmp d = false ->
    forall b, dirty_after opsk (d_sid d) b false = false.

  Lemma junk_candidates_aux : forall g, incl g f ->
    candidates (map (junkify opsk jm js) g) = candidates g.
  Proof.
    induction g as [|d g IH]; intros Hi; [reflexivity|].
    simpl. rewrite IH by (intros x Hx; apply Hi; right; exact Hx). f_equal.
    destruct (d_tmp d) eqn:Et.
    - unfold eligible. simpl. rewrite Et. reflexivity.
    - rewrite junkify_clean; [reflexivity| |]; apply Hclean; auto; apply Hi; left; reflexivity.
  Qed.

  Lemma junk_candidates : candidates (map (junkify opsk jm js) f) = candidates f.
  Proof. apply junk_candidates_aux. apply incl_refl. Qed.

  Lemma junk_final_aux : forall g sid, incl g f ->
    find_final (map (junkify opsk jm js) g) sid = find_final g sid.
  Proof.
    induction g as [|d g IH]; intros sid Hi; [reflexivity|].
    simpl. rewrite IH by (intros x Hx; apply Hi; right; exact Hx).
    destruct (d_tmp d) eqn:Et.
    - rewrite andb_false_r. reflexivity.
    - rewrite junkify_clean; [reflexivity| |]; apply Hclean; auto; apply Hi; left; reflexivity.
  Qed.

  Lemma junk_open : forall sid, open_snap (map (junkify opsk jm js) f) sid = open_snap f sid.
  Proof. intros sid. unfold open_snap. rewrite junk_final_aux by apply incl_refl. reflexivity. Qed.
End Junk.
