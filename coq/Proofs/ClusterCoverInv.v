(* ClusterCoverInv.v — C11 helpers: snapshot stores sorted by index (creation order = index order), what
   one step may do to a snapshot store, and "covered or stored" from the per-server invariant of
   Proofs/ClusterCommitSnapLog.v (zimgS: no hole above ALL stored snapshots) plus sortedness (the
   newest snapshot has the largest index). *)
From Coq Require Import List NArith Bool Lia.
From stdpp Require Import gmap.
From RaftModel Require Import Base Config Compaction Commitment Node NodeCodec Candidate Leader Replicate Cluster ClusterLog ClusterCommit.
From RaftProofs Require Import ClusterLogSpec ClusterLogChain ClusterLogNode ClusterCommitChain ClusterCommitInv
  ClusterCommitSpec ClusterCommitSnapSpec ClusterCommitSnapLog ClusterCommitSnapTake ClusterCommitSnapNode ClusterCoverSpec.
Open Scope N_scope.

Definition snaps_sorted (l : list snapshot) : Prop :=
  forall l1 a l2 b l3, l = l1 ++ a :: l2 ++ b :: l3 -> sn_idx a <= sn_idx b.

Lemma snaps_sorted_nil : snaps_sorted [].
Proof. intros l1 a l2 b l3 H. destruct l1; discriminate. Qed.

(* a snapshot whose index is not below any stored one is appended *)
Lemma snaps_sorted_snoc l x : snaps_sorted l -> (forall y, In y l -> sn_idx y <= sn_idx x) -> snaps_sorted (l ++ [x]).
Proof.
  intros Hs Hx l1 a l2 b l3 E.
  destruct l3 as [|c l3c].
  - (* b is the appended one *)
    replace (l1 ++ a :: l2 ++ [b]) with ((l1 ++ a :: l2) ++ [b]) in E by (rewrite <- app_assoc; reflexivity).
    apply app_inj_tail in E. destruct E as [El ->]. apply Hx. rewrite El. apply in_app_iff. right. left. reflexivity.
  - destruct (exists_last (l:=c :: l3c)) as (l3' & z & E3); [discriminate|]. rewrite E3 in E.
    replace (l1 ++ a :: l2 ++ b :: l3' ++ [z]) with ((l1 ++ a :: l2 ++ b :: l3') ++ [z]) in E.
    + apply app_inj_tail in E. destruct E as [El _]. apply (Hs l1 a l2 b l3' El).
    + rewrite <- app_assoc. simpl. rewrite <- app_assoc. reflexivity.
Qed.

(* in a sorted store the newest snapshot has the largest index *)
Lemma sorted_newest s sn : snaps_sorted (d_snaps s) -> In sn (d_snaps s) -> sn_idx sn <= newest_snap_idx s.
Proof.
  unfold newest_snap_idx. intros Hs Hin.
  destruct (d_snaps s) as [|c lc] eqn:Ed; [destruct Hin|].
  destruct (exists_last (l:=c :: lc)) as (l & z & E); [discriminate|].
  rewrite E, rev_app_distr. simpl. rewrite E in Hin. apply in_app_iff in Hin. destruct Hin as [Hin|[<-|[]]]; [|lia].
  apply in_split in Hin. destruct Hin as (l1 & l2 & ->). apply (Hs l1 sn l2 z []). rewrite E, <- app_assoc. reflexivity.
Qed.

(* what one step does to the snapshot store of a server whose run state was r *)
Definition snaps_step (r : nrun) (sns' : list snapshot) : Prop :=
  sns' = d_snaps (image r) \/ exists s, r = Up s /\ fst (v_fsmLast s) <> 0 /\ sns' = d_snaps s ++ [snap_of s].

Lemma snap_eff_step s m' sns' : snap_eff s m' sns' -> snaps_step (Up s) sns'.
Proof. intros [[_ ->]|(Hnz & -> & _)]; [left; reflexivity|right; exists s; auto]. Qed.

Section Node.
  Variable cfg : config.
  Variable Ps : list params.

  (* takeSnapshot appends a snapshot at the FSM index, which is not below the server's snapshot index,
     which is not below any stored snapshot *)
  Lemma sorted_snaps_step C P r sns' : chain_ok C -> znlog C r -> znode cfg Ps P r ->
    snaps_sorted (d_snaps (image r)) -> snaps_step r sns' -> snaps_sorted sns'.
  Proof.
    intros HC Hz Hn Hs [->|(s & -> & Hnz & ->)]; [exact Hs|]. simpl in *.
    destruct Hn as (_ & _ & Hup). apply snaps_sorted_snoc; [exact Hs|].
    intros y Hy. destruct (zs_sn _ _ _ _ _ _ Hz y Hy) as (_ & _ & _ & Ha).
    destruct (anc_le C _ _ HC Ha) as [Hle _]. simpl in Hle.
    destruct (zn_fs cfg Ps s Hup) as [E|H]; [contradiction|]. unfold snap_of. simpl. lia.
  Qed.
End Node.

(* no hole above all snapshots + the newest snapshot is the largest = covered or stored *)
Lemma zimg_covered C s : zimg C s -> snaps_sorted (d_snaps s) -> covered_or_stored s.
Proof.
  intros Hz Hs i Hi.
  destruct (N.le_gt_cases i (newest_snap_idx s)) as [Hle|Hgt]; [left; exact Hle|right].
  destruct (N.le_gt_cases i (log_last (d_log s))) as [Hl|Hl].
  - left. apply (zi_seg _ _ _ _ Hz i Hi); [|exact Hl].
    intros sn Hsn. pose proof (sorted_newest s sn Hs Hsn). lia.
  - right. intros j Hj. destruct (d_log s !! j) as [e|] eqn:E; [|reflexivity].
    pose proof (log_last_ge _ _ _ E). lia.
Qed.
