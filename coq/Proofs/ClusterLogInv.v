(* ClusterLogInv.v — the cluster-level invariant of the Log Matching proof and the one lemma that
   re-establishes it when a single server changes. *)
From Coq Require Import List NArith Bool Lia.
From stdpp Require Import gmap.
From RaftModel Require Import Base Config Compaction Commitment Node NodeCodec Candidate Leader Replicate Cluster ClusterLog.
From RaftProofs Require Import ConfigProofs VoteProofs ClusterProofs
  ClusterLogSpec ClusterLogChain ClusterLogNode ClusterLogVote.
Open Scope N_scope.

Definition dt (n : gnode) : N := d_term (image (gn_run n)).

(* at most one leader per term, read off the election invariant *)
Lemma leaders_fun cfgs g T i i' : quorums_intersect cfgs -> ginv cfgs g ->
  In (T, i) (g_leaders g) -> In (T, i') (g_leaders g) -> i = i'.
Proof.
  intros HQ Hinv H1 H2.
  destruct (gi_leaders cfgs g Hinv _ H1) as (c1 & W1 & Hc1 & (N1 & I1 & G1) & Q1).
  destruct (gi_leaders cfgs g Hinv _ H2) as (c2 & W2 & Hc2 & (N2 & I2 & G2) & Q2).
  simpl in *.
  assert (M1 : majority (voters c1) W1).
  { pose proof (quorum_size_majority c1) as Hm. cbv zeta in Hm.
    split; [exact N1|]. split; [exact I1|]. unfold voters in *. rewrite map_length in *. lia. }
  assert (M2 : majority (voters c2) W2).
  { pose proof (quorum_size_majority c2) as Hm. cbv zeta in Hm.
    split; [exact N2|]. split; [exact I2|]. unfold voters in *. rewrite map_length in *. lia. }
  destruct (HQ c1 c2 Hc1 Hc2 W1 W2 M1 M2) as (w & Hw1 & Hw2).
  specialize (G1 w Hw1). specialize (G2 w Hw2).
  destruct (gi_grant_ids cfgs g Hinv _ _ _ G1) as (n & Hn & Hnid).
  destruct (gi_nodes cfgs g Hinv n Hn) as [(_ & _ & Hfun) _]. rewrite Hnid in Hfun.
  apply (Hfun T i i'); apply Gof_in; assumption.
Qed.

(* a term nobody can become leader of any more *)
Definition dead_term (g : gstate) (T : N) : Prop :=
  forall n, In n (g_nodes g) -> T <= dt n /\ forall se, gn_sess n = Some se -> T < vq_term (se_req se).

(* where the entries of term T come from *)
Definition term_src (g : gstate) (T : N) : Prop := (exists id, In (T, id) (g_leaders g)) \/ dead_term g T.

(* a server in role Leader is recorded, is outside runCandidate, and every entry of its term that
   was ever created lies at or below its cached last index *)
Definition lead_ok (g : gstate) (C : chain) (n : gnode) : Prop :=
  forall s, gn_run n = Up s -> v_role s = Leader ->
    In (v_term s, gn_id n) (g_leaders g) /\ gn_sess n = None /\
    forall x p, In (x, p) C -> e_term x = v_term s -> e_idx x <= v_lastLogIdx s.

(* a recorded leadership (T, i) is in i's past *)
Definition leader_rec_ok (g : gstate) (T i : N) : Prop :=
  forall n, In n (g_nodes g) -> gn_id n = i ->
    T <= dt n /\ forall se, gn_sess n = Some se -> T < vq_term (se_req se).

Definition msg_ok (g : gstate) (C : chain) (m : amsg) : Prop :=
  am_from m <> am_to m /\ In (aq_term (am_req m), am_from m) (g_leaders g) /\
  mchain C (aq_prevIdx (am_req m), aq_prevTerm (am_req m)) (aq_entries (am_req m)) /\
  forall e, In e (aq_entries (am_req m)) -> e_term e <= aq_term (am_req m).

Record linv (cfgs : list config) (g : lgstate) (C : chain) : Prop := {
  li_g : ginv cfgs (lg_g g);
  li_chain : chain_ok C;
  li_nodes : forall n, In n (g_nodes (lg_g g)) -> nlog C (gn_run n) /\ lead_ok (lg_g g) C n;
  li_src : forall e p, In (e, p) C -> term_src (lg_g g) (e_term e);
  li_leaders : forall T i, In (T, i) (g_leaders (lg_g g)) -> leader_rec_ok (lg_g g) T i;
  li_msgs : forall m, In m (lg_msgs g) -> msg_ok (lg_g g) C m;
}.

Lemma msg_ok_mono g g' C C' m : incl (g_leaders g) (g_leaders g') -> incl C C' -> msg_ok g C m -> msg_ok g' C' m.
Proof.
  intros Hl Hc (A & B & D & E). split; [exact A|]. split; [apply Hl, B|]. split; [eapply mchain_mono; eauto|exact E].
Qed.

(* how runCandidate sessions may change at the touched server *)
Definition sess_step_ok (n n' : gnode) : Prop :=
  forall se', gn_sess n' = Some se' ->
    (exists se, gn_sess n = Some se /\ vq_term (se_req se') = vq_term (se_req se)) \/ dt n < vq_term (se_req se').

Lemma in_upd_node l i n n' : find_node l i = Some n -> gn_id n' = i -> In n' (upd_node l i n').
Proof.
  intros Hf Hid. destruct (find_node_in _ _ _ Hf) as [Hin Hidn]. unfold upd_node. apply in_map_iff.
  exists n. rewrite Hidn, N.eqb_refl. auto.
Qed.

Section Update.
  Variable cfgs : list config.
  Hypothesis HQ : quorums_intersect cfgs.

  Lemma linv_update g g' C C' j n n' :
    linv cfgs g C -> ginv cfgs (lg_g g') ->
    find_node (g_nodes (lg_g g)) j = Some n -> gn_id n' = j ->
    g_nodes (lg_g g') = upd_node (g_nodes (lg_g g)) j n' ->
    incl (g_leaders (lg_g g)) (g_leaders (lg_g g')) ->
    (forall T i, In (T, i) (g_leaders (lg_g g')) ->
       In (T, i) (g_leaders (lg_g g)) \/ (i = j /\ T <= dt n' /\ gn_sess n' = None)) ->
    incl C C' -> chain_ok C' ->
    (forall x p, In (x, p) C' -> In (x, p) C \/ In (e_term x, j) (g_leaders (lg_g g'))) ->
    dt n <= dt n' -> sess_step_ok n n' ->
    nlog C' (gn_run n') -> lead_ok (lg_g g') C' n' ->
    (forall m, In m (lg_msgs g') -> In m (lg_msgs g) \/ msg_ok (lg_g g') C' m) ->
    linv cfgs g' C'.
  Proof.
    intros [Hg HC Hnodes Hsrc Hlead Hmsgs] Hg' Hfind Hid' Hn' Hlinc Hlnew Hcinc HC' Hcnew Hdt Hsess Hnl' Hlo' Hm'.
    destruct (find_node_in _ _ _ Hfind) as [Hin Hidn].
    (* the nodes of g' *)
    assert (Hcases : forall x, In x (g_nodes (lg_g g')) -> x = n' \/ (In x (g_nodes (lg_g g)) /\ gn_id x <> j)).
    { intros x Hx. rewrite Hn' in Hx. destruct (upd_node_in _ _ _ _ Hx) as [[-> _]|H]; auto. }
    (* bounds known for n carry over to n' *)
    assert (Hcarry : forall T, (T <= dt n /\ forall se, gn_sess n = Some se -> T < vq_term (se_req se)) ->
              T <= dt n' /\ forall se, gn_sess n' = Some se -> T < vq_term (se_req se)).
    { intros T [A B]. split; [lia|]. intros se' Hse'. destruct (Hsess se' Hse') as [(se & Hse & E)|Hlt].
      - rewrite E. apply B, Hse.
      - lia. }
    constructor.
    - exact Hg'.
    - exact HC'.
    - intros x Hx. destruct (Hcases x Hx) as [->|[Hxo Hxid]]; [auto|].
      destruct (Hnodes x Hxo) as [A B]. split; [eapply nlog_mono; eauto|].
      intros s Hs Hr. destruct (B s Hs Hr) as (B1 & B2 & B3).
      split; [apply Hlinc, B1|]. split; [exact B2|].
      intros y p Hy Hty. destruct (Hcnew y p Hy) as [Hold|Hnew]; [apply (B3 y p Hold Hty)|].
      exfalso. apply Hxid. rewrite Hty in Hnew.
      apply (leaders_fun cfgs (lg_g g') (v_term s) (gn_id x) j HQ Hg'); [apply Hlinc, B1|exact Hnew].
    - intros e p He. destruct (Hcnew e p He) as [Hold|Hnew]; [|left; eauto].
      destruct (Hsrc e p Hold) as [(id & Hl)|Hd]; [left; exists id; apply Hlinc, Hl|right].
      intros x Hx. destruct (Hcases x Hx) as [->|[Hxo _]]; [apply Hcarry, Hd, Hin|apply Hd, Hxo].
    - intros T i Hl x Hx Hxi. destruct (Hlnew T i Hl) as [Hold|(-> & Ht & Hs)].
      + destruct (Hcases x Hx) as [->|[Hxo _]]; [|apply (Hlead T i Hold x Hxo Hxi)].
        apply Hcarry. apply (Hlead T i Hold n Hin). congruence.
      + destruct (Hcases x Hx) as [->|[_ Hne]]; [|contradiction].
        split; [exact Ht|]. intros se Hse. congruence.
    - intros m Hm. destruct (Hm' m Hm) as [Hold|Hnew]; [|exact Hnew].
      eapply msg_ok_mono; [exact Hlinc|exact Hcinc|apply Hmsgs, Hold].
  Qed.

  (* a handler ran at j: the ghost history, the leaders and the requests in flight are unchanged *)
  Lemma linv_handler g C g' j n r' :
    linv cfgs g C -> ginv cfgs g' ->
    find_node (g_nodes (lg_g g)) j = Some n ->
    g_nodes g' = upd_node (g_nodes (lg_g g)) j (mkGN (gn_P n) r' (keep_sess r' (gn_sess n)) (gn_next n)) ->
    g_leaders g' = g_leaders (lg_g g) ->
    step_post C (gn_run n) r' -> d_term (image (gn_run n)) <= d_term (image r') ->
    linv cfgs (mkLG g' (lg_msgs g)) C.
  Proof.
    intros Hinv Hg' Hfind Hn' Hl' [Hnl Hrole] Hdt.
    destruct (find_node_in _ _ _ Hfind) as [Hin Hidn].
    apply (linv_update g (mkLG g' (lg_msgs g)) C C j n (mkGN (gn_P n) r' (keep_sess r' (gn_sess n)) (gn_next n)) Hinv Hg' Hfind Hidn Hn').
    - simpl. rewrite Hl'. apply incl_refl.
    - simpl. rewrite Hl'. intros T i H. left. exact H.
    - apply incl_refl.
    - apply (li_chain cfgs g C Hinv).
    - intros x p H. left. exact H.
    - exact Hdt.
    - intros se' Hse'. left. simpl in Hse'. unfold keep_sess in Hse'.
      destruct r' as [s'|s']; [|discriminate]. destruct (gn_sess n) as [se|]; [|discriminate].
      destruct (v_role s' =? Candidate); [|discriminate]. inversion Hse'; subst. eauto.
    - exact Hnl.
    - intros s' Hs' Hr. simpl in Hs'. destruct (Hrole s' Hs' Hr) as (s & Hs & Hrs & Hts & His).
      destruct (li_nodes cfgs g C Hinv n Hin) as [_ Hlo]. destruct (Hlo s Hs Hrs) as (L1 & L2 & L3).
      simpl. rewrite Hl'. change (gn_id (mkGN (gn_P n) r' (keep_sess r' (gn_sess n)) (gn_next n))) with (gn_id n).
      rewrite Hts, His. split; [exact L1|]. split; [|exact L3].
      rewrite L2. subst r'. reflexivity.
    - intros m Hm. left. exact Hm.
  Qed.
End Update.
