(* ClusterLogSnapElect2.v — stage 2: runLeader, the election timer, vote responses and dispatchLogs. *)
From Coq Require Import List NArith Bool Lia.
From stdpp Require Import gmap.
From RaftModel Require Import Base Config Compaction Commitment Node NodeCodec Candidate Leader Replicate Cluster ClusterLog.
From RaftProofs Require Import ConfigProofs VoteProofs ClusterProofs
  ClusterLogSpec ClusterLogChain ClusterLogNode ClusterLogVote ClusterLogLeader ClusterLogInv ClusterLogSteps ClusterLogInit
  ClusterLogSnapSpec ClusterLogSnapNode ClusterLogSnapState ClusterLogSnapVote ClusterLogSnapLeader ClusterLogSnapInv
  ClusterLogSnapSteps ClusterLogSnapElect.
Open Scope N_scope.

Section SElect2.
  Variable base : list entry.
  Variable c0 : N.
  Hypothesis Hh : hist_ok (0, 0) base.
  Variable cfgs : list config.
  Hypothesis HQ : quorums_intersect cfgs.

  Lemma become_leader_sinv g C g1 j n s sL next' :
    sinv base c0 cfgs g C -> ginv cfgs g1 ->
    find_node (g_nodes (lg_g g)) j = Some n -> gn_run n = Up s ->
    g_nodes g1 = upd_node (g_nodes (lg_g g)) j (mkGN (gn_P n) (Up (become_leader (gn_P n) sL)) None next') ->
    g_leaders g1 = (v_term sL, j) :: g_leaders (lg_g g) ->
    skeep sL s -> d_term s <= d_term sL -> v_term sL = d_term sL -> v_role sL = Leader ->
    (forall T', T' <= dt n -> (forall se, gn_sess n = Some se -> T' < vq_term (se_req se)) -> T' <> v_term sL) ->
    exists C', sinv base c0 cfgs (mkLG g1 (lg_msgs g)) C'.
  Proof.
    intros Hinv Hg1 Hfind Hrun Hn1 Hl1 Hk Hdt Hvt Hrole Hfresh.
    destruct (find_node_in _ _ _ Hfind) as [Hin Hid].
    destruct (sv_nodes base c0 cfgs g C Hinv n Hin) as [Hnl _]. rewrite Hrun in Hnl. simpl in Hnl.
    assert (HnL : sup base c0 C sL) by (eapply sup_keep; eauto).
    set (s' := become_leader (gn_P n) sL).
    pose proof (dispatch_fields (gn_P n) sL [] LogNoop 0 0) as Hd. cbv zeta in Hd.
    fold (become_leader (gn_P n) sL) in Hd. fold s' in Hd.
    destruct Hd as (Dd & Dv & Dsn & Dsi & Dst & Dcm & Dap & Dfs & Dsg & [(Hf & _)|(_ & Dl & Dpc & Dci & Dct & Dr)]); [simpl in Hf; discriminate|].
    assert (Hnone : forall x p, In (x, p) C -> e_term x <> v_term sL).
    { intros x p Hx Ht. destruct (sv_src base c0 cfgs g C Hinv x p Hx) as [(id & Hl)|Hdead].
      - assert (id = j).
        { apply (leaders_fun cfgs g1 (v_term sL) id j HQ Hg1); rewrite Hl1; [right; rewrite <- Ht; exact Hl|left; reflexivity]. }
        subst id. destruct (sv_leaders base c0 cfgs g C Hinv _ _ Hl n Hin Hid) as [A B]. apply (Hfresh (e_term x) A B Ht).
      - destruct (Hdead n Hin) as [A B]. apply (Hfresh (e_term x) A B Ht). }
    apply (leader_entry_sinv base c0 Hh cfgs HQ g C g1 j n s sL s' LogNoop 0 next' Hinv Hg1 Hfind Hrun Hn1); auto.
    - rewrite Hl1. intros x Hx. right. exact Hx.
    - rewrite Hl1. intros T i [E|H]; [inversion E; subst; right; auto|left; exact H].
    - rewrite Hl1. left. reflexivity.
    - intros x p Hx Ht. exfalso. apply (Hnone x p Hx Ht).
    - rewrite Dsg. destruct (p_track (gn_P n)); apply HnL.
    - rewrite Dpc. destruct (p_track (gn_P n)); apply HnL.
  Qed.

  Lemma stimeout g C i g1 :
    sinv base c0 cfgs g C -> gstep cfgs (lg_g g) (GTimeout i) = Some g1 ->
    exists C', sinv base c0 cfgs (mkLG g1 (lg_msgs g)) C'.
  Proof.
    intros Hinv Hstep.
    pose proof (gstep_inv cfgs _ _ _ (sv_g base c0 cfgs g C Hinv) Hstep) as Hg1.
    unfold gstep in Hstep.
    destruct (find_node (g_nodes (lg_g g)) i) as [n|] eqn:Hfind; [|discriminate].
    destruct (find_node_in _ _ _ Hfind) as [Hin Hid].
    destruct (gn_run n) as [s|s] eqn:Hrun; [|discriminate].
    destruct (existsb (config_eqb (v_latest s)) cfgs); [|discriminate]. cbn [negb orb] in Hstep.
    destruct (v_role s =? Leader); [discriminate|].
    pose proof (snode_wfr base c0 cfgs g C n Hinv Hin) as Hw. rewrite Hrun in Hw. destruct Hw as [_ Hvt].
    set (s0 := match gn_sess n with Some _ => set_transfer s false | None => s end) in *.
    assert (K0 : skeep s0 s /\ d_term s0 = d_term s /\ v_term s0 = v_term s).
    { unfold s0. destruct (gn_sess n); repeat split. }
    destruct K0 as (K0 & Kd0 & Kv0).
    pose proof (sess_enter_cases (gn_P n) s0) as Hc. cbv zeta in Hc.
    destruct (sess_enter (gn_P n) false s0) as [x tr]. simpl fst in Hc.
    assert (Kvoted : skeep (voted (gn_P n) s0) s /\ d_term (voted (gn_P n) s0) = v_term s + 1).
    { split; [eapply skeep_trans; [|exact K0]; repeat split|rewrite <- Kv0; reflexivity]. }
    assert (Kent : skeep (entered (gn_P n) s0) s /\ d_term (entered (gn_P n) s0) = v_term s + 1).
    { split; [eapply skeep_trans; [|exact K0]; repeat split|rewrite <- Kv0; reflexivity]. }
    destruct (self_is_voter (gn_P n) s0).
    - destruct (quorum_size (v_latest s0) <=? 1).
      + subst x. inversion Hstep; subst g1. clear Hstep.
        match goal with |- context [become_leader _ ?SL] => set (sL := SL) in * end.
        apply (become_leader_sinv g C _ i n s sL _ Hinv Hg1 Hfind Hrun eq_refl eq_refl).
        * destruct Kvoted as [Kl _]. eapply skeep_trans; [|exact Kl]. repeat split.
        * change (d_term sL) with (d_term (voted (gn_P n) s0)). destruct Kvoted as [_ ->]. lia.
        * reflexivity.
        * reflexivity.
        * intros T' HT' _. change (v_term sL) with (v_term s0 + 1). unfold dt in HT'. rewrite Hrun in HT'. simpl in HT'. lia.
      + subst x. cbn [c_granted] in Hstep. change (1 <=? 1) with true in Hstep. cbn iota in Hstep.
        inversion Hstep; subst g1. clear Hstep. exists C.
        destruct Kvoted as [Kl Kt].
        apply (plain_sinv base c0 cfgs HQ g C _ i n s (voted (gn_P n) s0) _ _ Hinv Hg1 Hfind Hrun eq_refl eq_refl Kl).
        * rewrite Kt. lia.
        * discriminate.
        * intros se Hse. right. inversion Hse; subst se. cbn [se_req].
          destruct (req_of_fields (gn_P n) (voted (gn_P n) s0)) as [-> _].
          change (v_term (voted (gn_P n) s0)) with (v_term s0 + 1). lia.
    - subst x. cbn [c_granted] in Hstep. change (1 <=? 0) with false in Hstep. cbn iota in Hstep.
      inversion Hstep; subst g1. clear Hstep. exists C.
      destruct Kent as [Kl Kt].
      apply (plain_sinv base c0 cfgs HQ g C _ i n s (entered (gn_P n) s0) _ _ Hinv Hg1 Hfind Hrun eq_refl eq_refl Kl).
      + rewrite Kt. lia.
      + discriminate.
      + intros se Hse. right. inversion Hse; subst se. cbn [se_req].
        destruct (req_of_fields (gn_P n) (entered (gn_P n) s0)) as [-> _].
        change (v_term (entered (gn_P n) s0)) with (v_term s0 + 1). lia.
  Qed.

  Lemma svoteresp g C i j g1 :
    sinv base c0 cfgs g C -> gstep cfgs (lg_g g) (GVoteResp i j) = Some g1 ->
    exists C', sinv base c0 cfgs (mkLG g1 (lg_msgs g)) C'.
  Proof.
    intros Hinv Hstep.
    pose proof (gstep_inv cfgs _ _ _ (sv_g base c0 cfgs g C Hinv) Hstep) as Hg1.
    unfold gstep in Hstep.
    destruct (find_node (g_nodes (lg_g g)) i) as [n|] eqn:Hfind; [|discriminate].
    destruct (find_node_in _ _ _ Hfind) as [Hin Hid].
    destruct (gn_run n) as [s|s] eqn:Hrun; [|discriminate].
    destruct (gn_sess n) as [se|] eqn:Hse; [|discriminate].
    destruct (mem j (se_got se)); [discriminate|].
    destruct (find_resp (g_resps (lg_g g)) i (se_epoch se) j) as [rp|]; [|discriminate].
    pose proof (gi_nodes cfgs _ (sv_g base c0 cfgs g C Hinv) n Hin) as [_ Hs]. unfold sess_ok in Hs. rewrite Hse in Hs.
    destruct Hs as (c & s0 & _ & E1 & E2 & _ & E4 & _). rewrite Hrun in E1. inversion E1; subst s0. clear E1.
    pose proof (snode_wfr base c0 cfgs g C n Hinv Hin) as Hw. rewrite Hrun in Hw. destruct Hw as [_ Hvt].
    pose proof (sess_vote_cases (gn_P n) s (se_c se) (mkVR (rp_term rp) (rp_granted rp)) E4) as Hcs.
    destruct (sess_step (gn_P n) false (SCand s (se_c se)) (CVote (mkVR (rp_term rp) (rp_granted rp)))) as [x tr].
    simpl fst in Hcs. cbn [vr_term vr_granted] in Hcs.
    destruct (N.ltb_spec (v_term s) (rp_term rp)) as [Hlt|Hge].
    - subst x. inversion Hstep; subst g1. clear Hstep. exists C.
      match goal with |- context [Up ?S] => set (sF := S) in * end.
      apply (plain_sinv base c0 cfgs HQ g C _ i n s sF None _ Hinv Hg1 Hfind Hrun eq_refl eq_refl).
      + repeat split.
      + change (d_term sF) with (rp_term rp). lia.
      + discriminate.
      + intros se0 H0. discriminate.
    - cbv zeta in Hcs.
      destruct (c_needed (se_c se) <=? (if rp_granted rp then c_granted (se_c se) + 1 else c_granted (se_c se))).
      + subst x. inversion Hstep; subst g1. clear Hstep.
        match goal with |- context [become_leader _ ?SL] => set (sL := SL) in * end.
        apply (become_leader_sinv g C _ i n s sL _ Hinv Hg1 Hfind Hrun eq_refl eq_refl).
        * repeat split.
        * apply N.le_refl.
        * exact Hvt.
        * reflexivity.
        * intros T' _ HT'. specialize (HT' se Hse). change (v_term sL) with (v_term s). lia.
      + subst x. inversion Hstep; subst g1. clear Hstep. exists C.
        apply (plain_sinv base c0 cfgs HQ g C _ i n s s _ _ Hinv Hg1 Hfind Hrun eq_refl eq_refl).
        * apply skeep_refl.
        * apply N.le_refl.
        * intros Hr. destruct (sv_nodes base c0 cfgs g C Hinv n Hin) as [_ Hlo].
          destruct (Hlo s Hrun Hr) as (_ & Hn & _). congruence.
        * intros se0 H0. inversion H0; subst se0. left. exists se. auto.
  Qed.

  (* as plain_sinv, with the node invariant of the new state given directly *)
  Lemma plain_sinv_sup g C g1 j n s s' sess' next' :
    sinv base c0 cfgs g C -> ginv cfgs g1 ->
    find_node (g_nodes (lg_g g)) j = Some n -> gn_run n = Up s ->
    g_nodes g1 = upd_node (g_nodes (lg_g g)) j (mkGN (gn_P n) (Up s') sess' next') ->
    g_leaders g1 = g_leaders (lg_g g) ->
    sup base c0 C s' -> d_term s <= d_term s' -> v_role s' <> Leader ->
    (forall se, sess' = Some se ->
       (exists se0, gn_sess n = Some se0 /\ vq_term (se_req se) = vq_term (se_req se0)) \/ d_term s < vq_term (se_req se)) ->
    sinv base c0 cfgs (mkLG g1 (lg_msgs g)) C.
  Proof.
    intros Hinv Hg1 Hfind Hrun Hn1 Hl1 Hn' Hdt Hrole Hsess.
    destruct (find_node_in _ _ _ Hfind) as [Hin Hid].
    apply (sinv_update base c0 cfgs HQ g (mkLG g1 (lg_msgs g)) C C j n (mkGN (gn_P n) (Up s') sess' next') Hinv Hg1 Hfind Hid Hn1).
    - simpl. rewrite Hl1. apply incl_refl.
    - simpl. rewrite Hl1. intros T i H. left. exact H.
    - apply incl_refl.
    - apply (sv_chain base c0 cfgs g C Hinv).
    - intros x p H. left. exact H.
    - unfold dt. simpl. rewrite Hrun. exact Hdt.
    - intros se Hse. simpl in Hse. unfold dt. rewrite Hrun. simpl. apply Hsess, Hse.
    - exact Hn'.
    - intros s0 Hs0 Hr. simpl in Hs0. inversion Hs0; subst. contradiction.
    - intros m Hm. left. exact Hm.
  Qed.

  (* dispatchLogs of one entry at leader i *)
  Lemma spropose g C i ty data fs g' :
    sinv base c0 cfgs g C -> lstep true cfgs g (LPropose i ty data fs) = Some g' -> exists C', sinv base c0 cfgs g' C'.
  Proof.
    intros Hinv Hstep. unfold lstep in Hstep.
    destruct (find_node (g_nodes (lg_g g)) i) as [n|] eqn:Hfind; [|discriminate].
    destruct (find_node_in _ _ _ Hfind) as [Hin Hid].
    destruct (gn_run n) as [s|s] eqn:Hrun; [|discriminate].
    destruct (N.eqb_spec (v_role s) Leader) as [Hrole|]; [|discriminate].
    pose proof (dispatch_fields (gn_P n) s fs ty data 0) as Hd. cbv zeta in Hd.
    destruct (dispatch (gn_P n) (leader_setup s) fs [(ty, data, 0)]) as [[[ls' res] tr] fs'].
    cbn [fst] in Hd. set (s' := l_node ls') in *.
    inversion Hstep; subst g'. clear Hstep.
    destruct Hd as (Dd & Dv & Dsn & Dsi & Dst & Dcm & Dap & Dfs & Dsg & Hcase).
    assert (Dt : d_term s' = d_term s) by (unfold dproj in Dd; inversion Dd; reflexivity).
    pose proof (sv_g base c0 cfgs g C Hinv) as Hg.
    destruct (sv_nodes base c0 cfgs g C Hinv n Hin) as [Hnl Hlo]. rewrite Hrun in Hnl. simpl in Hnl.
    destruct (Hlo s Hrun Hrole) as (L1 & L2 & L3).
    pose proof (gi_nodes cfgs _ Hg n Hin) as [(Hw & Hig & Hfun) _]. rewrite Hrun in Hw, Hig. simpl in Hw.
    destruct Hw as [Hwd Hvt].
    assert (Hks : keep_sess (Up s') (gn_sess n) = None) by (rewrite L2; reflexivity).
    unfold set_node_run. rewrite Hks.
    set (n' := mkGN (gn_P n) (Up s') None (gn_next n)).
    set (g1 := mkG (upd_node (g_nodes (lg_g g)) i n') (g_resps (lg_g g)) (g_leaders (lg_g g)) (g_grants (lg_g g))).
    assert (Hg1 : ginv cfgs g1).
    { eapply (ginv_update cfgs (lg_g g) g1 i n n' []); try reflexivity; try exact Hg; try exact Hfind.
      - exact Hid.
      - intros x [].
      - unfold node_ok. cbn [gn_run n']. change (gn_id n') with (gn_id n).
        change (Gof g1 (gn_id n)) with (Gof (lg_g g) (gn_id n)).
        split; [|split; [|exact Hfun]].
        + simpl. eapply wfu_dproj; [split; [exact Hwd|exact Hvt]|exact Dd|exact Dv].
        + eapply inv_grants_dproj; [|exact Hig]. simpl. symmetry. exact Dd.
      - intros rp Hrp. split; [|left; exact Hrp].
        destruct (gi_resps cfgs _ Hg rp Hrp) as [_ Hall]. specialize (Hall n Hin).
        unfold resp_node in *. change (gn_id n') with (gn_id n). cbn [gn_sess gn_next n'].
        intros Hc. destruct (Hall Hc) as [A _]. split; [exact A|]. intros se0 H0. discriminate.
      - intros x Hx. left. exact Hx. }
    assert (Hsg : d_staged s' <= c0) by (rewrite Dsg; destruct (p_track (gn_P n)); apply Hnl).
    destruct Hcase as [(_ & Kl & Kp & Ki & Kt & Hr')|(_ & Dl & Dpc & Dci & Dct & Dr)].
    - (* StoreLogs failed: nothing stored, the leader steps down *)
      exists C. apply (plain_sinv_sup g C g1 i n s s' None (gn_next n) Hinv Hg1 Hfind Hrun eq_refl eq_refl).
      + constructor; rewrite ?Kl, ?Kp, ?Ki, ?Kt, ?Dsn, ?Dt, ?Dsi, ?Dst, ?Dcm, ?Dap, ?Dfs; first [exact Hsg|apply Hnl].
      + lia.
      + rewrite Hr'. discriminate.
      + intros se0 H0. discriminate.
    - assert (Hpc : d_pcommit s' <= c0) by (rewrite Dpc; destruct (p_track (gn_P n)); apply Hnl).
      apply (leader_entry_sinv base c0 Hh cfgs HQ g C g1 i n s s s' ty data (gn_next n) Hinv Hg1 Hfind Hrun eq_refl
               (incl_refl _) (fun T k H => or_introl H)); try assumption.
      + rewrite <- Hid. exact L1.
      + apply N.le_refl.
  Qed.
End SElect2.
