(* ClusterCommitSnapStepD.v — with snapshots: a step that leaves the log and snapshot stores of the one
   server it touches alone, and may record votes (the analogue of Proofs/ClusterCommitStepD.v). *)
From Coq Require Import List NArith Bool Lia.
From stdpp Require Import gmap.
From RaftModel Require Import Base Config Compaction Commitment Node NodeCodec Candidate Leader Replicate Cluster ClusterLog ClusterCommit.
From RaftProofs Require Import ConfigProofs CommitmentProofs VoteProofs ClusterProofs
  ClusterLogSpec ClusterLogChain ClusterLogNode ClusterLogVote ClusterLogLeader ClusterLogInv ClusterLogSteps
  ClusterCommitSpec ClusterCommitLog ClusterCommitChain ClusterCommitNode ClusterCommitGhost
  ClusterCommitInv ClusterCommitUpd ClusterCommitStepA
  ClusterCommitSnapLog ClusterCommitSnapNode ClusterCommitSnapLinv ClusterCommitSnapInv ClusterCommitSnapFinal
  ClusterCommitSnapUpd ClusterCommitSnapStepA.
Open Scope N_scope.

Section Quiet.
  Variable cfg : config.
  Variable Ps : list params.
  Hypothesis HVn : NoDup (voters cfg).

  Lemma zinv_quiet g g' C LL A V Vn Gn j n n' :
    zinv cfg Ps g C LL A V -> find_node (cnodes g) j = Some n -> gn_id n' = j ->
    cnodes g' = upd_node (cnodes g) j n' -> zlinv [cfg] (cg_l g') C ->
    quietS (gn_run n) (gn_run n') -> znode cfg Ps (gn_P n') (gn_run n') ->
    lg_msgs (cg_l g') = lg_msgs (cg_l g) -> cg_ans g' = cg_ans g ->
    g_leaders (gof g') = g_leaders (gof g) -> g_grants (gof g') = Gn ++ g_grants (gof g) ->
    (forall i, i <> j -> find_lead (cg_lead g') i = find_lead (cg_lead g) i) ->
    (forall se', gn_sess n' = Some se' ->
       (exists se, gn_sess n = Some se /\ se_req se' = se_req se) \/ dtn n < vq_term (se_req se')) ->
    (forall se, gn_sess n' = Some se -> exists s, gn_run n' = Up s /\
       (last_entry s = (vq_lastIdx (se_req se), vq_lastTerm (se_req se)) \/ exists c' tl', In (vq_term (se_req se), c', tl') LL)) ->
    (forall s', gn_run n' = Up s' -> v_role s' = Leader ->
       exists s ld ld', gn_run n = Up s /\ v_role s = Leader /\ v_term s' = v_term s /\ v_lastLogTerm s' = v_lastLogTerm s /\
         find_lead (cg_lead g) j = Some ld /\ find_lead (cg_lead g') j = Some ld' /\
         ld_cm ld' = ld_cm ld /\ ld_next0 ld' = ld_next0 ld /\ ld_notified ld' = ld_notified ld /\ ld_infl ld' = ld_infl ld) ->
    (forall w T' c kw rq k k0, In (w, T', c, kw, rq) Vn -> In (w, k) A -> snd k < T' -> anc C k0 k -> 1 <= fst k0 ->
       anc C k0 kw \/ exists T3 c3 tl3, In (T3, c3, tl3) LL /\ snd k < T3 /\ T3 < T' /\ ~ anc C k0 tl3) ->
    (forall w T' c kw rq, In (w, T', c, kw, rq) Vn -> uptodate rq kw /\ (kw = (0, 0) \/ created C kw)) ->
    (forall w T' c kw rq, In (w, T', c, kw, rq) Vn ->
       (exists x, In x (cnodes g') /\ gn_id x = w /\ T' <= dtn x) /\ (exists xc, In xc (cnodes g') /\ gn_id xc = c /\ T' <= dtn xc)) ->
    (forall w T' c kw rq xc se, In (w, T', c, kw, rq) Vn -> In xc (cnodes g') -> gn_id xc = c ->
       gn_sess xc = Some se -> vq_term (se_req se) = T' -> rq = (vq_lastIdx (se_req se), vq_lastTerm (se_req se))) ->
    (forall w T' c, In (w, T', c) Gn -> (exists kw rq, In (w, T', c, kw, rq) (Vn ++ V)) \/ (exists c' tl', In (T', c', tl') LL)) ->
    (forall T' c, live (image (gn_run n')) = Some (T', c) ->
       (exists kw rq, In (j, T', c, kw, rq) (Vn ++ V)) \/ (exists c' tl', In (T', c', tl') LL)) ->
    zinv cfg Ps g' C LL A (Vn ++ V).
  Proof.
    intros HI Hfind Hid' Hnodes Hl' Hq Hcn' Hmsgs Hans Hlead Hgr Hlo Hsess Hse Hrole Hva Hup Hv1 Hv2 Hgv Hlive.
    destruct (find_node_in _ _ _ Hfind) as [Hin Hid]. destruct Hq as (Hlog & Hsnaps & Hterm & Hup').
    pose proof (zv_ci cfg Ps g C LL A V HI) as Hci. pose proof (ci_ok C LL Hci) as HC.
    apply (zinv_update cfg Ps HVn g g' C [] LL [] A [] V Vn j n n' HI Hfind Hid' Hnodes Hterm Hl' Hci) with (mn := []) (an := []) (Gn := Gn).
    - exact Hva.
    - intros w T' c kw rq k k0 _ [].
    - intros T' c tl' [].
    - exact Hup.
    - intros w k [].
    - exact Hcn'.
    - (* commit knowledge of the server that changed *)
      intros s' Hs'. rewrite Hs' in Hup'. destruct Hup' as [(s & Hs & K)|(Hc0 & _)].
      + destruct (zv_kc cfg Ps g C LL A V HI n s Hin Hs) as [K1 K2]. destruct K as ((E1 & E2 & _ & _ & _ & E6) & (_ & _ & _ & _ & L5) & _).
        unfold last_index in *. rewrite E6, E2, E1, L5. split; [exact K1|]. intros i e He Hi.
        eapply (zCK_mono cfg); [|apply (K2 i e He Hi)]. unfold dtn in Hterm. rewrite Hs, Hs' in Hterm. exact Hterm.
      + rewrite Hc0. split; [lia|]. intros i e He Hi. exfalso.
        assert (Hin' : In n' (g_nodes (lg_g (cg_l g')))).
        { change (In n' (cnodes g')). rewrite Hnodes. apply in_upd_node with (n := n); assumption. }
        destruct (zl_nodes [cfg] _ C Hl' n' Hin') as [Hnl _]. rewrite Hs' in Hnl.
        pose proof (log_in_pos C _ _ i e HC (zs_in _ _ _ _ _ _ Hnl) He). lia.
    - (* its snapshots *)
      intros sn Hsn. rewrite Hsnaps in Hsn. eapply (zCK_mono cfg); [exact Hterm|apply (zv_sk cfg Ps g C LL A V HI n sn Hin Hsn)].
    - (* the position of its FSM *)
      intros s' Hs'. rewrite Hs' in Hup'. destruct Hup' as [(s & Hs & K)|(_ & _ & Hf & _)]; [|left; rewrite Hf; reflexivity].
      destruct K as (_ & _ & _ & K4). rewrite K4.
      destruct (zv_fsm cfg Ps g C LL A V HI n s Hin Hs) as [E|[F1 F2]]; [left; exact E|right]. split; [exact F1|].
      eapply (zCK_mono cfg); [|exact F2]. unfold dtn in Hterm. rewrite Hs, Hs' in Hterm. exact Hterm.
    - rewrite Hmsgs, app_nil_r. reflexivity.
    - intros m [].
    - rewrite Hans, app_nil_r. reflexivity.
    - intros x [].
    - intros w k [].
    - (* what the server that changed accepted before *)
      intros k k0 Ha Hanc Hpos. rewrite <- Hid in Ha.
      destruct (zv_av cfg Ps g C LL A V HI (gn_id n) k n k0 Ha Hin eq_refl Hanc Hpos) as [H|(T2 & c2 & tl2 & H1 & H2 & H3 & H4)].
      + left. unfold covers in *. rewrite Hlog, Hsnaps. exact H.
      + right. exists T2, c2, tl2. split; [exact H1|]. split; [exact H2|]. split; [unfold dtn in *; lia|exact H4].
    - intros w k x k0 [].
    - exact Hv1.
    - exact Hsess.
    - exact Hv2.
    - exact Hgr.
    - exact Hgv.
    - exact Hse.
    - exact Hlive.
    - intros T c. rewrite Hlead. apply (zv_ll cfg Ps g C LL A V HI).
    - exact Hlo.
    - intros y p [].
    - (* the server that changed, if it is (still) a leader *)
      intros s' Hs' Hr'. destruct (Hrole s' Hs' Hr') as (s & ld & ld' & Hs & Hrs & Et & Elt & Fl & Fl' & E1 & E2 & E3 & E4).
      destruct (zv_lead cfg Ps g C LL A V HI n s Hin Hs Hrs) as [(tl & ld0 & L1 & L2 & L3 & L4 & L5 & L6 & L7 & L8 & L9 & L10 & L11) [Z1 Z2]].
      rewrite Hid, Fl in L2. inversion L2; subst ld0. clear L2.
      rewrite Hs' in Hup'. destruct Hup' as [(s0 & Hs0 & K)|(_ & Hf & _)]; [|rewrite Hf in Hr'; discriminate].
      rewrite Hs in Hs0. inversion Hs0; subst s0. destruct K as ((_ & K2 & _ & _ & _ & K6) & (_ & _ & _ & _ & K5) & _).
      split; [|split; [rewrite K2, K5; exact Z1|]].
      + exists tl, ld'. rewrite Hid', Et, E1, E2, E3. unfold topk. rewrite K2, Elt, K6. rewrite <- Hid. cbn [app].
        unfold topk in L3. split; [exact L1|]. split; [rewrite Hid; exact Fl'|]. repeat (split; [assumption|]). assumption.
      + intros ldx Hx. rewrite Hid', Fl' in Hx. inversion Hx; subst ldx. unfold infl_ok. rewrite E4, Et. cbn [app].
        apply (Z2 ld). rewrite Hid. exact Fl.
  Qed.
End Quiet.
