(* ClusterSnapLMLog.v — the per-server invariant for the system with snapshot transfer
   (Model/ClusterSnap.v).  B is an upper bound of the index of every snapshot stored anywhere.  At or
   below B a log store may hold anything that was ever created (stale entries kept below an
   installed snapshot, finding F3-ii, and whatever was replicated from them); ABOVE B every stored
   entry is an ancestor of the cached last-log key tk. *)
From Coq Require Import List NArith Bool Lia.
From stdpp Require Import gmap.
From RaftModel Require Import Base Config Compaction Node NodeCodec.
From RaftProofs Require Import ClusterLogSpec ClusterLogChain ClusterLogNode ClusterCommitChain ClusterCommitInv ClusterCommitSnapLog.
Open Scope N_scope.

(* lastSnapshotIndex / lastSnapshotTerm as stored *)
Definition rawb (s : nstate) : N * N := (v_lastSnapIdx s, v_lastSnapTerm s).

Record yshape (C : chain) (B T : N) (m : gmap N entry) (sns : list snapshot) (tk b fl : N * N) : Prop := {
  ys_in : log_in C m T;
  ys_above : forall i e, m !! i = Some e -> B < i -> anc C (key e) tk;
  ys_tkt : snd tk <= T;
  ys_tkz : fst tk = 0 -> tk = (0, 0);
  ys_sns : forall sn, In sn sns -> sn_idx sn <= B /\ sn_term sn <= T;
  ys_b : fst b <= B /\ (fst b <> 0 -> snd b <= T);
  ys_fl : fst fl <> 0 -> snd fl <= T;
}.

Record yimgS (C : chain) (B T : N) (m : gmap N entry) (sns : list snapshot) : Prop := {
  yi_in : log_in C m T;
  yi_above : exists top, forall i e, m !! i = Some e -> B < i -> anc C (key e) top;
  yi_sns : forall sn, In sn sns -> sn_idx sn <= B /\ sn_term sn <= T;
}.

Definition yup (C : chain) (B : N) (s : nstate) : Prop :=
  yshape C B (d_term s) (d_log s) (d_snaps s) (topk s) (rawb s) (v_fsmLast s).
Definition yimg (C : chain) (B : N) (s : nstate) : Prop := yimgS C B (d_term s) (d_log s) (d_snaps s).
Definition ynlog (C : chain) (B : N) (r : nrun) : Prop := match r with Up s => yup C B s | Down s => yimg C B s end.

Lemma yshape_mono C C' B B' T T' m sns tk b fl : incl C C' -> B <= B' -> T <= T' ->
  yshape C B T m sns tk b fl -> yshape C' B' T' m sns tk b fl.
Proof.
  intros Hi HB HT [A1 A2 A3 A4 A5 A6 A7]. constructor.
  - eapply log_in_mono; [exact Hi|]. eapply log_in_sub; [apply log_sub_refl|exact HT|exact A1].
  - intros i e He Hb. eapply anc_mono; [exact Hi|]. apply (A2 i e He). lia.
  - lia.
  - exact A4.
  - intros sn Hsn. destruct (A5 sn Hsn). lia.
  - destruct A6 as [X Y]. split; [lia|]. intros H. specialize (Y H). lia.
  - intros H. specialize (A7 H). lia.
Qed.

Lemma yimgS_mono C C' B B' T T' m sns : incl C C' -> B <= B' -> T <= T' -> yimgS C B T m sns -> yimgS C' B' T' m sns.
Proof.
  intros Hi HB HT [A1 (top & A2) A3]. constructor.
  - eapply log_in_mono; [exact Hi|]. eapply log_in_sub; [apply log_sub_refl|exact HT|exact A1].
  - exists top. intros i e He Hb. eapply anc_mono; [exact Hi|]. apply (A2 i e He). lia.
  - intros sn Hsn. destruct (A3 sn Hsn). lia.
Qed.

Lemma ynlog_mono C C' B B' r : incl C C' -> B <= B' -> ynlog C B r -> ynlog C' B' r.
Proof. intros Hi HB. destruct r as [s|s]; simpl; [apply yshape_mono|apply yimgS_mono]; auto; lia. Qed.

Lemma yshape_img C B T m sns tk b fl : yshape C B T m sns tk b fl -> yimgS C B T m sns.
Proof. intros [A1 A2 _ _ A5 _ _]. constructor; [exact A1|exists tk; exact A2|exact A5]. Qed.

Lemma ynlog_image C B r : ynlog C B r -> yimg C B (image r).
Proof. destruct r as [s|s]; simpl; [apply yshape_img|auto]. Qed.

(* above B nothing is stored beyond the cached last index *)
Lemma yshape_bound C B T m sns tk b fl i e : chain_ok C -> yshape C B T m sns tk b fl -> m !! i = Some e -> B < i -> i <= fst tk.
Proof.
  intros HC H He Hb. destruct (ys_in _ _ _ _ _ _ _ _ H i e He) as (Hi & _).
  destruct (anc_le C _ _ HC (ys_above _ _ _ _ _ _ _ _ H i e He Hb)) as [X _]. unfold key in X. simpl in X. lia.
Qed.

(* a sub-log *)
Lemma yimgS_sub C B T m m' sns : log_sub m' m -> yimgS C B T m sns -> yimgS C B T m' sns.
Proof.
  intros Hs [A1 (top & A2) A3]. constructor; [eapply log_in_sub; [exact Hs|apply N.le_refl|exact A1]| |exact A3].
  exists top. intros i e He. apply (A2 i e (Hs i e He)).
Qed.

(* getLastEntry: its term is bounded, its index is 0 only for the root *)
Lemma y_last_entry C B s : yup C B s ->
  fst (last_entry s) = last_index s /\ snd (last_entry s) <= d_term s /\ (fst (last_entry s) = 0 -> last_entry s = (0, 0)).
Proof.
  intros H. unfold last_entry, last_index. destruct (N.leb_spec (v_lastSnapIdx s) (v_lastLogIdx s)) as [Hle|Hgt]; simpl.
  - split; [lia|]. split; [apply (ys_tkt _ _ _ _ _ _ _ _ H)|]. intros E. apply (ys_tkz _ _ _ _ _ _ _ _ H). exact E.
  - split; [lia|]. destruct (ys_b _ _ _ _ _ _ _ _ H) as [_ Hb]. simpl in Hb. split; [apply Hb; lia|lia].
Qed.
