(* ClusterLogSnapInv.v — stage 2: the cluster-level invariant with snapshots and the lemma that
   re-establishes it when a single server changes. *)
From Coq Require Import List NArith Bool Lia.
From stdpp Require Import gmap.
From RaftModel Require Import Base Config Compaction Commitment Node NodeCodec Candidate Leader Replicate Cluster ClusterLog.
From RaftProofs Require Import ConfigProofs VoteProofs ClusterProofs
  ClusterLogSpec ClusterLogChain ClusterLogNode ClusterLogVote ClusterLogInv ClusterLogInit
  ClusterLogSnapSpec ClusterLogSnapNode ClusterLogSnapState ClusterLogSnapVote.
Open Scope N_scope.

Section SInv.
  Variable base : list entry.
  Variable c0 : N.
  Variable cfgs : list config.
  Hypothesis HQ : quorums_intersect cfgs.

  Definition msg_ok2 (g : gstate) (C : chain) (m : amsg) : Prop :=
    msg_ok g C m /\ aq_commit (am_req m) <= c0.

  Record sinv (g : lgstate) (C : chain) : Prop := {
    sv_g : ginv cfgs (lg_g g);
    sv_chain : cb_ok base c0 C;
    sv_nodes : forall n, In n (g_nodes (lg_g g)) -> snlog base c0 C (gn_run n) /\ lead_ok (lg_g g) C n;
    sv_src : forall e p, In (e, p) C -> term_src (lg_g g) (e_term e);
    sv_leaders : forall T i, In (T, i) (g_leaders (lg_g g)) -> leader_rec_ok (lg_g g) T i;
    sv_msgs : forall m, In m (lg_msgs g) -> msg_ok2 (lg_g g) C m;
  }.

  Lemma sinv_update g g' C C' j n n' :
    sinv g C -> ginv cfgs (lg_g g') ->
    find_node (g_nodes (lg_g g)) j = Some n -> gn_id n' = j ->
    g_nodes (lg_g g') = upd_node (g_nodes (lg_g g)) j n' ->
    incl (g_leaders (lg_g g)) (g_leaders (lg_g g')) ->
    (forall T i, In (T, i) (g_leaders (lg_g g')) ->
       In (T, i) (g_leaders (lg_g g)) \/ (i = j /\ T <= dt n' /\ gn_sess n' = None)) ->
    incl C C' -> cb_ok base c0 C' ->
    (forall x p, In (x, p) C' -> In (x, p) C \/ In (e_term x, j) (g_leaders (lg_g g'))) ->
    dt n <= dt n' -> sess_step_ok n n' ->
    snlog base c0 C' (gn_run n') -> lead_ok (lg_g g') C' n' ->
    (forall m, In m (lg_msgs g') -> In m (lg_msgs g) \/ msg_ok2 (lg_g g') C' m) ->
    sinv g' C'.
  Proof.
    intros [Hg HC Hnodes Hsrc Hlead Hmsgs] Hg' Hfind Hid' Hn' Hlinc Hlnew Hcinc HC' Hcnew Hdt Hsess Hnl' Hlo' Hm'.
    destruct (find_node_in _ _ _ Hfind) as [Hin Hidn].
    assert (Hcases : forall x, In x (g_nodes (lg_g g')) -> x = n' \/ (In x (g_nodes (lg_g g)) /\ gn_id x <> j)).
    { intros x Hx. rewrite Hn' in Hx. destruct (upd_node_in _ _ _ _ Hx) as [[-> _]|H]; auto. }
    assert (Hcarry : forall T, (T <= dt n /\ forall se, gn_sess n = Some se -> T < vq_term (se_req se)) ->
              T <= dt n' /\ forall se, gn_sess n' = Some se -> T < vq_term (se_req se)).
    { intros T [A B]. split; [lia|]. intros se' Hse'. destruct (Hsess se' Hse') as [(se & Hse & E)|Hlt].
      - rewrite E. apply B, Hse.
      - lia. }
    constructor.
    - exact Hg'.
    - exact HC'.
    - intros x Hx. destruct (Hcases x Hx) as [->|[Hxo Hxid]]; [auto|].
      destruct (Hnodes x Hxo) as [A B]. split; [eapply snlog_mono; eauto|].
      intros s Hs Hr. destruct (B s Hs Hr) as (B1 & B2 & B3).
      split; [apply Hlinc, B1|]. split; [exact B2|].
      intros y p Hy Hty. destruct (Hcnew y p Hy) as [Hold|Hnew]; [apply (B3 y p Hold Hty)|].
      exfalso. apply Hxid. rewrite Hty in Hnew.
      apply (leaders_fun cfgs (lg_g g') (v_term s) (gn_id x) j HQ Hg'); [apply Hlinc, B1|exact Hnew].
    - intros e p He. destruct (Hcnew e p He) as [Hold|Hnew]; [|left; eauto].
      destruct (Hsrc e p Hold) as [(id & Hl)|Hd]; [left; exists id; apply Hlinc, Hl|right].
      intros x Hx. destruct (Hcases x Hx) as [->|[Hxo _]]; [apply Hcarry, Hd, Hin|apply Hd, Hxo].
    - intros T i Hl x Hx Hxi. destruct (Hlnew T i Hl) as [Hold|(-> & Ht & Hs)].
      + destruct (Hcases x Hx) as [->|[Hxo _]]; [|apply (Hlead T i Hold x Hxo Hxi)].
        apply Hcarry. apply (Hlead T i Hold n Hin). congruence.
      + destruct (Hcases x Hx) as [->|[_ Hne]]; [|contradiction].
        split; [exact Ht|]. intros se Hse. congruence.
    - intros m Hm. destruct (Hm' m Hm) as [Hold|Hnew]; [|exact Hnew].
      destruct (Hmsgs m Hold) as [A B]. split; [eapply msg_ok_mono; [exact Hlinc|exact Hcinc|exact A]|exact B].
  Qed.

  Lemma sinv_handler g C g' j n r' :
    sinv g C -> ginv cfgs g' ->
    find_node (g_nodes (lg_g g)) j = Some n ->
    g_nodes g' = upd_node (g_nodes (lg_g g)) j (mkGN (gn_P n) r' (keep_sess r' (gn_sess n)) (gn_next n)) ->
    g_leaders g' = g_leaders (lg_g g) ->
    step_post2 base c0 C (gn_run n) r' -> d_term (image (gn_run n)) <= d_term (image r') ->
    sinv (mkLG g' (lg_msgs g)) C.
  Proof.
    intros Hinv Hg' Hfind Hn' Hl' [Hnl Hrole] Hdt.
    destruct (find_node_in _ _ _ Hfind) as [Hin Hidn].
    apply (sinv_update g (mkLG g' (lg_msgs g)) C C j n (mkGN (gn_P n) r' (keep_sess r' (gn_sess n)) (gn_next n)) Hinv Hg' Hfind Hidn Hn').
    - simpl. rewrite Hl'. apply incl_refl.
    - simpl. rewrite Hl'. intros T i H. left. exact H.
    - apply incl_refl.
    - apply (sv_chain g C Hinv).
    - intros x p H. left. exact H.
    - exact Hdt.
    - intros se' Hse'. left. simpl in Hse'. unfold keep_sess in Hse'.
      destruct r' as [s'|s']; [|discriminate]. destruct (gn_sess n) as [se|]; [|discriminate].
      destruct (v_role s' =? Candidate); [|discriminate]. inversion Hse'; subst. eauto.
    - exact Hnl.
    - intros s' Hs' Hr. simpl in Hs'. destruct (Hrole s' Hs' Hr) as (s & Hs & Hrs & Hts & His).
      destruct (sv_nodes g C Hinv n Hin) as [_ Hlo]. destruct (Hlo s Hs Hrs) as (L1 & L2 & L3).
      simpl. rewrite Hl'. change (gn_id (mkGN (gn_P n) r' (keep_sess r' (gn_sess n)) (gn_next n))) with (gn_id n).
      rewrite Hts, His. split; [exact L1|]. split; [|exact L3].
      rewrite L2. subst r'. reflexivity.
    - intros m Hm. left. exact Hm.
  Qed.
End SInv.
