(* ClusterLogSnapCut.v — stage 2: crash cuts seen through the durable projection (term, log store,
   snapshot store, staged and persisted commit index). *)
From Coq Require Import List NArith Bool Lia.
From stdpp Require Import gmap.
From RaftModel Require Import Base Config Compaction Node NodeCodec.
From RaftProofs Require Import VoteProofs RecoverProofs ClusterLogSpec ClusterLogChain ClusterLogNode ClusterLogCut ClusterLogInit
  ClusterLogSnapSpec ClusterLogSnapNode ClusterLogSnapState ClusterLogSnapBoot.
Open Scope N_scope.

Record dimg := mkD { di_term : N; di_log : gmap N entry; di_snaps : list snapshot; di_staged : N; di_pcommit : N }.

Definition dpr (s : nstate) : dimg := mkD (d_term s) (d_log s) (d_snaps s) (d_staged s) (d_pcommit s).

Definition d_apply (P : params) (si : option snapshot) (d : dimg) (e : ev) : dimg :=
  match e with
  | ESetTerm t true => mkD t (di_log d) (di_snaps d) (di_staged d) (di_pcommit d)
  | EStore es true => mkD (di_term d) (log_store (di_log d) es) (di_snaps d) (di_staged d)
                          (if p_track P then di_staged d else di_pcommit d)
  | EDelete lo hi true => mkD (di_term d) (log_delete (di_log d) lo hi) (di_snaps d) (di_staged d) (di_pcommit d)
  | EStage c => if p_track P then mkD (di_term d) (di_log d) (di_snaps d) c (di_pcommit d) else d
  | ESnap _ _ true => match si with
                      | Some sn => mkD (di_term d) (di_log d) (di_snaps d ++ [sn]) (di_staged d) (di_pcommit d)
                      | None => d
                      end
  | _ => d
  end.

Lemma dpr_apply_ev P si s e : dpr (apply_ev P si s e) = d_apply P si (dpr s) e.
Proof.
  destruct e as [t ok|t ok|c ok|es ok|lo hi ok|c|i t ok|e|i|d]; simpl; try reflexivity;
    try (destruct ok; reflexivity).
  - destruct (p_track P); reflexivity.
  - destruct ok; [|reflexivity]. destruct si; reflexivity.
Qed.

Lemma cut_image_d P si tr : forall s k,
  exists j, dpr (cut_image P si s tr k) = fold_left (d_apply P si) (firstn j tr) (dpr s).
Proof.
  induction tr as [|e r IH]; intros s k.
  - exists 0%nat. destruct k; reflexivity.
  - destruct k as [|k'].
    + exists 0%nat. reflexivity.
    + simpl. destruct (is_durable e).
      * destruct (IH (apply_ev P si s e) k') as [j Hj]. exists (S j). simpl. rewrite Hj, dpr_apply_ev. reflexivity.
      * destruct (IH (apply_ev P si s e) (S k')) as [j Hj]. exists (S j). simpl. rewrite Hj, dpr_apply_ev. reflexivity.
Qed.

Definition is_rel (e : ev) : bool :=
  match e with ESetTerm _ true | EStore _ true | EDelete _ _ true | EStage _ | ESnap _ _ true => true | _ => false end.
Definition dlf (tr : list ev) : list ev := List.filter is_rel tr.

Lemma d_apply_not P si d e : is_rel e = false -> d_apply P si d e = d.
Proof.
  intros H. destruct e as [t ok|t ok|c ok|es ok|lo hi ok|c|i t ok|e|i|dd]; simpl in *; try reflexivity; try discriminate;
    destruct ok; try reflexivity; discriminate.
Qed.

Lemma prefix_dlf P si tr : forall d j,
  exists j', fold_left (d_apply P si) (firstn j tr) d = fold_left (d_apply P si) (firstn j' (dlf tr)) d.
Proof.
  induction tr as [|e r IH]; intros d j.
  - exists 0%nat. destruct j; reflexivity.
  - destruct j as [|j]; [exists 0%nat; reflexivity|]. simpl.
    destruct (is_rel e) eqn:E.
    + destruct (IH (d_apply P si d e) j) as [j' Hj']. exists (S j'). simpl. exact Hj'.
    + rewrite d_apply_not by exact E. destruct (IH d j) as [j' Hj']. exists j'. exact Hj'.
Qed.

Lemma dlf_app a b : dlf (a ++ b) = dlf a ++ dlf b.
Proof. apply filter_app. Qed.

Lemma dlf_fsm_events l : dlf (flat_map fsm_events l) = [].
Proof.
  induction l as [|e r IH]; simpl; [reflexivity|].
  rewrite dlf_app, IH, app_nil_r. unfold fsm_events.
  destruct (e_ty e =? LogCommand); [reflexivity|]. destruct (e_ty e =? LogConfiguration); reflexivity.
Qed.

Section SnapCut.
  Variable base : list entry.
  Variable c0 : N.
  Hypothesis Hh : hist_ok (0, 0) base.

  (* a good durable projection *)
  Record good_d5 (C : chain) (d : dimg) : Prop := {
    g5_snaps : snaps_ok base c0 (di_snaps d);
    g5_login : log_in C (di_log d) (di_term d);
    g5_top : exists top, log_below C (di_log d) top;
    g5_pcommit : di_pcommit d <= c0;
    g5_staged : di_staged d <= c0;
    g5_c0 : has_c0 c0 (di_log d) (di_snaps d);
    g5_tb : forall e, In e base -> e_term e <= di_term d;
  }.

  Lemma good_d5_img C s : good_d5 C (dpr s) -> simg base c0 C s.
  Proof. intros [A B D E F G H]. constructor; assumption. Qed.

  Lemma simg_good_d5 C s : simg base c0 C s -> good_d5 C (dpr s).
  Proof. intros [A B D E F G H]. constructor; assumption. Qed.

  Definition sprefixes_good (C : chain) (P : params) (si : option snapshot) (s : nstate) (tr : list ev) : Prop :=
    forall j, good_d5 C (fold_left (d_apply P si) (firstn j (dlf tr)) (dpr s)).

  Lemma finish_snlog {R} C P (enc : R -> list N) (mk : R -> nobs) si s cut (o : outcome R) r' ob out :
    cb_ok base c0 C -> sprefixes_good C P si s (trace_of o) ->
    (forall s' r tr fs', o = Done s' r tr fs' -> sup base c0 C s') ->
    finish P enc mk si s cut o = (r', ob, out) ->
    snlog base c0 C r' /\ (forall s', r' = Up s' -> v_role s' = Leader -> exists r tr fs', o = Done s' r tr fs').
  Proof.
    intros HC Hpre Hdone. unfold finish.
    assert (Hcrash : forall tr k rr oo, trace_of o = tr -> boot P (cut_image P si s tr k) = (rr, oo) ->
              snlog base c0 C rr /\ (forall s', rr = Up s' -> v_role s' = Leader -> exists r tr fs', o = Done s' r tr fs')).
    { intros tr k rr oo Etr HB. destruct (cut_image_d P si tr s k) as (j & Hj).
      destruct (prefix_dlf P si tr (dpr s) j) as (j' & Hj'). rewrite Hj' in Hj.
      assert (Himg : simg base c0 C (cut_image P si s tr k)).
      { apply good_d5_img. rewrite Hj. rewrite <- Etr. apply Hpre. }
      destruct (boot_snlog base c0 Hh C P _ rr oo HC Himg HB) as (A & _ & D).
      split; [exact A|]. intros s' Hs' Hr. rewrite (D s' Hs') in Hr. discriminate. }
    destruct o as [s1 r tr fs'|s1 tr].
    - destruct ((0 <? cut) && (N.to_nat cut <=? count_durable tr)%nat).
      + destruct (boot P (cut_image P si s tr (N.to_nat cut))) as [rr oo] eqn:EB.
        intros H; inversion H; subst. eapply Hcrash; [reflexivity|exact EB].
      + intros H; inversion H; subst. split; [simpl; eapply Hdone; reflexivity|].
        intros s' Hs' _. inversion Hs'; subst. eauto.
    - destruct (boot P (cut_image P si s tr (length tr))) as [rr oo] eqn:EB.
      intros H; inversion H; subst. eapply Hcrash; [reflexivity|exact EB].
  Qed.
End SnapCut.
