(* ClusterCommitStepH.v — CAck: the whole step (with a newer term in the answer the leader steps down). *)
From Coq Require Import List NArith Bool Lia.
From stdpp Require Import gmap.
From RaftModel Require Import Base Config Compaction Commitment Node NodeCodec Candidate Leader Replicate Cluster ClusterLog ClusterCommit.
From RaftProofs Require Import ConfigProofs CommitmentProofs VoteProofs ClusterProofs
  ClusterLogSpec ClusterLogChain ClusterLogNode ClusterLogVote ClusterLogLeader ClusterLogInv ClusterLogSteps
  ClusterCommitSpec ClusterCommitLog ClusterCommitChain ClusterCommitAE2 ClusterCommitNode ClusterCommitGhost
  ClusterCommitInv ClusterCommitFinal ClusterCommitUpd ClusterCommitStepA ClusterCommitStepC ClusterCommitStepD.
Open Scope N_scope.

Section StepH.
  Variable cfg : config.
  Variable Ps : list params.
  Hypothesis HVn : NoDup (voters cfg).
  Let HQ := quorums_intersect_one' cfg HVn.

  (* a leader's volatile state changes and it is no leader afterwards; its bookkeeping may change *)
  Lemma cinv_leader_quits g C LL A V i n s s' leads' hb' :
    cinv cfg Ps g C LL A V -> find_node (cnodes g) i = Some n -> gn_run n = Up s -> v_role s = Leader ->
    dproj s' = dproj s -> v_term s' = v_term s -> lkeep s' s -> vkeep s' s -> v_role s' = Follower ->
    (forall i', i' <> i -> find_lead leads' i' = find_lead (cg_lead g) i') ->
    cinv cfg Ps (mkCG (mkLG (set_node_run (lg_g (cg_l g)) i n (Up s')) (lg_msgs (cg_l g))) leads' hb' (cg_ans g)) C LL A V.
  Proof.
    intros HI Hf Hr Hrole Hd Ht Hk Hvk Hr' Hlo. destruct (find_node_in _ _ _ Hf) as [Hin Hid].
    pose proof (cv_l cfg Ps g C LL A V HI) as Hl.
    destruct (li_nodes [cfg] _ C Hl n Hin) as [_ Hlead]. destruct (Hlead s Hr Hrole) as (_ & Hsn & _).
    set (n' := mkGN (gn_P n) (Up s') (keep_sess (Up s') (gn_sess n)) (gn_next n)).
    assert (Hs' : gn_sess n' = None) by (unfold n'; cbn [gn_sess]; rewrite Hsn; reflexivity).
    assert (Hdt : d_term s' = d_term s) by (unfold dproj in Hd; congruence).
    apply (cinv_quiet cfg Ps HVn g (mkCG (mkLG (set_node_run (lg_g (cg_l g)) i n (Up s')) (lg_msgs (cg_l g))) leads' hb' (cg_ans g)) C LL A V [] [] i n n' HI Hf Hid eq_refl).
    - apply (linv_volatile [cfg] HQ (cg_l g) C i n s s' Hl Hf Hr Hrole Hd Ht Hk). right. exact Hr'.
    - rewrite Hr. split; [apply Hvk|]. split; [simpl; lia|]. left. exists s. auto.
    - pose proof (cv_node cfg Ps g C LL A V HI n Hin) as Hcn. rewrite Hr in Hcn. cbn [n' gn_P gn_run].
      eapply cnode_quiet_up; eauto.
    - reflexivity.
    - reflexivity.
    - reflexivity.
    - reflexivity.
    - exact Hlo.
    - intros se' H. rewrite Hs' in H. discriminate.
    - intros se H. rewrite Hs' in H. discriminate.
    - intros s0 Hs0 Hl0. cbn [n' gn_run] in Hs0. inversion Hs0; subst s0. rewrite Hr' in Hl0. discriminate.
    - intros w T' c kw rq k k0 [].
    - intros w T' c kw rq [].
    - intros w T' c kw rq [].
    - intros w T' c kw rq xc se [].
    - intros w T' c [].
    - intros T' c Hlv. cbn [n' gn_run image] in Hlv. unfold live in Hlv. rewrite Hd in Hlv.
      destruct (cv_live cfg Ps g C LL A V HI n T' c Hin) as [(kw & rq & H)|H]; [rewrite Hr; exact Hlv| |right; exact H].
      left. exists kw, rq. rewrite <- Hid. exact H.
  Qed.

  Theorem cinv_ack g C LL A V k g' : cinv cfg Ps g C LL A V ->
    cstep false [cfg] g (CAck k) = Some g' -> cinv cfg Ps g' C LL A V.
  Proof.
    intros HI Hstep. apply cstep_ack_inv in Hstep.
    destruct Hstep as (a & m & n & ld0 & s & Ha & Hm & Hf & Hfl & Hr & Hrole & Ht & Hout & ->).
    destruct (aq_term (am_req m) <? ar_term (rs_resp a)) eqn:Hst.
    - unfold ack_result. cbv zeta. rewrite Hst.
      apply (cinv_leader_quits g C LL A V (am_from m) n s (set_state s Follower) _ _ HI Hf Hr Hrole); try reflexivity.
      + repeat split.
      + repeat split.
      + intros i' Hne. apply find_lead_set_other, Hne.
    - eapply (cinv_ack_same cfg Ps HVn g C LL A V k _ a m n ld0 s); eauto.
  Qed.
End StepH.
