(* FileSnapF.v — the invariant between script ops (Inv) and its preservation by Create / Write. *)
From Coq Require Import List Arith NArith Bool Lia Permutation.
From RaftModel Require Import FileSnap FileSnapSpec.
From RaftProofs Require Import FileSnapA FileSnapB FileSnapC FileSnapD FileSnapE.
Import ListNotations.
Open Scope N_scope.

(* ---------------------------------------------------------------- sinks *)
Lemma find_sink_sid : forall l sid k, find_sink l sid = Some k -> k_sid k = sid.
Proof.
  induction l as [|k0 l IH]; simpl; intros sid k H; [discriminate|].
  destruct (N.eqb_spec (k_sid k0) sid) as [E|E]; [inversion H as [Hk]; rewrite <- Hk; exact E|eauto].
Qed.

Lemma find_sink_app : forall l k sid, find_sink (l ++ [k]) sid =
  match find_sink l sid with Some x => Some x | None => if k_sid k =? sid then Some k else None end.
Proof.
  induction l as [|k0 l IH]; simpl; intros k sid; [reflexivity|].
  destruct (k_sid k0 =? sid); [reflexivity|apply IH].
Qed.

Lemma find_sink_upd : forall l sid g s', (forall k, k_sid (g k) = k_sid k) ->
  find_sink (upd_sink l sid g) s' =
  match find_sink l s' with Some k => Some (if k_sid k =? sid then g k else k) | None => None end.
Proof.
  induction l as [|k0 l IH]; simpl; intros sid g s' Hg; [reflexivity|].
  destruct (N.eqb_spec (k_sid k0) sid) as [E|E].
  - rewrite Hg. destruct (N.eqb_spec (k_sid k0) s'); [|apply IH; exact Hg].
    rewrite (proj2 (N.eqb_eq _ _) E). reflexivity.
  - destruct (N.eqb_spec (k_sid k0) s'); [|apply IH; exact Hg].
    rewrite (proj2 (N.eqb_neq _ _) E). reflexivity.
Qed.

(* ---------------------------------------------------------------- Inv *)
Definition OpenDir (f : fs) (sid : N) : Prop :=
  exists d, In d f /\ d_sid d = sid /\ d_tmp d = true /\ exists y, d_state d = Some y /\ sf_c y = [].

Definition SinkOK (s : list sop) (h : list fsop) (f : fs) (k : sink) : Prop :=
  created_as s (k_sid k) = Some (k_term k, k_index k) /\
  if k_done k then ended s (k_sid k) <> None
  else ended s (k_sid k) = None /\ k_buf k = written s (k_sid k) /\
       ~ In (FRename (k_sid k)) h /\ OpenDir f (k_sid k).

Definition NoTouch (s : list sop) : Prop :=
  forall sid, ~ In sid (created s) -> ended s sid = None /\ written s sid = [].

Record Inv (retain : N) (s : list sop) (st : store) (h : list fsop) : Prop := mkInv {
  i_retain : st_retain st = retain;
  i_q : Q (N.to_nat retain) s h (st_fs st);
  i_allc : forall d, In d (st_fs st) -> d_tmp d = false -> Complete s d;
  i_sids : forall d, In d (st_fs st) -> In (d_sid d) (created s);
  i_sinks : forall sid, In sid (created s) ->
    exists k, find_sink (st_sinks st) sid = Some k /\ SinkOK s h (st_fs st) k;
  i_dom : forall sid k, find_sink (st_sinks st) sid = Some k -> In sid (created s);
  i_notouch : NoTouch s
}.

Lemma Inv_init : forall retain, Inv retain [] (mkStore retain [] []) [].
Proof.
  intros retain. constructor; simpl; try (intros; contradiction); try (intros; discriminate); auto.
  - constructor; simpl; try (intros; contradiction). constructor.
  - intros sid _. split; reflexivity.
Qed.

(* ---------------------------------------------------------------- one more script op *)
Definition sop_sid (o : sop) : N :=
  match o with SCreate s _ _ | SWrite s _ | SClose s | SCancel s => s end.

Lemma ended_snoc : forall s o sid, ended (s ++ [o]) sid =
  match ended s sid with Some b => Some b | None => ended [o] sid end.
Proof.
  intros. destruct (ended s sid) eqn:E; [eapply ended_app_some; eauto|apply ended_app_none; exact E].
Qed.

Lemma written_snoc : forall s o sid, written (s ++ [o]) sid =
  match ended s sid with Some _ => written s sid | None => written_aux [o] sid (written s sid) end.
Proof.
  intros. destruct (ended s sid) eqn:E; [eapply written_app_ended; eauto|].
  unfold written. apply written_aux_app_open. exact E.
Qed.

Lemma created_as_snoc : forall s o sid, created_as (s ++ [o]) sid =
  match created_as s sid with Some x => Some x | None => created_as [o] sid end.
Proof.
  intros. destruct (created_as s sid) eqn:E; [eapply created_as_app_some; eauto|apply created_as_app_none; exact E].
Qed.

Lemma ended_other : forall o sid, sop_sid o <> sid -> ended [o] sid = None.
Proof. intros [c t i|c b|c|c] sid H; simpl in *; try reflexivity; destruct (N.eqb_spec c sid); congruence. Qed.

Lemma written_other : forall o sid acc, sop_sid o <> sid -> written_aux [o] sid acc = acc.
Proof. intros [c t i|c b|c|c] sid acc H; simpl in *; try reflexivity; destruct (N.eqb_spec c sid); congruence. Qed.

Lemma NoTouch_snoc : forall s o, NoTouch s ->
  (match o with SCreate _ _ _ => True | _ => In (sop_sid o) (created s) end) -> NoTouch (s ++ [o]).
Proof.
  intros s o H Ho sid Hn. rewrite created_app in Hn.
  assert (Hn' : ~ In sid (created s)) by (intro; apply Hn; apply in_or_app; left; assumption).
  destruct (H sid Hn') as [He Hw]. rewrite ended_snoc, written_snoc, He, Hw.
  assert (Hne : sop_sid o <> sid).
  { destruct o; simpl in *; try (intro E; subst; contradiction).
    intro E; subst. apply Hn. apply in_or_app. right. left. reflexivity. }
  split; [apply ended_other|apply written_other]; exact Hne.
Qed.

Lemma SinkOK_frame : forall s h f k o h' f', SinkOK s h f k -> sop_sid o <> k_sid k ->
  (~ In (FRename (k_sid k)) h -> ~ In (FRename (k_sid k)) h') ->
  (OpenDir f (k_sid k) -> OpenDir f' (k_sid k)) -> SinkOK (s ++ [o]) h' f' k.
Proof.
  intros s h f k o h' f' [Hc Hd] Hne Hh Hf. split.
  - eapply created_as_app_some; eauto.
  - rewrite ended_snoc, written_snoc. destruct (k_done k).
    + destruct (ended s (k_sid k)); [discriminate|contradiction].
    + destruct Hd as [He [Hb [Hr Ho]]]. rewrite He, ended_other, written_other; auto.
Qed.

Lemma in_created_snoc : forall s o sid, In sid (created s) -> In sid (created (s ++ [o])).
Proof. intros. rewrite created_app. apply in_or_app. left; assumption. Qed.

Lemma Inv_write : forall sfirst retain s st h sid b, Inv retain s st h -> In sid (created s) ->
  Inv retain (s ++ [SWrite sid b]) (fst (exec_op sfirst st (SWrite sid b))) (h ++ snd (exec_op sfirst st (SWrite sid b))).
Proof.
  intros sfirst retain s st h sid b HI Hin. simpl. rewrite app_nil_r.
  set (g := fun k => if k_done k then k else mkSink (k_sid k) (k_term k) (k_index k) (k_buf k ++ b) false).
  assert (Hg : forall k, k_sid (g k) = k_sid k) by (intros k; unfold g; destruct (k_done k); reflexivity).
  constructor; simpl.
  - apply (i_retain _ _ _ _ HI).
  - apply Q_mono. apply (i_q _ _ _ _ HI).
  - intros d Hd Ht. apply Complete_mono. apply (i_allc _ _ _ _ HI); assumption.
  - intros d Hd. apply in_created_snoc. apply (i_sids _ _ _ _ HI); assumption.
  - intros sid' Hin'. rewrite created_app in Hin'. simpl in Hin'. rewrite app_nil_r in Hin'.
    destruct (i_sinks _ _ _ _ HI sid' Hin') as [k [Hf Hok]].
    rewrite (find_sink_upd _ _ g _ Hg), Hf. eexists. split; [reflexivity|].
    assert (Hks := find_sink_sid _ _ _ Hf).
    destruct (N.eqb_spec (k_sid k) sid) as [E|E].
    + destruct Hok as [Hc Hd]. unfold g. destruct (k_done k) eqn:Ed.
      * split; [eapply created_as_app_some; eauto|]. rewrite Ed, ended_snoc.
        destruct (ended s (k_sid k)); [discriminate|contradiction].
      * destruct Hd as [He [Hb [Hr Ho]]]. split; simpl; [eapply created_as_app_some; eauto|].
        rewrite ended_snoc, written_snoc, He. simpl. rewrite E, N.eqb_refl.
        repeat split; try (rewrite <- E; assumption). rewrite Hb, E. reflexivity.
    + apply SinkOK_frame with (h := h) (f := st_fs st); auto.
  - intros sid' k Hf. rewrite (find_sink_upd _ _ g _ Hg) in Hf.
    destruct (find_sink (st_sinks st) sid') eqn:E; [|discriminate].
    apply in_created_snoc. eapply (i_dom _ _ _ _ HI); eauto.
  - apply NoTouch_snoc; [apply (i_notouch _ _ _ _ HI)|exact Hin].
Qed.

(* ---------------------------------------------------------------- Create *)
Definition create_ops (sid t i : N) : list fsop :=
  [FMkdir sid; FCreateMeta sid; FWriteMeta sid (mkMV 1 t i None); FSyncMeta sid; FCreateState sid].

Lemma upd_app_fresh : forall f d sid g, (forall d, In d f -> d_sid d <> sid) ->
  upd (f ++ [d]) sid g = f ++ [if d_sid d =? sid then g d else d].
Proof.
  intros f d sid g H. unfold upd. rewrite map_app. simpl. f_equal.
  rewrite <- (map_id f) at 2. apply map_ext_in. intros a Ha.
  destruct (N.eqb_spec (d_sid a) sid); [exfalso; eapply H; eauto|reflexivity].
Qed.

Lemma create_fs : forall f sid t i, (forall d, In d f -> d_sid d <> sid) ->
  fs_run f (create_ops sid t i) =
  f ++ [mkDir sid true (Some (mkMF (MFull (mkMV 1 t i None)) (MFull (mkMV 1 t i None)) false)) (Some (mkSF [] [] true))].
Proof.
  intros f sid t i H. unfold create_ops, fs_run. simpl.
  repeat (rewrite (upd_app_fresh f _ sid _ H); simpl; rewrite N.eqb_refl; simpl). reflexivity.
Qed.

Lemma fresh_norename : forall retain s st h sid, Inv retain s st h -> ~ In sid (created s) -> ~ In (FRename sid) h.
Proof.
  intros retain s st h sid HI Hn Hin.
  destruct (q_closed _ _ _ _ (i_q _ _ _ _ HI) sid Hin) as [_ [t [i [Hc _]]]].
  apply Hn. apply created_as_in. eauto.
Qed.

Lemma QP_create : forall retain s st h sid t i, Inv retain s st h -> ~ In sid (created s) ->
  QP (N.to_nat retain) (s ++ [SCreate sid t i]) h (st_fs st) (create_ops sid t i).
Proof.
  intros retain s st h sid t i HI Hn.
  assert (HQ : Q (N.to_nat retain) (s ++ [SCreate sid t i]) h (st_fs st)) by (apply Q_mono, (i_q _ _ _ _ HI)).
  assert (Hfresh : forall d, In d (st_fs st) -> d_sid d <> sid).
  { intros d Hd E. apply Hn. rewrite <- E. apply (i_sids _ _ _ _ HI). exact Hd. }
  unfold create_ops. apply QP_cons; [exact HQ|].
  apply (QP_tmp _ _ sid).
  - apply Q_mkdir_step; assumption.
  - intro Hi. apply in_snoc_ne in Hi; [|discriminate]. eapply fresh_norename; eauto.
  - intros o Ho. simpl in Ho.
    repeat (destruct Ho as [Ho|Ho]; [subst o; repeat split; intros; discriminate|]). contradiction.
Qed.

Lemma Inv_create : forall sfirst retain s st h sid t i, Inv retain s st h -> ~ In sid (created s) ->
  Inv retain (s ++ [SCreate sid t i]) (fst (exec_op sfirst st (SCreate sid t i)))
      (h ++ snd (exec_op sfirst st (SCreate sid t i))).
Proof.
  intros sfirst retain s st h sid t i HI Hn. unfold exec_op. cbn [fst snd].
  change [FMkdir sid; FCreateMeta sid; FWriteMeta sid (mkMV 1 t i None); FSyncMeta sid; FCreateState sid]
    with (create_ops sid t i).
  assert (Hfresh : forall d, In d (st_fs st) -> d_sid d <> sid).
  { intros d Hd E. apply Hn. rewrite <- E. apply (i_sids _ _ _ _ HI). exact Hd. }
  assert (Hnr : forall x, ~ In (FRename x) h -> ~ In (FRename x) (h ++ create_ops sid t i)).
  { intros x Hx Hi. apply in_app_or in Hi. destruct Hi as [Hi|Hi]; [contradiction|].
    simpl in Hi. repeat (destruct Hi as [Hi|Hi]; [discriminate|]). contradiction. }
  assert (HN := i_notouch _ _ _ _ HI sid Hn). destruct HN as [HNe HNw].
  assert (Hca : created_as s sid = None).
  { destruct (created_as s sid) eqn:E; [|reflexivity]. exfalso. apply Hn. apply created_as_in. eauto. }
  constructor; cbn [st_fs st_retain st_sinks].
  - apply (i_retain _ _ _ _ HI).
  - apply QP_end. apply QP_create; assumption.
  - rewrite create_fs by exact Hfresh. intros d Hd Ht.
    apply in_app_or in Hd. destruct Hd as [Hd|[<-|[]]]; [|discriminate].
    apply Complete_mono. apply (i_allc _ _ _ _ HI); assumption.
  - rewrite create_fs by exact Hfresh. intros d Hd. rewrite created_app. apply in_or_app.
    apply in_app_or in Hd. destruct Hd as [Hd|[<-|[]]]; [left|right; left; reflexivity].
    apply (i_sids _ _ _ _ HI); assumption.
  - rewrite create_fs by exact Hfresh. intros sid' Hin'. rewrite created_app in Hin'.
    rewrite find_sink_app. apply in_app_or in Hin'. destruct Hin' as [Hin'|[<-|[]]].
    + destruct (i_sinks _ _ _ _ HI sid' Hin') as [k [Hf Hok]]. rewrite Hf. exists k. split; [reflexivity|].
      assert (Hks := find_sink_sid _ _ _ Hf).
      eapply SinkOK_frame; eauto.
      * simpl. intro E. apply Hn. rewrite E, Hks. exact Hin'.
      * intros [d [Hd Hrest]]. exists d. split; [apply in_or_app; left; exact Hd|exact Hrest].
    + destruct (find_sink (st_sinks st) sid) eqn:Ef.
      { exfalso. apply Hn. eapply (i_dom _ _ _ _ HI); eauto. }
      simpl. rewrite N.eqb_refl. eexists. split; [reflexivity|]. split; simpl.
      * rewrite created_as_snoc, Hca. simpl. rewrite N.eqb_refl. reflexivity.
      * rewrite ended_snoc, written_snoc, HNe, HNw. simpl. repeat split; auto.
        { apply Hnr. eapply fresh_norename; eauto. }
        { eexists. split; [apply in_or_app; right; left; reflexivity|]. simpl. repeat split; eauto. }
  - intros sid' k Hf. rewrite find_sink_app in Hf. rewrite created_app. apply in_or_app.
    destruct (find_sink (st_sinks st) sid') eqn:Ef.
    + left. eapply (i_dom _ _ _ _ HI); eauto.
    + right. simpl in Hf. destruct (N.eqb_spec sid sid'); [left; assumption|discriminate].
  - apply NoTouch_snoc; [apply (i_notouch _ _ _ _ HI)|exact I].
Qed.
