(* ClusterCommitStepO.v — LDeliver: a request in flight is executed by its target.  Part 1: what the
   invariant needs about the target afterwards. *)
From Coq Require Import List NArith Bool Lia.
From stdpp Require Import gmap.
From RaftModel Require Import Base Config Compaction Commitment Node NodeCodec Candidate Leader Replicate Cluster ClusterLog ClusterCommit.
From RaftProofs Require Import ConfigProofs CommitmentProofs VoteProofs AppendProofs ClusterProofs
  ClusterLogSpec ClusterLogChain ClusterLogNode ClusterLogCut ClusterLogVote ClusterLogAppend ClusterLogLeader ClusterLogInv ClusterLogSteps
  ClusterCommitSpec ClusterCommitLog ClusterCommitChain ClusterCommitAE ClusterCommitAE2 ClusterCommitAE3 ClusterCommitNode ClusterCommitNode2
  ClusterCommitGhost ClusterCommitInv ClusterCommitFinal ClusterCommitUpd ClusterCommitStepA ClusterCommitStepN.
Open Scope N_scope.

Section Deliver.
  Variable cfg : config.
  Variable Ps : list params.
  Hypothesis HVn : NoDup (voters cfg).

  Variables (g : cgstate) (C : chain) (LL : LLt) (A : At) (V : Vt).
  Hypothesis HI : cinv cfg Ps g C LL A V.
  Variables (nj : gnode) (s : nstate) (m : amsg).
  Hypothesis Hin : In nj (cnodes g).
  Hypothesis Hr : gn_run nj = Up s.
  Hypothesis Hm : In m (lg_msgs (cg_l g)).
  Hypothesis Hto : am_to m = gn_id nj.

  Let a := am_req m.
  Let Hl := cv_l cfg Ps g C LL A V HI.
  Let Hci := cv_ci cfg Ps g C LL A V HI.
  Let HC := ci_ok C LL Hci.

  Lemma msg_facts : mchain C (aq_prevIdx a, aq_prevTerm a) (aq_entries a) /\
    (forall e, In e (aq_entries a) -> e_term e <= aq_term a) /\ (forall e, In e (aq_entries a) -> dec_ok cfg Ps e) /\
    contig (aq_prevIdx a) (aq_entries a) /\ am_from m <> am_to m /\
    exists tl2, In (aq_term a, am_from m, tl2) LL.
  Proof.
    destruct (li_msgs [cfg] _ C Hl m Hm) as (M1 & M2 & M3 & M4). destruct (cv_msg cfg Ps g C LL A V HI m Hm) as (N1 & _).
    split; [exact M3|]. split; [exact M4|]. split; [intros e He; apply (N1 e He)|].
    split; [apply (mchain_contig C _ _ HC M3)|]. split; [exact M1|]. apply (cv_ll cfg Ps g C LL A V HI). exact M2.
  Qed.

  (* the (term, log) the target ends with, whether its handler returned or the process died in it *)
  Lemma deliver_reach cut fs r' ob out : step_full (gn_P nj) (Up s) (NAppend a) cut fs = (r', ob, out) ->
    cnode cfg Ps (gn_P nj) r' /\
    exists t, ae_reach s a (tlp (image r')) t /\
      match r' with
      | Up s' => (v_commit s' = 0 /\ v_role s' = Follower /\ ob = OLost) \/
                 (exists r tr fs', append_entries (gn_P nj) s fs a = Done s' r tr fs' /\ ob = OAppend a r /\ v_lastLogIdx s' = t)
      | Down _ => ob = OLost
      end.
  Proof.
    intros Hsf. destruct msg_facts as (M3 & M4 & Md & _).
    destruct (node_log_in cfg Ps g C LL A V HI nj s Hin Hr) as [Hnl Hw].
    pose proof (cv_node cfg Ps g C LL A V HI nj Hin) as Hcn. rewrite Hr in Hcn.
    apply (deliver_step_cnode cfg Ps C (gn_P nj) s a cut fs r' ob out HC Hw Hnl Hcn M3 M4 Md Hsf).
  Qed.

  (* an accepted request: the target holds the last key the request vouches for *)
  Lemma accepted_holds_last fs s' r tr fs' : append_entries (gn_P nj) s fs a = Done s' r tr fs' -> ar_success r = true ->
    nlog_up C s' -> fst (last_key_of a) = 0 \/ holds (d_log s') (last_key_of a).
  Proof.
    intros Hdone Hsucc Hnl'. destruct msg_facts as (M3 & M4 & Md & Mc & _).
    destruct (node_log_in cfg Ps g C LL A V HI nj s Hin Hr) as [Hnl Hw].
    pose proof (cv_node cfg Ps g C LL A V HI nj Hin) as Hcn. rewrite Hr in Hcn. destruct Hcn as (_ & _ & (_ & _ & Htop & _)).
    destruct (append_entries_log (gn_P nj) s fs a s' r tr fs' (proj1 Htop) Mc Hdone) as [Hfail Hs]. destruct (Hs Hsucc) as [_ Hmatch].
    unfold last_key_of. destruct (aq_entries a) as [|e0 er] eqn:Ees.
    - (* no entries: the previous entry matched and nothing below it moves *)
      destruct (N.eq_dec (aq_prevIdx a) 0) as [E0|Hpos]; [left; exact E0|right].
      assert (Hold : holds (d_log s) (aq_prevIdx a, aq_prevTerm a)).
      { destruct (append_success_prev (gn_P nj) s fs a s' r tr fs' Hdone Hsucc ltac:(lia)) as [[E1 E2]|[[E1 E2]|(pe & Hpe & Ept)]].
        - rewrite (last_entry_topk_s s) in E1, E2 by apply Hnl.
          destruct (topk_entry_s C s HC Hnl Htop) as [[_ Ez]|(x & Hx & Ex)]; [simpl in E1; lia|].
          exists x. simpl. rewrite E1. split; [exact Hx|]. rewrite Ex. unfold topk. simpl in E1, E2. rewrite <- E1, <- E2. reflexivity.
        - destruct Hnl as (_ & _ & Hsi & _). lia.
        - exists pe. simpl. split; [exact Hpe|]. destruct Hnl as (_ & Li & _). destruct (Li _ pe Hpe) as (I & _). unfold key. rewrite I, Ept. reflexivity. }
      destruct Hold as (x & Hx & Ex). exists x. split; [|exact Ex]. rewrite (lf_below _ _ _ _ Hfail); [exact Hx|]. simpl. lia.
    - right. rewrite <- Ees in *. assert (Hlast : In (last_of (aq_entries a)) (aq_entries a)) by (apply last_in; rewrite Ees; discriminate).
      destruct (Hmatch _ Hlast) as (e' & He' & Ht' & _). exists e'. split.
      + unfold key at 1. simpl. exact He'.
      + destruct Hnl' as (_ & Li & _). destruct (Li _ e' He') as (I & _). unfold key. rewrite I, Ht'. reflexivity.
  Qed.

  (* the node invariant of the Log Matching proof for the target afterwards *)
  Lemma deliver_nlog cut fs r' ob out : step_full (gn_P nj) (Up s) (NAppend a) cut fs = (r', ob, out) ->
    nlog C r' /\ (forall s', r' = Up s' -> v_role s' = Leader -> exists r tr fs', append_entries (gn_P nj) s fs a = Done s' r tr fs' /\ s' = s).
  Proof.
    intros Hsf. destruct msg_facts as (M3 & M4 & Md & Mc & Mne & tl2 & Hl2).
    destruct (node_log_in cfg Ps g C LL A V HI nj s Hin Hr) as [Hnl Hw].
    assert (Hnot : v_role s = Leader -> aq_term a <> v_term s).
    { intros Hrole Ht. destruct (li_nodes [cfg] _ C Hl nj Hin) as [_ Hlo]. destruct (Hlo s Hr Hrole) as (L1 & _).
      destruct (li_msgs [cfg] _ C Hl m Hm) as (_ & M2 & _). fold a in M2. rewrite Ht in M2. apply Mne. rewrite Hto.
      apply (leaders_fun [cfg] _ _ _ _ (quorums_intersect_one' cfg HVn) (li_g [cfg] _ C Hl) M2 L1). }
    destruct (append_step C (gn_P nj) s a cut fs r' ob out HC Hw Hnl M3 M4 Hnot Hsf) as [Hn' _]. split; [exact Hn'|].
    intros s' -> Hrole'. destruct (deliver_reach cut fs _ ob out Hsf) as (_ & t & _ & [(_ & Hf & _)|(r & tr & fs' & Hd & _)]).
    - rewrite Hf in Hrole'. discriminate.
    - exists r, tr, fs'. split; [exact Hd|]. destruct (append_entries_role _ _ _ _ _ _ _ _ Hd Hrole') as [E|[Hl0 Ht]]; [exact E|].
      exfalso. apply (Hnot Hl0 Ht).
  Qed.

  (* the commit knowledge of the target afterwards *)
  Lemma deliver_kc cut fs r' ob out s' : step_full (gn_P nj) (Up s) (NAppend a) cut fs = (r', ob, out) -> r' = Up s' ->
    v_commit s' <= v_lastLogIdx s' /\ forall i e, d_log s' !! i = Some e -> i <= v_commit s' -> CK cfg C LL A (d_term s') (key e).
  Proof.
    intros Hsf ->. destruct (deliver_reach cut fs _ ob out Hsf) as (Hcn' & t & Hreach & Hcase).
    destruct (deliver_nlog cut fs _ ob out Hsf) as [Hnl' _]. simpl in Hnl'.
    destruct msg_facts as (M3 & M4 & Md & Mc & Mne & tl2 & Hl2).
    pose proof (cv_node cfg Ps g C LL A V HI nj Hin) as Hcn. rewrite Hr in Hcn. destruct Hcn as (_ & HP & Hup).
    destruct (node_log_in cfg Ps g C LL A V HI nj s Hin Hr) as [Hnl Hw].
    destruct (cv_kc cfg Ps g C LL A V HI nj s Hin Hr) as [K1 K2].
    pose proof Hnl' as (_ & Li' & Hsi' & _ & _ & Lb').
    destruct Hcase as [(Hc0 & _)|(r & tr & fs' & Hdone & _ & Ht)].
    { rewrite Hc0. split; [lia|]. intros i e He Hi. exfalso. pose proof (log_in_pos C _ _ i e HC Li' He). lia. }
    destruct Hup as (Hlc & Hdec & Htop & Hlat & Hcmt & Hac).
    assert (Hdp : forall e, In e (aq_entries a) -> e_ty e = LogConfiguration -> p_decode (gn_P nj) (e_data e) = cfg).
    { intros e He Hty. apply (Md e He Hty _ HP). }
    destruct (append_done_vol cfg (gn_P nj) s fs a s' r tr fs' Hw (proj1 Htop) Mc Hdp Hlat Hcmt Hdone)
      as [(_ & -> & _)|(Hge & Hvt' & Hdt' & Hrt & _ & _ & _ & _ & Hcommit)]; [split; [exact K1|exact K2]|].
    destruct Hw as [_ Hvd].
    destruct (reach_facts cfg Ps s a _ _ (conj Hlc (conj Hdec (conj Htop (conj Hlat (conj Hcmt Hac))))) Mc Md Hreach)
      as (_ & _ & Htop' & Hfail & _). cbn [tlp snd image] in Htop', Hfail. rewrite <- Ht in Htop'.
    destruct Hcommit as [[Ec Ea]|(Hsucc & Hlt & Hlc' & Hln & Hli & _)].
    - (* the commit index did not move: nothing at or below it was touched *)
      assert (Hkept : forall i x, d_log s !! i = Some x -> i <= v_commit s -> d_log s' !! i = Some x).
      { intros i x Hx Hi. apply (kept_committed cfg Ps HVn g C LL A V HI nj s m (d_log s') (am_from m) tl2 Hin Hr Hm Hl2); auto.
        change (d_term s <= aq_term a). lia. }
      rewrite Ec. split.
      + destruct (N.eq_dec (v_commit s) 0) as [E0|Hpos]; [lia|].
        destruct (lcontig_down _ Hlc (v_commit s) (v_lastLogIdx s) (proj2 Htop ltac:(lia)) ltac:(lia) K1) as [x Hx].
        pose proof (Hkept _ x Hx (N.le_refl _)) as Hx'.
        destruct (N.le_gt_cases (v_commit s) (v_lastLogIdx s')) as [|Hgt]; [assumption|]. rewrite (proj1 Htop' _ Hgt) in Hx'. discriminate.
      + intros i e He Hi. pose proof (log_in_pos C _ _ i e HC Li' He) as Hpos.
        destruct (lcontig_down _ Hlc i (v_lastLogIdx s) (proj2 Htop ltac:(lia)) Hpos ltac:(lia)) as [x Hx].
        pose proof (Hkept _ x Hx Hi) as Hx'. rewrite He in Hx'. inversion Hx'; subst x.
        eapply (CK_mono cfg); [|apply (K2 i e Hx Hi)]. lia.
    - (* the commit index follows the request: at most the last index the request vouches for *)
      split; [unfold last_index in Hli; lia|]. intros i e He Hi. rewrite Hdt'.
      destruct (cv_msg cfg Ps g C LL A V HI m Hm) as (_ & _ & M3c). fold a in M3c.
      pose proof (log_in_pos C _ _ i e HC Li' He) as Hpos. destruct (Li' i e He) as (Ie & _).
      apply M3c; [|unfold key; simpl; lia|unfold key; simpl; lia].
      destruct (accepted_holds_last fs s' r tr fs' Hdone Hsucc Hnl') as [E0|Hh].
      + exfalso. unfold last_new in Hln. unfold last_key_of in E0. destruct (aq_entries a); simpl in E0; [lia|].
        unfold key in E0. simpl in E0. lia.
      + apply (holds_below C (d_log s') (d_term s') _ _ i e HC Li' Lb' Hh He).
        unfold last_new in Hln. unfold last_key_of. destruct (aq_entries a); simpl; [lia|unfold key; simpl; lia].
  Qed.

  (* what the target accepted before *)
  Lemma deliver_av cut fs r' ob out k k0 : step_full (gn_P nj) (Up s) (NAppend a) cut fs = (r', ob, out) ->
    In (gn_id nj, k) A -> anc C k0 k -> 1 <= fst k0 ->
    holds (d_log (image r')) k0 \/
    exists T2 c2 tl2, In (T2, c2, tl2) LL /\ snd k < T2 /\ T2 <= d_term (image r') /\ ~ anc C k0 tl2.
  Proof.
    intros Hsf Ha Hanc Hpos. destruct (deliver_reach cut fs _ ob out Hsf) as (_ & t & Hreach & _).
    destruct msg_facts as (M3 & M4 & Md & Mc & Mne & tl2 & Hl2).
    pose proof (cv_node cfg Ps g C LL A V HI nj Hin) as Hcn. rewrite Hr in Hcn. destruct Hcn as (_ & _ & Hup).
    destruct (reach_facts cfg Ps s a _ t Hup Mc Md Hreach) as (_ & _ & _ & Hfail & Hdt & _). cbn [tlp fst snd] in Hfail, Hdt.
    destruct (cv_av cfg Ps g C LL A V HI _ k nj k0 Ha Hin eq_refl Hanc Hpos) as [Hh|(T2 & c2 & tl2' & H1 & H2 & H3 & H4)].
    - unfold logn in Hh. rewrite Hr in Hh. simpl in Hh.
      destruct Hreach as [[E _]|(Hle & Ht & _)].
      + left. unfold tlp in E. inversion E as [[E1 E2]]. rewrite E2. exact Hh.
      + cbn [tlp fst] in Ht.
        destruct (kept_accepted cfg Ps g C LL A V HI nj s m (d_log (image r')) (am_from m) tl2 Hin Hr Hm Hl2 Hle Hfail k k0 Ha Hanc Hpos Hh)
          as [H|[H5 H6]]; [left; exact H|right].
        exists (aq_term a), (am_from m), tl2. split; [exact Hl2|]. split; [exact H5|]. split; [rewrite Ht; lia|exact H6].
    - right. exists T2, c2, tl2'. split; [exact H1|]. split; [exact H2|]. split; [|exact H4].
      unfold dtn in H3. rewrite Hr in H3. simpl in H3. lia.
  Qed.

  (* a new acceptance: the target holds every ancestor of the request's last entry *)
  Lemma deliver_holds_new fs s' r tr fs' k0 : append_entries (gn_P nj) s fs a = Done s' r tr fs' -> ar_success r = true ->
    nlog_up C s' -> lcontig (d_log s') -> aq_entries a <> [] ->
    anc C k0 (key (last_of (aq_entries a))) -> 1 <= fst k0 -> holds (d_log s') k0.
  Proof.
    intros Hdone Hsucc Hnl' Hlc' Hne Hanc Hpos.
    destruct (accepted_holds_last fs s' r tr fs' Hdone Hsucc Hnl') as [E0|Hh].
    - exfalso. unfold last_key_of in E0. destruct (aq_entries a) as [|e0 er] eqn:Ees; [congruence|].
      destruct msg_facts as (M3 & _). fold a in M3. rewrite Ees in M3.
      destruct (mchain_in C _ _ M3 (last_of (e0 :: er))) as [q Hq]; [apply last_in; discriminate|].
      destruct (co_idx C HC _ _ Hq) as [Hi _]. unfold key in E0. simpl in E0. lia.
    - unfold last_key_of in Hh. destruct (aq_entries a) as [|e0 er] eqn:Ees; [congruence|].
      pose proof Hnl' as (_ & Li & _ & _ & _ & Lb).
      apply (holds_anc C (d_log s') (d_term s') _ _ k0 HC Li Lb Hlc' Hh Hanc Hpos).
  Qed.
End Deliver.
