(* ClusterLogSnapAppend.v — stage 2: the follower's appendEntries handler with the snapshot
   boundary, the staged / persisted commit index, the commit index and processLogs. *)
From Coq Require Import List NArith Bool Lia.
From stdpp Require Import gmap.
From RaftModel Require Import Base Config Compaction Node NodeCodec.
From RaftProofs Require Import VoteProofs AdvLeaderProofs AppendProofs RecoverProofs
  ClusterLogSpec ClusterLogChain ClusterLogNode ClusterLogCut ClusterLogVote ClusterLogAppend ClusterLogInit
  ClusterLogSnapSpec ClusterLogSnapNode ClusterLogSnapState ClusterLogSnapBoot ClusterLogSnapCut ClusterLogSnapVote.
Open Scope N_scope.

Lemma first_conflict_witness m es : forall c, first_conflict m es = Some c ->
  exists e se, In e es /\ e_idx e = c /\ m !! c = Some se /\ e_term e <> e_term se.
Proof.
  induction es as [|e r IH]; intros c H; simpl in H; [discriminate|].
  destruct (m !! e_idx e) as [se|] eqn:Em.
  - destruct (N.eqb_spec (e_term e) (e_term se)) as [Et|Et].
    + destruct (IH c H) as (e' & se' & A & B). exists e', se'. split; [right; exact A|exact B].
    + inversion H; subst c. exists e, se. split; [left; reflexivity|auto].
  - destruct (IH c H) as (e' & se' & A & B). exists e', se'. split; [right; exact A|exact B].
Qed.

Section SnapAppend.
  Variable base : list entry.
  Variable c0 : N.
  Hypothesis Hh : hist_ok (0, 0) base.

  Lemma sup_bound C s i x : cb_ok base c0 C -> sup base c0 C s -> d_log s !! i = Some x -> i <= v_lastLogIdx s.
  Proof.
    intros HC Hn Hl. destruct (su_login base c0 C s Hn i x Hl) as (Hk & _).
    destruct (anc_le C _ _ (cb_chain base c0 C HC) (su_below base c0 C s Hn i x Hl)) as [Hle _].
    unfold key in Hle. simpl in Hle. lia.
  Qed.

  Lemma sup_cache_ok C s : cb_ok base c0 C -> sup base c0 C s -> cache_ok s.
  Proof.
    intros HC Hn i Hi. destruct (d_log s !! i) as [x|] eqn:E; [|reflexivity].
    pose proof (sup_bound C s i x HC Hn E). lia.
  Qed.

  (* a conflict never lies in the committed prefix *)
  Lemma conflict_above C s es p c : cb_ok base c0 C -> sup base c0 C s -> mchain C p es ->
    first_conflict (d_log s) es = Some c -> c0 < c.
  Proof.
    intros HC Hn Hm Hf. destruct (first_conflict_witness _ _ _ Hf) as (e & se & He & Hi & Hse & Hne).
    destruct (N.lt_ge_cases c0 c) as [H|H]; [exact H|]. exfalso. apply Hne.
    destruct (mchain_in C p es Hm e He) as [q Hq].
    destruct (su_login base c0 C s Hn c se Hse) as (Hk & (q' & Hq') & _).
    pose proof (cb_low base c0 C HC e q Hq) as B1. pose proof (cb_low base c0 C HC se q' Hq') as B2.
    destruct (base_chain_fun _ _ Hh e q se q' (B1 ltac:(lia)) (B2 ltac:(lia))) as [-> _]; [lia|reflexivity].
  Qed.

  (* ---------------------------------------------------------------- the entry before the first new one *)
  (* the first new entry was created after pred_key (the cached last-log right after a successful
     truncation), and what the store holds below the first new entry is an ancestor of pred_key *)
  Lemma pred_key_good2 C s2 a dup n0 nr :
    cb_ok base c0 C -> sup base c0 C s2 -> prev_check s2 a = Some true ->
    mchain C (aq_prevIdx a, aq_prevTerm a) (dup ++ n0 :: nr) ->
    (forall e, In e dup -> exists se, d_log s2 !! e_idx e = Some se /\ e_term se = e_term e) ->
    In (n0, pred_key a dup) C /\
    forall i x, d_log s2 !! i = Some x -> i < e_idx n0 -> anc C (key x) (pred_key a dup).
  Proof.
    intros HCB Hn Hpc Hm Hdup. unfold pred_key. pose proof (cb_chain base c0 C HCB) as HC.
    pose proof (su_login base c0 C s2 Hn) as Hin. pose proof (su_below base c0 C s2 Hn) as Hbel.
    destruct (mchain_app C _ dup (n0 :: nr) Hm) as [Hmd Hmn].
    set (q := match dup with [] => (aq_prevIdx a, aq_prevTerm a) | _ => key (last dup (mkE 0 0 0 0)) end) in *.
    assert (Hn0 : In (n0, q) C) by apply Hmn.
    split; [exact Hn0|].
    destruct (co_idx C HC n0 q Hn0) as [Hc0 _].
    intros i x Hl Hi. destruct (Hin i x Hl) as (Hkx & _).
      assert (Hvia : forall se, d_log s2 !! fst q = Some se -> key se = q -> anc C (key x) q).
      { intros se Hse Hq. rewrite <- Hq.
        apply (anc_linear C (key x) (key se) _ HC (Hbel i x Hl) (Hbel _ se Hse)).
        rewrite Hq. unfold key. simpl. lia. }
      assert (Hsnap : 0 < v_lastSnapIdx s2 -> q = (v_lastSnapIdx s2, v_lastSnapTerm s2) -> anc C (key x) q).
      { intros Hpos Hq. destruct (su_snapkey base c0 C s2 Hn) as [E|K]; [lia|].
        rewrite Hq. apply (low_entry_anc base c0 Hh C _ _ i x _ HCB Hin Hl K). simpl. rewrite Hq in Hc0. simpl in Hc0. lia. }
      destruct dup as [|d0 dr] eqn:Edup.
      - subst q. simpl in Hc0. unfold prev_check in Hpc.
        destruct (N.ltb_spec 0 (aq_prevIdx a)) as [Hpos|Hz].
        2:{ exfalso. pose proof (log_in_pos C _ _ i x HC Hin Hl). lia. }
        unfold last_entry in Hpc.
        destruct (N.leb_spec (v_lastSnapIdx s2) (v_lastLogIdx s2)) as [Hsl|Hsl].
        + destruct (N.eqb_spec (aq_prevIdx a) (v_lastLogIdx s2)) as [E1|N1].
          * inversion Hpc as [E2]. apply N.eqb_eq in E2. rewrite E1, E2. apply (Hbel i x Hl).
          * destruct (N.eqb_spec (aq_prevIdx a) (v_lastSnapIdx s2)) as [E0|N0].
            -- inversion Hpc as [E2]. apply N.eqb_eq in E2. apply Hsnap; [lia|]. rewrite E0, E2. reflexivity.
            -- destruct (d_log s2 !! aq_prevIdx a) as [pe|] eqn:Epe; [|discriminate].
               inversion Hpc as [E2]. apply N.eqb_eq in E2. apply (Hvia pe); [exact Epe|].
               destruct (Hin _ pe Epe) as (Hkp & _). unfold key. rewrite Hkp, E2. reflexivity.
        + destruct (N.eqb_spec (aq_prevIdx a) (v_lastSnapIdx s2)) as [E0|N0].
          * inversion Hpc as [E2]. apply N.eqb_eq in E2. apply Hsnap; [lia|]. rewrite E0, E2. reflexivity.
          * destruct (d_log s2 !! aq_prevIdx a) as [pe|] eqn:Epe; [|discriminate].
            inversion Hpc as [E2]. apply N.eqb_eq in E2. apply (Hvia pe); [exact Epe|].
            destruct (Hin _ pe Epe) as (Hkp & _). unfold key. rewrite Hkp, E2. reflexivity.
      - assert (Hd : In (last (d0 :: dr) (mkE 0 0 0 0)) dup) by (rewrite Edup; apply last_in; discriminate).
        rewrite Edup in Hd. destruct (Hdup _ Hd) as (se & Hse & Hts).
        destruct (Hin _ se Hse) as (Hks & _).
        apply (Hvia se); [exact Hse|]. subst q. unfold key. rewrite Hks, Hts. reflexivity.
  Qed.

  (* ---------------------------------------------------------------- the log after truncate + store *)
  Lemma final_log_good2 C s2 a dup news m3 :
    cb_ok base c0 C -> sup base c0 C s2 -> prev_check s2 a = Some true ->
    mchain C (aq_prevIdx a, aq_prevTerm a) (dup ++ news) -> news <> [] ->
    (forall e, In e dup -> exists se, d_log s2 !! e_idx e = Some se /\ e_term se = e_term e) ->
    (forall e, In e news -> e_term e <= d_term s2) ->
    (forall i x, m3 !! i = Some x -> d_log s2 !! i = Some x /\ i < e_idx (hd (mkE 0 0 0 0) news)) ->
    log_in C (log_store m3 news) (d_term s2) /\ log_below C (log_store m3 news) (key (last_of news)).
  Proof.
    intros HCB Hn Hpc Hm Hne Hdup Hterm Hm3. pose proof (cb_chain base c0 C HCB) as HC.
    pose proof (su_login base c0 C s2 Hn) as Hin. pose proof (su_below base c0 C s2 Hn) as Hbel.
    destruct (mchain_app C _ dup news Hm) as [Hmd Hmn].
    set (q := match dup with [] => (aq_prevIdx a, aq_prevTerm a) | _ => key (last dup (mkE 0 0 0 0)) end) in *.
    destruct news as [|n0 nr]; [congruence|]. clear Hne.
    assert (Hn0 : In (n0, q) C) by apply Hmn.
    destruct (co_idx C HC n0 q Hn0) as [Hc0 _]. simpl hd in Hm3.
    assert (Hold : forall i x, d_log s2 !! i = Some x -> i < e_idx n0 -> anc C (key x) q).
    { apply (pred_key_good2 C s2 a dup n0 nr HCB Hn Hpc Hm Hdup). }
    assert (Hq0 : forall e, In e (n0 :: nr) -> anc C q (key e)) by (apply (mchain_anc C q _ Hmn)).
    assert (Hlast : In (last_of (n0 :: nr)) (n0 :: nr)) by (apply last_in; discriminate).
    split.
    - intros i x Hl. rewrite log_store_lookup in Hl.
      destruct (find_last i (n0 :: nr)) as [y|] eqn:F.
      + inversion Hl; subst y. apply find_last_In in F. destruct F as [F1 F2].
        split; [exact F2|]. split; [apply (mchain_in C q _ Hmn x F1)|apply Hterm, F1].
      + destruct (Hm3 i x Hl) as [Hl2 _]. apply (Hin i x Hl2).
    - intros i x Hl. rewrite log_store_lookup in Hl.
      destruct (find_last i (n0 :: nr)) as [y|] eqn:F.
      + inversion Hl; subst y. apply find_last_In in F. destruct F as [F1 F2].
        apply (mchain_last C q _ Hmn x F1).
      + destruct (Hm3 i x Hl) as [Hl2 Hlt].
        eapply anc_trans; [apply (Hold i x Hl2 Hlt)|apply Hq0, Hlast].
  Qed.
End SnapAppend.
