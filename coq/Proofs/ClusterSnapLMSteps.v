(* ClusterSnapLMSteps.v — in the system with snapshot transfer: handlers (vote requests, stray inputs, takeSnapshot,
   delivered AppendEntries, delivered InstallSnapshot) keep the invariant of Proofs/ClusterSnapLMInv.v. *)
From Coq Require Import List NArith Bool Lia.
From stdpp Require Import gmap.
From RaftModel Require Import Base Config Compaction Commitment Node NodeCodec Candidate Leader Replicate Cluster ClusterLog ClusterCommit ClusterSnap.
From RaftProofs Require Import ConfigProofs VoteProofs AppendProofs ClusterProofs
  ClusterLogSpec ClusterLogChain ClusterLogNode ClusterLogVote ClusterLogAppend ClusterLogLeader ClusterLogInv ClusterLogSteps
  ClusterCommitChain ClusterCommitLog ClusterCommitInv ClusterCommitSnapLog ClusterCommitSnapTake
  ClusterSnapLMSpec ClusterSnapLMLog ClusterSnapLMAE2 ClusterSnapLMInstall ClusterSnapLMNode ClusterSnapLMNode2 ClusterSnapLMLeader
  ClusterSnapLMInv ClusterSnapLMInv2.
Open Scope N_scope.

Section Steps.
  Variable cfgs : list config.
  Hypothesis HQ : quorums_intersect cfgs.

  (* a handler ran at j *)
  Lemma yhandler_linv B B' g sm C j nj e cut fs r' ob out g1 :
    ylinv cfgs B g sm C -> find_node (g_nodes (lg_g g)) j = Some nj ->
    step_full (gn_P nj) (gn_run nj) e cut fs = (r', ob, out) ->
    ginv cfgs g1 -> B <= B' ->
    g_nodes g1 = upd_node (g_nodes (lg_g g)) j (mkGN (gn_P nj) r' (keep_sess r' (gn_sess nj)) (gn_next nj)) ->
    g_leaders g1 = g_leaders (lg_g g) ->
    ypost C B' (gn_run nj) r' ->
    (B' = B \/ exists sn, In sn (d_snaps (image r')) /\ B' <= N.max B (sn_idx sn)) ->
    ylinv cfgs B' (mkLG g1 (lg_msgs g)) sm C.
  Proof.
    intros Hinv Hfind Hstep Hg1 HB Hn1 Hl1 Hpost Hatt.
    destruct (find_node_in _ _ _ Hfind) as [Hin _].
    eapply (ylinv_handler cfgs HQ B B' g sm C g1 j nj r'); eauto.
    eapply step_dterm; [eapply ynode_wfr; eauto|exact Hstep].
  Qed.

  Lemma simple_ylinv B g sm C j nj e cut fs r' ob out g1 :
    ylinv cfgs B g sm C -> find_node (g_nodes (lg_g g)) j = Some nj -> simple_event e ->
    step_full (gn_P nj) (gn_run nj) e cut fs = (r', ob, out) ->
    ginv cfgs g1 ->
    g_nodes g1 = upd_node (g_nodes (lg_g g)) j (mkGN (gn_P nj) r' (keep_sess r' (gn_sess nj)) (gn_next nj)) ->
    g_leaders g1 = g_leaders (lg_g g) ->
    ylinv cfgs B (mkLG g1 (lg_msgs g)) sm C.
  Proof.
    intros Hinv Hfind He Hstep Hg1 Hn1 Hl1.
    destruct (find_node_in _ _ _ Hfind) as [Hin _].
    destruct (yl_nodes cfgs B g sm C Hinv nj Hin) as (Hnl & _ & Hrc).
    apply (yhandler_linv B B g sm C j nj e cut fs r' ob out g1 Hinv Hfind Hstep Hg1 (N.le_refl _) Hn1 Hl1); [|left; reflexivity].
    apply (simple_step_y C B (gn_P nj) (gn_run nj) e cut fs r' ob out (yl_chain cfgs B g sm C Hinv) Hrc (ynode_wfr cfgs B g sm C nj Hinv Hin) Hnl He Hstep).
  Qed.

  (* stray inputs: vote and pre-vote requests from anyone, restarts, TimeoutNow *)
  Lemma input_ylinv B g sm C j e cut fs g1 :
    ylinv cfgs B g sm C -> simple_event e -> gstep cfgs (lg_g g) (GInput j e cut fs) = Some g1 ->
    ylinv cfgs B (mkLG g1 (lg_msgs g)) sm C.
  Proof.
    intros Hinv He Hstep.
    pose proof (gstep_inv cfgs _ _ _ (yl_g cfgs B g sm C Hinv) Hstep) as Hg1.
    unfold gstep in Hstep.
    destruct (find_node (g_nodes (lg_g g)) j) as [nj|] eqn:Hfj; [|destruct e; discriminate].
    destruct (step_full (gn_P nj) (gn_run nj) e cut fs) as [[r' ob] out] eqn:Hsf.
    assert (E : g1 = mkG (upd_node (g_nodes (lg_g g)) j (mkGN (gn_P nj) r' (keep_sess r' (gn_sess nj)) (gn_next nj)))
                         (g_resps (lg_g g)) (g_leaders (lg_g g)) (grant_ghost j ob ++ g_grants (lg_g g))).
    { destruct e; try contradiction; inversion Hstep; reflexivity. }
    subst g1. eapply simple_ylinv; eauto.
  Qed.

  (* the RequestVote of i's invocation is executed by j *)
  Lemma votereq_ylinv B g sm C i j cut fs g1 :
    ylinv cfgs B g sm C -> gstep cfgs (lg_g g) (GVoteReq i j cut fs) = Some g1 ->
    ylinv cfgs B (mkLG g1 (lg_msgs g)) sm C.
  Proof.
    intros Hinv Hstep.
    pose proof (gstep_inv cfgs _ _ _ (yl_g cfgs B g sm C Hinv) Hstep) as Hg1.
    unfold gstep in Hstep.
    destruct (find_node (g_nodes (lg_g g)) i) as [ni|] eqn:Hfi; [|discriminate].
    destruct (find_node (g_nodes (lg_g g)) j) as [nj|] eqn:Hfj; [|discriminate].
    destruct (gn_sess ni) as [se|]; [|discriminate].
    destruct (negb (mem j (se_asked se))); [discriminate|].
    destruct (step_full (gn_P nj) (gn_run nj) (NVote (se_req se)) cut fs) as [[r' ob] out] eqn:Hsf.
    inversion Hstep; subst g1. clear Hstep.
    eapply simple_ylinv; eauto. exact I.
  Qed.

  (* takeSnapshot at j: the bound moves up to the new snapshot's index *)
  Lemma snapshot_ylinv B g sm C j cut fs g1 :
    ylinv cfgs B g sm C -> gstep cfgs (lg_g g) (GInput j NSnapshot cut fs) = Some g1 ->
    exists B', B <= B' /\ ylinv cfgs B' (mkLG g1 (lg_msgs g)) sm C.
  Proof.
    intros Hinv Hstep.
    pose proof (gstep_inv cfgs _ _ _ (yl_g cfgs B g sm C Hinv) Hstep) as Hg1.
    unfold gstep in Hstep.
    destruct (find_node (g_nodes (lg_g g)) j) as [nj|] eqn:Hfj; [|discriminate].
    destruct (step_full (gn_P nj) (gn_run nj) NSnapshot cut fs) as [[r' ob] out] eqn:Hsf.
    inversion Hstep; subst g1. clear Hstep.
    destruct (find_node_in _ _ _ Hfj) as [Hin Hid].
    destruct (yl_nodes cfgs B g sm C Hinv nj Hin) as (Hnl & _ & Hrc).
    pose proof (yl_chain cfgs B g sm C Hinv) as HC.
    destruct (gn_run nj) as [s|s] eqn:Hrun.
    - destruct (snapshot_step_y C B (gn_P nj) s cut fs r' ob out HC Hrc Hnl Hsf) as [[_ Hp]|(Hnz & Es & Hp)].
      + exists B. split; [lia|]. rewrite <- Hrun in Hsf, Hp.
        apply (yhandler_linv B B g sm C j nj NSnapshot cut fs r' ob out _ Hinv Hfj Hsf Hg1 (N.le_refl _) eq_refl eq_refl Hp). left. reflexivity.
      + exists (N.max B (fst (v_fsmLast s))). split; [lia|]. rewrite <- Hrun in Hsf, Hp.
        apply (yhandler_linv B (N.max B (fst (v_fsmLast s))) g sm C j nj NSnapshot cut fs r' ob out _ Hinv Hfj Hsf Hg1 ltac:(lia) eq_refl eq_refl Hp).
        right. exists (snap_of s). split; [rewrite Es; apply in_app_iff; right; left; reflexivity|]. simpl. lia.
    - exists B. split; [lia|]. assert (Hp : ypost C B (gn_run nj) r').
      { rewrite Hrun. simpl in Hsf. inversion Hsf; subst. apply ypost_refl. exact Hnl. }
      rewrite <- Hrun in Hsf.
      apply (yhandler_linv B B g sm C j nj NSnapshot cut fs r' ob out _ Hinv Hfj Hsf Hg1 (N.le_refl _) eq_refl eq_refl Hp). left. reflexivity.
  Qed.

  (* a request in flight is executed by its target *)
  Lemma deliver_ylinv B g sm C m cut fs g1 :
    ylinv cfgs B g sm C -> In m (lg_msgs g) ->
    gstep cfgs (lg_g g) (GInput (am_to m) (NAppend (am_req m)) cut fs) = Some g1 ->
    ylinv cfgs B (mkLG g1 (lg_msgs g)) sm C.
  Proof.
    intros Hinv Hm Hstep.
    pose proof (gstep_inv cfgs _ _ _ (yl_g cfgs B g sm C Hinv) Hstep) as Hg1.
    unfold gstep in Hstep.
    destruct (find_node (g_nodes (lg_g g)) (am_to m)) as [nj|] eqn:Hfj; [|discriminate].
    destruct (step_full (gn_P nj) (gn_run nj) (NAppend (am_req m)) cut fs) as [[r' ob] out] eqn:Hsf.
    inversion Hstep; subst g1. clear Hstep.
    destruct (find_node_in _ _ _ Hfj) as [Hin Hid].
    destruct (yl_msgs cfgs B g sm C Hinv m Hm) as (Hft & Hld & Hc & Hcr & Hy & Hpt & Hpz).
    destruct (yl_nodes cfgs B g sm C Hinv nj Hin) as (Hnl & Hlo & Hrc).
    pose proof (ynode_wfr cfgs B g sm C nj Hinv Hin) as Hw.
    pose proof (yl_chain cfgs B g sm C Hinv) as HC.
    apply (yhandler_linv B B g sm C (am_to m) nj _ cut fs r' ob out _ Hinv Hfj Hsf Hg1 (N.le_refl _) eq_refl eq_refl); [|left; reflexivity].
    destruct (gn_run nj) as [s|s] eqn:Hrun.
    - destruct (deliver_step_y C B (gn_P nj) s (am_req m) cut fs r' ob out HC Hrc Hw Hnl Hc Hcr Hy Hpt Hpz Hsf) as (A & Es & Hr).
      split; [exact A|]. split; [simpl; rewrite Es; apply incl_refl|].
      intros s' Hs' Hrole. destruct (Hr s' Hs' Hrole) as [->|[Hl0 Ht]]; [exists s; auto|]. exfalso.
      destruct (Hlo s Hrun Hl0) as (L1 & _). rewrite <- Ht in L1.
      apply Hft. rewrite <- Hid.
      apply (leaders_fun cfgs (lg_g g) _ _ _ HQ (yl_g cfgs B g sm C Hinv) Hld L1).
    - simpl in Hsf. inversion Hsf; subst. apply ypost_refl. exact Hnl.
  Qed.

  (* an InstallSnapshot request is executed by its target *)
  Lemma install_ylinv B g sm C m cut fs g1 :
    ylinv cfgs B g sm C -> In m sm ->
    gstep cfgs (lg_g g) (GInput (sm_to m) (NInstall (sm_req m)) cut fs) = Some g1 ->
    ylinv cfgs B (mkLG g1 (lg_msgs g)) sm C.
  Proof.
    intros Hinv Hm Hstep.
    pose proof (gstep_inv cfgs _ _ _ (yl_g cfgs B g sm C Hinv) Hstep) as Hg1.
    unfold gstep in Hstep.
    destruct (find_node (g_nodes (lg_g g)) (sm_to m)) as [nj|] eqn:Hfj; [|discriminate].
    destruct (step_full (gn_P nj) (gn_run nj) (NInstall (sm_req m)) cut fs) as [[r' ob] out] eqn:Hsf.
    inversion Hstep; subst g1. clear Hstep.
    destruct (find_node_in _ _ _ Hfj) as [Hin Hid].
    destruct (yl_smsgs cfgs B g sm C Hinv m Hm) as (Hft & Hld & Hqi & Hqt).
    destruct (yl_nodes cfgs B g sm C Hinv nj Hin) as (Hnl & Hlo & Hrc).
    pose proof (ynode_wfr cfgs B g sm C nj Hinv Hin) as Hw.
    pose proof (yl_chain cfgs B g sm C Hinv) as HC.
    pose proof (step_good (gn_P nj) (gn_run nj) (NInstall (sm_req m)) cut fs Hw) as Hgood. rewrite Hsf in Hgood. destruct Hgood as (Hw' & _).
    apply (yhandler_linv B B g sm C (sm_to m) nj _ cut fs r' ob out _ Hinv Hfj Hsf Hg1 (N.le_refl _) eq_refl eq_refl); [|left; reflexivity].
    destruct (gn_run nj) as [s|s] eqn:Hrun.
    - destruct (install_step_y C B (gn_P nj) s (sm_req m) cut fs r' ob out HC Hrc Hw Hnl Hqi Hqt Hsf) as (A & Hi & Hr).
      split; [exact A|]. split; [exact Hi|].
      intros s' Hs' Hrole. destruct (Hr s' Hs' Hrole) as [->|(Hl0 & Ht & Hd)]; [exists s; auto|]. exfalso.
      subst r'. destruct Hw' as [_ Hvt']. destruct (Hlo s Hrun Hl0) as (L1 & _).
      assert (E : v_term s = iq_term (sm_req m)) by congruence. rewrite E in L1.
      apply Hft. rewrite <- Hid.
      apply (leaders_fun cfgs (lg_g g) _ _ _ HQ (yl_g cfgs B g sm C Hinv) Hld L1).
    - simpl in Hsf. inversion Hsf; subst. apply ypost_refl. exact Hnl.
  Qed.

  (* replicateTo builds a request from the leader's log *)
  Lemma lsend_ylinv sn B g sm C i j next last g' :
    ylinv cfgs B g sm C -> lstep sn cfgs g (LSend i j next last) = Some g' -> ylinv cfgs B g' sm C.
  Proof.
    intros Hinv Hstep. unfold lstep in Hstep.
    destruct (find_node (g_nodes (lg_g g)) i) as [n|] eqn:Hfind; [|discriminate].
    destruct (find_node_in _ _ _ Hfind) as [Hin Hid].
    destruct (gn_run n) as [s|s] eqn:Hrun; [|discriminate].
    destruct ((v_role s =? Leader) && negb (i =? j) && (1 <=? next) && (last <=? last_index s)) eqn:Hc; [|discriminate].
    apply andb_prop in Hc. destruct Hc as [Hc H4]. apply andb_prop in Hc. destruct Hc as [Hc H3]. apply andb_prop in Hc. destruct Hc as [H1 H2].
    apply N.eqb_eq in H1. apply negb_true_iff, N.eqb_neq in H2. apply N.leb_le in H3.
    destruct (setup_send (gn_P n) s next last) as [pi pt es c| |] eqn:Ess; try discriminate.
    inversion Hstep; subst g'. clear Hstep.
    destruct (yl_nodes cfgs B g sm C Hinv n Hin) as (Hnl & _). rewrite Hrun in Hnl. simpl in Hnl.
    pose proof (ynode_wfr cfgs B g sm C n Hinv Hin) as Hw. rewrite Hrun in Hw. destruct Hw as [_ Hvt].
    destruct (setup_send_y C B (gn_P n) s next last pi pt es c (yl_chain cfgs B g sm C Hinv) Hnl H3 Ess) as (S1 & S2 & S3 & S4 & S5).
    apply (send_ylinv cfgs B g sm C i n s _ Hinv Hfind Hrun H1); simpl; auto; try (rewrite Hvt; auto).
  Qed.

  Lemma lheartbeat_ylinv sn B g sm C i j g' :
    ylinv cfgs B g sm C -> lstep sn cfgs g (LHeartbeat i j) = Some g' -> ylinv cfgs B g' sm C.
  Proof.
    intros Hinv Hstep. unfold lstep in Hstep.
    destruct (find_node (g_nodes (lg_g g)) i) as [n|] eqn:Hfind; [|discriminate].
    destruct (gn_run n) as [s|s] eqn:Hrun; [|discriminate].
    destruct ((v_role s =? Leader) && negb (i =? j)) eqn:Hc; [|discriminate].
    apply andb_prop in Hc. destruct Hc as [H1 H2]. apply N.eqb_eq in H1. apply negb_true_iff, N.eqb_neq in H2.
    inversion Hstep; subst g'. clear Hstep.
    apply (send_ylinv cfgs B g sm C i n s _ Hinv Hfind Hrun H1); simpl; auto; try lia.
  Qed.
End Steps.
