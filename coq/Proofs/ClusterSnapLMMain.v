(* ClusterSnapLMMain.v — LOG MATCHING AND TERM MONOTONICITY ABOVE EVERY SNAPSHOT OF THE CLUSTER, for the system with
   snapshot transfer (Model/ClusterSnap.v: elections, replication, commitment, takeSnapshot + compaction, InstallSnapshot
   requests sent, delivered any number of times in any order, acknowledged, with crash cuts and store failures everywhere).

   The statement asked for — Log Matching above BOTH servers' own snapshot index (log_matching_above_snapshots) — is false
   on this code, as are its variant measured by the servers' own snapshot stores and terms_monotone
   (Proofs/ClusterSnapLMCex.v).  What holds in every reachable state: above the largest index of any snapshot stored
   anywhere in the cluster, two logs that hold an entry of the same term at an index agree at every retained index up to it,
   and within one log terms do not decrease; everywhere an entry is stored under its own index. *)
From Coq Require Import List NArith Bool Lia.
From stdpp Require Import gmap.
From RaftModel Require Import Base Config Compaction Commitment Node NodeCodec Candidate Leader Replicate Cluster ClusterLog ClusterCommit ClusterSnap.
From RaftProofs Require Import ConfigProofs VoteProofs ClusterProofs ClusterLogSpec ClusterLogChain ClusterLogNode ClusterLogInv ClusterLogInit
  ClusterCommitSpec ClusterCommitInit ClusterCommitLog ClusterCommitChain ClusterCommitInv ClusterCommitInit2 ClusterCommitStepE
  ClusterCommitUpd ClusterCommitSnapSpec ClusterCommitSnapLog
  ClusterSnapLMSpec ClusterSnapLMLog ClusterSnapLMInv ClusterSnapLMCommit ClusterSnapLMSnap.
Open Scope N_scope.

(* ---------------------------------------------------------------- initial states *)
Lemma nlog_ynlog C r : nlog C r -> (forall s, r = Up s -> fst (v_fsmLast s) = 0) -> ynlog C 0 r.
Proof.
  intros Hn Hf. destruct r as [s|s]; simpl in *.
  - destruct Hn as (Hsn & Hin & Hsi & Hlt & Hz & Hbel). unfold yup, rawb. rewrite Hsn, Hsi. constructor.
    + exact Hin.
    + intros i e He _. apply (Hbel i e He).
    + exact Hlt.
    + unfold topk. simpl. intros E. rewrite (Hz E), E. reflexivity.
    + intros sn [].
    + simpl. split; [lia|congruence].
    + intros Hnz. exfalso. apply Hnz, (Hf s eq_refl).
  - destruct Hn as (Hsn & Hin & top & Hbel). unfold yimg. rewrite Hsn. constructor; [exact Hin| |intros sn []].
    exists top. intros i e He _. apply (Hbel i e He).
Qed.

Lemma sinit_yinv cfg g0 : sinit_ok cfg g0 -> exists C, Yinv [cfg] 0 g0 C.
Proof.
  intros ([H0 Hf] & Hm & _ & _). destruct H0 as (Hlin & Hlead & _ & _ & HV & Hcn).
  destruct (linit_linv_base [cfg] (cg_l (ss_c g0)) Hlin) as (base & Hh & Hlinv & Hni).
  exists (base_chain (0, 0) base). destruct Hlinv as [L1 L2 L3 L4 L5 L6]. constructor.
  - unfold lg_of. rewrite Hm. constructor; auto.
    + intros n Hin. destruct (L3 n Hin) as [A B]. split; [|split; [exact B|apply (Hcn n Hin)]].
      apply nlog_ynlog; [exact A|]. intros s Hs. apply (Hf n s Hin Hs).
    + intros m Hmm. destruct Hlin as (_ & Hm0 & _). rewrite Hm0 in Hmm. destruct Hmm.
    + intros m [].
    + lia.
  - unfold lg_of. rewrite Hlead. intros i ld Hfl. discriminate.
Qed.

(* ---------------------------------------------------------------- what the invariant says about the logs *)
Lemma ynlog_top C B r : ynlog C B r ->
  log_in C (d_log (image r)) (d_term (image r)) /\
  exists top, forall i e, d_log (image r) !! i = Some e -> B < i -> anc C (key e) top.
Proof. intros H. destruct (ynlog_image C B r H) as [A1 A2 _]. split; assumption. Qed.

Lemma ylinv_log_matching cfgs B g sm C : ylinv cfgs B g sm C -> log_matching_above_all_snapshots g.
Proof.
  intros Hinv a b Ha Hb i ea eb Hea Heb Ht k ka kb Hki Hbk Hka Hkb. unfold log_of in *.
  pose proof (yl_chain cfgs B g sm C Hinv) as HC. pose proof (yl_bound cfgs B g sm C Hinv) as HB.
  destruct (yl_nodes cfgs B g sm C Hinv a Ha) as (Hna & _). destruct (yl_nodes cfgs B g sm C Hinv b Hb) as (Hnb & _).
  destruct (ynlog_top C B _ Hna) as (Ia & ta & Ta). destruct (ynlog_top C B _ Hnb) as (Ib & tb & Tb).
  destruct (Ia _ _ Hea) as (Iea & _). destruct (Ib _ _ Heb) as (Ieb & _).
  destruct (Ia _ _ Hka) as (Ika & (pa & Pa) & _). destruct (Ib _ _ Hkb) as (Ikb & (pb & Pb) & _).
  assert (Ek : key ea = key eb) by (unfold key; congruence).
  assert (A1 : anc C (key ka) (key ea)).
  { apply (anc_linear C _ _ ta HC (Ta _ _ Hka ltac:(lia)) (Ta _ _ Hea ltac:(lia))). unfold key. simpl. lia. }
  assert (A2 : anc C (key kb) (key ea)).
  { rewrite Ek. apply (anc_linear C _ _ tb HC (Tb _ _ Hkb ltac:(lia)) (Tb _ _ Heb ltac:(lia))). unfold key. simpl. lia. }
  assert (E : key ka = key kb) by (apply (anc_unique C _ _ _ HC A1 A2); unfold key; simpl; lia).
  apply (co_fun C HC ka pa kb pb Pa Pb E).
Qed.

Lemma ylinv_terms_monotone cfgs B g sm C : ylinv cfgs B g sm C -> terms_monotone_above_all_snapshots g.
Proof.
  intros Hinv a Ha. unfold log_of.
  pose proof (yl_chain cfgs B g sm C Hinv) as HC. pose proof (yl_bound cfgs B g sm C Hinv) as HB.
  destruct (yl_nodes cfgs B g sm C Hinv a Ha) as (Hna & _). destruct (ynlog_top C B _ Hna) as (Ia & ta & Ta).
  split; [intros i ei Hi; apply (Ia _ _ Hi)|].
  intros i j ei ej Hbi Hij Hi Hj. destruct (Ia _ _ Hi) as (Ii & _). destruct (Ia _ _ Hj) as (Ij & _).
  assert (A1 : anc C (key ei) (key ej)).
  { apply (anc_linear C _ _ ta HC (Ta _ _ Hi ltac:(lia)) (Ta _ _ Hj ltac:(lia))). unfold key. simpl. lia. }
  apply (anc_term C _ _ HC A1).
Qed.

(* ---------------------------------------------------------------- the theorems *)
Theorem log_matching_above_all_snapshots_all_runs : forall cfg g0 ls g,
  sinit_ok cfg g0 -> srun [cfg] g0 ls = Some g ->
  log_matching_above_all_snapshots (lg_of g) /\ terms_monotone_above_all_snapshots (lg_of g).
Proof.
  intros cfg g0 ls g H0 Hrun. pose proof H0 as (((_ & _ & _ & _ & HVn & _) & _) & _).
  destruct (sinit_yinv cfg g0 H0) as [C0 HI0].
  destruct (srun_y [cfg] (quorums_intersect_one' cfg HVn) ls 0 g0 C0 g HI0 Hrun) as (C & B & _ & [Hl _]).
  split; [eapply ylinv_log_matching; eauto|eapply ylinv_terms_monotone; eauto].
Qed.

(* in the form of the coordinator's statement (the side conditions on labels are not needed: the system itself refuses
   forged AppendEntries / InstallSnapshot inputs, and Log Matching does not depend on the kind of entries proposed) *)
Corollary log_matching_above_all_snapshots_labelled_runs : forall cfg g0 ls g,
  sinit_ok cfg g0 -> Forall slabel_ok ls -> srun [cfg] g0 ls = Some g ->
  log_matching_above_all_snapshots (lg_of g) /\ terms_monotone_above_all_snapshots (lg_of g).
Proof. intros cfg g0 ls g H0 _ Hrun. eapply log_matching_above_all_snapshots_all_runs; eauto. Qed.

Print Assumptions log_matching_above_all_snapshots_all_runs.
