(* ClusterSnapLMNode2.v — a delivered AppendEntries, takeSnapshot and a delivered InstallSnapshot at one server keep
   the per-server invariant of Proofs/ClusterSnapLMLog.v, whether the handler returns or the process dies inside it. *)
From Coq Require Import List NArith Bool Lia.
From stdpp Require Import gmap.
From RaftModel Require Import Base Config Compaction Commitment Node NodeCodec Candidate Leader.
From RaftProofs Require Import VoteProofs AdvLeaderProofs AppendProofs RecoverProofs ClusterProofs
  ClusterLogSpec ClusterLogChain ClusterLogNode ClusterLogCut ClusterLogVote ClusterLogAppend ClusterLogSnapBoot ClusterLogSnapCut
  ClusterCommitChain ClusterCommitNode ClusterCommitInv
  ClusterCommitSnapLog ClusterCommitSnapBoot ClusterCommitSnapCut ClusterCommitSnapAE ClusterCommitSnapAE2 ClusterCommitSnapAE5 ClusterCommitSnapTake
  ClusterCommitSnapNode ClusterCommitSnapNode3
  ClusterSnapLMLog ClusterSnapLMAE ClusterSnapLMAE2 ClusterSnapLMInstall ClusterSnapLMNode.
Open Scope N_scope.

Theorem deliver_step_y C B P s a cut fs r' ob out :
  chain_ok C -> p_rc P = false -> wfu s -> yup C B s ->
  contig (aq_prevIdx a) (aq_entries a) ->
  (forall e, In e (aq_entries a) -> (exists p, In (e, p) C) /\ e_term e <= aq_term a) ->
  ychain C B (aq_prevIdx a, aq_prevTerm a) (aq_entries a) -> aq_prevTerm a <= aq_term a -> (aq_prevIdx a = 0 -> aq_prevTerm a = 0) ->
  step_full P (Up s) (NAppend a) cut fs = (r', ob, out) ->
  ynlog C B r' /\ d_snaps (image r') = d_snaps s /\
  forall s', r' = Up s' -> v_role s' = Leader -> s' = s \/ (v_role s = Leader /\ aq_term a = v_term s).
Proof.
  intros HC Hrc Hw Hz Hc Hcr Hy Hpt Hpz HF.
  destruct (append_reachY P s fs a Hw Hc) as [Hpre Hdone].
  unfold step_full in HF. set (o := append_entries P s fs a) in *.
  assert (Himg : forall k, yimg C B (cut_image P None s (trace_of o) k)).
  { intros k. destruct (cut_none_tlp P s (trace_of o) k) as (j & Hj & Hs).
    destruct (Hpre j) as [k1 Hr]. fold o in Hr. rewrite <- Hj in Hr.
    pose proof (ae_reachY_yshape C B s a _ _ HC Hz Hc Hcr Hy Hpt Hpz Hr) as Hsh. simpl in Hsh.
    unfold yimg. rewrite Hs. apply (yshape_img _ _ _ _ _ _ _ _ Hsh). }
  assert (Hdn : forall s1 r tr fs', o = Done s1 r tr fs' -> yup C B s1 /\ d_snaps s1 = d_snaps s).
  { intros s1 r tr fs' Ho.
    assert (Hr : ae_reachY s a (tlp s1) (topk s1)) by (apply Hdone; fold o; rewrite Ho; reflexivity).
    pose proof (ae_reachY_yshape C B s a _ _ HC Hz Hc Hcr Hy Hpt Hpz Hr) as Hsh. simpl in Hsh.
    pose proof (append_done_sf P s fs a s1 r tr fs' Ho (log_in_keys C _ _ (ys_in _ _ _ _ _ _ _ _ Hsh))) as (S1 & S2 & S3 & S4).
    split; [|exact S1]. unfold yup, rawb. rewrite S1, S2, S3. destruct Hsh as [A1 A2 A3 A4 A5 A6 A7].
    constructor; try assumption.
    destruct S4 as [[_ E]|(_ & _ & [E|(e & He & _ & E)])]; [rewrite E; exact A7|rewrite E; exact A7|].
    intros _. rewrite E. destruct (A1 _ e He) as (_ & _ & Ht). exact Ht. }
  destruct (finish_y C B P _ _ None s cut o r' ob out HC Hrc Himg (fun s1 r tr fs' Ho => proj1 (Hdn s1 r tr fs' Ho)) HF)
    as (A & [(s1 & rr & tr & fs' & Ho & -> & _)|(k & _ & _ & Ds & _ & Dr)]).
  - split; [exact A|]. split; [simpl; apply (Hdn s1 rr tr fs' Ho)|].
    intros s' Hs' Hr. inversion Hs'; subst s'. apply (append_entries_role P s fs a s1 rr tr fs' Ho Hr).
  - split; [exact A|]. split.
    + rewrite Ds. destruct (cut_none_tlp P s (trace_of o) k) as (j & _ & Hs). exact Hs.
    + intros s' Hs' Hr. rewrite (Dr s' Hs') in Hr. discriminate.
Qed.

(* ---------------------------------------------------------------- takeSnapshot *)
Lemma snap_of_idx s : sn_idx (snap_of s) = fst (v_fsmLast s) /\ sn_term (snap_of s) = snd (v_fsmLast s).
Proof. split; reflexivity. Qed.

(* the stores with the new snapshot: the bound moves up to its index *)
Lemma snap_stored_y C B s m' : yup C B s -> fst (v_fsmLast s) <> 0 -> log_sub m' (d_log s) ->
  yshape C (N.max B (fst (v_fsmLast s))) (d_term s) m' (d_snaps s ++ [snap_of s]) (topk s) (v_fsmLast s) (v_fsmLast s).
Proof.
  intros [A1 A2 A3 A4 A5 A6 A7] Hnz Hsub. constructor; try assumption.
  - eapply log_in_sub; [exact Hsub|apply N.le_refl|exact A1].
  - intros i e He Hb. apply (A2 i e (Hsub i e He)). lia.
  - intros sn Hsn. apply in_app_iff in Hsn. destruct Hsn as [Hsn|[<-|[]]].
    + destruct (A5 sn Hsn). split; [lia|assumption].
    + simpl. split; [lia|apply A7, Hnz].
  - split; [lia|exact A7].
Qed.

Theorem snapshot_step_y C B P s cut fs r' ob out :
  chain_ok C -> p_rc P = false -> yup C B s ->
  step_full P (Up s) NSnapshot cut fs = (r', ob, out) ->
  (d_snaps (image r') = d_snaps s /\ ypost C B (Up s) r') \/
  (fst (v_fsmLast s) <> 0 /\ d_snaps (image r') = d_snaps s ++ [snap_of s] /\ ypost C (N.max B (fst (v_fsmLast s))) (Up s) r').
Proof.
  intros HC Hrc Hz HF.
  unfold step_full in HF. destruct (fsm_index s) as [fi ft] eqn:Ef. unfold fsm_index in Ef.
  assert (Esn : mkSnap fi ft (v_committed s) (v_committedIdx s) (v_fsm s) true = snap_of s) by (unfold snap_of; rewrite Ef; reflexivity).
  rewrite Esn in HF.
  destruct (finish_cases P _ _ (Some (snap_of s)) s cut _ r' ob out HF) as [(s1 & r & tr & fs' & Ho & -> & ->)|(k0 & oo & HB & ->)].
  - destruct (take_done P s fs s1 r tr fs' Ho) as [->|(Hnz & m' & -> & Hm)].
    { left. split; [reflexivity|apply ypost_refl; exact Hz]. }
    right. split; [exact Hnz|]. split; [reflexivity|].
    assert (Hsub : log_sub m' (d_log s)) by (destruct Hm as [->|(lo & hi & -> & _)]; [apply log_sub_refl|apply log_delete_sub]).
    split; [|split].
    + simpl. unfold yup, topk, rawb. cbn [d_term d_log d_snaps v_lastLogIdx v_lastLogTerm v_lastSnapIdx v_lastSnapTerm v_fsmLast set_log set_lastsnap set_snaps].
      pose proof (snap_stored_y C B s m' Hz Hnz Hsub) as H. destruct (v_fsmLast s) as [a b]. exact H.
    + simpl. apply incl_appl, incl_refl.
    + intros s' Hs' Hr. inversion Hs'; subst s'. exists s. auto.
  - destruct (take_images P s fs k0) as [Et Heff]. cbv zeta in Et, Heff.
    set (img := cut_image P (Some (snap_of s)) s (trace_of (take_snapshot P s fs)) k0) in *.
    destruct Heff as [[El Es]|(Hnz & Es & Hm)].
    + left. assert (Himg : yimg C B img).
      { unfold yimg. rewrite Et, El, Es. apply (yshape_img _ _ _ _ _ _ _ _ Hz). }
      destruct (boot_ynlog C B P img r' oo HC Hrc Himg HB) as (A & _ & _ & Ds & Dr).
      split; [congruence|]. split; [exact A|]. split; [simpl; rewrite Ds, Es; apply incl_refl|].
      intros s' Hs' Hr. rewrite (Dr s' Hs') in Hr. discriminate.
    + right. split; [exact Hnz|].
      assert (Hsub : log_sub (d_log img) (d_log s)) by (destruct Hm as [->|(lo & hi & -> & _)]; [apply log_sub_refl|apply log_delete_sub]).
      assert (Himg : yimg C (N.max B (fst (v_fsmLast s))) img).
      { unfold yimg. rewrite Et, Es. apply (yshape_img _ _ _ _ _ _ _ _ (snap_stored_y C B s _ Hz Hnz Hsub)). }
      destruct (boot_ynlog C _ P img r' oo HC Hrc Himg HB) as (A & _ & _ & Ds & Dr).
      split; [congruence|]. split; [exact A|]. split; [simpl; rewrite Ds, Es; apply incl_appl, incl_refl|].
      intros s' Hs' Hr. rewrite (Dr s' Hs') in Hr. discriminate.
Qed.

(* ---------------------------------------------------------------- installSnapshot *)
Lemma yimgS_more C B T m sns extra : yimgS C B T m sns -> (forall sn, In sn extra -> sn_idx sn <= B /\ sn_term sn <= T) ->
  yimgS C B T m (sns ++ extra).
Proof.
  intros [A1 A2 A3] He. constructor; [exact A1|exact A2|].
  intros sn Hsn. apply in_app_iff in Hsn. destruct Hsn as [Hsn|Hsn]; [apply A3, Hsn|apply He, Hsn].
Qed.

Lemma inst_stored_y C B s s' q : chain_ok C -> yup C B s -> d_term s <= iq_term q -> d_term s' = iq_term q ->
  iq_lastIdx q <= B -> iq_lastTerm q <= iq_term q -> inst_stored q s s' -> yup C B s'.
Proof.
  intros HC Hz Ht Et Hqi Hqt (E1 & E2 & E3 & Hsub & Htk). pose proof Hz as [A1 A2 A3 A4 A5 A6 A7].
  unfold yup. rewrite E1, E2, E3, Et. constructor.
  - eapply log_in_sub; [exact Hsub|exact Ht|exact A1].
  - intros i e He Hb. destruct Htk as [->|[_ Hres]]; [apply (A2 i e (Hsub i e He) Hb)|]. exfalso.
    pose proof (yshape_bound _ _ _ _ _ _ _ _ i e HC Hz (Hsub i e He) Hb) as Hle. unfold topk in Hle. simpl in Hle.
    destruct (Hres i e He) as [H|[H|H]]; lia.
  - destruct Htk as [->|[-> _]]; [lia|simpl; lia].
  - destruct Htk as [->|[-> _]]; [exact A4|reflexivity].
  - intros sn Hsn. apply in_app_iff in Hsn. destruct Hsn as [Hsn|[<-|[]]]; [destruct (A5 sn Hsn); split; lia|simpl; split; assumption].
  - simpl. split; [exact Hqi|intros _; exact Hqt].
  - simpl. intros _. exact Hqt.
Qed.

Theorem install_step_y C B P s q cut fs r' ob out :
  chain_ok C -> p_rc P = false -> wfu s -> yup C B s ->
  iq_lastIdx q <= B -> iq_lastTerm q <= iq_term q ->
  step_full P (Up s) (NInstall q) cut fs = (r', ob, out) ->
  ynlog C B r' /\ incl (d_snaps s) (d_snaps (image r')) /\
  forall s', r' = Up s' -> v_role s' = Leader -> s' = s \/ (v_role s = Leader /\ v_term s' = v_term s /\ d_term s' = iq_term q).
Proof.
  intros HC Hrc Hw Hz Hqi Hqt HF. pose proof Hw as [_ Hvt].
  unfold step_full in HF. change (mkSnap (iq_lastIdx q) (iq_lastTerm q) (iq_cfg q) (iq_cfgIdx q) (iq_data q) true) with (snap_of_req q) in HF.
  set (o := install_snapshot P s fs q) in *.
  assert (Hsq : forall sn, In sn (repeat (snap_of_req q) 0 ++ []) -> True) by auto.
  assert (Himg : forall k, yimg C B (cut_image P (Some (snap_of_req q)) s (trace_of o) k) /\
                           incl (d_snaps s) (d_snaps (cut_image P (Some (snap_of_req q)) s (trace_of o) k))).
  { intros k. pose proof (install_images P s fs q k Hw) as H. cbv zeta in H. fold o in H.
    set (img := cut_image P (Some (snap_of_req q)) s (trace_of o) k) in *.
    assert (Hd : d_term img = di_term (dpr img) /\ d_log img = di_log (dpr img) /\ d_snaps img = di_snaps (dpr img)) by (split; [|split]; reflexivity).
    destruct Hd as (D1 & D2 & D3). unfold yimg. rewrite D1, D2, D3.
    destruct H as [->|(Ht & E1 & Hsub & kk & E3)].
    - simpl. split; [apply (yshape_img _ _ _ _ _ _ _ _ Hz)|apply incl_refl].
    - rewrite E1, E3. split; [|apply incl_appl, incl_refl].
      apply yimgS_more.
      + eapply yimgS_sub; [exact Hsub|]. eapply yimgS_mono; [apply incl_refl|apply N.le_refl|exact Ht|apply (yshape_img _ _ _ _ _ _ _ _ Hz)].
      + intros sn Hsn. apply repeat_spec in Hsn. subst sn. simpl. split; assumption. }
  assert (Hdn : forall s1 r tr fs', o = Done s1 r tr fs' -> yup C B s1 /\ incl (d_snaps s) (d_snaps s1)).
  { intros s1 r tr fs' Ho. destruct (install_done P s fs q s1 r tr fs' Hw Ho) as [->|(Hle & Et & _ & [Hs|Hs])].
    - split; [exact Hz|apply incl_refl].
    - destruct Hs as (E1 & E2 & E3 & E4 & E5). split; [|rewrite E2; apply incl_refl].
      unfold yup. rewrite E1, E2, E3, E4, E5, Et. eapply yshape_mono; [apply incl_refl|apply N.le_refl| |exact Hz]. lia.
    - split; [|destruct Hs as (E1 & _); rewrite E1; apply incl_appl, incl_refl].
      apply (inst_stored_y C B s s1 q HC Hz); auto. lia. }
  destruct (finish_y C B P _ _ (Some (snap_of_req q)) s cut o r' ob out HC Hrc (fun k => proj1 (Himg k)) (fun s1 r tr fs' Ho => proj1 (Hdn s1 r tr fs' Ho)) HF)
    as (A & [(s1 & rr & tr & fs' & Ho & -> & _)|(k & _ & _ & Ds & _ & Dr)]).
  - split; [exact A|]. split; [simpl; apply (Hdn s1 rr tr fs' Ho)|].
    intros s' Hs' Hr. inversion Hs'; subst s'.
    destruct (install_done P s fs q s1 rr tr fs' Hw Ho) as [->|(Hle & Et & Hro & _)]; [left; reflexivity|right].
    destruct Hro as [Hf|[E1 E2]]; [rewrite Hf in Hr; discriminate|]. rewrite <- E1. auto.
  - split; [exact A|]. split; [rewrite Ds; apply (Himg k)|].
    intros s' Hs' Hr. rewrite (Dr s' Hs') in Hr. discriminate.
Qed.
