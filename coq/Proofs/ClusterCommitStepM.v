(* ClusterCommitStepM.v — LPropose (dispatchLogs of one entry at a leader) keeps the invariant. *)
From Coq Require Import List NArith Bool Lia.
From stdpp Require Import gmap.
From RaftModel Require Import Base Config Compaction Commitment Node NodeCodec Candidate Leader Replicate Cluster ClusterLog ClusterCommit.
From RaftProofs Require Import ConfigProofs CommitmentProofs VoteProofs ClusterProofs
  ClusterLogSpec ClusterLogChain ClusterLogNode ClusterLogVote ClusterLogLeader ClusterLogInv ClusterLogSteps
  ClusterCommitSpec ClusterCommitLog ClusterCommitChain ClusterCommitAE2 ClusterCommitNode ClusterCommitNode3 ClusterCommitGhost
  ClusterCommitInv ClusterCommitFinal ClusterCommitUpd ClusterCommitStepA ClusterCommitStepC ClusterCommitStepD ClusterCommitStepE
  ClusterCommitStepG ClusterCommitStepH ClusterCommitStepJ ClusterCommitStepK ClusterCommitStepL.
Open Scope N_scope.

Section StepM.
  Variable cfg : config.
  Variable Ps : list params.
  Hypothesis HVn : NoDup (voters cfg).
  Let HQ := quorums_intersect_one' cfg HVn.

  Theorem cinv_propose g C LL A V i ty data fs g' : cinv cfg Ps g C LL A V -> ty <> LogConfiguration ->
    cstep false [cfg] g (CBase (LPropose i ty data fs)) = Some g' -> exists Cn An, cinv cfg Ps g' (Cn ++ C) LL (An ++ A) V.
  Proof.
    intros HI Hty Hstep. apply cstep_base_inv in Hstep. destruct Hstep as (_ & l' & Hl & ->).
    pose proof (cv_l cfg Ps g C LL A V HI) as Hlinv. pose proof (cv_ci cfg Ps g C LL A V HI) as Hci. pose proof (ci_ok C LL Hci) as HC.
    unfold lstep in Hl. fold (cnodes g) in Hl.
    destruct (find_node (cnodes g) i) as [n|] eqn:Hf; [|discriminate].
    destruct (find_node_in _ _ _ Hf) as [Hin Hid].
    destruct (gn_run n) as [s|s] eqn:Hr; [|discriminate].
    destruct (N.eqb_spec (v_role s) Leader) as [Hrole|]; [|discriminate].
    destruct (cv_lead cfg Ps g C LL A V HI n s Hin Hr Hrole) as (tl & ld & L1 & L2 & L3 & L4 & L5 & L6 & L7 & L8 & L9 & L10 & L11).
    rewrite Hid in L2.
    pose proof (dispatch_one_full (gn_P n) s (ld_cm ld) (ld_infl ld) fs ty data 0) as Hdf.
    pose proof (dispatch_one (gn_P n) s fs ty data 0) as Hd1. cbv zeta in Hd1.
    unfold base_leads. rewrite Hf, L2, Hr.
    destruct (dispatch (gn_P n) (mkLS s (ld_cm ld) (ld_infl ld)) fs [(ty, data, 0)]) as [[[ls2 res2] tr2] fs2].
    destruct (dispatch (gn_P n) (leader_setup s) fs [(ty, data, 0)]) as [[[ls1 res1] tr1] fs1] eqn:Ed1.
    cbn [fst] in Hdf, Hd1. cbv zeta in Hdf. destruct Hdf as (En & Kc & Ka & Kl & Kcm & Kinf & Hcm).
    inversion Hl; subst l'. clear Hl. rewrite En in *. set (s2 := l_node ls2) in *.
    destruct Hd1 as (Dd & Dv & Dsn & Dsi & Hcase).
    cbn [lg_g g_nodes set_node_run].
    destruct (li_nodes [cfg] _ C Hlinv n Hin) as [Hnl Hlok]. destruct (Hlok s Hr Hrole) as (Lk1 & Lk2 & Lk3).
    rewrite Hr in Hnl. simpl in Hnl.
    pose proof (cv_node cfg Ps g C LL A V HI n Hin) as (N1 & N2 & N3). rewrite Hr in N3.
    (* nobody becomes a leader in this step *)
    rewrite (refresh_handler (cnodes g) i n (Up s2) _ (nodes_nodup cfg Ps g C LL A V HI) Hf).
    2:{ intros s' _ _. rewrite Hr. exact Hrole. }
    destruct Hcase as [(Hfail & Hk & Hrf)|(Hok & Dl & Dci & Dct & Dr)].
    - (* StoreLogs failed *)
      exists [], []. cbn [app]. destruct Hcm as [[_ Ecm]|[Hc _]]; [|congruence].
      apply (cinv_leader_quits cfg Ps HVn g C LL A V i n s s2 _ _ HI Hf Hr Hrole Dd Dv Hk); [|exact Hrf|].
      + destruct Hk as (K1 & _ & K3 & _). repeat split; assumption.
      + intros i' Hne. apply find_lead_set_other, Hne.
    - (* the entry is stored *)
      destruct Hcm as [[Hc _]|[_ Ecm]]; [congruence|].
      set (e := new_entry s ty data) in *.
      assert (Hsi : v_lastSnapIdx s = 0) by apply Hnl.
      assert (Hli : last_index s = v_lastLogIdx s) by (unfold last_index; rewrite Hsi; lia).
      assert (He1 : e_idx e = v_lastLogIdx s + 1) by (unfold e, new_entry; simpl; rewrite Hli; reflexivity).
      assert (He2 : e_term e = v_term s) by reflexivity.
      destruct (node_log_in cfg Ps g C LL A V HI n s Hin Hr) as [_ [_ Hvt]].
      assert (Dt : d_term s2 = d_term s) by (unfold dproj in Dd; inversion Dd; reflexivity).
      pose proof (propose_linv_ok [cfg] HQ (cg_l g) C i n s ty data fs Hlinv Hf Hr Hrole Hok) as Hl'.
      cbv zeta in Hl'. rewrite Ed1 in Hl'. cbn [fst] in Hl'. rewrite En in Hl'. fold s2 in Hl'. fold e in Hl'.
      destruct (ci_tl C LL Hci _ _ _ L1) as [Htl1 _].
      destruct N3 as (Hlc & Hdec & Htop & Hlat & Hcmt & Hac).
      assert (Hck : created C (topk s) /\ snd (topk s) = v_term s).
      { split; [|exact L4]. destruct (topk_created C s HC Hnl Htop) as [E|Hc]; [|exact Hc].
        exfalso. unfold topk in E. inversion E. lia. }
      destruct Hck as [Hck Hckt].
      pose proof (ci_ok _ _ (chain_inv_propose C LL e (topk s) (v_term s) (gn_id n) tl Hci (li_chain [cfg] _ _ Hl') L1 He2 Hck Hckt L3)) as HC'.
      exists [(e, topk s)], [(i, key e)].
      set (n' := mkGN (gn_P n) (Up s2) (keep_sess (Up s2) (gn_sess n)) (gn_next n)).
      assert (Hs' : gn_sess n' = None) by (unfold n'; cbn [gn_sess]; rewrite Lk2; reflexivity).
      assert (Hnl2 : nlog_up ((e, topk s) :: C) s2).
      { assert (Hin' : In n' (g_nodes (lg_g (mkLG (set_node_run (lg_g (cg_l g)) i n (Up s2)) (lg_msgs (cg_l g)))))).
        { cbn. apply in_upd_node with (n := n); [exact Hf|exact Hid]. }
        destruct (li_nodes [cfg] _ _ Hl' n' Hin') as [H _]. exact H. }
      assert (Hcn2 : cnode_up cfg Ps s2).
      { apply (append_cnode_up cfg Ps s s2 e); auto.
        - unfold cnode_up. auto 10.
        - intros Hc. exfalso. apply Hty. exact Hc. }
      assert (Hee : d_log s2 !! e_idx e = Some e) by (rewrite Dl, log_store_one, N.eqb_refl; reflexivity).
      match goal with |- cinv _ _ ?G _ _ _ _ => set (g' := G) end.
      apply (cinv_update cfg Ps HVn g g' C [(e, topk s)] LL [] A [(i, key e)] V [] i n n' HI Hf Hid eq_refl) with (mn := []) (an := []) (Gn := []).
      + unfold dtn. rewrite Hr. cbn [n' gn_run image]. lia.
      + exact Hl'.
      + apply (chain_inv_propose C LL e (topk s) (v_term s) (gn_id n) tl Hci (li_chain [cfg] _ _ Hl') L1 He2 Hck Hckt L3).
      + intros w T' c kw rq k k0 [].
      + (* the leader voted in no later term *)
        intros w T' c kw rq k k0 Hv [Ek|[]] Hlt. inversion Ek; subst w k. exfalso.
        destruct (cv_v1 cfg Ps g C LL A V HI _ _ _ _ _ Hv) as [(x & Hx & Hxi & Hxt) _].
        assert (x = n) by (apply (nodup_id_eq _ x n (nodes_nodup cfg Ps g C LL A V HI) Hx Hin); congruence). subst x.
        unfold dtn in Hxt. rewrite Hr in Hxt. simpl in Hxt, Hlt. lia.
      + intros T' c tl' [].
      + intros w T' c kw rq [].
      + intros w k [Ek|[]]. inversion Ek; subst w k. split; [exists e, (topk s); split; [left; reflexivity|reflexivity]|].
        exists (gn_id n), tl. exact L1.
      + split; [exact N1|]. split; [exact N2|exact Hcn2].
      + intros s0 Hs0. cbn [n' gn_run] in Hs0. inversion Hs0; subst s0.
        assert (Hidx : v_lastLogIdx s2 = e_idx e) by (rewrite Dci, Hli; symmetry; exact He1).
        apply (append_kc cfg C LL A ([(e, topk s)] ++ C) ([] ++ LL) ([(i, key e)] ++ A) s s2 e
                 (incl_appr _ (incl_refl C)) (incl_refl LL) (incl_appr _ (incl_refl A)) Htop
                 (cv_kc cfg Ps g C LL A V HI n s Hin Hr) Dl He1 Hidx Kc). lia.
      + cbn. rewrite app_nil_r. reflexivity.
      + intros m [].
      + cbn. rewrite app_nil_r. reflexivity.
      + intros x [].
      + intros w k [Ek|[]]. inversion Ek; subst w k. exists n'. split; [apply in_upd_node with (n := n); assumption|].
        split; [exact Hid|]. unfold dtn. cbn [n' gn_run image]. simpl. lia.
      + (* what the leader accepted before is still there *)
        intros k k0 Ha Hanc Hpos. rewrite <- Hid in Ha.
        destruct (cv_av cfg Ps g C LL A V HI (gn_id n) k n k0 Ha Hin eq_refl Hanc Hpos) as [H|(T2 & c2 & tl2 & H1 & H2 & H3 & H4)].
        * left. unfold logn in *. rewrite Hr in H. cbn [n' gn_run image]. rewrite Dl. eapply holds_sub; [|exact H].
          apply log_store_one_sub. apply (proj1 Htop). lia.
        * right. exists T2, c2, tl2. split; [exact H1|]. split; [exact H2|]. split.
          -- unfold dtn in *. rewrite Hr in H3. cbn [n' gn_run image]. simpl in H3. lia.
          -- intros Hx. apply H4. destruct (ci_tl C LL Hci _ _ _ H1) as [_ Htc].
             apply (anc_back C LL _ k0 tl2 Hci HC'); [intros y Hy; right; exact Hy|destruct Htc; auto|exact Hx].
      + (* the new acceptance *)
        intros w k x k0 [Ek|[]] Hx Hxi Hanc Hpos. inversion Ek; subst w k.
        assert (x = n').
        { destruct (in_upd_cases _ _ _ _ Hx) as [->|[_ Hne]]; [reflexivity|congruence]. }
        subst x. left. unfold logn. cbn [n' gn_run image].
        apply (append_holds _ s2 e k0 HC' Hnl2 (proj1 Hcn2) Hee Hanc Hpos).
      + intros w T' c kw rq [].
      + intros se' H. rewrite Hs' in H. discriminate.
      + intros w T' c kw rq xc se [].
      + reflexivity.
      + intros w T' c [].
      + intros se H. rewrite Hs' in H. discriminate.
      + intros T' c Hlv. cbn [n' gn_run image] in Hlv. unfold live in Hlv. rewrite Dd in Hlv.
        destruct (cv_live cfg Ps g C LL A V HI n T' c Hin) as [(kw & rq & H)|H]; [rewrite Hr; exact Hlv| |right; exact H].
        left. exists kw, rq. rewrite <- Hid. exact H.
      + apply (cv_ll cfg Ps g C LL A V HI).
      + intros i' Hne. cbn [g' cg_lead]. apply find_lead_set_other, Hne.
      + intros y p [Ey|[]]. inversion Ey; subst y p. rewrite He2, <- Hid. exact Lk1.
      + (* the leadership state: first the server, then the commitment *)
        intros s0 Hs0 Hl0. cbn [n' gn_run] in Hs0. inversion Hs0; subst s0.
        set (gmid := mkCG (cg_l g') (cg_lead g) (cg_hb g') (cg_ans g')).
        assert (Hmid : lead_inv cfg gmid ((e, topk s) :: C) LL ([(i, key e)] ++ A) n' s2).
        { apply (lead_inv_append cfg g gmid C LL A [(i, key e)] n n' s s2 e (cv_lead cfg Ps g C LL A V HI n s Hin Hr Hrole)); auto.
          unfold topk, key. rewrite Dci, Dct, Hli, He1, He2. reflexivity. }
        apply (lead_inv_match cfg HVn gmid g' _ LL _ n' s2 ld (with_cm ld (l_cm ls2) (l_inflight ls2)) (p_self (gn_P n)) (e_idx e) Hmid).
        * cbn [gmid cg_lead]. change (gn_id n') with (gn_id n). rewrite Hid. exact L2.
        * cbn [g' cg_lead]. change (gn_id n') with (gn_id n). rewrite Hid. apply find_lead_set_same.
        * cbn. exact Ecm.
        * reflexivity.
        * right. left. rewrite Dv. change (p_self (gn_P n)) with (gn_id n). rewrite Hid. unfold key. rewrite He2. reflexivity.
        * cbn. intros H. left. exact H.
  Qed.
End StepM.
