(* Proofs about Model/LogCache.v : the cache is transparent over any backend whose
   StoreLogs is atomic (all-or-nothing) and whose GetLog is a function of its state. *)
From Coq Require Import List NArith Bool Lia.
From stdpp Require Import gmap.
From RaftModel Require Import Base LogCache.
Open Scope N_scope.

Definition find_last (i : N) (es : list entry) : option entry :=
  List.find (fun e => e_idx e =? i) (rev es).
Definition find_last_slot (cap k : N) (es : list entry) : option entry :=
  List.find (fun e => e_idx e mod cap =? k) (rev es).

Lemma find_imp {A} (P Q : A -> bool) l e :
  List.find P l = Some e -> Q e = true -> (forall x, Q x = true -> P x = true) ->
  List.find Q l = Some e.
Proof.
  induction l as [|x l IH]; simpl; intros Hf Hq Himp; [discriminate|].
  destruct (P x) eqn:HP.
  - inversion Hf; subst. rewrite Hq. reflexivity.
  - destruct (Q x) eqn:HQ.
    + apply Himp in HQ. congruence.
    + apply IH; assumption.
Qed.

Lemma find_none_imp {A} (P Q : A -> bool) l :
  List.find P l = None -> (forall x, Q x = true -> P x = true) -> List.find Q l = None.
Proof.
  induction l as [|x l IH]; simpl; intros Hf Himp; [reflexivity|].
  destruct (P x) eqn:HP; [discriminate|].
  destruct (Q x) eqn:HQ.
  - apply Himp in HQ. congruence.
  - apply IH; assumption.
Qed.

Lemma find_app_last {A} (P : A -> bool) l x :
  List.find P (l ++ [x]) = match List.find P l with Some y => Some y | None => if P x then Some x else None end.
Proof.
  induction l as [|y l IH]; simpl.
  - destruct (P x); reflexivity.
  - destruct (P y); [reflexivity|exact IH].
Qed.

Lemma fill_slots_lookup cap es : forall slots k,
  fill_slots cap slots es !! k =
  match find_last_slot cap k es with Some e => Some e | None => slots !! k end.
Proof.
  unfold fill_slots, find_last_slot.
  induction es as [|a es IH]; intros slots k; simpl; [reflexivity|].
  rewrite IH. rewrite find_app_last.
  destruct (List.find _ (rev es)) as [y|]; [reflexivity|].
  destruct (N.eqb_spec (e_idx a mod cap) k) as [->|Hne].
  - rewrite lookup_insert. reflexivity.
  - rewrite lookup_insert_ne by exact Hne. reflexivity.
Qed.

Lemma store_entries_lookup es : forall m i,
  store_entries m es !! i = match find_last i es with Some e => Some e | None => m !! i end.
Proof.
  unfold store_entries, find_last.
  induction es as [|a es IH]; intros m i; simpl; [reflexivity|].
  rewrite IH. rewrite find_app_last.
  destruct (List.find _ (rev es)) as [y|]; [reflexivity|].
  destruct (N.eqb_spec (e_idx a) i) as [->|Hne].
  - rewrite lookup_insert. reflexivity.
  - rewrite lookup_insert_ne by exact Hne. reflexivity.
Qed.

Lemma find_last_idx i es e : find_last i es = Some e -> e_idx e = i.
Proof.
  unfold find_last. intros H. apply find_some in H. destruct H as [_ H].
  apply N.eqb_eq in H. exact H.
Qed.

Section Transparent.
  Variable bk : backend.

  (* The two laws asked of the wrapped store (DeleteRange, FirstIndex, LastIndex and the
     error behaviour are arbitrary): *)
  Definition store_atomic : Prop :=
    forall b es b', bstore bk b es = (b', false) -> forall i, bget bk b' i = bget bk b i.
  Definition store_writes : Prop :=
    forall b es b', bstore bk b es = (b', true) ->
      forall i, bget bk b' i = match find_last i es with Some e => Some e | None => bget bk b i end.

  Hypothesis Hatomic : store_atomic.
  Hypothesis Hwrites : store_writes.

  Definition cache_inv (c : cache bk) : Prop :=
    forall k e, c_slots c !! k = Some e ->
      k = e_idx e mod c_cap c /\ bget bk (c_back c) (e_idx e) = Some e.

  Lemma cache_new_inv cap b : cache_inv (cache_new cap b).
  Proof. intros k e H. simpl in H. rewrite lookup_empty in H. discriminate. Qed.

  Lemma cache_step_sim c o :
    cache_inv c ->
    let '(c', r) := cache_step c o in
    let '(b', r') := backend_step bk (c_back c) o in
    cache_inv c' /\ c_back c' = b' /\ r = r' /\ c_cap c' = c_cap c.
  Proof.
    intros Hinv.
    assert (Hfin : forall (b : B bk) (r : lres) (n : N),
              cache_inv c -> cache_inv c /\ b = b /\ r = r /\ n = n) by (intros; auto).
    destruct o as [i|es|lo hi| |]; simpl.
    - destruct (c_slots c !! (i mod c_cap c)) as [e|] eqn:Hs.
      + destruct (N.eqb_spec (e_idx e) i) as [Heq|Hne]; simpl.
        * apply Hinv in Hs. destruct Hs as [_ Hg]. rewrite Heq in Hg. rewrite Hg.
          apply Hfin, Hinv.
        * apply Hfin, Hinv.
      + apply Hfin, Hinv.
    - destruct (bstore bk (c_back c) es) as [b' ok] eqn:Hst. destruct ok; simpl.
      + split; [|split; [reflexivity|split; reflexivity]]. intros k e. simpl.
        rewrite fill_slots_lookup. unfold find_last_slot.
        destruct (List.find _ (rev es)) as [y|] eqn:Hf.
        * intros Hy. inversion Hy; subst y. clear Hy.
          pose proof (find_some _ _ Hf) as [_ Hk]. apply N.eqb_eq in Hk.
          split; [symmetry; exact Hk|].
          rewrite (Hwrites _ _ _ Hst). unfold find_last.
          rewrite (find_imp _ (fun x => e_idx x =? e_idx e) _ _ Hf).
          -- reflexivity.
          -- apply N.eqb_refl.
          -- intros x Hx. apply N.eqb_eq in Hx. apply N.eqb_eq. rewrite Hx. exact Hk.
        * intros Hold. destruct (Hinv _ _ Hold) as [Hk Hg]. split; [exact Hk|].
          rewrite (Hwrites _ _ _ Hst). unfold find_last.
          rewrite (find_none_imp _ (fun x => e_idx x =? e_idx e) _ Hf).
          -- exact Hg.
          -- intros x Hx. apply N.eqb_eq in Hx. apply N.eqb_eq. rewrite Hx. symmetry. exact Hk.
      + split; [|split; [reflexivity|split; reflexivity]]. intros k e Hs. simpl in *.
        destruct (Hinv _ _ Hs) as [Hk Hg]. split; [exact Hk|].
        rewrite (Hatomic _ _ _ Hst). exact Hg.
    - destruct (bdelete bk (c_back c) lo hi) as [b' ok]. simpl.
      split; [|split; [reflexivity|split; reflexivity]].
      intros k e H. simpl in H. rewrite lookup_empty in H. discriminate.
    - apply Hfin, Hinv.
    - apply Hfin, Hinv.
  Qed.

  Lemma run_sim ops : forall c, cache_inv c ->
    snd (run cache_step c ops) = snd (run (backend_step bk) (c_back c) ops).
  Proof.
    induction ops as [|o ops IH]; intros c Hinv; simpl; [reflexivity|].
    pose proof (cache_step_sim c o Hinv) as Hs.
    destruct (cache_step c o) as [c' r]. destruct (backend_step bk (c_back c) o) as [b' r'].
    destruct Hs as (Hinv' & Hb & Hr & _). subst b' r'.
    specialize (IH c' Hinv').
    destruct (run cache_step c' ops) as [c'' rs].
    destruct (run (backend_step bk) (c_back c') ops) as [b'' rs'].
    simpl in *. subst. reflexivity.
  Qed.

  Theorem logcache_transparent cap b0 ops :
    snd (run cache_step (cache_new cap b0) ops) = snd (run (backend_step bk) b0 ops).
  Proof. apply (run_sim ops (cache_new cap b0)). apply cache_new_inv. Qed.
End Transparent.

(* The reference store satisfies the two laws. *)
Lemma ms_store_atomic : store_atomic ms_backend.
Proof.
  intros b es b' H i. simpl in *. unfold next_fail in H.
  destruct (ms_fail b) as [|f fs]; [discriminate|].
  destruct f; inversion H; subst; reflexivity.
Qed.

Lemma ms_store_writes : store_writes ms_backend.
Proof.
  intros b es b' H i. simpl in *. unfold next_fail in H.
  destruct (ms_fail b) as [|f fs].
  - inversion H; subst. simpl. apply store_entries_lookup.
  - destruct f; inversion H; subst. simpl. apply store_entries_lookup.
Qed.

Theorem logcache_transparent_ms cap s0 ops :
  snd (run (@cache_step ms_backend) (cache_new cap s0) ops) = snd (run (backend_step ms_backend) s0 ops).
Proof. apply logcache_transparent; [exact ms_store_atomic | exact ms_store_writes]. Qed.

(* The hypothesis "a failed StoreLogs has no effect" is necessary: a backend whose failing
   StoreLogs nevertheless writes the batch makes the cache return a stale entry. *)
Definition leaky_backend : backend := {|
  B := mstore;
  bget := fun s i => ms_map s !! i;
  bstore := fun s es =>
    let '(f, fs) := next_fail s in
    (mkMS (store_entries (ms_map s) es) fs, negb f);
  bdelete := bdelete ms_backend;
  bfirst := bfirst ms_backend;
  blast := blast ms_backend;
|}.

Lemma atomic_failure_needed :
  exists cap s0 ops,
    snd (run (@cache_step leaky_backend) (cache_new cap s0) ops)
    <> snd (run (backend_step leaky_backend) s0 ops).
Proof.
  exists 4, (mkMS ∅ [false; true]),
    [OStore [mkE 1 1 0 7]; OStore [mkE 1 2 0 8]; OGet 1].
  vm_compute. intros H. discriminate.
Qed.

(* run_logcache / run_barestore (the functions the driver executes) agree on every input *)
Theorem run_logcache_eq_barestore inp : run_logcache inp = run_barestore inp.
Proof.
  unfold run_logcache, run_barestore.
  destruct inp as [|cap [|nf r]]; try reflexivity.
  f_equal. apply logcache_transparent_ms.
Qed.
