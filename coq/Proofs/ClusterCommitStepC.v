(* ClusterCommitStepC.v — CAck without a newer term keeps the invariant: the commitment records
   what the follower answered, and a commit index it derives is backed by a majority of acceptors. *)
From Coq Require Import List NArith Bool Lia.
From stdpp Require Import gmap.
From RaftModel Require Import Base Config Compaction Commitment Node NodeCodec Candidate Leader Replicate Cluster ClusterLog ClusterCommit.
From RaftProofs Require Import ConfigProofs CommitmentProofs VoteProofs ClusterProofs
  ClusterLogSpec ClusterLogChain ClusterLogNode ClusterLogVote ClusterLogLeader ClusterLogInv ClusterLogSteps
  ClusterCommitSpec ClusterCommitLog ClusterCommitChain ClusterCommitAE2 ClusterCommitNode ClusterCommitGhost
  ClusterCommitInv ClusterCommitFinal ClusterCommitUpd ClusterCommitStepA ClusterCommitQuorum.
Open Scope N_scope.

Lemma cm_match_step c j li :
  let c' := cm_step c (CMatch j li) in
  cm_start c' = cm_start c /\
  (forall j' v, cm_match c' !! j' = Some v -> (j' = j /\ v = li) \/ cm_match c !! j' = Some v) /\
  (forall j', is_Some (cm_match c' !! j') <-> is_Some (cm_match c !! j')) /\
  cm_commit c <= cm_commit c' /\
  (cm_commit c' = cm_commit c \/ (cm_commit c < cm_commit c' /\ cm_start c <= cm_commit c' /\ quorum_ok (cm_match c') (cm_commit c'))).
Proof.
  cbv zeta. pose proof (cm_step_spec c (CMatch j li)) as [S1 S2]. pose proof (commit_monotone c (CMatch j li)) as S3.
  split; [exact S1|]. split; [|split; [|split; [exact S3|exact S2]]].
  - intros j' v. simpl. destruct (cm_match c !! j) as [prev|] eqn:Ej; [|auto].
    destruct (prev <? li); [|auto]. rewrite recalculate_match. simpl.
    destruct (N.eq_dec j j') as [<-|Hne]; [rewrite lookup_insert; intros H; inversion H; auto|].
    rewrite lookup_insert_ne by exact Hne. auto.
  - intros j'. simpl. destruct (cm_match c !! j) as [prev|] eqn:Ej; [|reflexivity].
    destruct (prev <? li); [|reflexivity]. rewrite recalculate_match. simpl.
    destruct (N.eq_dec j j') as [<-|Hne]; [rewrite lookup_insert, Ej; split; eauto|].
    rewrite lookup_insert_ne by exact Hne. reflexivity.
Qed.

Section StepC.
  Variable cfg : config.
  Variable Ps : list params.
  Hypothesis HVn : NoDup (voters cfg).

  (* the leader's commitment takes a report (j, li) that is below its no-op or backed by an acceptance *)
  Lemma lead_inv_match g g' C LL A n s ld ld' j li :
    lead_inv cfg g C LL A n s -> find_lead (cg_lead g) (gn_id n) = Some ld -> find_lead (cg_lead g') (gn_id n) = Some ld' ->
    ld_cm ld' = cm_step (ld_cm ld) (CMatch j li) -> ld_next0 ld' = ld_next0 ld ->
    (li < ld_next0 ld \/ In (j, (li, v_term s)) A) ->
    (ld_notified ld' = true -> ld_notified ld = true \/ cm_commit (ld_cm ld') <> cm_commit (ld_cm ld)) ->
    lead_inv cfg g' C LL A n s.
  Proof.
    intros (tl & ld0 & L1 & L2 & L3 & L4 & L5 & L6 & L7 & L8 & L9 & L10 & L11) E E' Hcm Hn0 Hli Hnt.
    rewrite E in L2. inversion L2; subst ld0. clear L2.
    destruct (cm_match_step (ld_cm ld) j li) as (M1 & M2 & M3 & M4 & M5). cbv zeta in *. rewrite <- Hcm in *.
    exists tl, ld'. rewrite Hn0. split; [exact L1|]. split; [exact E'|]. split; [exact L3|]. split; [exact L4|].
    split; [exact L5|]. split; [congruence|]. split.
    { intros j' v Hv. destruct (M2 j' v Hv) as [[-> ->]|Hold]; [exact Hli|apply (L7 j' v Hold)]. }
    assert (L8' : (forall j', cm_match (ld_cm ld') !! j' = None) \/ (forall j', is_Some (cm_match (ld_cm ld') !! j') <-> In j' (voters cfg))).
    { destruct L8 as [H|H]; [left|right].
      - intros j'. destruct (cm_match (ld_cm ld') !! j') eqn:Ex; [|reflexivity].
        assert (Hs : is_Some (cm_match (ld_cm ld) !! j')) by (apply M3; rewrite Ex; eauto). rewrite H in Hs. destruct Hs; discriminate.
      - intros j'. rewrite M3. apply H. }
    split; [exact L8'|]. split.
    { destruct M5 as [Eq|(Hlt & Hst & Hq)].
      - rewrite Eq. exact L9.
      - right. split; [lia|]. destruct L8' as [Hnone|Hslots].
        + exfalso. unfold quorum_ok in Hq. assert (Hsz : size (cm_match (ld_cm ld')) = 0%nat).
          { apply map_size_empty_iff. apply map_eq. intros k. rewrite lookup_empty. apply Hnone. }
          pose proof (count_ge_le_length (cm_commit (ld_cm ld')) (match_vals (cm_match (ld_cm ld')))) as Hcl.
          rewrite <- size_match_vals in Hcl. lia.
        + destruct (quorum_ok_majority (cm_match (ld_cm ld')) (voters cfg) _ HVn Hslots Hq) as (W & HW & Hall).
          exists W. split; [exact HW|]. intros w Hw. destruct (Hall w Hw) as (v & Hv & Hle). exists v. split; [exact Hle|].
          destruct (M2 w v Hv) as [[-> ->]|Hold].
          * destruct Hli as [Hc|Hc]; [lia|exact Hc].
          * destruct (L7 w v Hold) as [Hc|Hc]; [lia|exact Hc]. }
    split; [lia|].
    intros Hn. destruct (Hnt Hn) as [Ho|Hne]; [specialize (L11 Ho)|]; lia.
  Qed.
End StepC.

Section StepC2.
  Variable cfg : config.
  Variable Ps : list params.
  Hypothesis HVn : NoDup (voters cfg).

  (* all leaders but i keep their leadership state *)
  Lemma leads_set g g' C LL A i ld' :
    (forall n s, In n (cnodes g) -> gn_run n = Up s -> v_role s = Leader -> lead_inv cfg g C LL A n s) ->
    cg_lead g' = set_lead (cg_lead g) i ld' ->
    (forall n s, In n (cnodes g) -> gn_run n = Up s -> v_role s = Leader -> gn_id n = i -> lead_inv cfg g' C LL A n s) ->
    forall n s, In n (cnodes g) -> gn_run n = Up s -> v_role s = Leader -> lead_inv cfg g' C LL A n s.
  Proof.
    intros Hall Hg' Hi n s Hin Hr Hrole. destruct (N.eq_dec (gn_id n) i) as [Ei|Hne]; [apply Hi; assumption|].
    destruct (Hall n s Hin Hr Hrole) as (tl & ld0 & L1 & L2 & L3). exists tl, ld0. split; [exact L1|]. split; [|exact L3].
    rewrite Hg', find_lead_set_other by exact Hne. exact L2.
  Qed.

  Theorem cinv_ack_same g C LL A V k g' a m n ld0 s :
    cinv cfg Ps g C LL A V ->
    nth_error (cg_ans g) k = Some a -> nth_error (lg_msgs (cg_l g)) (rs_req a) = Some m ->
    find_node (cnodes g) (am_from m) = Some n -> find_lead (cg_lead g) (am_from m) = Some ld0 -> gn_run n = Up s ->
    v_role s = Leader -> v_term s = aq_term (am_req m) ->
    (aq_term (am_req m) <? ar_term (rs_resp a)) = false ->
    g' = ack_result g a m n s ld0 -> cinv cfg Ps g' C LL A V.
  Proof.
    intros HI Ha Hm Hf Hfl Hr Hrole Ht Hst ->. unfold ack_result. cbv zeta. rewrite Hst.
    destruct (find_node_in _ _ _ Hf) as [Hin Hid].
    pose proof (nodes_nodup cfg Ps g C LL A V HI) as Hnd.
    assert (Huniq : forall x, In x (cnodes g) -> gn_id x = am_from m -> x = n).
    { intros x Hx Hxi. apply (nodup_id_eq _ x n Hnd Hx Hin). congruence. }
    assert (Hbk : forall ldn, (forall sx, gn_run n = Up sx -> v_role sx = Leader -> lead_inv cfg (mkCG (cg_l g) (set_lead (cg_lead g) (am_from m) ldn) (cg_hb g) (cg_ans g)) C LL A n sx) ->
              cinv cfg Ps (mkCG (cg_l g) (set_lead (cg_lead g) (am_from m) ldn) (cg_hb g) (cg_ans g)) C LL A V).
    { intros ldn Hn. apply (cinv_bookkeeping cfg Ps g _ C LL A V [] [] HI); try reflexivity.
      - cbn. rewrite app_nil_r. reflexivity.
      - apply (cv_l cfg Ps g C LL A V HI).
      - intros x [].
      - cbn. rewrite app_nil_r. reflexivity.
      - intros x [].
      - apply (leads_set g (mkCG (cg_l g) (set_lead (cg_lead g) (am_from m) ldn) (cg_hb g) (cg_ans g)) C LL A (am_from m) ldn (cv_lead cfg Ps g C LL A V HI) eq_refl).
        intros x sx Hx Hrx Hlx Hxi. rewrite (Huniq x Hx Hxi) in *. apply Hn; assumption. }
    assert (Hsame : forall ldn, ld_cm ldn = ld_cm ld0 -> ld_next0 ldn = ld_next0 ld0 -> ld_notified ldn = ld_notified ld0 ->
              cinv cfg Ps (mkCG (cg_l g) (set_lead (cg_lead g) (am_from m) ldn) (cg_hb g) (cg_ans g)) C LL A V).
    { intros ldn E1 E2 E3. apply Hbk. intros sx Hsx Hlx. rewrite Hr in Hsx. inversion Hsx; subst sx.
      apply (lead_inv_same_cm cfg g _ C LL A n s ld0 ldn (cv_lead cfg Ps g C LL A V HI n s Hin Hr Hrole)); auto.
      - rewrite Hid. exact Hfl.
      - cbn [cg_lead]. rewrite Hid. apply find_lead_set_same. }
    destruct (ar_success (rs_resp a)) eqn:Hsucc; [|apply Hsame; reflexivity].
    destruct (aq_entries (am_req m)) as [|e0 er] eqn:Ees; [apply Hsame; reflexivity|].
    set (es := e0 :: er) in *. set (li := e_idx (last_of es)).
    (* the report is below the no-op or backed by an acceptance *)
    pose proof (cv_l cfg Ps g C LL A V HI) as Hl. pose proof (cv_ci cfg Ps g C LL A V HI) as Hci. pose proof (ci_ok C LL Hci) as HC.
    assert (Hmin : In m (lg_msgs (cg_l g))) by (eapply nth_error_In; eauto).
    assert (Hlast : In (last_of es) (aq_entries (am_req m))) by (rewrite Ees; apply last_in; discriminate).
    destruct (cv_lead cfg Ps g C LL A V HI n s Hin Hr Hrole) as (tl & ldx & L1 & L2 & _ & _ & L5 & _).
    rewrite Hid, Hfl in L2. inversion L2; subst ldx. clear L2.
    assert (Hli : li < ld_next0 ld0 \/ In (am_to m, (li, v_term s)) A).
    { destruct (li_msgs [cfg] _ C Hl m Hmin) as (_ & _ & _ & Hterms).
      destruct (N.eq_dec (e_term (last_of es)) (v_term s)) as [Eq|Hne].
      - right. destruct (cv_ans cfg Ps g C LL A V HI a (nth_error_In _ _ Ha)) as (m' & Hm' & Hacc).
        rewrite Hm in Hm'. inversion Hm'; subst m'. rewrite Ees in Hacc. fold es in Hacc.
        replace (li, v_term s) with (key (last_of es)) by (unfold key, li; rewrite Eq; reflexivity).
        apply Hacc; [exact Hsucc|discriminate|congruence].
      - left. destruct (cv_msg cfg Ps g C LL A V HI m Hmin) as (M1 & _). destruct (M1 _ Hlast) as [_ (c & tl' & Hll & Hk)].
        rewrite <- Ht in Hll. destruct (ci_uniq C LL Hci _ _ _ _ _ Hll L1) as [_ ->].
        destruct Hk as [[Hk _]|Hk]; [simpl in Hk; congruence|].
        destruct (anc_le C _ _ HC Hk) as [Hle _]. unfold key in Hle. simpl in Hle. unfold li. lia. }
    match goal with |- cinv _ _ (mkCG _ (set_lead _ _ ?LD) _ _) _ _ _ _ => set (ldn := LD) end.
    apply Hbk. intros sx Hsx Hlx. rewrite Hr in Hsx. inversion Hsx; subst sx.
    apply (lead_inv_match cfg HVn g _ C LL A n s ld0 ldn (am_to m) li (cv_lead cfg Ps g C LL A V HI n s Hin Hr Hrole)).
    - rewrite Hid. exact Hfl.
    - cbn [cg_lead]. rewrite Hid. apply find_lead_set_same.
    - unfold ldn. match goal with |- context [if ?B then _ else _] => destruct B end; reflexivity.
    - unfold ldn. match goal with |- context [if ?B then _ else _] => destruct B end; reflexivity.
    - exact Hli.
    - unfold ldn. match goal with |- context [if ?B then _ else _] => destruct B eqn:EB end; intros E.
      + left. exact E.
      + right. apply N.eqb_neq in EB. exact EB.
  Qed.
End StepC2.
