(* ClusterLogMain.v — LOG MATCHING for the cluster transition system Model/ClusterLog.v without
   snapshots: every step keeps the invariant (Proofs/ClusterLogInv.v), the initial states satisfy
   it (Proofs/ClusterLogInit.v), and the invariant implies log_matching and terms_monotone. *)
From Coq Require Import List NArith Bool Lia.
From stdpp Require Import gmap.
From RaftModel Require Import Base Config Compaction Commitment Node NodeCodec Candidate Leader Replicate Cluster ClusterLog.
From RaftProofs Require Import ConfigProofs VoteProofs ClusterProofs
  ClusterLogSpec ClusterLogChain ClusterLogNode ClusterLogVote ClusterLogLeader ClusterLogInv ClusterLogSteps
  ClusterLogElect ClusterLogInit.
Open Scope N_scope.

Section Main.
  Variable cfgs : list config.
  Hypothesis HQ : quorums_intersect cfgs.

  Definition Linv (g : lgstate) : Prop := exists C, linv cfgs g C.

  Theorem lstep_inv g l g' : Linv g -> lstep false cfgs g l = Some g' -> Linv g'.
  Proof.
    intros [C Hinv] Hstep. destruct l as [gl|i ty data fs|i j next last|i j|k cut fs].
    - (* the election system *)
      unfold lstep in Hstep. destruct (label_ok false gl) eqn:Hok; [|discriminate].
      destruct (gstep cfgs (lg_g g) gl) as [g1|] eqn:Hg; [|discriminate].
      inversion Hstep; subst g'. clear Hstep.
      destruct gl as [i|i j cut fs|i j|j e cut fs].
      + eapply timeout_linv; eauto.
      + exists C. eapply votereq_linv; eauto.
      + eapply voteresp_linv; eauto.
      + exists C. eapply input_linv; eauto.
    - eapply propose_linv; eauto.
    - (* replicateTo *)
      unfold lstep in Hstep.
      destruct (find_node (g_nodes (lg_g g)) i) as [n|] eqn:Hfind; [|discriminate].
      destruct (find_node_in _ _ _ Hfind) as [Hin Hid].
      destruct (gn_run n) as [s|s] eqn:Hrun; [|discriminate].
      destruct ((v_role s =? Leader) && negb (i =? j) && (1 <=? next) && (last <=? last_index s)) eqn:Hc; [|discriminate].
      apply andb_prop in Hc. destruct Hc as [Hc _]. apply andb_prop in Hc. destruct Hc as [Hc Hnext].
      apply andb_prop in Hc. destruct Hc as [Hrole Hij].
      apply N.eqb_eq in Hrole. apply N.leb_le in Hnext. apply negb_true_iff in Hij. apply N.eqb_neq in Hij.
      destruct (setup_send (gn_P n) s next last) as [pi pt es c| |] eqn:Hsend; try discriminate.
      inversion Hstep; subst g'. clear Hstep. exists C.
      destruct (li_nodes cfgs g C Hinv n Hin) as [Hnl _]. rewrite Hrun in Hnl. simpl in Hnl.
      pose proof (node_wfr cfgs g C n Hinv Hin) as Hw. rewrite Hrun in Hw. destruct Hw as [_ Hvt].
      destruct (setup_send_chain C (gn_P n) s next last pi pt es c (li_chain cfgs g C Hinv) Hnl Hnext Hsend) as [Hmc Hts].
      eapply (send_linv cfgs g C i n s); eauto.
      intros e He. simpl in He. rewrite Hvt. apply Hts, He.
    - (* heartbeat *)
      unfold lstep in Hstep.
      destruct (find_node (g_nodes (lg_g g)) i) as [n|] eqn:Hfind; [|discriminate].
      destruct (gn_run n) as [s|s] eqn:Hrun; [|discriminate].
      destruct ((v_role s =? Leader) && negb (i =? j)) eqn:Hc; [|discriminate].
      apply andb_prop in Hc. destruct Hc as [Hrole Hij].
      apply N.eqb_eq in Hrole. apply negb_true_iff in Hij. apply N.eqb_neq in Hij.
      inversion Hstep; subst g'. clear Hstep. exists C.
      eapply (send_linv cfgs g C i n s); eauto.
      + simpl. exact I.
      + intros e [].
    - (* delivery *)
      unfold lstep in Hstep.
      destruct (nth_error (lg_msgs g) k) as [m|] eqn:Hk; [|discriminate].
      destruct (gstep cfgs (lg_g g) (GInput (am_to m) (NAppend (am_req m)) cut fs)) as [g1|] eqn:Hg; [|discriminate].
      inversion Hstep; subst g'. clear Hstep. exists C.
      eapply deliver_linv; eauto. eapply nth_error_In; eauto.
  Qed.

  Theorem lrun_inv ls : forall g g', Linv g -> lrun false cfgs g ls = Some g' -> Linv g'.
  Proof.
    induction ls as [|l r IH]; intros g g' Hinv H; simpl in H.
    - inversion H; subst. exact Hinv.
    - destruct (lstep false cfgs g l) as [g1|] eqn:E; [|discriminate].
      eapply IH; [eapply lstep_inv; eassumption|exact H].
  Qed.

  (* what the invariant says about the logs *)
  Theorem linv_log_matching g : Linv g -> log_matching g /\ terms_monotone g.
  Proof.
    intros [C Hinv]. pose proof (li_chain cfgs g C Hinv) as HC.
    assert (Hn : forall a, In a (g_nodes (lg_g g)) ->
              log_in C (log_of a) (d_term (image (gn_run a))) /\ exists top, log_below C (log_of a) top).
    { intros a Ha. destruct (li_nodes cfgs g C Hinv a Ha) as [Hnl _].
      destruct (nlog_image C _ Hnl) as (_ & A & B). auto. }
    assert (Hanc : forall a, In a (g_nodes (lg_g g)) -> forall i j ei ej, i <= j ->
              log_of a !! i = Some ei -> log_of a !! j = Some ej -> anc C (key ei) (key ej)).
    { intros a Ha i j ei ej Hij Hi Hj. destruct (Hn a Ha) as [Hin [top Hbel]].
      apply (anc_linear C _ _ top HC (Hbel i ei Hi) (Hbel j ej Hj)).
      destruct (Hin i ei Hi) as (K1 & _). destruct (Hin j ej Hj) as (K2 & _). unfold key. simpl. lia. }
    split.
    - intros a b Ha Hb i ea eb Hea Heb Hterm k ka kb Hk Hka Hkb.
      destruct (Hn a Ha) as [Hina _]. destruct (Hn b Hb) as [Hinb _].
      destruct (Hina i ea Hea) as (Ia & _). destruct (Hinb i eb Heb) as (Ib & _).
      assert (Hkey : key ea = key eb) by (unfold key; congruence).
      pose proof (Hanc a Ha k i ka ea Hk Hka Hea) as A1.
      pose proof (Hanc b Hb k i kb eb Hk Hkb Heb) as A2. rewrite <- Hkey in A2.
      destruct (Hina k ka Hka) as (Ka & (pa & Pa) & _). destruct (Hinb k kb Hkb) as (Kb & (pb & Pb) & _).
      assert (Hkk : key ka = key kb).
      { apply (anc_unique C _ _ (key ea) HC A1 A2). unfold key. simpl. congruence. }
      apply (co_fun C HC ka pa kb pb Pa Pb Hkk).
    - intros a Ha i j ei ej Hij Hi Hj. destruct (Hn a Ha) as [Hin _].
      split; [|apply (Hin i ei Hi)].
      apply (anc_term C _ _ HC (Hanc a Ha i j ei ej Hij Hi Hj)).
  Qed.
End Main.

(* LOG MATCHING, no snapshots: elections under any set of configurations whose majorities pairwise
   intersect; any interleaving of timers, vote requests and responses, stray vote requests,
   restarts, TimeoutNow, proposals, AppendEntries built for any nextIndex and delivered late,
   repeatedly, reordered or never, with store failures and crash cuts everywhere *)
Theorem log_matching_no_snapshots : forall cfgs g0 ls g,
  quorums_intersect cfgs -> linit_ok g0 -> lrun false cfgs g0 ls = Some g ->
  log_matching g /\ terms_monotone g.
Proof.
  intros cfgs g0 ls g HQ H0 Hrun.
  apply (linv_log_matching cfgs g).
  apply (lrun_inv cfgs HQ ls g0 g); [|exact Hrun].
  destruct (linit_linv cfgs g0 H0) as [C HC]. exists C. exact HC.
Qed.

Print Assumptions log_matching_no_snapshots.
