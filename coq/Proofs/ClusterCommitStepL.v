(* ClusterCommitStepL.v — Proofs/ClusterLogElect.v propose_linv and become_leader_linv with the
   ghost history they build made explicit (the commitment invariant speaks about that history). *)
From Coq Require Import List NArith Bool Lia.
From stdpp Require Import gmap.
From RaftModel Require Import Base Config Compaction Commitment Node NodeCodec Candidate Leader Replicate Cluster ClusterLog.
From RaftProofs Require Import ConfigProofs VoteProofs ClusterProofs
  ClusterLogSpec ClusterLogChain ClusterLogNode ClusterLogVote ClusterLogLeader ClusterLogInv ClusterLogSteps ClusterLogElect.
Open Scope N_scope.

Section Explicit.
  Variable cfgs : list config.
  Hypothesis HQ : quorums_intersect cfgs.

  (* dispatchLogs stored the entry *)
  Lemma propose_linv_ok g C i n s ty data fs :
    linv cfgs g C -> find_node (g_nodes (lg_g g)) i = Some n -> gn_run n = Up s -> v_role s = Leader ->
    fst (next_fail fs) = false ->
    let s' := l_node (fst (fst (fst (dispatch (gn_P n) (leader_setup s) fs [(ty, data, 0)])))) in
    linv cfgs (mkLG (set_node_run (lg_g g) i n (Up s')) (lg_msgs g)) ((new_entry s ty data, (v_lastLogIdx s, v_lastLogTerm s)) :: C).
  Proof.
    intros Hinv Hfind Hrun Hrole Hok. cbv zeta.
    destruct (find_node_in _ _ _ Hfind) as [Hin Hid].
    pose proof (dispatch_one (gn_P n) s fs ty data 0) as Hd. cbv zeta in Hd.
    set (s' := l_node (fst (fst (fst (dispatch (gn_P n) (leader_setup s) fs [(ty, data, 0)]))))) in *.
    destruct Hd as (Dd & Dv & Dsn & Dsi & Hcase).
    assert (Dt : d_term s' = d_term s) by (unfold dproj in Dd; inversion Dd; reflexivity).
    pose proof (li_g cfgs g C Hinv) as Hg. pose proof (li_chain cfgs g C Hinv) as HC.
    destruct (li_nodes cfgs g C Hinv n Hin) as [Hnl Hlo]. rewrite Hrun in Hnl. simpl in Hnl.
    destruct (Hlo s Hrun Hrole) as (L1 & L2 & L3).
    pose proof (gi_nodes cfgs _ Hg n Hin) as [(Hw & Hig & Hfun) _]. rewrite Hrun in Hw, Hig. simpl in Hw.
    destruct Hw as [Hwd Hvt].
    assert (Hks : keep_sess (Up s') (gn_sess n) = None) by (rewrite L2; reflexivity).
    unfold set_node_run. rewrite Hks.
    set (n' := mkGN (gn_P n) (Up s') None (gn_next n)).
    set (g1 := mkG (upd_node (g_nodes (lg_g g)) i n') (g_resps (lg_g g)) (g_leaders (lg_g g)) (g_grants (lg_g g))).
    assert (Hg1 : ginv cfgs g1).
    { eapply (ginv_update cfgs (lg_g g) g1 i n n' []); try reflexivity; try exact Hg; try exact Hfind.
      - exact Hid.
      - intros x [].
      - unfold node_ok. cbn [gn_run n']. change (gn_id n') with (gn_id n).
        change (Gof g1 (gn_id n)) with (Gof (lg_g g) (gn_id n)).
        split; [|split; [|exact Hfun]].
        + simpl. eapply wfu_dproj; [split; [exact Hwd|exact Hvt]|exact Dd|exact Dv].
        + eapply inv_grants_dproj; [|exact Hig]. simpl. symmetry. exact Dd.
      - intros rp Hrp. split; [|left; exact Hrp].
        destruct (gi_resps cfgs _ Hg rp Hrp) as [_ Hall]. specialize (Hall n Hin).
        unfold resp_node in *. change (gn_id n') with (gn_id n). cbn [gn_sess gn_next n'].
        intros Hc. destruct (Hall Hc) as [A _]. split; [exact A|]. intros se0 H0. discriminate.
      - intros x Hx. left. exact Hx. }
    pose proof Hnl as (_ & _ & Hsi & Hlt & Hz & _).
    assert (Hli : last_index s = v_lastLogIdx s) by (unfold last_index; rewrite Hsi; lia).
    destruct Hcase as [(Hf & _)|(_ & Dl & Dci & Dct & Dr)]; [congruence|].
    set (e := new_entry s ty data) in *.
    assert (He1 : e_idx e = v_lastLogIdx s + 1) by (unfold e, new_entry; simpl; rewrite Hli; reflexivity).
    assert (He2 : e_term e = v_term s) by reflexivity.
    apply (linv_update cfgs HQ g (mkLG g1 (lg_msgs g)) C _ i n n' Hinv Hg1 Hfind Hid eq_refl).
    - apply incl_refl.
    - intros T k H. left. exact H.
    - intros x Hx. right. exact Hx.
    - apply chain_ok_cons; auto.
      + intros x q Hx Hkey. unfold key in Hkey. inversion Hkey as [[K1 K2]].
        pose proof (L3 x q Hx (eq_trans K2 He2)). lia.
      + change (v_lastLogTerm s <= v_term s). lia.
      + simpl. intros E. rewrite (Hz E), E. reflexivity.
    - intros x p [E|H]; [|left; exact H]. inversion E; subst x p. right. change (In (v_term s, i) (g_leaders (lg_g g))). rewrite <- Hid. exact L1.
    - unfold dt. simpl. rewrite Hrun, Dt. simpl. lia.
    - intros se0 H0. discriminate.
    - simpl. apply (leader_append_nlog C s s' e Hnl He1).
      + rewrite Dt, He2. lia.
      + exact Dl.
      + rewrite Dci, He1, Hli. reflexivity.
      + rewrite Dct, He2. reflexivity.
      + exact Dsn.
      + exact Dsi.
      + rewrite Dt. lia.
    - intros s0 Hs0 Hr. simpl in Hs0. inversion Hs0; subst s0. simpl. rewrite Dv.
      change (gn_id n') with (gn_id n). split; [exact L1|]. split; [reflexivity|].
      intros x p [E|H] Ht.
      + inversion E; subst. rewrite Dci, Hli. simpl. rewrite Hli. lia.
      + pose proof (L3 x p H Ht). rewrite Dci, Hli. lia.
    - intros m Hm. left. exact Hm.
  Qed.

  (* runLeader: the server is recorded as leader of its term and stores the no-op *)
  Lemma become_leader_linv_ok g C g1 j n s sL next' :
    linv cfgs g C -> ginv cfgs g1 ->
    find_node (g_nodes (lg_g g)) j = Some n -> gn_run n = Up s ->
    g_nodes g1 = upd_node (g_nodes (lg_g g)) j (mkGN (gn_P n) (Up (become_leader (gn_P n) sL)) None next') ->
    g_leaders g1 = (v_term sL, j) :: g_leaders (lg_g g) ->
    lkeep sL s -> d_term s <= d_term sL -> v_term sL = d_term sL -> v_role sL = Leader ->
    (forall T', T' <= dt n -> (forall se, gn_sess n = Some se -> T' < vq_term (se_req se)) -> T' <> v_term sL) ->
    linv cfgs (mkLG g1 (lg_msgs g)) ((new_entry sL LogNoop 0, (v_lastLogIdx sL, v_lastLogTerm sL)) :: C) /\
    (forall x p, In (x, p) C -> e_term x <> v_term sL) /\
    (forall T c, In (T, c) (g_leaders (lg_g g)) -> T <> v_term sL).
  Proof.
    intros Hinv Hg1 Hfind Hrun Hn1 Hl1 Hk Hdt Hvt Hrole Hfresh.
    destruct (find_node_in _ _ _ Hfind) as [Hin Hid].
    pose proof (li_chain cfgs g C Hinv) as HC.
    destruct (li_nodes cfgs g C Hinv n Hin) as [Hnl _]. rewrite Hrun in Hnl. simpl in Hnl.
    assert (HnL : nlog_up C sL) by (eapply nlog_up_keep; eauto).
    pose proof HnL as (_ & _ & Hsi & Hlt & Hz & _).
    assert (Hli : last_index sL = v_lastLogIdx sL) by (unfold last_index; rewrite Hsi; lia).
    set (e := new_entry sL LogNoop 0).
    set (ck := (v_lastLogIdx sL, v_lastLogTerm sL)).
    set (s' := become_leader (gn_P n) sL).
    pose proof (dispatch_one (gn_P n) sL [] LogNoop 0 0) as Hd. cbv zeta in Hd. fold (become_leader (gn_P n) sL) in Hd. fold s' in Hd. fold e in Hd.
    destruct Hd as (Dd & Dv & Dsn & Dsi & [(Hf & _)|(_ & Dl & Dci & Dct & Dr)]); [simpl in Hf; discriminate|].
    assert (Dt : d_term s' = d_term sL) by (unfold dproj in Dd; inversion Dd; reflexivity).
    assert (Hnol : forall T c, In (T, c) (g_leaders (lg_g g)) -> T <> v_term sL).
    { intros T c Hl Ht. subst T. assert (c = j).
      { apply (leaders_fun cfgs g1 (v_term sL) c j HQ Hg1); rewrite Hl1; [right; exact Hl|left; reflexivity]. }
      subst c. destruct (li_leaders cfgs g C Hinv _ _ Hl n Hin Hid) as [A B]. apply (Hfresh (v_term sL) A B eq_refl). }
    assert (Hnone : forall x p, In (x, p) C -> e_term x <> v_term sL).
    { intros x p Hx Ht. destruct (li_src cfgs g C Hinv x p Hx) as [(id & Hl)|Hdead].
      - apply (Hnol _ _ Hl Ht).
      - destruct (Hdead n Hin) as [A B]. apply (Hfresh (e_term x) A B Ht). }
    assert (He1 : e_idx e = v_lastLogIdx sL + 1) by (unfold e, new_entry; simpl; rewrite Hli; reflexivity).
    assert (He2 : e_term e = v_term sL) by reflexivity.
    split; [|split; [exact Hnone|exact Hnol]].
    apply (linv_update cfgs HQ g (mkLG g1 (lg_msgs g)) C ((e, ck) :: C) j n
             (mkGN (gn_P n) (Up s') None next') Hinv Hg1 Hfind Hid Hn1).
    - simpl. rewrite Hl1. intros x Hx. right. exact Hx.
    - simpl. rewrite Hl1. intros T i [E|H]; [|left; exact H]. inversion E; subst. right.
      split; [reflexivity|]. split; [|reflexivity]. unfold dt. simpl. rewrite Dt. lia.
    - intros x Hx. right. exact Hx.
    - apply chain_ok_cons; auto.
      + intros x q Hx Hkey. apply (Hnone x q Hx). unfold key in Hkey. inversion Hkey. congruence.
      + change (v_lastLogTerm sL <= v_term sL). lia.
      + unfold ck. simpl. intros E. rewrite (Hz E), E. reflexivity.
    - intros x p [E|H]; [|left; exact H]. inversion E; subst. right. simpl. rewrite Hl1. left. reflexivity.
    - unfold dt. simpl. rewrite Hrun, Dt. exact Hdt.
    - intros se Hse. discriminate.
    - simpl. apply (leader_append_nlog C sL s' e HnL He1).
      + rewrite Dt, He2. lia.
      + exact Dl.
      + rewrite Dci, He1, Hli. reflexivity.
      + rewrite Dct, He2. reflexivity.
      + exact Dsn.
      + exact Dsi.
      + rewrite Dt. lia.
    - intros s0 Hs0 Hr. simpl in Hs0. inversion Hs0; subst s0. simpl. rewrite Hl1, Dv.
      split; [left; change (gn_id (mkGN (gn_P n) (Up s') None next')) with (gn_id n); rewrite Hid; reflexivity|]. split; [reflexivity|].
      intros x p [E|H] Ht; [inversion E; subst; rewrite Dci, Hli; simpl; lia|].
      exfalso. apply (Hnone x p H Ht).
    - intros m Hm. left. exact Hm.
  Qed.
End Explicit.
