(* Election safety over the composed cluster (Model/Cluster.v): at most one leader per term, for
   every run of the transition system - any interleaving of timers, vote requests executed late,
   repeatedly or never, responses lost, other RPCs, store failures, crash cuts and restarts. *)
From Coq Require Import List NArith Bool Lia.
From stdpp Require Import gmap.
From RaftModel Require Import Base Config Compaction Commitment Node NodeCodec Candidate Leader Cluster.
From RaftProofs Require Import ConfigProofs VoteProofs AdvLeaderProofs.
Open Scope N_scope.

(* ---------------------------------------------------------------- one handler step at a voter *)
Definition ob_grant (ob : nobs) : list (N * N) :=
  match ob with OVote q _ true => [(vq_term q, vq_addr q)] | _ => [] end.

Lemma inv_grants_le r G T c : inv_grants r G -> In (T, c) G -> T <= d_term (image r).
Proof. intros H Hin. destruct (H T c Hin) as [Hlt|[Heq _]]; lia. Qed.

Lemma node_step_inv P r e cut fs G : wfr r -> inv_grants r G -> functional G ->
  let '(r', ob, _) := step_full P r e cut fs in
  wfr r' /\ inv_grants r' (ob_grant ob ++ G) /\ functional (ob_grant ob ++ G) /\
  d_term (image r) <= d_term (image r').
Proof.
  intros Hw Hinv Hfun.
  pose proof (step_good P r e cut fs Hw) as Hs.
  destruct (step_full P r e cut fs) as [[r' ob] out].
  destruct Hs as (Hw' & Hgood & Hgr & _).
  destruct Hgood as (_ & Hmono & Hstab & _). unfold dproj in Hmono. simpl in Hmono.
  assert (Hinv' : inv_grants r' G).
  { intros T c Hin. destruct (Hinv T c Hin) as [Hlt|[Heq HL]].
    - left. lia.
    - destruct (N.eq_dec (d_term (image r')) T) as [E|E].
      + right. split; [exact E|]. apply Hstab; [exact HL|exact E].
      + left. lia. }
  split; [exact Hw'|].
  destruct ob as [q t [|]| | | | | |]; simpl; try (repeat split; assumption).
  pose proof (Hgr q t eq_refl) as HL. apply live_term in HL as HT. destruct HT as (HT & _).
  assert (Hold : forall x, In (vq_term q, x) G -> x = vq_addr q).
  { intros x Hx. destruct (Hinv' _ _ Hx) as [Hlt|[_ HL']]; [lia|]. rewrite HL in HL'. inversion HL'. reflexivity. }
  split; [|split; [|exact Hmono]].
  - intros T c [Hin|Hin]; [inversion Hin; subst; right; auto|apply Hinv'; exact Hin].
  - intros T c c' [H1|H1] [H2|H2].
    + inversion H1; inversion H2; subst. reflexivity.
    + inversion H1; subst. symmetry. apply Hold. exact H2.
    + inversion H2; subst. apply Hold. exact H1.
    + apply (Hfun T c c' H1 H2).
Qed.

(* ---------------------------------------------------------------- runCandidate without pre-vote, no store failure *)
Definition entered (P : params) (s0 : nstate) : nstate :=
  (* the state after electSelf's setCurrentTerm *)
  set_vol_term (set_durable_term (set_state s0 Candidate) (v_term s0 + 1)) (v_term s0 + 1).

Definition voted (P : params) (s0 : nstate) : nstate :=
  set_vterm (set_vcand (entered P s0) (Some (p_self P))) (v_term s0 + 1).

Lemma sess_enter_cases P s0 :
  let nt := v_term s0 + 1 in
  let needed := quorum_size (v_latest s0) in
  if self_is_voter P s0 then
    if needed <=? 1
    then fst (sess_enter P false s0) = SLeader (set_transfer (set_leader (set_state (voted P s0) Leader) (p_self P) (p_self P)) false)
    else fst (sess_enter P false s0) = SCand (voted P s0) (mkCand nt false true 0 0 1 needed)
  else fst (sess_enter P false s0) = SCand (entered P s0) (mkCand nt false true 0 0 0 needed).
Proof.
  cbv zeta. unfold sess_enter, cand_enter. cbn [andb]. unfold elect_self, do_set_term. cbn [next_fail].
  change (v_term (set_state s0 Candidate)) with (v_term s0).
  change (v_latest (set_state s0 Candidate)) with (v_latest s0).
  fold (entered P s0).
  destruct (last_entry (entered P s0)) as [li lt].
  change (v_latest (entered P s0)) with (v_latest s0).
  unfold self_is_voter.
  destruct (existsb (fun sv => is_voter sv && (s_id sv =? p_self P)) (v_latest s0)) eqn:EV.
  - unfold persist_vote. cbn [next_fail]. fold (voted P s0).
    cbn [feed_self c_prevote on_vote c_voting negb vr_term vr_granted c_granted c_needed].
    change (v_term (voted P s0)) with (v_term s0 + 1). rewrite N.ltb_irrefl.
    change (0 + 1) with 1.
    destruct (quorum_size (v_latest s0) <=? 1); reflexivity.
  - cbn [feed_self]. reflexivity.
Qed.

Lemma sess_vote_cases P s c v : c_voting c = true ->
  fst (sess_step P false (SCand s c) (CVote v)) =
  if v_term s <? vr_term v then
    SFollower (set_transfer (set_vol_term (set_durable_term (set_state s Follower) (vr_term v)) (vr_term v)) false)
  else
    let g := if vr_granted v then c_granted c + 1 else c_granted c in
    if c_needed c <=? g
    then SLeader (set_transfer (set_leader (set_state s Leader) (p_self P) (p_self P)) false)
    else SCand s (mkCand (c_term c) (c_prevote c) true (c_pvGranted c) (c_pvRefused c) g (c_needed c)).
Proof.
  intros Hv. unfold sess_step, on_vote. rewrite Hv. cbn [negb].
  destruct (v_term s <? vr_term v).
  - unfold do_set_term. cbn [next_fail]. reflexivity.
  - cbv zeta. destruct (c_needed c <=? (if vr_granted v then c_granted c + 1 else c_granted c)); [reflexivity|].
    cbn [feed_self exit_loop fst]. reflexivity.
Qed.

(* ---------------------------------------------------------------- durable facts about those states *)
Lemma inv_grants_dproj r r' G : dproj (image r) = dproj (image r') -> inv_grants r G -> inv_grants r' G.
Proof.
  intros E H T c Hin. unfold live. rewrite <- E.
  assert (Et : d_term (image r') = d_term (image r)) by (unfold dproj in E; inversion E; reflexivity).
  rewrite Et. apply H. exact Hin.
Qed.

Lemma inv_grants_term_up r s' G : inv_grants r G -> d_term (image r) < d_term s' -> inv_grants (Up s') G.
Proof.
  intros H Hlt T c Hin. left. simpl. pose proof (inv_grants_le r G T c H Hin). lia.
Qed.

Lemma wfu_entered P s0 : wfu s0 -> wfu (entered P s0).
Proof. intros [H1 H2]. unfold wfu, wfd, entered in *. simpl. lia. Qed.

Lemma wfu_voted P s0 : wfu s0 -> wfu (voted P s0).
Proof. intros [H1 H2]. unfold wfu, wfd, voted, entered in *. simpl. lia. Qed.

Lemma live_voted P s0 : live (voted P s0) = Some (v_term s0 + 1, p_self P).
Proof. unfold live, live_d, dproj, voted, entered. simpl. rewrite N.eqb_refl. reflexivity. Qed.

Lemma d_term_voted P s0 : d_term (voted P s0) = v_term s0 + 1.
Proof. reflexivity. Qed.
Lemma d_term_entered P s0 : d_term (entered P s0) = v_term s0 + 1.
Proof. reflexivity. Qed.

Lemma inv_voted P s0 G : wfu s0 -> inv_grants (Up s0) G -> functional G ->
  inv_grants (Up (voted P s0)) ((v_term s0 + 1, p_self P) :: G) /\ functional ((v_term s0 + 1, p_self P) :: G).
Proof.
  intros [Hw Hv] Hinv Hfun. split.
  - intros T c [Hin|Hin].
    + inversion Hin; subst. right. split; [reflexivity|apply live_voted].
    + left. pose proof (inv_grants_le _ _ _ _ Hinv Hin) as Hle. simpl in Hle. simpl. lia.
  - intros T c c' [H1|H1] [H2|H2].
    + inversion H1; inversion H2; subst. reflexivity.
    + inversion H1; subst. pose proof (inv_grants_le _ _ _ _ Hinv H2) as Hle. simpl in Hle. lia.
    + inversion H2; subst. pose proof (inv_grants_le _ _ _ _ Hinv H1) as Hle. simpl in Hle. lia.
    + apply (Hfun T c c' H1 H2).
Qed.

Lemma inv_entered P s0 G : wfu s0 -> inv_grants (Up s0) G -> inv_grants (Up (entered P s0)) G.
Proof.
  intros [Hw Hv] Hinv. eapply inv_grants_term_up; [exact Hinv|]. simpl. lia.
Qed.

Lemma become_leader_same P s : dproj (become_leader P s) = dproj s /\ v_term (become_leader P s) = v_term s.
Proof.
  unfold become_leader, dispatch, leader_setup. cbn [l_node l_inflight l_cm number_logs map fst snd app].
  pose proof (do_stage_spec P s (v_commit s)) as (S1 & S2 & _).
  destruct (do_stage P s (v_commit s)) as [s1 trs]. simpl in S1, S2.
  pose proof (do_store_spec P s1 [] [mkE (last_index s + 1) (v_term s) LogNoop 0]) as (T1 & T2).
  destruct (do_store P s1 [] [mkE (last_index s + 1) (v_term s) LogNoop 0]) as [[s2 ok] fs']. simpl in T1, T2.
  destruct ok; cbn [negb fst snd l_node]; [change (dproj (set_lastlog s2 (e_idx (last_of [mkE (last_index s + 1) (v_term s) LogNoop 0])) (v_term s))) with (dproj s2); change (v_term (set_lastlog s2 (e_idx (last_of [mkE (last_index s + 1) (v_term s) LogNoop 0])) (v_term s))) with (v_term s2)|change (dproj (set_state s2 Follower)) with (dproj s2); change (v_term (set_state s2 Follower)) with (v_term s2)]; split; congruence.
Qed.

(* ---------------------------------------------------------------- the cluster invariant *)
Section Safety.
  Variable cfgs : list config.

  Definition Gof (g : gstate) (j : N) : list (N * N) :=
    flat_map (fun x => match x with (j', T, c) => if j' =? j then [(T, c)] else [] end) (g_grants g).

  Lemma Gof_in g j T c : In (T, c) (Gof g j) <-> In (j, T, c) (g_grants g).
  Proof.
    unfold Gof. rewrite in_flat_map. split.
    - intros ([[j' T'] c'] & Hin & H). destruct (N.eqb_spec j' j); [|contradiction].
      destruct H as [H|[]]. inversion H; subst. exact Hin.
    - intros H. exists (j, T, c). split; [exact H|]. rewrite N.eqb_refl. left. reflexivity.
  Qed.

  (* a witness of c votes for (T, i): distinct voters that granted it *)
  Definition tally (c : config) (g : gstate) (T i : N) (W : list N) : Prop :=
    NoDup W /\ incl W (voters c) /\ forall w, In w W -> In (w, T, i) (g_grants g).

  Definition node_ok (g : gstate) (n : gnode) : Prop :=
    wfr (gn_run n) /\ inv_grants (gn_run n) (Gof g (gn_id n)) /\ functional (Gof g (gn_id n)).

  Definition sess_ok (g : gstate) (n : gnode) : Prop :=
    match gn_sess n with
    | None => True
    | Some se =>
      exists c s, In c cfgs /\ gn_run n = Up s /\
        v_term s = vq_term (se_req se) /\ vq_addr (se_req se) = gn_id n /\
        c_voting (se_c se) = true /\ c_needed (se_c se) = quorum_size c /\
        incl (se_asked se) (voters c) /\ ~ In (gn_id n) (se_asked se) /\ se_epoch se < gn_next n /\
        exists W, tally c g (vq_term (se_req se)) (gn_id n) W /\
                  N.of_nat (length W) = c_granted (se_c se) /\ incl W (gn_id n :: se_got se)
    end.

  Definition resp_grant (g : gstate) (rp : resp) : Prop :=
    rp_granted rp = true -> In (rp_voter rp, rp_reqterm rp, rp_cand rp) (g_grants g).
  Definition resp_node (n : gnode) (rp : resp) : Prop :=
    gn_id n = rp_cand rp ->
      rp_epoch rp < gn_next n /\
      forall se, gn_sess n = Some se -> rp_epoch rp = se_epoch se ->
        rp_reqterm rp = vq_term (se_req se) /\ In (rp_voter rp) (se_asked se).
  Definition resp_ok (g : gstate) (rp : resp) : Prop :=
    resp_grant g rp /\ forall n, In n (g_nodes g) -> resp_node n rp.

  Definition leader_ok (g : gstate) (x : N * N) : Prop :=
    exists c W, In c cfgs /\ tally c g (fst x) (snd x) W /\ quorum_size c <= N.of_nat (length W).

  Record ginv (g : gstate) : Prop := {
    gi_ids : NoDup (map gn_id (g_nodes g));
    gi_nodes : forall n, In n (g_nodes g) -> node_ok g n /\ sess_ok g n;
    gi_resps : forall rp, In rp (g_resps g) -> resp_ok g rp;
    gi_leaders : forall x, In x (g_leaders g) -> leader_ok g x;
    gi_grant_ids : forall w T c, In (w, T, c) (g_grants g) -> exists n, In n (g_nodes g) /\ gn_id n = w;
  }.

  (* ---------------------------------------------------------------- list plumbing *)
  Lemma find_node_in l i n : find_node l i = Some n -> In n l /\ gn_id n = i.
  Proof.
    induction l as [|x r IH]; simpl; [discriminate|]. destruct (N.eqb_spec (gn_id x) i).
    - intros H; inversion H; subst. auto.
    - intros H. destruct (IH H). auto.
  Qed.

  Lemma upd_node_ids l i n' : gn_id n' = i -> map gn_id (upd_node l i n') = map gn_id l.
  Proof.
    intros E. unfold upd_node. rewrite map_map. apply map_ext_in. intros a _.
    destruct (N.eqb_spec (gn_id a) i); congruence.
  Qed.

  Lemma upd_node_in l i n' x : In x (upd_node l i n') ->
    (x = n' /\ exists n, In n l /\ gn_id n = i) \/ (In x l /\ gn_id x <> i).
  Proof.
    unfold upd_node. rewrite in_map_iff. intros (a & Ha & Hin).
    destruct (N.eqb_spec (gn_id a) i); subst; [left; split; [reflexivity|eauto]|right; auto].
  Qed.

  Lemma nodup_id_eq l n m : NoDup (map gn_id l) -> In n l -> In m l -> gn_id n = gn_id m -> n = m.
  Proof.
    induction l as [|x r IH]; simpl; intros Hnd Hn Hm E; [contradiction|].
    inversion Hnd as [|? ? Hx Hr]; subst.
    destruct Hn as [->|Hn], Hm as [->|Hm]; auto.
    - exfalso. apply Hx. rewrite E. apply in_map. exact Hm.
    - exfalso. apply Hx. rewrite <- E. apply in_map. exact Hn.
  Qed.

  Lemma Gof_extra g g' extra j : g_grants g' = extra ++ g_grants g ->
    Gof g' j = flat_map (fun x => match x with (j', T, c) => if j' =? j then [(T, c)] else [] end) extra ++ Gof g j.
  Proof. intros E. unfold Gof. rewrite E, flat_map_app. reflexivity. Qed.

  Lemma Gof_other g g' extra i j : g_grants g' = extra ++ g_grants g ->
    (forall x, In x extra -> fst (fst x) = i) -> j <> i -> Gof g' j = Gof g j.
  Proof.
    intros E Hx Hne. rewrite (Gof_extra g g' extra j E).
    replace (flat_map _ extra) with (@nil (N * N)); [reflexivity|].
    symmetry. clear E. induction extra as [|[[j' T] c] r IH]; simpl; [reflexivity|].
    assert (j' = i) by (apply (Hx (j', T, c)); left; reflexivity). subst j'.
    destruct (N.eqb_spec i j); [congruence|]. simpl. apply IH. intros x Hin. apply Hx. right. exact Hin.
  Qed.

  Lemma tally_mono c g g' T i W : incl (g_grants g) (g_grants g') -> tally c g T i W -> tally c g' T i W.
  Proof. intros Hi (A & B & C). repeat split; auto. Qed.
End Safety.

(* ---------------------------------------------------------------- a handler that leaves the server a Candidate did not move its term *)
Lemma request_vote_cand s fs q s' r tr fs' : request_vote s fs q = Done s' r tr fs' ->
  v_role s' = Candidate -> v_term s' = v_term s.
Proof.
  unfold request_vote.
  destruct (negb (vq_id q =? 0) && nonempty (v_latest s) && negb (in_config (v_latest s) (vq_id q))).
  { intros H; inversion H; subst. reflexivity. }
  destruct (negb (v_leader s =? 0) && negb (v_leader s =? vq_addr q) && negb (vq_transfer q)).
  { intros H; inversion H; subst. reflexivity. }
  destruct (vq_term q <? v_term s). { intros H; inversion H; subst. reflexivity. }
  destruct (v_term s <? vq_term q) eqn:Eb.
  - destruct (do_set_term (set_state s Follower) fs (vq_term q)) as [[s1 fs1]|] eqn:ET; [|discriminate].
    apply do_set_term_same in ET. destruct ET as (_ & R1 & _). simpl in R1.
    assert (G : forall s2, same s2 s1 -> v_role s2 = Candidate -> v_term s2 = v_term s).
    { intros s2 (_ & B & _) Hr. rewrite B, R1 in Hr. discriminate. }
    destruct (negb (vq_id q =? 0) && nonempty (v_latest s1) && negb (has_vote (v_latest s1) (vq_id q))).
    { intros H; inversion H; subst. apply G, same_refl. }
    destruct (if d_vterm s1 =? vq_term q then d_vcand s1 else None).
    { intros H; inversion H; subst. apply G, same_refl. }
    destruct (negb (log_ok s1 (vq_lastIdx q) (vq_lastTerm q))).
    { intros H; inversion H; subst. apply G, same_refl. }
    pose proof (persist_vote_same s1 fs1 (vq_term q) (vq_addr q)) as Hp.
    destruct (persist_vote s1 fs1 (vq_term q) (vq_addr q)) as [[[s2 ok] tr2] fs2].
    intros H; inversion H; subst. apply G. exact Hp.
  - destruct (negb (vq_id q =? 0) && nonempty (v_latest s) && negb (has_vote (v_latest s) (vq_id q))).
    { intros H; inversion H; subst. reflexivity. }
    destruct (if d_vterm s =? vq_term q then d_vcand s else None).
    { intros H; inversion H; subst. reflexivity. }
    destruct (negb (log_ok s (vq_lastIdx q) (vq_lastTerm q))).
    { intros H; inversion H; subst. reflexivity. }
    pose proof (persist_vote_same s fs (vq_term q) (vq_addr q)) as Hp.
    destruct (persist_vote s fs (vq_term q) (vq_addr q)) as [[[s2 ok] tr2] fs2].
    intros H; inversion H; subst. destruct Hp as (_ & _ & C). intros _. exact C.
Qed.

Lemma append_entries_cand P s fs a s' r tr fs' : append_entries P s fs a = Done s' r tr fs' ->
  v_role s' = Candidate -> v_term s' = v_term s.
Proof.
  unfold append_entries. destruct (aq_term a <? v_term s).
  { intros H; inversion H; subst. reflexivity. }
  set (bump := (v_term s <? aq_term a) || (negb (v_role s =? Follower) && negb (v_transfer s))).
  destruct bump.
  - destruct (do_set_term (set_state s Follower) fs (aq_term a)) as [[s1 fs1]|] eqn:ET; [|discriminate].
    apply do_set_term_same in ET. destruct ET as (_ & R1 & _). simpl in R1.
    intros H. pose proof (ae_body_same P s (set_leader s1 (aq_addr a) (aq_id a)) (aq_term a) [ESetTerm (aq_term a) true] fs1 a) as Hb.
    rewrite H in Hb. simpl in Hb. destruct Hb as (_ & B & _). simpl in B. intros Hr. rewrite B, R1 in Hr. discriminate.
  - intros H. pose proof (ae_body_same P s (set_leader s (aq_addr a) (aq_id a)) (v_term s) [] fs a) as Hb.
    rewrite H in Hb. simpl in Hb. destruct Hb as (_ & _ & C). simpl in C. intros _. exact C.
Qed.

Lemma install_snapshot_cand P s fs q s' r tr fs' : install_snapshot P s fs q = Done s' r tr fs' ->
  v_role s' = Candidate -> v_term s' = v_term s.
Proof.
  unfold install_snapshot. destruct (iq_term q <? v_term s).
  { intros H; inversion H; subst. reflexivity. }
  destruct (v_term s <? iq_term q).
  - destruct (do_set_term (set_state s Follower) fs (iq_term q)) as [[s1 fs1]|] eqn:ET; [|discriminate].
    apply do_set_term_same in ET. destruct ET as (_ & R1 & _). simpl in R1.
    intros H. pose proof (is_body_same P (set_leader s1 (iq_addr q) (iq_id q)) (iq_term q) [ESetTerm (iq_term q) true] fs1 q) as Hb.
    rewrite H in Hb. simpl in Hb. destruct Hb as (_ & B & _). simpl in B. intros Hr. rewrite B, R1 in Hr. discriminate.
  - intros H. pose proof (is_body_same P (set_leader s (iq_addr q) (iq_id q)) (v_term s) [] fs q) as Hb.
    rewrite H in Hb. simpl in Hb. destruct Hb as (_ & _ & C). simpl in C. intros _. exact C.
Qed.

Lemma boot_not_candidate P img r out s : boot P img = (r, out) -> r = Up s -> v_role s = Follower.
Proof.
  unfold boot. destruct (recover P img) as [s1 tr| | |] eqn:E; intros H Hr; inversion H; subst; try discriminate.
  inversion H1; subst. apply recover_leader in E. destruct E. assumption.
Qed.

Lemma finish_cand {R} P (enc : R -> list N) (mk : R -> nobs) si s cut (o : outcome R) s' ob out :
  (forall s1 r tr fs', o = Done s1 r tr fs' -> v_role s1 = Candidate -> v_term s1 = v_term s) ->
  finish P enc mk si s cut o = (Up s', ob, out) -> v_role s' = Candidate -> v_term s' = v_term s.
Proof.
  intros Hd. unfold finish. destruct o as [s1 r tr fs'|s1 tr].
  - destruct ((0 <? cut) && (N.to_nat cut <=? count_durable tr)%nat).
    + destruct (boot P _) as [r' o'] eqn:EB. intros H; inversion H; subst. intros Hr.
      rewrite (boot_not_candidate _ _ _ _ _ EB eq_refl) in Hr. discriminate.
    + intros H; inversion H; subst. eapply Hd. reflexivity.
  - destruct (boot P _) as [r' o'] eqn:EB. intros H; inversion H; subst. intros Hr.
    rewrite (boot_not_candidate _ _ _ _ _ EB eq_refl) in Hr. discriminate.
Qed.

Lemma step_keeps_term P s e cut fs s' ob out :
  step_full P (Up s) e cut fs = (Up s', ob, out) -> e <> NElect ->
  v_role s' = Candidate -> v_term s' = v_term s.
Proof.
  intros H Hne. destruct e; unfold step_full in H.
  - eapply finish_cand; [|exact H]. intros s1 r tr fs' Hd. eapply request_vote_cand; exact Hd.
  - destruct (request_prevote s q) as [t g]. inversion H; subst. reflexivity.
  - eapply finish_cand; [|exact H]. intros s1 r tr fs' Hd. eapply append_entries_cand; exact Hd.
  - eapply finish_cand; [|exact H]. intros s1 r tr fs' Hd. eapply install_snapshot_cand; exact Hd.
  - inversion H; subst. reflexivity.
  - contradiction.
  - simpl in H. destruct (boot P s) as [r' o'] eqn:EB. inversion H; subst. intros Hr.
    rewrite (boot_not_candidate _ _ _ _ _ EB eq_refl) in Hr. discriminate.
  - inversion H; subst. reflexivity.
  - destruct (fsm_index s) as [fi ft]. eapply finish_cand; [|exact H]. intros s1 r tr fs' Hd _.
    apply take_snapshot_same in Hd. destruct Hd as (_ & _ & C). exact C.
Qed.

(* ---------------------------------------------------------------- replacing one node *)
Section Preserve.
  Variable cfgs : list config.

  Lemma ginv_update g g' i n n' extra :
    ginv cfgs g -> find_node (g_nodes g) i = Some n -> gn_id n' = i ->
    g_nodes g' = upd_node (g_nodes g) i n' ->
    g_grants g' = extra ++ g_grants g -> (forall x, In x extra -> fst (fst x) = i) ->
    node_ok g' n' -> sess_ok cfgs g' n' ->
    (forall rp, In rp (g_resps g') ->
       resp_node n' rp /\
       (In rp (g_resps g) \/ (resp_grant g' rp /\ forall m, In m (g_nodes g) -> gn_id m <> i -> resp_node m rp))) ->
    (forall x, In x (g_leaders g') -> In x (g_leaders g) \/ leader_ok cfgs g' x) ->
    ginv cfgs g'.
  Proof.
    intros [Hids Hnodes Hresps Hleaders Hgids] Hfind Hid' Hn' Hg' Hextra Hnok Hsok Hrs Hls.
    destruct (find_node_in _ _ _ Hfind) as [Hin Hidn].
    assert (Hmono : incl (g_grants g) (g_grants g')) by (rewrite Hg'; apply incl_appr, incl_refl).
    constructor.
    - rewrite Hn', upd_node_ids; assumption.
    - intros m Hm. rewrite Hn' in Hm. destruct (upd_node_in _ _ _ _ Hm) as [[-> _]|[Hm' Hne]]; [auto|].
      destruct (Hnodes m Hm') as [(A & B & C) Hs]. split.
      + unfold node_ok. rewrite (Gof_other g g' extra i (gn_id m) Hg' Hextra Hne). auto.
      + unfold sess_ok in *. destruct (gn_sess m) as [se|]; [|exact I].
        destruct Hs as (c & s & Hc & E1 & E2 & E3 & E4 & E5 & E6 & E7 & E8 & W & HW & HL & HI).
        exists c, s. repeat split; auto. exists W. split; [eapply tally_mono; eassumption|auto].
    - intros rp Hrp. destruct (Hrs rp Hrp) as [Hnew [Hold|[Hgr Hoth]]].
      + destruct (Hresps rp Hold) as [Hgr Hall]. split; [intros Hg; apply Hmono, Hgr, Hg|].
        intros m Hm. rewrite Hn' in Hm. destruct (upd_node_in _ _ _ _ Hm) as [[-> _]|[Hm' _]]; [exact Hnew|apply Hall, Hm'].
      + split; [exact Hgr|]. intros m Hm. rewrite Hn' in Hm.
        destruct (upd_node_in _ _ _ _ Hm) as [[-> _]|[Hm' Hne]]; [exact Hnew|apply Hoth; assumption].
    - intros x Hx. destruct (Hls x Hx) as [Hold|Hnew]; [|exact Hnew].
      destruct (Hleaders x Hold) as (c & W & Hc & HW & HQ). exists c, W. split; [exact Hc|]. split; [eapply tally_mono; eassumption|exact HQ].
    - intros w T c Hw. rewrite Hg' in Hw. apply in_app_iff in Hw. rewrite Hn'.
      assert (Hi : exists m, In m (upd_node (g_nodes g) i n') /\ gn_id m = i).
      { exists n'. split; [|exact Hid']. unfold upd_node. apply in_map_iff. exists n. rewrite Hidn, N.eqb_refl. auto. }
      destruct Hw as [Hw|Hw].
      + specialize (Hextra _ Hw). simpl in Hextra. subst w. exact Hi.
      + destruct (Hgids w T c Hw) as (m & Hm & Hmid). destruct (N.eq_dec w i) as [->|Hne]; [exact Hi|].
        exists m. split; [|exact Hmid]. unfold upd_node. apply in_map_iff. exists m.
        destruct (N.eqb_spec (gn_id m) i); [congruence|auto].
  Qed.
End Preserve.

Lemma server_eqb_eq a b : server_eqb a b = true -> a = b.
Proof.
  unfold server_eqb. intros H. apply andb_prop in H. destruct H as [H H3]. apply andb_prop in H. destruct H as [H1 H2].
  apply N.eqb_eq in H1, H2, H3. destruct a, b; simpl in *; subst; reflexivity.
Qed.

Lemma config_eqb_eq a : forall b, config_eqb a b = true -> a = b.
Proof.
  induction a as [|x r IH]; intros [|y r'] H; simpl in H; try discriminate; [reflexivity|].
  apply andb_prop in H. destruct H as [H1 H2]. apply server_eqb_eq in H1. apply IH in H2. subst. reflexivity.
Qed.

Lemma self_voter_in P s : self_is_voter P s = true -> In (p_self P) (voters (v_latest s)).
Proof.
  unfold self_is_voter, voters. intros H. apply existsb_exists in H. destruct H as (sv & Hin & H).
  apply andb_prop in H. destruct H as [Hv He]. apply N.eqb_eq in He. rewrite <- He.
  apply in_map. apply filter_In. auto.
Qed.

Lemma peers_incl P s : incl (peers_of P s) (voters (v_latest s)) /\ ~ In (p_self P) (peers_of P s).
Proof.
  unfold peers_of. split.
  - intros x Hx. apply filter_In in Hx. destruct Hx; assumption.
  - intros Hx. apply filter_In in Hx. destruct Hx as [_ Hx]. rewrite N.eqb_refl in Hx. discriminate.
Qed.

Lemma mem_false x l : mem x l = false -> ~ In x l.
Proof.
  unfold mem. intros H Hin. assert (existsb (N.eqb x) l = true); [|congruence].
  apply existsb_exists. exists x. split; [exact Hin|apply N.eqb_refl].
Qed.
Lemma mem_true x l : mem x l = true -> In x l.
Proof. unfold mem. intros H. apply existsb_exists in H. destruct H as (y & Hy & E). apply N.eqb_eq in E. subst. exact Hy. Qed.

Lemma find_resp_in l i ep j rp : find_resp l i ep j = Some rp ->
  In rp l /\ rp_cand rp = i /\ rp_epoch rp = ep /\ rp_voter rp = j.
Proof.
  induction l as [|x r IH]; simpl; [discriminate|].
  destruct ((rp_cand x =? i) && (rp_epoch x =? ep) && (rp_voter x =? j)) eqn:E.
  - intros H; inversion H; subst. apply andb_prop in E. destruct E as [E E3]. apply andb_prop in E. destruct E as [E1 E2].
    apply N.eqb_eq in E1, E2, E3. auto.
  - intros H. destruct (IH H) as (A & B). auto.
Qed.

Section Steps.
  Variable cfgs : list config.

  Lemma grant_ghost_gof j ob :
    flat_map (fun x : N * N * N => match x with (j', T, c) => if j' =? j then [(T, c)] else [] end) (grant_ghost j ob) = ob_grant ob.
  Proof.
    destruct ob as [qq t [|]| | | | | |]; simpl; try reflexivity. rewrite N.eqb_refl. reflexivity.
  Qed.

  Lemma grant_ghost_ids j ob : forall x, In x (grant_ghost j ob) -> fst (fst x) = j.
  Proof. destruct ob as [qq t [|]| | | | | |]; simpl; intros x Hx; try contradiction. destruct Hx as [<-|[]]. reflexivity. Qed.

  (* a handler runs at j (a vote request of some invocation, or any other input) *)
  Lemma handler_case g j nj e cut fs r' ob out rs :
    ginv cfgs g -> find_node (g_nodes g) j = Some nj -> e <> NElect ->
    step_full (gn_P nj) (gn_run nj) e cut fs = (r', ob, out) ->
    (forall rp, In rp rs ->
       rp_cand rp <> j /\
       resp_grant (mkG (g_nodes g) (g_resps g) (g_leaders g) (grant_ghost j ob ++ g_grants g)) rp /\
       forall m, In m (g_nodes g) -> resp_node m rp) ->
    ginv cfgs (mkG (upd_node (g_nodes g) j (mkGN (gn_P nj) r' (keep_sess r' (gn_sess nj)) (gn_next nj)))
                  (g_resps g ++ rs) (g_leaders g) (grant_ghost j ob ++ g_grants g)).
  Proof.
    intros Hinv Hfind Hne Hstep Hrs.
    destruct (find_node_in _ _ _ Hfind) as [Hin Hid].
    pose proof (gi_nodes cfgs g Hinv nj Hin) as [(Hw & Hig & Hfun) Hs].
    pose proof (node_step_inv (gn_P nj) (gn_run nj) e cut fs _ Hw Hig Hfun) as Hni. rewrite Hstep in Hni.
    destruct Hni as (Hw' & Hig' & Hfun' & _).
    set (g' := mkG _ _ _ _).
    eapply (ginv_update cfgs g g' j nj _ (grant_ghost j ob)); try reflexivity; try exact Hinv; try exact Hfind.
    - exact Hid.
    - apply grant_ghost_ids.
    - unfold node_ok. change (gn_id (mkGN (gn_P nj) r' (keep_sess r' (gn_sess nj)) (gn_next nj))) with (gn_id nj).
      rewrite Hid. rewrite (Gof_extra g g' (grant_ghost j ob) j eq_refl), grant_ghost_gof. rewrite Hid in Hig', Hfun'. auto.
    - unfold sess_ok. cbn [gn_sess gn_run gn_next].
      change (gn_id (mkGN (gn_P nj) r' (keep_sess r' (gn_sess nj)) (gn_next nj))) with (gn_id nj).
      unfold keep_sess. destruct r' as [s'|s']; [|exact I].
      unfold sess_ok in Hs. destruct (gn_sess nj) as [se|]; [|exact I].
      destruct (N.eqb_spec (v_role s') Candidate) as [Hr|Hr]; [|exact I].
      destruct Hs as (c & s & Hc & E1 & E2 & E3 & E4 & E5 & E6 & E7 & E8 & W & HW & HL & HI).
      exists c, s'. split; [exact Hc|]. split; [reflexivity|]. rewrite E1 in Hstep.
      split; [rewrite <- E2; eapply step_keeps_term; eassumption|].
      repeat split; auto. exists W. split; [|auto].
      eapply tally_mono; [|exact HW]. apply incl_appr, incl_refl.
    - intros rp Hrp. cbn [g_resps] in Hrp. apply in_app_iff in Hrp. destruct Hrp as [Hold|Hnew].
      + split; [|left; exact Hold].
        destruct (gi_resps cfgs g Hinv rp Hold) as [_ Hall]. specialize (Hall nj Hin).
        unfold resp_node in *. cbn [gn_sess gn_next].
        change (gn_id (mkGN (gn_P nj) r' (keep_sess r' (gn_sess nj)) (gn_next nj))) with (gn_id nj).
        intros Hc. destruct (Hall Hc) as [A B]. split; [exact A|].
        intros se Hse. apply B. unfold keep_sess in Hse. destruct r'; [|discriminate].
        destruct (gn_sess nj); [|discriminate]. destruct (v_role s =? Candidate); [exact Hse|discriminate].
      + destruct (Hrs rp Hnew) as (Hc & Hg & Hall). split.
        * unfold resp_node. change (gn_id (mkGN (gn_P nj) r' (keep_sess r' (gn_sess nj)) (gn_next nj))) with (gn_id nj).
          intros E. rewrite Hid in E. congruence.
        * right. split; [exact Hg|]. intros m Hm _. apply Hall, Hm.
    - intros x Hx. left. exact Hx.
  Qed.
End Steps.

Section Steps2.
  Variable cfgs : list config.

  Lemma wfu_dproj s s' : wfu s -> dproj s' = dproj s -> v_term s' = v_term s -> wfu s'.
  Proof.
    intros [A B] E Ev. unfold dproj in E. inversion E as [[E1 E2 E3]]. unfold wfu, wfd in *. rewrite E1, E2, Ev. auto.
  Qed.

  (* the response of j is consumed by the invocation of i *)
  Lemma resp_case g i j n s se rp :
    ginv cfgs g -> find_node (g_nodes g) i = Some n -> gn_run n = Up s -> gn_sess n = Some se ->
    mem j (se_got se) = false -> find_resp (g_resps g) i (se_epoch se) j = Some rp ->
    forall g', gstep cfgs g (GVoteResp i j) = Some g' -> ginv cfgs g'.
  Proof.
    intros Hinv Hfind Hrun Hsess Hgot Hfr g' Hstep.
    destruct (find_node_in _ _ _ Hfind) as [Hin Hid].
    pose proof (gi_nodes cfgs g Hinv n Hin) as [(Hw & Hig & Hfun) Hs].
    unfold sess_ok in Hs. rewrite Hsess in Hs.
    destruct Hs as (c & s0 & Hc & E1 & E2 & E3 & E4 & E5 & E6 & E7 & E8 & W & (HWn & HWi & HWg) & HL & HI).
    rewrite Hrun in E1. inversion E1; subst s0. clear E1.
    rewrite Hrun in Hw, Hig. simpl in Hw.
    destruct (find_resp_in _ _ _ _ _ Hfr) as (Hrin & Hrc & Hre & Hrv).
    destruct (gi_resps cfgs g Hinv rp Hrin) as [Hrg Hrn].
    destruct (Hrn n Hin (eq_trans Hid (eq_sym Hrc))) as [_ Hrse]. destruct (Hrse se Hsess Hre) as [Hrt Hra].
    rewrite Hrv in Hra.
    assert (Hji : j <> gn_id n) by (intros ->; contradiction).
    (* the tally after counting this response *)
    set (gnew := if rp_granted rp then c_granted (se_c se) + 1 else c_granted (se_c se)).
    assert (HW' : exists W', tally c g (vq_term (se_req se)) (gn_id n) W' /\ N.of_nat (length W') = gnew /\ incl W' (gn_id n :: j :: se_got se)).
    { unfold gnew. destruct (rp_granted rp) eqn:Eg.
      - exists (j :: W). split; [|split].
        + split; [|split].
          * constructor; [|exact HWn]. intros Hj. apply HI in Hj. destruct Hj as [Hj|Hj]; [congruence|].
            apply (mem_false _ _ Hgot). exact Hj.
          * intros x [<-|Hx]; [apply E6; exact Hra|apply HWi; exact Hx].
          * intros w [<-|Hw']; [|apply HWg; exact Hw'].
            specialize (Hrg Eg). rewrite Hrv, Hrt, Hrc, <- Hid in Hrg. exact Hrg.
        + simpl length. rewrite Nat2N.inj_succ, HL. lia.
        + intros x [<-|Hx]; [right; left; reflexivity|]. apply HI in Hx. destruct Hx as [Hx|Hx]; [left; exact Hx|right; right; exact Hx].
      - exists W. split; [repeat split; assumption|]. split; [exact HL|].
        intros x Hx. apply HI in Hx. destruct Hx as [Hx|Hx]; [left; exact Hx|right; right; exact Hx]. }
    destruct HW' as (W' & HT' & HL' & HI').
    (* unfold the step *)
    unfold gstep in Hstep. rewrite Hfind, Hrun, Hsess, Hgot, Hfr in Hstep.
    pose proof (sess_vote_cases (gn_P n) s (se_c se) (mkVR (rp_term rp) (rp_granted rp)) E4) as Hcs.
    destruct (sess_step (gn_P n) false (SCand s (se_c se)) (CVote (mkVR (rp_term rp) (rp_granted rp)))) as [x tr].
    simpl fst in Hcs. cbn [vr_term vr_granted] in Hcs. fold gnew in Hcs.
    destruct (N.ltb_spec (v_term s) (rp_term rp)) as [Hlt|Hge].
    - (* a higher term: back to follower *)
      subst x. inversion Hstep; subst g'. clear Hstep.
      eapply (ginv_update cfgs g _ i n _ []); try reflexivity; try exact Hinv; try exact Hfind.
      + exact Hid.
      + intros x [].
      + unfold node_ok. cbn [gn_run gn_P]. change (gn_id (mkGN (gn_P n) _ None (gn_next n))) with (gn_id n).
        assert (HG : Gof (mkG (upd_node (g_nodes g) i (mkGN (gn_P n) (Up (set_transfer (set_vol_term (set_durable_term (set_state s Follower) (rp_term rp)) (rp_term rp)) false)) None (gn_next n))) (g_resps g) (g_leaders g) (g_grants g)) (gn_id n) = Gof g (gn_id n)) by reflexivity.
        rewrite HG. destruct Hw as [Hwd Hvt]. unfold wfd in Hwd. split; [|split; [|exact Hfun]].
        * simpl. unfold wfu, wfd. simpl. lia.
        * eapply inv_grants_term_up; [exact Hig|]. simpl. lia.
      + intros rp0 Hrp0. split; [|left; exact Hrp0].
        destruct (gi_resps cfgs g Hinv rp0 Hrp0) as [_ Hall]. specialize (Hall n Hin).
        unfold resp_node in *. intros Hc'. destruct (Hall Hc') as [A _]. split; [exact A|]. intros se0 Hse0. discriminate.
      + intros x Hx. left. exact Hx.
    - rewrite E5 in Hcs. destruct (N.leb_spec (quorum_size c) gnew) as [Hq|Hq].
      + (* elected *)
        subst x. inversion Hstep; subst g'. clear Hstep.
        eapply (ginv_update cfgs g _ i n _ []); try reflexivity; try exact Hinv; try exact Hfind.
        * exact Hid.
        * intros x [].
        * unfold node_ok. cbn [gn_run].
          match goal with |- context [become_leader ?P ?S] => destruct (become_leader_same P S) as [Bd Bv] end.
          split; [|split; [|exact Hfun]].
          -- simpl. eapply wfu_dproj; [exact Hw|rewrite Bd; reflexivity|rewrite Bv; reflexivity].
          -- eapply inv_grants_dproj; [|exact Hig]. simpl. rewrite Bd. reflexivity.
        * intros rp0 Hrp0. split; [|left; exact Hrp0].
          destruct (gi_resps cfgs g Hinv rp0 Hrp0) as [_ Hall]. specialize (Hall n Hin).
          unfold resp_node in *. intros Hc'. destruct (Hall Hc') as [A _]. split; [exact A|]. intros se0 Hse0. discriminate.
        * intros x [<-|Hx]; [|left; exact Hx]. right. unfold leader_ok. simpl fst; simpl snd.
          change (v_term (set_transfer (set_leader (set_state s Leader) (p_self (gn_P n)) (p_self (gn_P n))) false)) with (v_term s).
          rewrite E2, <- Hid. exists c, W'. split; [exact Hc|]. split; [exact HT'|]. rewrite HL'. exact Hq.
      + (* keep counting *)
        subst x. inversion Hstep; subst g'. clear Hstep.
        eapply (ginv_update cfgs g _ i n _ []); try reflexivity; try exact Hinv; try exact Hfind.
        * exact Hid.
        * intros x [].
        * unfold node_ok. cbn [gn_run]. rewrite <- Hrun. split; [rewrite Hrun; exact Hw|split; [rewrite Hrun; exact Hig|exact Hfun]].
        * unfold sess_ok. cbn [gn_sess gn_run gn_next se_req se_c se_asked se_epoch se_got c_voting c_needed c_granted].
          change (gn_id (mkGN (gn_P n) (Up s) _ (gn_next n))) with (gn_id n).
          exists c, s. repeat split; auto. exists W'. repeat split; try apply HT'; auto.
        * intros rp0 Hrp0. split; [|left; exact Hrp0].
          destruct (gi_resps cfgs g Hinv rp0 Hrp0) as [_ Hall]. specialize (Hall n Hin).
          unfold resp_node in *. cbn [gn_sess gn_next].
          change (gn_id (mkGN (gn_P n) (Up s) _ (gn_next n))) with (gn_id n).
          intros Hc'. destruct (Hall Hc') as [A B]. split; [exact A|]. intros se0 Hse0 He0. inversion Hse0; subst se0. simpl in *. apply (B se Hsess He0).
        * intros x Hx. left. exact Hx.
  Qed.
End Steps2.

Section Steps3.
  Variable cfgs : list config.

  Lemma req_of_fields P s : vq_term (req_of P s) = v_term s /\ vq_addr (req_of P s) = p_self P.
  Proof. unfold req_of. destruct (last_entry s). auto. Qed.

  Lemma old_resp_after_enter g n rp x se' :
    ginv cfgs g -> In n (g_nodes g) -> In rp (g_resps g) ->
    (forall se0, se' = Some se0 -> se_epoch se0 = gn_next n) ->
    resp_node (mkGN (gn_P n) x se' (gn_next n + 1)) rp.
  Proof.
    intros Hinv Hin Hrp Hse. destruct (gi_resps cfgs g Hinv rp Hrp) as [_ Hall]. specialize (Hall n Hin).
    unfold resp_node in *. change (gn_id (mkGN (gn_P n) x se' (gn_next n + 1))) with (gn_id n). cbn [gn_next gn_sess].
    intros Hc. destruct (Hall Hc) as [A _]. split; [lia|]. intros se0 E He. specialize (Hse se0 E). lia.
  Qed.

  Lemma timeout_case g i g' : ginv cfgs g -> gstep cfgs g (GTimeout i) = Some g' -> ginv cfgs g'.
  Proof.
    intros Hinv Hstep. unfold gstep in Hstep.
    destruct (find_node (g_nodes g) i) as [n|] eqn:Hfind; [|discriminate].
    destruct (find_node_in _ _ _ Hfind) as [Hin Hid].
    destruct (gn_run n) as [s|s] eqn:Hrun; [|discriminate].
    destruct (existsb (config_eqb (v_latest s)) cfgs) eqn:Ecfg; [|discriminate]. cbn [negb orb] in Hstep.
    destruct (v_role s =? Leader); [discriminate|].
    apply existsb_exists in Ecfg. destruct Ecfg as (cfg & Hcfg & Ecfg). apply config_eqb_eq in Ecfg.
    set (V := voters cfg). set (q := quorum_size cfg).
    pose proof (gi_nodes cfgs g Hinv n Hin) as [(Hw & Hig & Hfun) _]. rewrite Hrun in Hw, Hig. simpl in Hw.
    set (s0 := match gn_sess n with Some _ => set_transfer s false | None => s end) in *.
    assert (Hw0 : wfu s0) by (unfold s0; destruct (gn_sess n); [eapply wfu_dproj; [exact Hw|reflexivity|reflexivity]|exact Hw]).
    assert (Hig0 : inv_grants (Up s0) (Gof g (gn_id n))).
    { eapply inv_grants_dproj; [|exact Hig]. unfold s0. destruct (gn_sess n); reflexivity. }
    assert (Hl0 : v_latest s0 = cfg) by (unfold s0; destruct (gn_sess n); exact Ecfg).
    assert (Hpid : p_self (gn_P n) = i) by exact Hid.
    pose proof (sess_enter_cases (gn_P n) s0) as Hc. cbv zeta in Hc. rewrite Hl0 in Hc. fold q in Hc.
    destruct (sess_enter (gn_P n) false s0) as [x tr]. simpl fst in Hc.
    destruct (self_is_voter (gn_P n) s0) eqn:Esv.
    - assert (HiV : In i V).
      { rewrite <- Hpid. unfold V. rewrite <- Hl0. apply self_voter_in. exact Esv. }
      destruct (inv_voted (gn_P n) s0 _ Hw0 Hig0 Hfun) as [Hiv Hfv]. rewrite Hpid in Hiv, Hfv.
      destruct (N.leb_spec q 1) as [Hq|Hq].
      + (* single voter: elected at once *)
        subst x. inversion Hstep; subst g'. clear Hstep.
        eapply (ginv_update cfgs g _ i n _ [(i, _, i)]); try reflexivity; try exact Hinv; try exact Hfind.
        * exact Hid.
        * intros y [<-|[]]. reflexivity.
        * unfold node_ok. cbn [gn_run]. change (gn_id (mkGN (gn_P n) _ None (gn_next n + 1))) with (gn_id n).
          match goal with |- context [Gof ?G _] => rewrite (Gof_extra g G [(i, v_term s0 + 1, i)] (gn_id n) eq_refl) end.
          simpl flat_map. rewrite Hid, N.eqb_refl. simpl app.
          change (v_term (set_transfer (set_leader (set_state (voted (gn_P n) s0) Leader) (p_self (gn_P n)) (p_self (gn_P n))) false)) with (v_term s0 + 1).
          rewrite Hid in Hiv, Hfv.
          match goal with |- context [become_leader ?P ?S] => destruct (become_leader_same P S) as [Bd Bv] end.
          split; [|split; [|exact Hfv]].
          -- simpl. eapply wfu_dproj; [apply (wfu_voted (gn_P n) s0 Hw0)|rewrite Bd; reflexivity|rewrite Bv; reflexivity].
          -- eapply inv_grants_dproj; [|exact Hiv]. simpl. rewrite Bd. reflexivity.
        * intros rp Hrp. split; [|left; exact Hrp]. eapply old_resp_after_enter; try eassumption. intros se0 E. discriminate.
        * intros y [<-|Hy]; [|left; exact Hy]. right. exists cfg, [i]. simpl fst; simpl snd. split; [exact Hcfg|]. split.
          -- split; [constructor; [intros []|constructor]|]. split; [intros y [<-|[]]; exact HiV|].
             intros w [<-|[]]. left. reflexivity.
          -- simpl. fold q. lia.
      + (* candidate with its own vote *)
        subst x. cbn [c_granted] in Hstep. change (1 <=? 1) with true in Hstep. cbn iota in Hstep.
        inversion Hstep; subst g'. clear Hstep.
        eapply (ginv_update cfgs g _ i n _ [(i, _, i)]); try reflexivity; try exact Hinv; try exact Hfind.
        * exact Hid.
        * intros y [<-|[]]. reflexivity.
        * unfold node_ok. cbn [gn_run]. change (gn_id (mkGN (gn_P n) _ _ (gn_next n + 1))) with (gn_id n).
          match goal with |- context [Gof ?G _] => rewrite (Gof_extra g G [(i, v_term s0 + 1, i)] (gn_id n) eq_refl) end.
          simpl flat_map. rewrite Hid, N.eqb_refl. simpl app.
          change (v_term (voted (gn_P n) s0)) with (v_term s0 + 1).
          rewrite Hid in Hiv, Hfv. split; [|split; [exact Hiv|exact Hfv]].
          simpl. apply wfu_voted. exact Hw0.
        * unfold sess_ok. cbn [gn_sess gn_run gn_next se_req se_c se_asked se_epoch se_got c_voting c_needed c_granted].
          change (gn_id (mkGN (gn_P n) _ _ (gn_next n + 1))) with (gn_id n).
          destruct (req_of_fields (gn_P n) (voted (gn_P n) s0)) as [Rt Ra].
          destruct (peers_incl (gn_P n) (voted (gn_P n) s0)) as [Pi Pn].
          change (v_latest (voted (gn_P n) s0)) with (v_latest s0) in Pi. rewrite Hl0 in Pi.
          exists cfg, (voted (gn_P n) s0). split; [exact Hcfg|]. split; [reflexivity|]. split; [symmetry; exact Rt|]. split; [rewrite Ra; reflexivity|].
          split; [reflexivity|]. split; [reflexivity|]. split; [exact Pi|]. split; [exact Pn|]. split; [lia|].
          exists [i]. split; [|split].
          -- split; [constructor; [intros []|constructor]|]. split; [intros y [<-|[]]; exact HiV|].
             intros w [<-|[]]. rewrite Rt, Hid. left. reflexivity.
          -- reflexivity.
          -- intros y [<-|[]]. left. exact Hid.
        * intros rp Hrp. split; [|left; exact Hrp]. eapply old_resp_after_enter; try eassumption.
          intros se0 E. inversion E; subst. reflexivity.
        * intros y Hy. left. exact Hy.
    - (* candidate that is not a voter: no vote of its own *)
      subst x. cbn [c_granted] in Hstep. change (1 <=? 0) with false in Hstep. cbn iota in Hstep.
      inversion Hstep; subst g'. clear Hstep.
      eapply (ginv_update cfgs g _ i n _ []); try reflexivity; try exact Hinv; try exact Hfind.
      + exact Hid.
      + intros y [].
      + unfold node_ok. cbn [gn_run]. change (gn_id (mkGN (gn_P n) _ _ (gn_next n + 1))) with (gn_id n).
        split; [|split; [|exact Hfun]].
        * simpl. apply wfu_entered. exact Hw0.
        * apply inv_entered; assumption.
      + unfold sess_ok. cbn [gn_sess gn_run gn_next se_req se_c se_asked se_epoch se_got c_voting c_needed c_granted].
        change (gn_id (mkGN (gn_P n) _ _ (gn_next n + 1))) with (gn_id n).
        destruct (req_of_fields (gn_P n) (entered (gn_P n) s0)) as [Rt Ra].
        destruct (peers_incl (gn_P n) (entered (gn_P n) s0)) as [Pi Pn].
        change (v_latest (entered (gn_P n) s0)) with (v_latest s0) in Pi. rewrite Hl0 in Pi.
        exists cfg, (entered (gn_P n) s0). split; [exact Hcfg|]. split; [reflexivity|]. split; [symmetry; exact Rt|]. split; [rewrite Ra; reflexivity|].
        split; [reflexivity|]. split; [reflexivity|]. split; [exact Pi|]. split; [exact Pn|]. split; [lia|].
        exists []. split; [|split; [reflexivity|intros y []]].
        split; [constructor|]. split; intros y [].
      + intros rp Hrp. split; [|left; exact Hrp]. eapply old_resp_after_enter; try eassumption.
        intros se0 E. inversion E; subst. reflexivity.
      + intros y Hy. left. exact Hy.
  Qed.
End Steps3.

Section Main.
  Variable cfgs : list config.

  Lemma vote_obs_request P r qq cut fs r' q' t gr out :
    step_full P r (NVote qq) cut fs = (r', OVote q' t gr, out) -> q' = qq.
  Proof.
    unfold step_full. destruct r as [s|s]; [|intros H; inversion H].
    unfold finish. destruct (request_vote s fs qq) as [s1 rr tr fs'|s1 tr].
    - destruct ((0 <? cut) && (N.to_nat cut <=? count_durable tr)%nat).
      + destruct (boot P _). intros H; inversion H.
      + intros H; inversion H. reflexivity.
    - destruct (boot P _). intros H; inversion H.
  Qed.

  Theorem gstep_inv g l g' : ginv cfgs g -> gstep cfgs g l = Some g' -> ginv cfgs g'.
  Proof.
    intros Hinv Hstep. destruct l as [i|i j cut fs|i j|j e cut fs].
    - eapply timeout_case; eassumption.
    - unfold gstep in Hstep.
      destruct (find_node (g_nodes g) i) as [ni|] eqn:Hfi; [|discriminate].
      destruct (find_node (g_nodes g) j) as [nj|] eqn:Hfj; [|discriminate].
      destruct (gn_sess ni) as [se|] eqn:Hse; [|discriminate].
      destruct (mem j (se_asked se)) eqn:Hmem; [|discriminate]. cbn [negb] in Hstep.
      destruct (step_full (gn_P nj) (gn_run nj) (NVote (se_req se)) cut fs) as [[r' ob] out] eqn:Hsf.
      inversion Hstep; subst g'. clear Hstep.
      destruct (find_node_in _ _ _ Hfi) as [Hini Hidi].
      pose proof (gi_nodes cfgs g Hinv ni Hini) as [_ Hs]. unfold sess_ok in Hs. rewrite Hse in Hs.
      destruct Hs as (c & s & _ & E1 & E2 & E3 & E4 & E5 & E6 & E7 & E8 & _).
      apply mem_true in Hmem.
      eapply (handler_case cfgs g j nj (NVote (se_req se)) cut fs r' ob out); try eassumption; [discriminate|].
      intros rp Hrp. destruct ob as [q' t gr| | | | | |]; simpl in Hrp; try contradiction.
      destruct Hrp as [<-|[]]. cbn [rp_cand rp_granted rp_voter rp_reqterm rp_epoch].
      apply vote_obs_request in Hsf as Hq'. subst q'.
      split; [intros ->; apply E7; rewrite Hidi; exact Hmem|]. split.
      + unfold resp_grant. cbn [rp_cand rp_granted rp_voter rp_reqterm g_grants]. intros ->. simpl.
        left. rewrite E3, Hidi. reflexivity.
      + intros m Hm. unfold resp_node. cbn [rp_cand rp_epoch rp_reqterm rp_voter]. intros Hc.
        assert (m = ni) by (eapply nodup_id_eq; [apply (gi_ids cfgs g Hinv)|exact Hm|exact Hini|congruence]). subst m.
        split; [exact E8|]. intros se0 Hse0 _. rewrite Hse in Hse0. inversion Hse0; subst se0. auto.
    - unfold gstep in Hstep.
      destruct (find_node (g_nodes g) i) as [n|] eqn:Hfi; [|discriminate].
      destruct (gn_run n) as [s|s] eqn:Hrun; [|discriminate].
      destruct (gn_sess n) as [se|] eqn:Hse; [|discriminate].
      destruct (mem j (se_got se)) eqn:Hgot; [discriminate|].
      destruct (find_resp (g_resps g) i (se_epoch se) j) as [rp|] eqn:Hfr; [|discriminate].
      eapply (resp_case cfgs g i j n s se rp); try eassumption.
      unfold gstep. rewrite Hfi, Hrun, Hse, Hgot, Hfr. exact Hstep.
    - unfold gstep in Hstep.
      assert (Hne : e <> NElect /\ e <> NTimeoutDecision) by (destruct e; try discriminate; split; discriminate).
      destruct (find_node (g_nodes g) j) as [nj|] eqn:Hfj; [|destruct e; discriminate].
      destruct (step_full (gn_P nj) (gn_run nj) e cut fs) as [[r' ob] out] eqn:Hsf.
      assert (Hg' : g' = mkG (upd_node (g_nodes g) j (mkGN (gn_P nj) r' (keep_sess r' (gn_sess nj)) (gn_next nj)))
                             (g_resps g ++ []) (g_leaders g) (grant_ghost j ob ++ g_grants g)).
      { rewrite app_nil_r. destruct e; try (inversion Hstep; reflexivity); destruct Hne; contradiction. }
      subst g'. eapply (handler_case cfgs g j nj e cut fs r' ob out); try eassumption; [apply Hne|].
      intros rp [].
  Qed.

  Theorem grun_inv ls : forall g g', ginv cfgs g -> grun cfgs g ls = Some g' -> ginv cfgs g'.
  Proof.
    induction ls as [|l r IH]; intros g g' Hinv H; simpl in H.
    - inversion H; subst. exact Hinv.
    - destruct (gstep cfgs g l) as [g1|] eqn:E; [|discriminate]. eapply IH; [eapply gstep_inv; eassumption|exact H].
  Qed.

  (* any set of servers with distinct identities, each in a state a boot produces or any other
     well-formed state, nobody in the candidate loop, nothing in flight *)
  Definition ginit_ok (g : gstate) : Prop :=
    NoDup (map gn_id (g_nodes g)) /\ (forall n, In n (g_nodes g) -> wfr (gn_run n) /\ gn_sess n = None) /\
    g_resps g = [] /\ g_leaders g = [] /\ g_grants g = [].

  Lemma ginit_inv g : ginit_ok g -> ginv cfgs g.
  Proof.
    intros (Hnd & Hn & Hr & Hl & Hg). constructor.
    - exact Hnd.
    - intros n Hin. destruct (Hn n Hin) as [Hw Hs]. split.
      + unfold node_ok, Gof. rewrite Hg. simpl. split; [exact Hw|]. split; [intros T c []|intros T c c' []].
      + unfold sess_ok. rewrite Hs. exact I.
    - rewrite Hr. intros rp [].
    - rewrite Hl. intros x [].
    - rewrite Hg. intros w T c [].
  Qed.

  (* ELECTION SAFETY: for elections held under configurations whose majorities pairwise intersect *)
  Definition quorums_intersect : Prop :=
    forall c1 c2, In c1 cfgs -> In c2 cfgs -> forall W1 W2,
      majority (voters c1) W1 -> majority (voters c2) W2 -> exists x, In x W1 /\ In x W2.

  Theorem election_safety_gen g0 ls g T i i' : quorums_intersect ->
    ginit_ok g0 -> grun cfgs g0 ls = Some g ->
    In (T, i) (g_leaders g) -> In (T, i') (g_leaders g) -> i = i'.
  Proof.
    intros HQ H0 Hrun H1 H2.
    pose proof (grun_inv ls g0 g (ginit_inv g0 H0) Hrun) as Hinv.
    destruct (gi_leaders cfgs g Hinv _ H1) as (c1 & W1 & Hc1 & (N1 & I1 & G1) & Q1).
    destruct (gi_leaders cfgs g Hinv _ H2) as (c2 & W2 & Hc2 & (N2 & I2 & G2) & Q2).
    simpl in *.
    assert (M1 : majority (voters c1) W1).
    { pose proof (quorum_size_majority c1) as Hm. cbv zeta in Hm.
      split; [exact N1|]. split; [exact I1|]. unfold voters in *. rewrite map_length in *. lia. }
    assert (M2 : majority (voters c2) W2).
    { pose proof (quorum_size_majority c2) as Hm. cbv zeta in Hm.
      split; [exact N2|]. split; [exact I2|]. unfold voters in *. rewrite map_length in *. lia. }
    destruct (HQ c1 c2 Hc1 Hc2 W1 W2 M1 M2) as (w & Hw1 & Hw2).
    specialize (G1 w Hw1). specialize (G2 w Hw2).
    destruct (gi_grant_ids cfgs g Hinv _ _ _ G1) as (n & Hn & Hnid).
    destruct (gi_nodes cfgs g Hinv n Hn) as [(_ & _ & Hfun) _]. rewrite Hnid in Hfun.
    apply (Hfun T i i'); apply Gof_in; assumption.
  Qed.
End Main.

(* one configuration *)
Theorem election_safety cfg g0 ls g T i i' : NoDup (voters cfg) ->
  ginit_ok g0 -> grun [cfg] g0 ls = Some g ->
  In (T, i) (g_leaders g) -> In (T, i') (g_leaders g) -> i = i'.
Proof.
  intros HV. apply election_safety_gen.
  intros c1 c2 [<-|[]] [<-|[]] W1 W2 M1 M2. apply (majorities_intersect (voters cfg)); assumption.
Qed.

(* elections that straddle one membership change: some servers still campaign under the old
   configuration, others already under the new one (one voter added, removed, promoted or demoted) *)
Theorem election_safety_across_change cur idx q new g0 ls g T i i' :
  check_config cur = true -> next_config cur idx q = Some new -> NoDup (voters cur) -> NoDup (voters new) ->
  ginit_ok g0 -> grun [cur; new] g0 ls = Some g ->
  In (T, i) (g_leaders g) -> In (T, i') (g_leaders g) -> i = i'.
Proof.
  intros Hc Hn HV1 HV2. apply election_safety_gen.
  intros c1 c2 H1 H2 W1 W2 M1 M2.
  destruct H1 as [<-|[<-|[]]], H2 as [<-|[<-|[]]].
  - apply (majorities_intersect (voters cur)); assumption.
  - eapply next_config_majorities_intersect; eassumption.
  - destruct (next_config_majorities_intersect cur idx q new W2 W1 Hc Hn M2 M1) as (x & A & B). exists x. auto.
  - apply (majorities_intersect (voters new)); assumption.
Qed.
