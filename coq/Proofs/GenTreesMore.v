(* GenTreesMore.v — further statements over the regenerated decision trees, decided by computation over
   every path of the tree (all valuations). *)
From Coq Require Import List String NArith Bool.
From RaftModel Require Import GenTrees Trees.
Import ListNotations.
Open Scope string_scope.

(* setCurrentTerm (raft.go): the in-memory term (raftState.setCurrentTerm) is set only on the path where the
   write of keyCurrentTerm returned nil; the other path ends in panic. "The term a server acts in is the term
   it has durably recorded" rests on this order. *)
Fixpoint memory_term_after_durable (persisted : bool) (t : tree) : bool :=
  match t with
  | TRet _ => true
  | TEv e k =>
    (if String.eqb (fst (fst e)) "call" && String.eqb (snd (fst e)) "raftState.setCurrentTerm" then persisted else true)
    && memory_term_after_durable persisted k
  | TLet _ _ k => memory_term_after_durable persisted k
  | TIf c a b =>
    match c with
    | EBin "!=" (EAtom "err@r.stable.SetUint64(keyCurrentTerm,t)") ENil =>
      memory_term_after_durable false a && memory_term_after_durable true b
    | _ => memory_term_after_durable persisted a && memory_term_after_durable persisted b
    end
  end.
Fixpoint ends_in_panic (t : tree) : bool :=
  match t with TRet r => String.eqb r "panic" | TEv _ k | TLet _ _ k => ends_in_panic k | TIf _ a _ => ends_in_panic a end.

Fixpoint tree_calls (t : tree) : list string :=
  match t with
  | TRet _ => []
  | TEv e k => snd (fst e) :: tree_calls k
  | TLet _ _ k => tree_calls k
  | TIf _ a b => (tree_calls a ++ tree_calls b)%list
  end.

(* on every path the in-memory setter follows a successful durable write; the setter IS called somewhere
   (the statement is not vacuous); the failing branch ends in panic *)
Definition set_term_durable_first : Prop :=
  memory_term_after_durable false gen_setCurrentTerm = true /\
  mem_s "raftState.setCurrentTerm" (tree_calls gen_setCurrentTerm) = true /\
  match gen_setCurrentTerm with
  | TEv _ (TIf _ failed _) => ends_in_panic failed = true
  | _ => False
  end.

Theorem set_term_durable_first_holds : set_term_durable_first.
Proof. vm_compute. repeat split; reflexivity. Qed.
