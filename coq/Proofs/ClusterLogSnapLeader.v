(* ClusterLogSnapLeader.v — stage 2: the leader side at node level (dispatchLogs of one entry after
   the last entry OR the snapshot, setupAppendEntries with the snapshot boundary). *)
From Coq Require Import List NArith Bool Lia.
From stdpp Require Import gmap.
From RaftModel Require Import Base Config Compaction Commitment Node NodeCodec Leader Replicate.
From RaftProofs Require Import VoteProofs AppendProofs ClusterLogSpec ClusterLogChain ClusterLogNode ClusterLogVote
  ClusterLogLeader ClusterLogInit ClusterLogSnapSpec ClusterLogSnapNode ClusterLogSnapState ClusterLogSnapAppend2.
Open Scope N_scope.

(* every field of the server after dispatchLogs of one entry *)
Lemma dispatch_fields P s fs ty data fid :
  let s' := l_node (fst (fst (fst (dispatch P (leader_setup s) fs [(ty, data, fid)])))) in
  dproj s' = dproj s /\ v_term s' = v_term s /\ d_snaps s' = d_snaps s /\
  v_lastSnapIdx s' = v_lastSnapIdx s /\ v_lastSnapTerm s' = v_lastSnapTerm s /\
  v_commit s' = v_commit s /\ v_applied s' = v_applied s /\ v_fsmLast s' = v_fsmLast s /\
  d_staged s' = (if p_track P then v_commit s else d_staged s) /\
  ((fst (next_fail fs) = true /\ d_log s' = d_log s /\ d_pcommit s' = d_pcommit s /\
    v_lastLogIdx s' = v_lastLogIdx s /\ v_lastLogTerm s' = v_lastLogTerm s /\ v_role s' = Follower) \/
   (fst (next_fail fs) = false /\ d_log s' = log_store (d_log s) [new_entry s ty data] /\
    d_pcommit s' = (if p_track P then v_commit s else d_pcommit s) /\
    v_lastLogIdx s' = last_index s + 1 /\ v_lastLogTerm s' = v_term s /\ v_role s' = v_role s)).
Proof.
  cbv zeta. unfold dispatch, leader_setup. cbn [l_node l_inflight l_cm number_logs map fst snd app].
  fold (new_entry s ty data). unfold do_stage, do_store.
  destruct (p_track P); destruct (next_fail fs) as [f fs']; destruct f; cbn [negb fst snd l_node];
    repeat (split; [reflexivity|]); first [left; repeat split; reflexivity|right; repeat split; reflexivity].
Qed.

Lemma last_index_entry s : last_index s = fst (last_entry s).
Proof. unfold last_index, last_entry. destruct (N.leb_spec (v_lastSnapIdx s) (v_lastLogIdx s)); simpl; lia. Qed.

Lemma bkey_fst_eq base c0 a b : bkey base c0 a -> bkey base c0 b -> fst a = fst b -> a = b.
Proof. intros (_ & ea & Na & <-) (_ & eb & Nb & <-) E. rewrite E in Na. congruence. Qed.

Section SnapLeader.
  Variable base : list entry.
  Variable c0 : N.
  Hypothesis Hh : hist_ok (0, 0) base.

  (* the entry (or snapshot) a new entry is appended after *)
  Lemma last_entry_facts C s : cb_ok base c0 C -> sup base c0 C s ->
    (forall i x, d_log s !! i = Some x -> anc C (key x) (last_entry s)) /\
    snd (last_entry s) <= d_term s /\ (fst (last_entry s) = 0 -> last_entry s = (0, 0)) /\
    (last_entry s = (0, 0) \/ ckey C (last_entry s)) /\ c0 <= fst (last_entry s) /\
    v_lastLogIdx s <= fst (last_entry s).
  Proof.
    intros HC Hn. unfold last_entry. destruct (N.leb_spec (v_lastSnapIdx s) (v_lastLogIdx s)) as [Hle|Hlt]; simpl.
    - split; [apply Hn|]. split; [apply Hn|]. split; [intros E; rewrite (su_cz base c0 C s Hn E), E; reflexivity|].
      split; [apply Hn|]. split; [|lia]. destruct (su_u base c0 C s Hn); lia.
    - destruct (su_snapkey base c0 C s Hn) as [E|K]; [lia|].
      split; [|split; [|split; [intros E; lia|split; [right; apply (bkey_ckey base c0 C _ HC K)|split; [|lia]]]]].
      + intros i x Hl. apply (low_entry_anc base c0 Hh C _ _ i x _ HC (su_login base c0 C s Hn) Hl K).
        simpl. pose proof (su_login base c0 C s Hn i x Hl) as (Hk & _).
        destruct (anc_le C _ _ (cb_chain base c0 C HC) (su_below base c0 C s Hn i x Hl)) as [Hb _]. unfold key in Hb. simpl in Hb. lia.
      + destruct (bkey_term base c0 _ K) as (e & He & Et). simpl in Et. rewrite <- Et. apply (su_tb base c0 C s Hn e He).
      + destruct (su_u base c0 C s Hn); lia.
  Qed.

  Lemma cb_ok_cons C e p : cb_ok base c0 C ->
    (forall x q, In (x, q) C -> key x <> key e) ->
    e_idx e = fst p + 1 -> snd p <= e_term e -> (fst p = 0 -> p = (0, 0)) -> (p = (0, 0) \/ ckey C p) -> c0 < e_idx e ->
    cb_ok base c0 ((e, p) :: C).
  Proof.
    intros [HC Hi Hl Hp] Hnew H1 H2 H3 H4 H5. constructor.
    - apply chain_ok_cons; assumption.
    - intros x Hx. right. apply Hi, Hx.
    - intros x q [E|Hx] Hle; [inversion E; subst; lia|apply (Hl x q Hx Hle)].
    - intros x q [E|Hx].
      + inversion E; subst. destruct H4 as [->|K]; [left; reflexivity|right]. eapply ckey_mono; [|exact K]. intros y Hy. right. exact Hy.
      + destruct (Hp x q Hx) as [->|K]; [left; reflexivity|right]. eapply ckey_mono; [|exact K]. intros y Hy. right. exact Hy.
  Qed.

  (* the leader after it stored the new entry e, appended after last_entry s *)
  Lemma leader_append_sup C s s' e :
    cb_ok base c0 C -> sup base c0 C s -> e_idx e = last_index s + 1 -> e_term e <= d_term s' ->
    d_log s' = log_store (d_log s) [e] -> v_lastLogIdx s' = e_idx e -> v_lastLogTerm s' = e_term e ->
    d_snaps s' = d_snaps s -> d_term s <= d_term s' -> d_pcommit s' <= c0 -> d_staged s' <= c0 ->
    v_lastSnapIdx s' = v_lastSnapIdx s -> v_lastSnapTerm s' = v_lastSnapTerm s ->
    v_commit s' = v_commit s -> v_applied s' = v_applied s -> v_fsmLast s' = v_fsmLast s ->
    sup base c0 ((e, last_entry s) :: C) s'.
  Proof.
    intros HC Hn Hi Ht Hl Hci Hct Hsn Hdt Hpc Hst Hsi Hstm Hcm Hap Hfs.
    destruct (last_entry_facts C s HC Hn) as (L1 & L2 & L3 & L4 & L5 & L6).
    set (C' := (e, last_entry s) :: C).
    assert (Hinc : incl C C') by (intros x Hx; right; exact Hx).
    assert (Hup : anc C' (last_entry s) (key e)) by (eapply anc_up; [left; reflexivity|reflexivity|apply anc_refl]).
    rewrite last_index_entry in Hi.
    constructor.
    - rewrite Hsn. apply Hn.
    - rewrite Hl. intros i x Hx. rewrite log_store_one in Hx. destruct (N.eqb_spec (e_idx e) i) as [Ei|Ni].
      + inversion Hx; subst x. split; [exact Ei|]. split; [eexists; left; reflexivity|exact Ht].
      + destruct (su_login base c0 C s Hn i x Hx) as (B1 & (p & B2) & B3). split; [exact B1|]. split; [exists p; right; exact B2|lia].
    - exact Hpc.
    - exact Hst.
    - rewrite Hl, Hsn. apply has_c0_store. apply Hn.
    - intros x Hx. pose proof (su_tb base c0 C s Hn x Hx). lia.
    - rewrite Hsi, Hstm. apply Hn.
    - rewrite Hct. exact Ht.
    - rewrite Hci. intros E. lia.
    - rewrite Hl, Hci, Hct. intros i x Hx. rewrite log_store_one in Hx. destruct (N.eqb_spec (e_idx e) i) as [Ei|Ni].
      + inversion Hx; subst x. apply anc_refl.
      + eapply anc_trans; [|exact Hup]. eapply anc_mono; [exact Hinc|apply (L1 i x Hx)].
    - rewrite Hci, Hct. right. exists e, (last_entry s). split; [left; reflexivity|reflexivity].
    - rewrite Hci. left. lia.
    - rewrite Hcm. apply Hn.
    - rewrite Hfs. apply Hn.
    - rewrite Hsi, Hap. apply Hn.
    - rewrite Hfs, Hap. apply Hn.
    - rewrite Hfs, Hsi. apply Hn.
  Qed.

  (* ---------------------------------------------------------------- setupAppendEntries *)
  Lemma get_range_from C m dt top : chain_ok C -> log_in C m dt -> log_below C m top ->
    forall n from es, 1 <= from -> get_range m from n = Some es ->
    (forall e, In e es -> e_term e <= dt) /\
    match es with [] => True | e :: r => m !! from = Some e /\ mchain C (key e) r end.
  Proof.
    intros HC Hin Hbel n from es Hf Hg. destruct n as [|n]; simpl in Hg.
    - inversion Hg; subst. split; [intros e []|exact I].
    - destruct (m !! from) as [e|] eqn:Ee; [|discriminate].
      destruct (get_range m (from + 1) n) as [r|] eqn:Er; [|discriminate]. inversion Hg; subst es. clear Hg.
      destruct (get_range_mchain C m dt top HC Hin Hbel n (from + 1) r (key e) Er) as [A B].
      { right. split; [lia|]. exists e. replace (from + 1 - 1) with from by lia. auto. }
      split; [|auto]. intros x [<-|Hx]; [apply (Hin from e Ee)|apply B, Hx].
  Qed.

  Theorem setup_send_chain2 C P s next last pi pt es c : cb_ok base c0 C -> sup base c0 C s -> 1 <= next ->
    setup_send P s next last = SendAE pi pt es c ->
    mchain C (pi, pt) es /\ (forall e, In e es -> e_term e <= d_term s) /\ c <= c0.
  Proof.
    intros HCB Hn Hnext. pose proof (cb_chain base c0 C HCB) as HC. unfold setup_send.
    destruct (prev_of s next) as [[pi' pt']|] eqn:Ep.
    2:{ destruct (newest_snap s); discriminate. }
    destruct (get_range (d_log s) next _) as [es'|] eqn:Eg.
    2:{ destruct (newest_snap s); discriminate. }
    intros H; inversion H; subst.
    pose proof (su_login base c0 C s Hn) as Hin. pose proof (su_below base c0 C s Hn) as Hbel.
    destruct (get_range_from C (d_log s) (d_term s) _ HC Hin Hbel _ next es Hnext Eg) as [Ht Hes].
    split; [|split; [exact Ht|apply Hn]].
    destruct es as [|e r]; [exact I|]. destruct Hes as [Ee Hr]. simpl. split; [|exact Hr].
    destruct (Hin next e Ee) as (Hk & (p0 & Hp0) & _).
    destruct (co_idx C HC e p0 Hp0) as [Hi0 _].
    assert (p0 = (pi, pt)); [|subst p0; exact Hp0].
    unfold prev_of in Ep. destruct (N.eqb_spec next 1) as [->|Hne].
    - inversion Ep; subst. apply (co_zero C HC e p0 Hp0). lia.
    - destruct (N.eqb_spec (next - 1) (v_lastSnapIdx s)) as [Es|Ns].
      + inversion Ep; subst pi pt. destruct (su_snapkey base c0 C s Hn) as [E|K]; [lia|].
        destruct (cb_pred base c0 C HCB e p0 Hp0) as [->|Kp]; [simpl in Hi0; lia|].
        assert (Hc : fst p0 <= c0) by (destruct K as ((_ & Hc) & _); simpl in Hc; lia).
        apply (bkey_fst_eq base c0 _ _ (ckey_low_bkey base c0 Hh C p0 HCB Kp Hc) K).
        simpl. lia.
      + destruct (d_log s !! (next - 1)) as [pe|] eqn:Epe; [|discriminate]. inversion Ep; subst pi pt.
        destruct (Hin _ pe Epe) as (Hkp & _). symmetry. apply (anc_pred C (key pe) e p0 HC Hp0).
        * apply (anc_linear C (key pe) (key e) _ HC (Hbel _ pe Epe) (Hbel _ e Ee)). unfold key. simpl. lia.
        * unfold key. simpl. lia.
  Qed.
End SnapLeader.
