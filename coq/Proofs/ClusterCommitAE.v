(* ClusterCommitAE.v — the appendEntries handler (Model/Node.v append_entries): which successful
   term / delete / store operations its trace holds, in order (every crash image is the replay of a
   prefix of them), and what the state it returns looks like. *)
From Coq Require Import List NArith Bool Lia.
From stdpp Require Import gmap.
From RaftModel Require Import Base Config Compaction Node NodeCodec.
From RaftProofs Require Import VoteProofs AdvLeaderProofs AppendProofs RecoverProofs
  ClusterLogSpec ClusterLogChain ClusterLogNode ClusterLogCut ClusterLogVote ClusterLogAppend.
Open Scope N_scope.

(* the store / delete part of the trace, for a request whose previous entry matched:
   es = dup ++ news, the duplicates are stored with the same terms, and either the new entries lie
   beyond the log (store), or the first of them conflicts at c (delete c..top, then store) *)
Definition ext_shape (m : gmap N entry) (top : N) (a : areq) (ext : list ev) : Prop :=
  exists dup news, aq_entries a = dup ++ news /\ news <> [] /\ aq_prevIdx a <= top /\
    (forall e, In e dup -> exists se, m !! e_idx e = Some se /\ e_term se = e_term e) /\
    ((ext = [EStore news true] /\ forall e, In e news -> top < e_idx e) \/
     (exists c, first_conflict m (aq_entries a) = Some c /\ c = e_idx (hd (mkE 0 0 0 0) news) /\ c <= top /\
        (ext = [EDelete c top true] \/ ext = [EDelete c top true; EStore news true]))).

(* the cached last index after the operations ext *)
Definition ext_idx (top : N) (ext : list ev) : N :=
  fold_left (fun t e => match e with EStore es true => e_idx (last_of es) | EDelete c _ true => c - 1 | _ => t end) ext top.

Lemma contig_last q es : contig q es -> es <> [] -> e_idx (last es (mkE 0 0 0 0)) = q + N.of_nat (length es).
Proof.
  revert q. induction es as [|x r IH]; intros q H Hne; [congruence|]. destruct H as [Hx Hr].
  destruct r as [|y r']; [simpl; lia|].
  change (last (x :: y :: r') (mkE 0 0 0 0)) with (last (y :: r') (mkE 0 0 0 0)).
  rewrite (IH (q + 1) Hr) by discriminate. simpl length. lia.
Qed.

Lemma contig_hd q es : contig q es -> es <> [] -> e_idx (hd (mkE 0 0 0 0) es) = q + 1.
Proof. destruct es; [congruence|]. intros [H _] _. exact H. Qed.

Definition cont_tr (tr1 : list ev) (c : ae_cont) : list ev :=
  match c with inl (Some (_, tr8, _)) => tr8 | inl None => tr1 | inr (_, _, tr', _) => tr' end.
Definition cont_st (c : ae_cont) : option nstate :=
  match c with inl (Some (s8, _, _)) => Some s8 | inl None => None | inr (_, s', _, _) => Some s' end.

Definition cont_shape (s2 : nstate) (tr1 : list ev) (a : areq) (c : ae_cont) : Prop :=
  exists ext, tlf (cont_tr tr1 c) = tlf tr1 ++ ext /\ (ext = [] \/ ext_shape (d_log s2) (v_lastLogIdx s2) a ext) /\
    forall st, cont_st c = Some st -> tlp st = fold_left tl_apply ext (tlp s2) /\ v_lastLogIdx st = ext_idx (v_lastLogIdx s2) ext.

Lemma do_stage_tlf P s c : tlf (snd (do_stage P s c)) = [].
Proof. unfold do_stage. destruct (p_track P); reflexivity. Qed.

Lemma prev_check_le s2 a : v_lastSnapIdx s2 = 0 -> cache_ok s2 -> prev_check s2 a = Some true ->
  aq_prevIdx a <= v_lastLogIdx s2.
Proof.
  intros Hsi Hc. unfold prev_check. destruct (N.ltb_spec 0 (aq_prevIdx a)) as [Hpos|]; [|lia].
  unfold last_entry. rewrite Hsi. destruct (N.leb_spec 0 (v_lastLogIdx s2)); [|lia].
  destruct (N.eqb_spec (aq_prevIdx a) (v_lastLogIdx s2)); [lia|].
  destruct (N.eqb_spec (aq_prevIdx a) 0); [lia|].
  destruct (d_log s2 !! aq_prevIdx a) as [pe|] eqn:E; [|discriminate]. intros _.
  destruct (N.le_gt_cases (aq_prevIdx a) (v_lastLogIdx s2)) as [|Hgt]; [assumption|].
  rewrite (Hc _ Hgt) in E. discriminate.
Qed.

(* store_new after ext3 (nothing, or the delete), for the part news of es = dup ++ news *)
Lemma store_new_shape P fr lc s2 s3 tr3 fs3 news tr1 ext3 :
  tlf tr3 = tlf tr1 ++ ext3 -> tlp s3 = fold_left tl_apply ext3 (tlp s2) -> v_lastLogIdx s3 = ext_idx (v_lastLogIdx s2) ext3 ->
  let c := store_new P fr lc s3 tr3 fs3 news in
  (tlf (cont_tr tr1 c) = tlf tr1 ++ ext3 /\
   forall st, cont_st c = Some st -> tlp st = fold_left tl_apply ext3 (tlp s2) /\ v_lastLogIdx st = ext_idx (v_lastLogIdx s2) ext3) \/
  (tlf (cont_tr tr1 c) = tlf tr1 ++ ext3 ++ [EStore news true] /\
   forall st, cont_st c = Some st -> tlp st = fold_left tl_apply (ext3 ++ [EStore news true]) (tlp s2) /\
                                     v_lastLogIdx st = ext_idx (v_lastLogIdx s2) (ext3 ++ [EStore news true])).
Proof.
  intros Htr Hst Hidx. cbv zeta. unfold store_new.
  pose proof (do_stage_tlf P s3 (N.min lc (e_idx (last_of news)))) as Ks.
  pose proof (do_stage_keep P s3 (N.min lc (e_idx (last_of news)))) as ((Kl & _ & Ki & _) & Kt & _).
  destruct (do_stage P s3 _) as [s4 trs]. simpl in Ks, Kl, Kt, Ki.
  unfold do_store. destruct (next_fail fs3) as [f fs5]. destruct f; cbn [negb cont_tr cont_st].
  - left. split; [rewrite !tlf_app, Htr, Ks; simpl; rewrite app_nil_r; reflexivity|].
    intros st E. inversion E; subst st. split; [rewrite <- Hst; unfold tlp; rewrite Kl, Kt; reflexivity|congruence].
  - right. split; [rewrite !tlf_app, Htr, Ks; simpl; rewrite <- app_assoc; reflexivity|].
    intros st E. inversion E; subst st. split.
    + rewrite fold_left_app, <- Hst. cbn [fold_left tl_apply].
      match goal with |- tlp (set_lastlog (fold_left _ _ ?S6) _ _) = _ =>
        destruct (fold_config_keep P news S6) as [(F1 & _) Ft] end.
      unfold tlp. cbn [d_term d_log set_lastlog]. rewrite F1, Ft. cbn [d_term d_log set_log fst snd]. rewrite Kl, Kt. reflexivity.
    + unfold ext_idx. rewrite fold_left_app. reflexivity.
Qed.

Lemma ae_entries_shape P fr s2 tr1 fs1 a :
  v_lastSnapIdx s2 = 0 -> cache_ok s2 -> prev_check s2 a = Some true -> contig (aq_prevIdx a) (aq_entries a) ->
  cont_shape s2 tr1 a (ae_entries P fr s2 tr1 fs1 a).
Proof.
  intros Hsi Hcache Hpc Hc. unfold ae_entries.
  assert (Hsame : forall (c : ae_cont), cont_tr tr1 c = tr1 -> cont_st c = Some s2 -> cont_shape s2 tr1 a c).
  { intros c E1 E2. exists []. rewrite E1, app_nil_r. split; [reflexivity|]. split; [left; reflexivity|].
    intros st E. rewrite E2 in E. inversion E; subst. split; reflexivity. }
  pose proof (prev_check_le s2 a Hsi Hcache Hpc) as Hple.
  destruct (aq_entries a) as [|e0 es0] eqn:Ees; [apply Hsame; reflexivity|].
  rewrite <- Ees in *. clear Ees e0 es0.
  pose proof (scan_spec (d_log s2) (v_lastLogIdx s2) (aq_entries a) (aq_prevIdx a) Hc Hcache) as Hs.
  destruct (scan_entries (d_log s2) (v_lastLogIdx s2) (aq_entries a)) as [news|c news| |]; try (apply Hsame; reflexivity).
  - destruct Hs as (_ & dup & Hes & Hnn & Hdup & Hnew).
    pose proof (store_new_shape P fr (aq_commit a) s2 s2 tr1 fs1 news tr1 [] (eq_sym (app_nil_r _)) eq_refl eq_refl) as Hst.
    cbv zeta in Hst. destruct Hst as [[H1 H2]|[H1 H2]].
    + exists []. split; [exact H1|]. split; [left; reflexivity|exact H2].
    + exists [EStore news true]. split; [exact H1|]. split; [|exact H2].
      right. exists dup, news. repeat (split; [assumption|]). left. auto.
  - destruct Hs as (Hfc & dup & Hes & Hnn & Hc0 & Hcl & Hdup).
    unfold do_delete. destruct (next_fail fs1) as [f fs3]. destruct f; cbn [negb].
    { exists []. cbn [cont_tr cont_st]. split; [rewrite tlf_app; simpl; reflexivity|]. split; [left; reflexivity|].
      intros st E. inversion E; subst. split; reflexivity. }
    assert (Hcp : fst (conflict_pred a news) = c - 1).
    { rewrite (conflict_pred_app a dup news Hes). rewrite Hes in Hc.
      destruct (contig_app _ _ _ Hc) as (Hcd & Hcn & _).
      rewrite Hc0, (contig_hd _ _ Hcn Hnn). unfold pred_key. destruct dup as [|d0 dr]; [simpl; lia|].
      unfold key. cbn [fst]. rewrite (contig_last _ _ Hcd) by discriminate. lia. }
    destruct (conflict_pred a news) as [pi pt]. cbn [fst] in Hcp.
    match goal with |- context [store_new P fr (aq_commit a) ?S3 ?TR3 fs3 news] =>
      pose proof (store_new_shape P fr (aq_commit a) s2 S3 TR3 fs3 news tr1 [EDelete c (v_lastLogIdx s2) true]) as Hst end.
    cbv zeta in Hst. destruct Hst as [[H1 H2]|[H1 H2]].
    + rewrite tlf_app. reflexivity.
    + destruct (c <=? v_latestIdx _); reflexivity.
    + destruct (c <=? v_latestIdx _); cbn; exact Hcp.
    + exists [EDelete c (v_lastLogIdx s2) true]. split; [exact H1|]. split; [|exact H2].
      right. exists dup, news. repeat (split; [assumption|]). right. exists c. repeat (split; [assumption|]). left. reflexivity.
    + exists [EDelete c (v_lastLogIdx s2) true; EStore news true]. split; [exact H1|]. split; [|exact H2].
      right. exists dup, news. repeat (split; [assumption|]). right. exists c. repeat (split; [assumption|]). right. reflexivity.
Qed.

Definition done_st {R} (o : outcome R) : option nstate := match o with Done s _ _ _ => Some s | Panic _ _ => None end.

Lemma ae_commit_tlf okr s8 tr8 fs8 a : tlf (trace_of (ae_commit okr s8 tr8 fs8 a)) = tlf tr8 /\
  forall st, done_st (ae_commit okr s8 tr8 fs8 a) = Some st -> tlp st = tlp s8 /\ v_lastLogIdx st = v_lastLogIdx s8.
Proof.
  unfold ae_commit. destruct ((0 <? aq_commit a) && (v_commit s8 <? aq_commit a)).
  2:{ split; [reflexivity|]. intros st E. inversion E; split; reflexivity. }
  cbv zeta. destruct (v_commit s8 <? _).
  2:{ split; [reflexivity|]. intros st E. inversion E; split; reflexivity. }
  match goal with |- context [process_logs ?S ?I] => destruct (process_logs S I) as [[s11 tra]|] eqn:EP end.
  2:{ split; [reflexivity|]. intros st E. discriminate. }
  apply process_logs_keep in EP. destruct EP as ((Kl & _ & Ki & _) & Kt & Ktr). cbn [trace_of done_st].
  split; [rewrite tlf_app, Ktr, app_nil_r; reflexivity|].
  intros st E. inversion E; subst st. unfold tlp. rewrite Kl, Kt, Ki. destruct (v_latestIdx _ <=? _); split; reflexivity.
Qed.

Lemma ae_body_shape P s0 s2 rt tr1 fs1 a :
  v_lastSnapIdx s2 = 0 -> cache_ok s2 -> contig (aq_prevIdx a) (aq_entries a) ->
  exists ext, tlf (trace_of (ae_body P s0 s2 rt tr1 fs1 a)) = tlf tr1 ++ ext /\
    (ext = [] \/ ext_shape (d_log s2) (v_lastLogIdx s2) a ext) /\
    forall st, done_st (ae_body P s0 s2 rt tr1 fs1 a) = Some st ->
      tlp st = fold_left tl_apply ext (tlp s2) /\ v_lastLogIdx st = ext_idx (v_lastLogIdx s2) ext.
Proof.
  intros Hsi Hcache Hc. unfold ae_body.
  assert (Hsame : forall r fs, exists ext, tlf (trace_of (Done s2 r tr1 fs : outcome aresp)) = tlf tr1 ++ ext /\
            (ext = [] \/ ext_shape (d_log s2) (v_lastLogIdx s2) a ext) /\
            forall st, done_st (Done s2 r tr1 fs : outcome aresp) = Some st ->
              tlp st = fold_left tl_apply ext (tlp s2) /\ v_lastLogIdx st = ext_idx (v_lastLogIdx s2) ext).
  { intros r fs. exists []. simpl. rewrite app_nil_r. split; [reflexivity|]. split; [left; reflexivity|].
    intros st E. inversion E; split; reflexivity. }
  destruct (prev_check s2 a) as [[|]|] eqn:Epc; try apply Hsame.
  pose proof (ae_entries_shape P (mkAResp rt (last_index s0) false false false) s2 tr1 fs1 a Hsi Hcache Epc Hc) as Hae.
  destruct (ae_entries P _ s2 tr1 fs1 a) as [[[[s8 tr8] fs8]|]|[[[resp s'] tr'] fs']];
    destruct Hae as (ext & E1 & E2 & E3); cbn [cont_tr cont_st] in E1, E3; exists ext.
  - destruct (ae_commit_tlf (mkAResp rt (last_index s0) true false false) s8 tr8 fs8 a) as [A1 A2].
    rewrite A1. split; [exact E1|]. split; [exact E2|]. intros st Hst. destruct (A2 st Hst) as [-> ->]. apply E3. reflexivity.
  - split; [exact E1|]. split; [exact E2|]. intros st Hst. discriminate.
  - split; [exact E1|]. split; [exact E2|]. intros st Hst. simpl in Hst. inversion Hst; subst. apply E3. reflexivity.
Qed.

(* the whole handler: an optional term write to the request's term, then the store part *)
Theorem append_shape P s fs a : wfu s -> v_lastSnapIdx s = 0 -> cache_ok s -> contig (aq_prevIdx a) (aq_entries a) ->
  exists pre ext, tlf (trace_of (append_entries P s fs a)) = pre ++ ext /\
    ((pre = [] /\ (ext = [] \/ d_term s = aq_term a)) \/ (pre = [ESetTerm (aq_term a) true] /\ d_term s <= aq_term a)) /\
    (ext = [] \/ ext_shape (d_log s) (v_lastLogIdx s) a ext) /\
    forall st, done_st (append_entries P s fs a) = Some st ->
      tlp st = fold_left tl_apply (pre ++ ext) (tlp s) /\ v_lastLogIdx st = ext_idx (v_lastLogIdx s) ext.
Proof.
  intros [Hwd Hvt] Hsi Hcache Hc. unfold append_entries.
  destruct (N.ltb_spec (aq_term a) (v_term s)) as [Hlt|Hge].
  { exists [], []. split; [reflexivity|]. split; [left; split; [reflexivity|left; reflexivity]|]. split; [left; reflexivity|].
    intros st E. inversion E; split; reflexivity. }
  set (bump := (v_term s <? aq_term a) || (negb (v_role s =? Follower) && negb (v_transfer s))).
  destruct bump eqn:Eb.
  - unfold do_set_term. destruct (next_fail fs) as [f fs1]. destruct f.
    { exists [], []. split; [reflexivity|]. split; [left; split; [reflexivity|left; reflexivity]|]. split; [left; reflexivity|].
      intros st E. discriminate. }
    set (s2 := set_leader (set_vol_term (set_durable_term (set_state s Follower) (aq_term a)) (aq_term a)) (aq_addr a) (aq_id a)).
    destruct (ae_body_shape P s s2 (aq_term a) [ESetTerm (aq_term a) true] fs1 a Hsi Hcache Hc) as (ext & E1 & E2 & E3).
    exists [ESetTerm (aq_term a) true], ext. split; [exact E1|]. split; [right; split; [reflexivity|lia]|]. split; [exact E2|].
    intros st Hst. destruct (E3 st Hst) as [-> ->]. split; reflexivity.
  - assert (Heq : d_term s = aq_term a).
    { unfold bump in Eb. apply orb_false_elim in Eb. destruct Eb as [Eb _]. apply N.ltb_ge in Eb. lia. }
    set (s2 := set_leader s (aq_addr a) (aq_id a)).
    destruct (ae_body_shape P s s2 (v_term s) [] fs a Hsi Hcache Hc) as (ext & E1 & E2 & E3).
    exists [], ext. split; [exact E1|]. split; [left; split; [reflexivity|right; exact Heq]|]. split; [exact E2|].
    intros st Hst. destruct (E3 st Hst) as [-> ->]. split; reflexivity.
Qed.

(* ---------------------------------------------------------------- what the store part does to a log *)
(* m' is the log and t' its last index after the delete / store operations of the handler *)
Definition ae_log (m : gmap N entry) (top : N) (a : areq) (m' : gmap N entry) (t' : N) : Prop :=
  exists dup news, aq_entries a = dup ++ news /\ news <> [] /\ aq_prevIdx a <= top /\
    (forall e, In e dup -> exists se, m !! e_idx e = Some se /\ e_term se = e_term e) /\
    ((m' = log_store m news /\ t' = e_idx (last_of news) /\ forall e, In e news -> top < e_idx e) \/
     (exists c, first_conflict m (aq_entries a) = Some c /\ c = e_idx (hd (mkE 0 0 0 0) news) /\ c <= top /\
        ((m' = log_delete m c top /\ t' = c - 1) \/ (m' = log_store (log_delete m c top) news /\ t' = e_idx (last_of news))))).

Lemma ext_prefix m top a ext t j : ext_shape m top a ext ->
  (fold_left tl_apply (firstn j ext) (t, m) = (t, m) /\ ext_idx top (firstn j ext) = top) \/
  exists m', fold_left tl_apply (firstn j ext) (t, m) = (t, m') /\ ae_log m top a m' (ext_idx top (firstn j ext)).
Proof.
  intros (dup & news & Hes & Hnn & Hp & Hdup & [[-> Hnew]|(c & Hfc & Hc & Hcl & [->| ->])]).
  - destruct j as [|[|j]]; [left; split; reflexivity| |]; right; exists (log_store m news); (split; [reflexivity|]);
      exists dup, news; repeat (split; [assumption|]); left; auto.
  - destruct j as [|[|j]]; [left; split; reflexivity| |]; right; exists (log_delete m c top); (split; [reflexivity|]);
      exists dup, news; repeat (split; [assumption|]); right; exists c; repeat (split; [assumption|]); left; auto.
  - destruct j as [|[|[|j]]]; [left; split; reflexivity| | |]; right.
    + exists (log_delete m c top). split; [reflexivity|].
      exists dup, news. repeat (split; [assumption|]). right. exists c. repeat (split; [assumption|]). left. auto.
    + exists (log_store (log_delete m c top) news). split; [reflexivity|].
      exists dup, news. repeat (split; [assumption|]). right. exists c. repeat (split; [assumption|]). right. auto.
    + exists (log_store (log_delete m c top) news). split; [reflexivity|].
      exists dup, news. repeat (split; [assumption|]). right. exists c. repeat (split; [assumption|]). right. auto.
Qed.

(* every prefix of the handler's (term, log) operations, applied to the state it started from;
   t is the last index of the log reached *)
Definition ae_reach (s : nstate) (a : areq) (d : N * gmap N entry) (t : N) : Prop :=
  (d = tlp s /\ t = v_lastLogIdx s) \/
  (d_term s <= aq_term a /\ fst d = aq_term a /\
   ((snd d = d_log s /\ t = v_lastLogIdx s) \/ ae_log (d_log s) (v_lastLogIdx s) a (snd d) t)).

Theorem append_reach P s fs a : wfu s -> v_lastSnapIdx s = 0 -> cache_ok s -> contig (aq_prevIdx a) (aq_entries a) ->
  (forall j, exists t, ae_reach s a (fold_left tl_apply (firstn j (tlf (trace_of (append_entries P s fs a)))) (tlp s)) t) /\
  (forall st, done_st (append_entries P s fs a) = Some st -> ae_reach s a (tlp st) (v_lastLogIdx st)).
Proof.
  intros Hw Hsi Hcache Hc.
  destruct (append_shape P s fs a Hw Hsi Hcache Hc) as (pre & ext & Htr & Hpre & Hext & Hst).
  assert (Hall : forall j, ae_reach s a (fold_left tl_apply (firstn j (pre ++ ext)) (tlp s))
                                   (ext_idx (v_lastLogIdx s) (firstn (j - length pre) ext))).
  { intros j. unfold tlp. destruct Hpre as [[-> He]|[-> Hle]].
    - simpl app. simpl length. rewrite Nat.sub_0_r.
      destruct Hext as [->|Hsh]; [destruct j; left; split; reflexivity|].
      destruct He as [->|Heq]; [destruct j; left; split; reflexivity|].
      destruct (ext_prefix (d_log s) (v_lastLogIdx s) a ext (d_term s) j Hsh) as [[E1 E2]|(m' & E & Hm')].
      + rewrite E1, E2. left. split; reflexivity.
      + rewrite E. right. simpl. split; [lia|]. split; [exact Heq|]. right. exact Hm'.
    - destruct j as [|j]; [left; split; reflexivity|]. cbn [app firstn fold_left tl_apply fst snd length].
      replace (S j - 1)%nat with j by lia.
      destruct Hext as [->|Hsh].
      + destruct j; right; simpl; auto.
      + destruct (ext_prefix (d_log s) (v_lastLogIdx s) a ext (aq_term a) j Hsh) as [[E1 E2]|(m' & E & Hm')].
        * rewrite E1, E2. right. simpl. auto.
        * rewrite E. right. simpl. auto. }
  split.
  - intros j. rewrite Htr. eexists. apply Hall.
  - intros st E. destruct (Hst st E) as [-> ->]. rewrite <- (firstn_all (pre ++ ext)).
    pose proof (Hall (length (pre ++ ext))) as H. rewrite app_length in H.
    replace (length pre + length ext - length pre)%nat with (length ext) in H by lia. rewrite firstn_all in H.
    rewrite app_length. exact H.
Qed.
