(* C15: Open returns only bytes the metadata's checksum covers. *)
From Coq Require Import List NArith Bool.
From RaftModel Require Import FileSnap.
Import ListNotations.
Open Scope N_scope.

Lemma open_checksummed : forall f sid bytes,
  open_snap f sid = Some bytes ->
  exists d x y m, find_final f sid = Some d /\ d_meta d = Some x /\ d_state d = Some y /\
                  mf_c x = MFull m /\ mv_crc m = Some bytes /\ sf_c y = bytes.
Proof.
  intros f sid bytes H. unfold open_snap in H.
  destruct (find_final f sid) as [d|]; [|discriminate].
  destruct (d_meta d) as [x|] eqn:Em; [|discriminate]. destruct (d_state d) as [y|] eqn:Es; [|discriminate].
  unfold dec_meta in H. destruct (mf_c x) as [|m|] eqn:Ec; try discriminate.
  destruct (mv_crc m) as [c|] eqn:Ecrc; [|discriminate].
  destruct (list_eqb c (sf_c y)) eqn:El; [|discriminate]. inversion H; subst.
  assert (c = sf_c y).
  { clear -El. revert El. generalize (sf_c y). induction c as [|a r IH]; intros [|b r'] E; simpl in E; try discriminate; [reflexivity|].
    apply andb_prop in E. destruct E as [E1 E2]. apply N.eqb_eq in E1. subst. f_equal. apply IH. exact E2. }
  subst c. exists d, x, y, m. repeat split; auto.
Qed.

