(* ClusterCommitQuorum.v — from the quorum index of commitment.go to a majority of the voters:
   if the slots of matchIndexes are exactly the (pairwise distinct) voters and more than half of the
   slots hold an index >= q, then a majority of the voters holds an index >= q. *)
From Coq Require Import List NArith Bool Lia Permutation.
From stdpp Require Import gmap.
From RaftModel Require Import Base Config Commitment.
From RaftProofs Require Import ConfigProofs CommitmentProofs.
Open Scope N_scope.

Lemma NoDup_incl_len (l l' : list N) : NoDup l -> incl l l' -> (length l <= length l')%nat.
Proof. intros. apply NoDup_incl_length; assumption. Qed.

Lemma count_ge_filter q (l : list (N * N)) :
  count_ge q (map snd l) = length (List.filter (fun kv => q <=? snd kv) l).
Proof.
  unfold count_ge. induction l as [|[k v] r IH]; simpl; [reflexivity|]. destruct (q <=? v); simpl; rewrite IH; reflexivity.
Qed.

Theorem quorum_ok_majority (m : gmap N N) (vs : list N) q : NoDup vs ->
  (forall j, is_Some (m !! j) <-> In j vs) -> quorum_ok m q ->
  exists W, majority vs W /\ forall w, In w W -> exists v, m !! w = Some v /\ q <= v.
Proof.
  intros Hnd Hslots Hq. unfold quorum_ok, match_vals in Hq.
  set (l := map_to_list m) in *.
  assert (Hlnd : NoDup (map fst l)) by (apply NoDup_ListNoDup, NoDup_fst_map_to_list).
  assert (Hin : forall k v, In (k, v) l <-> m !! k = Some v).
  { intros k v. unfold l. rewrite <- elem_of_list_In. apply elem_of_map_to_list. }
  set (W := map fst (List.filter (fun kv : N * N => q <=? snd kv) l)).
  exists W. split; [split; [|split]|].
  - (* distinct *)
    unfold W. clear -Hlnd. induction l as [|[k v] r IH]; simpl in *; [constructor|].
    inversion Hlnd as [|? ? Hk Hr]; subst. destruct (q <=? v); simpl; [|apply IH, Hr].
    constructor; [|apply IH, Hr]. intros Hc. apply Hk. apply in_map_iff in Hc. destruct Hc as ([k' v'] & E & Hf).
    apply filter_In in Hf. simpl in E. subst k'. apply in_map_iff. exists (k, v'). split; [reflexivity|apply Hf].
  - intros w Hw. unfold W in Hw. apply in_map_iff in Hw. destruct Hw as ([k v] & E & Hf). simpl in E. subst k.
    apply filter_In in Hf. destruct Hf as [Hf _]. apply Hslots. apply Hin in Hf. rewrite Hf. eauto.
  - (* more than half *)
    assert (Hsz : size m = length vs).
    { assert (E1 : size m = length (map fst l)) by (unfold l; rewrite map_length; reflexivity).
      rewrite E1. apply Nat.le_antisymm.
      - apply NoDup_incl_len; [exact Hlnd|]. intros k Hk. apply in_map_iff in Hk. destruct Hk as ([k' v] & E & Hkv). simpl in E. subst k'.
        apply Hslots. apply Hin in Hkv. rewrite Hkv. eauto.
      - apply NoDup_incl_len; [exact Hnd|]. intros k Hk. apply Hslots in Hk. destruct Hk as [v Hv].
        apply in_map_iff. exists (k, v). split; [reflexivity|apply Hin, Hv]. }
    unfold W. rewrite map_length. rewrite <- count_ge_filter. rewrite <- Hsz. lia.
  - intros w Hw. unfold W in Hw. apply in_map_iff in Hw. destruct Hw as ([k v] & E & Hf). simpl in E. subst k.
    apply filter_In in Hf. destruct Hf as [Hf Hle]. simpl in Hle. apply N.leb_le in Hle. exists v. split; [apply Hin, Hf|exact Hle].
Qed.
