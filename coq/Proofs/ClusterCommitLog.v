(* ClusterCommitLog.v — every step of Model/ClusterCommit.v keeps the Log Matching invariant of
   Proofs/ClusterLogInv.v on its replication part cg_l: CBase is a ClusterLog step; CAck / CGiveUp /
   CCommit touch only the role (step-down), the commit / applied / FSM fields and the leadership
   bookkeeping, never logs, terms or votes.  Hence Log Matching in every reachable cgstate. *)
From Coq Require Import List NArith Bool Lia.
From stdpp Require Import gmap.
From RaftModel Require Import Base Config Compaction Commitment Node NodeCodec Candidate Leader Replicate Cluster ClusterLog ClusterCommit.
From RaftProofs Require Import ConfigProofs VoteProofs ClusterProofs
  ClusterLogSpec ClusterLogChain ClusterLogNode ClusterLogVote ClusterLogLeader ClusterLogInv ClusterLogSteps
  ClusterLogElect ClusterLogInit ClusterLogMain ClusterCommitSpec.
Open Scope N_scope.

Section Volatile.
  Variable cfgs : list config.
  Hypothesis HQ : quorums_intersect cfgs.

  (* the state of a Leader changes in its volatile part only, it stays Leader or becomes Follower *)
  Lemma linv_volatile g C i n s s' :
    linv cfgs g C -> find_node (g_nodes (lg_g g)) i = Some n -> gn_run n = Up s -> v_role s = Leader ->
    dproj s' = dproj s -> v_term s' = v_term s -> lkeep s' s -> (v_role s' = Leader \/ v_role s' = Follower) ->
    linv cfgs (mkLG (set_node_run (lg_g g) i n (Up s')) (lg_msgs g)) C.
  Proof.
    intros Hinv Hfind Hrun Hrole Hd Ht Hk Hr'.
    destruct (find_node_in _ _ _ Hfind) as [Hin Hid].
    pose proof (li_g cfgs g C Hinv) as Hg.
    destruct (li_nodes cfgs g C Hinv n Hin) as [Hnl Hlo].
    destruct (Hlo s Hrun Hrole) as (L1 & L2 & L3).
    destruct (gi_nodes cfgs _ Hg n Hin) as [(Hw & Hig & Hfun) _].
    set (n' := mkGN (gn_P n) (Up s') (keep_sess (Up s') (gn_sess n)) (gn_next n)).
    assert (Hs' : gn_sess n' = None) by (unfold n'; cbn [gn_sess]; rewrite L2; unfold keep_sess; reflexivity).
    assert (Hdt : d_term s' = d_term s) by (unfold dproj in Hd; congruence).
    assert (Hg' : ginv cfgs (set_node_run (lg_g g) i n (Up s'))).
    { apply (ginv_update cfgs (lg_g g) _ i n n' []); [exact Hg|exact Hfind|exact Hid|reflexivity|reflexivity| | | | |].
      - intros x [].
      - split; [|split].
        + rewrite Hrun in Hw. destruct Hw as [Hwd Hvt]. cbn [n' gn_run wfr]. split.
          * unfold wfd in *. unfold dproj in Hd. inversion Hd. lia.
          * congruence.
        + cbn [n' gn_run]. eapply inv_grants_dproj; [|exact Hig]. rewrite Hrun. simpl. symmetry. exact Hd.
        + exact Hfun.
      - unfold sess_ok. rewrite Hs'. exact I.
      - intros rp Hrp. split; [|left; exact Hrp].
        destruct (gi_resps cfgs _ Hg rp Hrp) as [_ Hall]. specialize (Hall n Hin).
        intros E. destruct (Hall E) as [A _]. split; [exact A|]. intros se Hse. rewrite Hs' in Hse. discriminate.
      - intros x Hx. left. exact Hx. }
    apply (linv_update cfgs HQ g (mkLG (set_node_run (lg_g g) i n (Up s')) (lg_msgs g)) C C i n n' Hinv Hg' Hfind Hid eq_refl).
    - apply incl_refl.
    - intros T j H. left. exact H.
    - apply incl_refl.
    - apply (li_chain cfgs g C Hinv).
    - intros x p H. left. exact H.
    - unfold dt. rewrite Hrun. cbn [n' gn_run image]. lia.
    - intros se Hse. rewrite Hs' in Hse. discriminate.
    - cbn [n' gn_run nlog]. rewrite Hrun in Hnl. eapply nlog_up_keep; [exact Hnl|exact Hk|lia].
    - intros s0 Hs0 Hr0. cbn [n' gn_run] in Hs0. inversion Hs0; subst s0.
      change (gn_id n') with (gn_id n). cbn [set_node_run lg_g g_leaders].
      destruct Hk as (_ & _ & K3 & _). rewrite Ht, K3. split; [exact L1|]. split; [exact Hs'|exact L3].
    - intros m Hm. left. exact Hm.
  Qed.
End Volatile.

(* ---------------------------------------------------------------- the commitCh case of leaderLoop *)
(* everything but commitIndex, lastApplied, the FSM and the committed configuration is untouched *)
Definition ckeep (s' s : nstate) : Prop :=
  dproj s' = dproj s /\ d_log s' = d_log s /\ d_snaps s' = d_snaps s /\ d_staged s' = d_staged s /\ d_pcommit s' = d_pcommit s /\
  v_role s' = v_role s /\ v_term s' = v_term s /\ v_lastLogIdx s' = v_lastLogIdx s /\ v_lastLogTerm s' = v_lastLogTerm s /\
  v_lastSnapIdx s' = v_lastSnapIdx s /\ v_lastSnapTerm s' = v_lastSnapTerm s /\
  v_latest s' = v_latest s /\ v_latestIdx s' = v_latestIdx s /\ v_transfer s' = v_transfer s.

Lemma ckeep_refl s : ckeep s s.
Proof. repeat split. Qed.

Lemma ckeep_trans a b c : ckeep a b -> ckeep b c -> ckeep a c.
Proof. unfold ckeep. intros H1 H2. decompose [and] H1. decompose [and] H2. repeat split; congruence. Qed.

Lemma ckeep_lkeep s' s : ckeep s' s -> lkeep s' s.
Proof. unfold ckeep, lkeep. intros H. decompose [and] H. repeat split; assumption. Qed.

Lemma process_logs_f_ckeep s infl idx s' tr res : process_logs_f s infl idx = Some (s', tr, res) ->
  ckeep s' s /\ v_commit s' = v_commit s /\ v_committed s' = v_committed s /\
  (v_applied s' = v_applied s \/ (v_applied s < idx /\ v_applied s' = idx)).
Proof.
  unfold process_logs_f. destruct (N.leb_spec idx (v_applied s)) as [Hle|Hgt].
  - intros H; inversion H; subst. split; [apply ckeep_refl|]. auto.
  - destruct (collect_with_futures _ _ _ _) as [items|]; [|discriminate].
    intros H; inversion H; subst. split; [repeat split|]. split; [reflexivity|]. split; [reflexivity|].
    right. split; [exact Hgt|reflexivity].
Qed.

Lemma ready_prefix_le infl ci : forall x, In x (fst (ready_prefix infl ci)) -> e_idx (fst x) <= ci.
Proof.
  induction infl as [|y r IH]; intros x Hx; simpl in Hx; [contradiction|].
  destruct (N.ltb_spec ci (e_idx (fst y))) as [Hlt|Hge]; [contradiction|].
  destruct (ready_prefix r ci) as [a b]. simpl in Hx. destruct Hx as [<-|Hx]; [exact Hge|apply IH, Hx].
Qed.

Lemma last_in_nonempty {A} (l : list A) d : l <> [] -> In (last l d) l.
Proof. apply last_in. Qed.

Lemma leader_commit_ckeep ls ls2 tr res : leader_commit ls = Some (ls2, tr, res) ->
  ckeep (l_node ls2) (l_node ls) /\ v_commit (l_node ls2) = cm_commit (l_cm ls) /\ l_cm ls2 = l_cm ls /\
  (v_committed (l_node ls2) = v_committed (l_node ls) \/ v_committed (l_node ls2) = v_latest (l_node ls)) /\
  (v_applied (l_node ls2) = v_applied (l_node ls) \/ v_applied (l_node ls2) <= cm_commit (l_cm ls)).
Proof.
  unfold leader_commit. set (s := l_node ls). set (ci := cm_commit (l_cm ls)).
  set (s1 := set_commit s ci).
  set (s2 := if (v_commit s <? v_latestIdx s1) && (v_latestIdx s1 <=? ci) then set_committed s1 (v_latest s1) (v_latestIdx s1) else s1).
  assert (K2 : ckeep s2 s /\ v_commit s2 = ci /\ (v_committed s2 = v_committed s \/ v_committed s2 = v_latest s) /\ v_applied s2 = v_applied s).
  { unfold s2. destruct ((v_commit s <? v_latestIdx s1) && (v_latestIdx s1 <=? ci)); (split; [repeat split|]); simpl; auto. }
  destruct K2 as (K & Kc & Kcc & Ka).
  pose proof (ready_prefix_le (l_inflight ls) ci) as Hrl.
  destruct (ready_prefix (l_inflight ls) ci) as [ready rest]. simpl in Hrl.
  destruct ready as [|r0 rr] eqn:Er.
  - intros H; inversion H; subst. cbn [l_node l_cm].
    split; [exact K|]. split; [exact Kc|]. split; [reflexivity|]. split; [exact Kcc|left; exact Ka].
  - rewrite <- Er in *.
    destruct (process_logs_f s2 ready _) as [[[s3 tr3] res3]|] eqn:EP; [|discriminate].
    intros H; inversion H; subst ls2 tr res. clear H. cbn [l_node l_cm].
    apply process_logs_f_ckeep in EP. destruct EP as (K3 & Kc3 & Kcc3 & Ka3).
    split; [eapply ckeep_trans; eauto|]. split; [congruence|]. split; [reflexivity|].
    split; [rewrite Kcc3; exact Kcc|].
    destruct Ka3 as [E|[_ E]]; [left; congruence|right]. rewrite E.
    assert (Hin : In (last ready (mkE 0 0 0 0, 0)) ready) by (apply last_in; rewrite Er; discriminate).
    apply (Hrl _ Hin).
Qed.

(* ---------------------------------------------------------------- cstep, label by label *)
Lemma cstep_giveup_inv sn cfgs g i j g' : cstep sn cfgs g (CGiveUp i j) = Some g' ->
  exists n ld s k, find_node (cnodes g) i = Some n /\ find_lead (cg_lead g) i = Some ld /\ gn_run n = Up s /\
    assoc (ld_out ld) j = Some k /\ v_role s = Leader /\
    g' = mkCG (cg_l g) (set_lead (cg_lead g) i (with_out ld j None)) (cg_hb g) (cg_ans g).
Proof.
  unfold cstep, cnodes. destruct (find_node _ i) as [n|]; [|discriminate].
  destruct (find_lead _ i) as [ld|]; [|discriminate]. destruct (gn_run n) as [s|s] eqn:R; [|discriminate].
  destruct (assoc (ld_out ld) j) as [k|] eqn:A; [|discriminate].
  destruct (N.eqb_spec (v_role s) Leader) as [Hr|]; [|discriminate].
  intros H; inversion H; subst. exists n, ld, s, k. repeat split; auto.
Qed.

Lemma cstep_commit_inv sn cfgs g i g' : cstep sn cfgs g (CCommit i) = Some g' ->
  exists n ld s ls2 tr res, find_node (cnodes g) i = Some n /\ find_lead (cg_lead g) i = Some ld /\ gn_run n = Up s /\
    v_role s = Leader /\ ld_notified ld = true /\
    leader_commit (mkLS s (ld_cm ld) (ld_infl ld)) = Some (ls2, tr, res) /\
    g' = mkCG (mkLG (set_node_run (lg_g (cg_l g)) i n (Up (l_node ls2))) (lg_msgs (cg_l g)))
              (set_lead (cg_lead g) i (with_notified (with_cm ld (l_cm ls2) (l_inflight ls2)) false)) (cg_hb g) (cg_ans g).
Proof.
  unfold cstep, cnodes. destruct (find_node _ i) as [n|]; [|discriminate].
  destruct (find_lead _ i) as [ld|]; [|discriminate]. destruct (gn_run n) as [s|s] eqn:R; [|discriminate].
  destruct ((v_role s =? Leader) && ld_notified ld) eqn:B; [|discriminate].
  apply andb_prop in B. destruct B as [B1 B2]. apply N.eqb_eq in B1.
  destruct (leader_commit _) as [[[ls2 tr] res]|] eqn:L; [|discriminate].
  intros H; inversion H; subst. exists n, ld, s, ls2, tr, res. repeat split; auto.
Qed.

(* the outcome of CAck, given the answer a to request m of leader state (s, ld0) *)
Definition ack_result (g : cgstate) (a : ares) (m : amsg) (n : gnode) (s : nstate) (ld0 : lead) : cgstate :=
  let i := am_from m in let j := am_to m in
  let ld := with_out ld0 j None in
  let r := rs_resp a in
  if aq_term (am_req m) <? ar_term r then
    mkCG (mkLG (set_node_run (lg_g (cg_l g)) i n (Up (set_state s Follower))) (lg_msgs (cg_l g)))
         (set_lead (cg_lead g) i ld) (cg_hb g) (cg_ans g)
  else if ar_success r then
    match aq_entries (am_req m) with
    | [] => mkCG (cg_l g) (set_lead (cg_lead g) i ld) (cg_hb g) (cg_ans g)
    | es =>
      let li := e_idx (last_of es) in
      let ld1 := with_next ld j (li + 1) in
      let ls1 := peer_match (mkLS s (ld_cm ld1) (ld_infl ld1)) j li in
      let ld2 := with_cm ld1 (l_cm ls1) (l_inflight ls1) in
      mkCG (cg_l g)
           (set_lead (cg_lead g) i (if cm_commit (l_cm ls1) =? cm_commit (ld_cm ld1) then ld2 else with_notified ld2 true))
           (cg_hb g) (cg_ans g)
    end
  else
    let nx := N.max (N.min (next_of ld j - 1) (ar_last r + 1)) 1 in
    mkCG (cg_l g) (set_lead (cg_lead g) i (with_next ld j nx)) (cg_hb g) (cg_ans g).

Lemma cstep_ack_inv sn cfgs g k g' : cstep sn cfgs g (CAck k) = Some g' ->
  exists a m n ld0 s, nth_error (cg_ans g) k = Some a /\ nth_error (lg_msgs (cg_l g)) (rs_req a) = Some m /\
    find_node (cnodes g) (am_from m) = Some n /\ find_lead (cg_lead g) (am_from m) = Some ld0 /\ gn_run n = Up s /\
    v_role s = Leader /\ v_term s = aq_term (am_req m) /\ assoc (ld_out ld0) (am_to m) = Some (rs_req a) /\
    g' = ack_result g a m n s ld0.
Proof.
  unfold cstep, cnodes. destruct (nth_error (cg_ans g) k) as [a|] eqn:Ea; [|discriminate].
  destruct (nth_error (lg_msgs (cg_l g)) (rs_req a)) as [m|] eqn:Em; [|discriminate].
  destruct (find_node _ (am_from m)) as [n|] eqn:Fn; [|discriminate].
  destruct (find_lead _ (am_from m)) as [ld0|] eqn:Fl; [|discriminate].
  destruct (gn_run n) as [s|s] eqn:R; [|discriminate].
  destruct (negb _) eqn:B; [discriminate|]. apply negb_false_iff in B.
  apply andb_prop in B. destruct B as [B B3]. apply andb_prop in B. destruct B as [B1 B2].
  apply N.eqb_eq in B1. apply N.eqb_eq in B2.
  destruct (assoc (ld_out ld0) (am_to m)) as [k0|] eqn:A; [|discriminate]. apply Nat.eqb_eq in B3. subst k0.
  intros H. exists a, m, n, ld0, s. repeat (split; [first [assumption|reflexivity]|]).
  unfold ack_result. cbv zeta.
  destruct (aq_term (am_req m) <? ar_term (rs_resp a)); [inversion H; reflexivity|].
  destruct (ar_success (rs_resp a)); [|inversion H; reflexivity].
  destruct (aq_entries (am_req m)); inversion H; reflexivity.
Qed.

Definition base_leads (g : cgstate) (bl : llabel) : list (N * lead) :=
  match bl with
  | LPropose i ty data fs =>
    match find_node (cnodes g) i, find_lead (cg_lead g) i with
    | Some n, Some ld =>
      match gn_run n with
      | Up s =>
        let '(ls', _, _, _) := dispatch (gn_P n) (mkLS s (ld_cm ld) (ld_infl ld)) fs [(ty, data, 0)] in
        set_lead (cg_lead g) i (with_cm ld (l_cm ls') (l_inflight ls'))
      | Down _ => cg_lead g
      end
    | _, _ => cg_lead g
    end
  | LSend i j _ _ =>
    match find_lead (cg_lead g) i with
    | Some ld => set_lead (cg_lead g) i (with_out ld j (Some (length (lg_msgs (cg_l g)))))
    | None => cg_lead g
    end
  | _ => cg_lead g
  end.

Definition base_hb (g : cgstate) (bl : llabel) : list nat :=
  match bl with LHeartbeat _ _ => cg_hb g ++ [length (lg_msgs (cg_l g))] | _ => cg_hb g end.

Definition base_ans (g : cgstate) (bl : llabel) : list ares :=
  match bl with
  | LDeliver k cut fs =>
    match nth_error (lg_msgs (cg_l g)) k with
    | Some m =>
      match find_node (cnodes g) (am_to m) with
      | Some nj =>
        match step_full (gn_P nj) (gn_run nj) (NAppend (am_req m)) cut fs with
        | (_, OAppend _ r, _) => cg_ans g ++ [mkARes k r]
        | _ => cg_ans g
        end
      | None => cg_ans g
      end
    | None => cg_ans g
    end
  | _ => cg_ans g
  end.

Lemma cstep_base_inv sn cfgs g bl g' : cstep sn cfgs g (CBase bl) = Some g' ->
  send_ok g bl = true /\ exists l', lstep sn cfgs (cg_l g) bl = Some l' /\
    g' = mkCG l' (refresh_leads (cnodes g) (g_nodes (lg_g l')) (base_leads g bl)) (base_hb g bl) (base_ans g bl).
Proof.
  unfold cstep. destruct (send_ok g bl); [|discriminate]. cbn [negb].
  destruct (lstep sn cfgs (cg_l g) bl) as [l'|]; [|discriminate].
  intros H; inversion H; subst. split; [reflexivity|]. exists l'. split; reflexivity.
Qed.

Section Project.
  Variable cfgs : list config.
  Hypothesis HQ : quorums_intersect cfgs.

  Theorem cstep_linv g l g' : Linv cfgs (cg_l g) -> cstep false cfgs g l = Some g' -> Linv cfgs (cg_l g').
  Proof.
    intros Hinv Hstep. destruct l as [bl|k|i j|i].
    - apply cstep_base_inv in Hstep. destruct Hstep as (_ & l' & Hl & ->). cbn [cg_l].
      eapply lstep_inv; eauto.
    - apply cstep_ack_inv in Hstep.
      destruct Hstep as (a & m & n & ld0 & s & _ & _ & Hfind & _ & Hrun & Hrole & _ & _ & ->).
      unfold ack_result. cbv zeta.
      destruct (aq_term (am_req m) <? ar_term (rs_resp a)).
      + cbn [cg_l]. destruct Hinv as [C Hinv]. exists C.
        apply (linv_volatile cfgs HQ (cg_l g) C (am_from m) n s (set_state s Follower) Hinv Hfind Hrun Hrole); try reflexivity.
        * repeat split.
        * right. reflexivity.
      + destruct (ar_success (rs_resp a)); [|exact Hinv]. destruct (aq_entries (am_req m)); exact Hinv.
    - apply cstep_giveup_inv in Hstep. destruct Hstep as (n & ld & s & k & _ & _ & _ & _ & _ & ->). exact Hinv.
    - apply cstep_commit_inv in Hstep.
      destruct Hstep as (n & ld & s & ls2 & tr & res & Hfind & _ & Hrun & Hrole & _ & Hlc & ->).
      cbn [cg_l]. destruct Hinv as [C Hinv]. exists C.
      apply leader_commit_ckeep in Hlc. cbn [l_node] in Hlc. destruct Hlc as (K & _).
      pose proof K as (K1 & _ & _ & _ & _ & K6 & K7 & _).
      apply (linv_volatile cfgs HQ (cg_l g) C i n s (l_node ls2) Hinv Hfind Hrun Hrole K1 K7 (ckeep_lkeep _ _ K)).
      left. congruence.
  Qed.

  Theorem crun_linv ls : forall g g', Linv cfgs (cg_l g) -> crun false cfgs g ls = Some g' -> Linv cfgs (cg_l g').
  Proof.
    induction ls as [|l r IH]; intros g g' Hinv H; simpl in H.
    - inversion H; subst. exact Hinv.
    - destruct (cstep false cfgs g l) as [g1|] eqn:E; [|discriminate].
      eapply IH; [eapply cstep_linv; eassumption|exact H].
  Qed.
End Project.

(* LOG MATCHING in every state reachable in Model/ClusterCommit.v without snapshots *)
Theorem ccommit_log_matching : forall cfgs g0 ls g,
  quorums_intersect cfgs -> linit_ok (cg_l g0) -> crun false cfgs g0 ls = Some g ->
  log_matching (cg_l g) /\ terms_monotone (cg_l g).
Proof.
  intros cfgs g0 ls g HQ H0 Hrun.
  apply (linv_log_matching cfgs (cg_l g)).
  apply (crun_linv cfgs HQ ls g0 g); [|exact Hrun].
  destruct (linit_linv cfgs (cg_l g0) H0) as [C HC]. exists C. exact HC.
Qed.

Lemma quorums_intersect_one cfg : NoDup (voters cfg) -> quorums_intersect [cfg].
Proof.
  intros HV c1 c2 [<-|[]] [<-|[]] W1 W2 M1 M2. apply (majorities_intersect (voters cfg)); assumption.
Qed.

Print Assumptions ccommit_log_matching.
