(* ClusterSnapLMElect.v — in the system with snapshot transfer: election steps (timer, vote response) and dispatchLogs at a
   leader keep the invariant of Proofs/ClusterSnapLMInv.v. *)
From Coq Require Import List NArith Bool Lia.
From stdpp Require Import gmap.
From RaftModel Require Import Base Config Compaction Commitment Node NodeCodec Candidate Leader Replicate Cluster ClusterLog ClusterCommit ClusterSnap.
From RaftProofs Require Import ConfigProofs VoteProofs ClusterProofs
  ClusterLogSpec ClusterLogChain ClusterLogNode ClusterLogVote ClusterLogLeader ClusterLogInv ClusterLogSteps
  ClusterCommitChain ClusterCommitLog ClusterCommitInv ClusterCommitSnapLog ClusterCommitSnapStepL
  ClusterSnapLMLog ClusterSnapLMLeader ClusterSnapLMInv ClusterSnapLMInv2 ClusterSnapLMStepL.
Open Scope N_scope.

Section Elect.
  Variable cfgs : list config.
  Hypothesis HQ : quorums_intersect cfgs.

  (* the election timer fires at i: runCandidate is entered *)
  Lemma timeout_ylinv B g sm C i g1 :
    ylinv cfgs B g sm C -> gstep cfgs (lg_g g) (GTimeout i) = Some g1 ->
    exists C', ylinv cfgs B (mkLG g1 (lg_msgs g)) sm C'.
  Proof.
    intros Hinv Hstep.
    pose proof (gstep_inv cfgs _ _ _ (yl_g cfgs B g sm C Hinv) Hstep) as Hg1.
    unfold gstep in Hstep.
    destruct (find_node (g_nodes (lg_g g)) i) as [n|] eqn:Hfind; [|discriminate].
    destruct (find_node_in _ _ _ Hfind) as [Hin Hid].
    destruct (gn_run n) as [s|s] eqn:Hrun; [|discriminate].
    destruct (existsb (config_eqb (v_latest s)) cfgs); [|discriminate]. cbn [negb orb] in Hstep.
    destruct (v_role s =? Leader); [discriminate|].
    pose proof (ynode_wfr cfgs B g sm C n Hinv Hin) as Hw. rewrite Hrun in Hw. destruct Hw as [_ Hvt].
    set (s0 := match gn_sess n with Some _ => set_transfer s false | None => s end) in *.
    assert (K0 : lkeep s0 s /\ d_term s0 = d_term s /\ v_term s0 = v_term s).
    { unfold s0. destruct (gn_sess n); repeat split. }
    destruct K0 as (K0 & Kd0 & Kv0).
    assert (Ks0 : v_lastSnapTerm s0 = v_lastSnapTerm s /\ v_fsmLast s0 = v_fsmLast s) by (unfold s0; destruct (gn_sess n); split; reflexivity).
    destruct Ks0 as [Ks0 Kf0].
    assert (Ks1 : v_lastSnapTerm (voted (gn_P n) s0) = v_lastSnapTerm s) by (rewrite <- Ks0; reflexivity).
    assert (Kf1 : v_fsmLast (voted (gn_P n) s0) = v_fsmLast s) by (rewrite <- Kf0; reflexivity).
    assert (Ks2 : v_lastSnapTerm (entered (gn_P n) s0) = v_lastSnapTerm s) by (rewrite <- Ks0; reflexivity).
    assert (Kf2 : v_fsmLast (entered (gn_P n) s0) = v_fsmLast s) by (rewrite <- Kf0; reflexivity).
    pose proof (sess_enter_cases (gn_P n) s0) as Hc. cbv zeta in Hc.
    destruct (sess_enter (gn_P n) false s0) as [x tr]. simpl fst in Hc.
    assert (Kvoted : lkeep (voted (gn_P n) s0) s /\ d_term (voted (gn_P n) s0) = v_term s + 1).
    { split; [eapply lkeep_trans; [|exact K0]; repeat split|rewrite <- Kv0; reflexivity]. }
    assert (Kent : lkeep (entered (gn_P n) s0) s /\ d_term (entered (gn_P n) s0) = v_term s + 1).
    { split; [eapply lkeep_trans; [|exact K0]; repeat split|rewrite <- Kv0; reflexivity]. }
    destruct (self_is_voter (gn_P n) s0).
    - destruct (quorum_size (v_latest s0) <=? 1).
      + (* single voter: leader at once *)
        subst x. inversion Hstep; subst g1. clear Hstep.
        match goal with |- context [become_leader _ ?SL] => set (sL := SL) in * end.
        eexists. apply (become_leader_ylinv_ok cfgs HQ B g sm C _ i n s sL _ Hinv Hg1 Hfind Hrun eq_refl eq_refl).
        * destruct Kvoted as [Kl _]. eapply lkeep_trans; [|exact Kl]. repeat split.
        * rewrite <- Ks1. reflexivity.
        * rewrite <- Kf1. reflexivity.
        * change (d_term sL) with (d_term (voted (gn_P n) s0)). destruct Kvoted as [_ ->]. lia.
        * reflexivity.
        * reflexivity.
        * intros T' HT' _. change (v_term sL) with (v_term s0 + 1). unfold dt in HT'. rewrite Hrun in HT'. simpl in HT'. lia.
      + subst x. cbn [c_granted] in Hstep. change (1 <=? 1) with true in Hstep. cbn iota in Hstep.
        inversion Hstep; subst g1. clear Hstep. exists C.
        destruct Kvoted as [Kl Kt].
        apply (plain_ylinv cfgs HQ B g sm C _ i n s (voted (gn_P n) s0) _ _ Hinv Hg1 Hfind Hrun eq_refl eq_refl Kl Ks1 Kf1).
        * rewrite Kt. lia.
        * discriminate.
        * intros se Hse. right. inversion Hse; subst se. cbn [se_req].
          destruct (req_of_fields (gn_P n) (voted (gn_P n) s0)) as [-> _].
          change (v_term (voted (gn_P n) s0)) with (v_term s0 + 1). lia.
    - subst x. cbn [c_granted] in Hstep. change (1 <=? 0) with false in Hstep. cbn iota in Hstep.
      inversion Hstep; subst g1. clear Hstep. exists C.
      destruct Kent as [Kl Kt].
      apply (plain_ylinv cfgs HQ B g sm C _ i n s (entered (gn_P n) s0) _ _ Hinv Hg1 Hfind Hrun eq_refl eq_refl Kl Ks2 Kf2).
      + rewrite Kt. lia.
      + discriminate.
      + intros se Hse. right. inversion Hse; subst se. cbn [se_req].
        destruct (req_of_fields (gn_P n) (entered (gn_P n) s0)) as [-> _].
        change (v_term (entered (gn_P n) s0)) with (v_term s0 + 1). lia.
  Qed.

  (* j's answer reaches i's runCandidate *)
  Lemma voteresp_ylinv B g sm C i j g1 :
    ylinv cfgs B g sm C -> gstep cfgs (lg_g g) (GVoteResp i j) = Some g1 ->
    exists C', ylinv cfgs B (mkLG g1 (lg_msgs g)) sm C'.
  Proof.
    intros Hinv Hstep.
    pose proof (gstep_inv cfgs _ _ _ (yl_g cfgs B g sm C Hinv) Hstep) as Hg1.
    unfold gstep in Hstep.
    destruct (find_node (g_nodes (lg_g g)) i) as [n|] eqn:Hfind; [|discriminate].
    destruct (find_node_in _ _ _ Hfind) as [Hin Hid].
    destruct (gn_run n) as [s|s] eqn:Hrun; [|discriminate].
    destruct (gn_sess n) as [se|] eqn:Hse; [|discriminate].
    destruct (mem j (se_got se)); [discriminate|].
    destruct (find_resp (g_resps (lg_g g)) i (se_epoch se) j) as [rp|]; [|discriminate].
    pose proof (gi_nodes cfgs _ (yl_g cfgs B g sm C Hinv) n Hin) as [_ Hs]. unfold sess_ok in Hs. rewrite Hse in Hs.
    destruct Hs as (c & s0 & _ & E1 & E2 & _ & E4 & _). rewrite Hrun in E1. inversion E1; subst s0. clear E1.
    pose proof (ynode_wfr cfgs B g sm C n Hinv Hin) as Hw. rewrite Hrun in Hw. destruct Hw as [_ Hvt].
    pose proof (sess_vote_cases (gn_P n) s (se_c se) (mkVR (rp_term rp) (rp_granted rp)) E4) as Hcs.
    destruct (sess_step (gn_P n) false (SCand s (se_c se)) (CVote (mkVR (rp_term rp) (rp_granted rp)))) as [x tr].
    simpl fst in Hcs. cbn [vr_term vr_granted] in Hcs.
    destruct (N.ltb_spec (v_term s) (rp_term rp)) as [Hlt|Hge].
    - (* a higher term: back to follower *)
      subst x. inversion Hstep; subst g1. clear Hstep. exists C.
      match goal with |- context [Up ?S] => set (sF := S) in * end.
      apply (plain_ylinv cfgs HQ B g sm C _ i n s sF None _ Hinv Hg1 Hfind Hrun eq_refl eq_refl).
      + repeat split.
      + reflexivity.
      + reflexivity.
      + change (d_term sF) with (rp_term rp). lia.
      + discriminate.
      + intros se0 H0. discriminate.
    - cbv zeta in Hcs.
      destruct (c_needed (se_c se) <=? (if rp_granted rp then c_granted (se_c se) + 1 else c_granted (se_c se))).
      + (* elected *)
        subst x. inversion Hstep; subst g1. clear Hstep.
        match goal with |- context [become_leader _ ?SL] => set (sL := SL) in * end.
        eexists. apply (become_leader_ylinv_ok cfgs HQ B g sm C _ i n s sL _ Hinv Hg1 Hfind Hrun eq_refl eq_refl).
        * repeat split.
        * reflexivity.
        * reflexivity.
        * apply N.le_refl.
        * exact Hvt.
        * reflexivity.
        * intros T' _ HT'. specialize (HT' se Hse). change (v_term sL) with (v_term s). lia.
      + (* keeps counting *)
        subst x. inversion Hstep; subst g1. clear Hstep. exists C.
        apply (plain_ylinv cfgs HQ B g sm C _ i n s s _ _ Hinv Hg1 Hfind Hrun eq_refl eq_refl).
        * apply lkeep_refl.
        * reflexivity.
        * reflexivity.
        * apply N.le_refl.
        * intros Hr. destruct (yl_nodes cfgs B g sm C Hinv n Hin) as (_ & Hlo & _).
          destruct (Hlo s Hrun Hr) as (_ & Hn & _). congruence.
        * intros se0 H0. inversion H0; subst se0. left. exists se. auto.
  Qed.

End Elect.
