(* C18: alternation of NotifyCh, LeaderCh holds the latest transition, at rest the last value
   delivered says whether the server is leader. *)
From Coq Require Import List NArith String Bool Lia PeanoNat.
From RaftModel Require Import Notify.
Import ListNotations.
Open Scope N_scope.

Definition E0 : list (string * bool) := [("leaderCh", true); ("notify", true)]%string.
Definition X0 : list (string * bool) := [("leaderCh", false); ("notify", false)]%string.

Lemma alt_snoc b l v : alt b l -> v = (if Nat.even (List.length l) then b else negb b) -> alt b (l ++ [v]).
Proof.
  revert b. induction l as [|x r IH]; intros b Ha Hv.
  - simpl in Hv. subst. simpl. auto.
  - cbn [alt app] in *. destruct Ha as [-> Ha]. split; [reflexivity|]. apply IH; [exact Ha|].
    rewrite Hv. change (List.length (b :: r)) with (S (List.length r)).
    rewrite Nat.even_succ, <- Nat.negb_even. destruct (Nat.even (List.length r)); simpl; rewrite ?negb_involutive; reflexivity.
Qed.

(* the invariant *)
Record ninv (s : nstate') : Prop := {
  i_queue : n_sent s = (n_recv s ++ n_notify s)%list;
  i_alt : alt true (n_sent s);
  i_parity : n_leader s = negb (Nat.even (List.length (n_sent s)));
  i_lalt : alt true (n_lsent s);
  i_lparity : n_leader s = negb (Nat.even (List.length (n_lsent s)));
  i_lch : match n_lch s with
          | Some v => v = n_leader s /\ n_lsent s <> []
          | None => n_lsent s = [] \/ (n_lrecv s <> [] /\ last (n_lrecv s) false = n_leader s)
          end;
}.

Lemma ninv_init : ninv n_init.
Proof. constructor; simpl; auto. Qed.

Lemma nstep_inv s o : ninv s -> ninv (fst (nstep E0 X0 s o)).
Proof.
  intros [Q A P LA LP LC]. destruct s as [ld nq lch sent recv lsent lrecv]. simpl in *.
  destruct o; simpl.
  - (* gain *) destruct ld; simpl; [constructor; simpl; auto|].
    assert (Ev : Nat.even (List.length sent) = true) by (destruct (Nat.even (List.length sent)); [reflexivity|discriminate]).
    assert (LEv : Nat.even (List.length lsent) = true) by (destruct (Nat.even (List.length lsent)); [reflexivity|discriminate]).
    constructor; simpl.
    + rewrite Q, app_assoc. reflexivity.
    + apply alt_snoc; [exact A|]. rewrite Ev. reflexivity.
    + rewrite app_length. simpl. rewrite Nat.add_1_r, Nat.even_succ, <- Nat.negb_even, Ev. reflexivity.
    + apply alt_snoc; [exact LA|]. rewrite LEv. reflexivity.
    + rewrite app_length. simpl. rewrite Nat.add_1_r, Nat.even_succ, <- Nat.negb_even, LEv. reflexivity.
    + split; [reflexivity|]. destruct lsent; discriminate.
  - (* lose *) destruct ld; simpl; [|constructor; simpl; auto].
    assert (Ev : Nat.even (List.length sent) = false) by (destruct (Nat.even (List.length sent)); [discriminate|reflexivity]).
    assert (LEv : Nat.even (List.length lsent) = false) by (destruct (Nat.even (List.length lsent)); [discriminate|reflexivity]).
    constructor; simpl.
    + rewrite Q, app_assoc. reflexivity.
    + apply alt_snoc; [exact A|]. rewrite Ev. reflexivity.
    + rewrite app_length. simpl. rewrite Nat.add_1_r, Nat.even_succ, <- Nat.negb_even, Ev. reflexivity.
    + apply alt_snoc; [exact LA|]. rewrite LEv. reflexivity.
    + rewrite app_length. simpl. rewrite Nat.add_1_r, Nat.even_succ, <- Nat.negb_even, LEv. reflexivity.
    + split; [reflexivity|]. destruct lsent; discriminate.
  - (* read NotifyCh *) destruct nq as [|v r]; simpl; [constructor; simpl; auto|].
    constructor; simpl; auto. rewrite Q, <- app_assoc. reflexivity.
  - (* read LeaderCh *) destruct lch as [v|]; simpl; [|constructor; simpl; auto].
    constructor; simpl; auto. destruct LC as [-> Hne]. right. split.
    + destruct lrecv; discriminate.
    + rewrite last_last. reflexivity.
Qed.

Lemma nrun_inv ops : forall s, ninv s -> ninv (fst (nrun E0 X0 s ops)).
Proof.
  induction ops as [|o r IH]; intros s Hi; simpl; [exact Hi|].
  pose proof (nstep_inv s o Hi) as H1. destruct (nstep E0 X0 s o) as [s1 out]. simpl in H1.
  specialize (IH s1 H1). destruct (nrun E0 X0 s1 r) as [s2 outs]. exact IH.
Qed.

Lemma alt_prefix b l1 l2 : alt b (l1 ++ l2) -> alt b l1.
Proof.
  revert b. induction l1 as [|x r IH]; intros b H; simpl in *; [exact I|].
  destruct H as [-> H]. split; [reflexivity|]. eapply IH; exact H.
Qed.

Lemma alt_last b l : alt b l -> l <> [] -> last l false = (if Nat.even (List.length l) then negb b else b).
Proof.
  revert b. induction l as [|x r IH]; intros b Ha Hne; [contradiction|].
  simpl in Ha. destruct Ha as [-> Ha]. destruct r as [|y r'].
  - reflexivity.
  - change (last (b :: y :: r') false) with (last (y :: r') false).
    rewrite (IH (negb b) Ha ltac:(discriminate)).
    change (List.length (b :: y :: r')) with (S (List.length (y :: r'))).
    rewrite Nat.even_succ, <- Nat.negb_even. destruct (Nat.even (List.length (y :: r'))); simpl; rewrite ?negb_involutive; reflexivity.
Qed.

(* 1. whatever the order of gains, losses and reads (any consumer speed): what the NotifyCh
   consumer has received so far is strictly alternating true,false,true,... - one message per
   transition, none lost, none repeated, in order *)
Theorem notify_alternates ops : let s := fst (nrun E0 X0 n_init ops) in
  alt true (n_recv s) /\ n_sent s = (n_recv s ++ n_notify s)%list /\ alt true (n_sent s).
Proof.
  pose proof (nrun_inv ops n_init ninv_init) as [Q A P _ _ _]. simpl.
  split; [|split; assumption]. rewrite Q in A. eapply alt_prefix; exact A.
Qed.

(* 2. at rest (everything sent was received): the last value delivered on NotifyCh says whether
   the server is leader now *)
Theorem notify_at_rest ops : let s := fst (nrun E0 X0 n_init ops) in
  n_notify s = [] -> n_recv s <> [] -> last (n_recv s) false = n_leader s.
Proof.
  pose proof (nrun_inv ops n_init ninv_init) as [Q A P _ _ _]. simpl. intros He Hne.
  rewrite He, app_nil_r in Q. rewrite <- Q. rewrite (alt_last true _ A) by (rewrite Q; exact Hne).
  rewrite P. destruct (Nat.even (List.length (n_sent (fst (nrun E0 X0 n_init ops))))); reflexivity.
Qed.

Theorem notify_none_means_never_leader ops : let s := fst (nrun E0 X0 n_init ops) in
  n_sent s = [] -> n_leader s = false.
Proof.
  pose proof (nrun_inv ops n_init ninv_init) as [Q A P _ _ _]. simpl. intros He. rewrite P, He. reflexivity.
Qed.

(* 3. LeaderCh: a value sitting in the channel is the most recent transition; if the channel is
   empty after some transition, the consumer's last read was the most recent transition *)
Theorem leaderch_latest ops : let s := fst (nrun E0 X0 n_init ops) in
  match n_lch s with
  | Some v => v = n_leader s
  | None => n_lsent s = [] \/ last (n_lrecv s) false = n_leader s
  end.
Proof.
  pose proof (nrun_inv ops n_init ninv_init) as [_ _ _ _ _ LC]. simpl.
  destruct (n_lch _); [destruct LC; assumption|]. destruct LC as [H|[_ H]]; auto.
Qed.

(* the generated table says exactly E0 / X0 *)
Lemma notes_ok_eq entry exit : notes_ok entry exit = true -> entry = E0 /\ exit = X0.
Proof.
  unfold notes_ok. intros H. apply andb_prop in H. destruct H as [H1 H2].
  assert (G : forall (a b : list (string * bool)),
     Nat.eqb (List.length a) (List.length b) &&
     forallb (fun p => String.eqb (fst (fst p)) (fst (snd p)) && Bool.eqb (snd (fst p)) (snd (snd p))) (combine a b) = true -> a = b).
  { induction a as [|[c v] r IH]; intros [|[c' v'] r'] H; simpl in H; try discriminate; [reflexivity|].
    apply andb_prop in H. destruct H as [Hl H]. apply andb_prop in H. destruct H as [H Hr].
    apply andb_prop in H. destruct H as [Hc Hv]. apply String.eqb_eq in Hc. apply Bool.eqb_prop in Hv. subst.
    f_equal. apply IH. rewrite Hl, Hr. reflexivity. }
  split; apply G; assumption.
Qed.

(* overrideNotifyBool: after any sequence of overrides and receives, the slot holds the last value
   written since the last receive *)
Lemma override_latest buf v : override buf v = Some v.
Proof. reflexivity. Qed.
