(* ClusterQuorumMonoCex.v — commit_monotone_step (Proofs/ClusterQuorumSpec.v) does NOT hold for all runs.

   Three servers, no snapshots.  Server 1 is elected (term 2), replicates its no-op (index 2) to
   server 2, commits it, and tells server 2 (an empty AppendEntries with LeaderCommit 2): server 2
   runs with commitIndex 2.  The leader appends a command (index 3) and sends it.  That request is
   delivered with crash cut 1: the process of server 2 dies inside appendEntries right after its
   first durable write (StoreLogs) and the same model step starts it again from its durable image
   (NodeCodec.finish -> boot).  NewRaft starts with commitIndex 0, so server 2 runs before the step
   (commitIndex 2) and after it (commitIndex 0), and the label is LDeliver, not GInput 2 NRestart.
   The same happens with GVoteReq / GInput NSnapshot and a crash cut, and when a handler panics.
   All labels satisfy label_ok; the initial state is the driver's (cinit_snap_ok).

   The true variant: Proofs/ClusterQuorumMonoSpec.v (commit_monotone_step_crash), proved for all
   runs in Proofs/ClusterQuorumMain.v. *)
From Coq Require Import List NArith Bool Lia.
From stdpp Require Import gmap.
From RaftModel Require Import Base Config Compaction Commitment Node NodeCodec Candidate Leader Replicate Cluster ClusterLog ClusterCommit.
From RaftProofs Require Import ClusterProofs ClusterCommitSpec ClusterCommitSnapSpec ClusterCommitCex ClusterCommitSnapCex
  ClusterQuorumSpec.
Open Scope N_scope.

Definition mono_cex_labels : list clabel :=
  [ CBase (LElect (GTimeout 1)); CBase (LElect (GVoteReq 1 2 0 [])); CBase (LElect (GVoteResp 1 2));
    CBase (LSend 1 2 2 2); CBase (LDeliver 0 0 []); CAck 0; CCommit 1;
    CBase (LSend 1 2 3 2); CBase (LDeliver 1 0 []); CAck 1;
    CBase (LPropose 1 LogCommand 5 []); CBase (LSend 1 2 3 3) ].

Definition mono_cex_last : clabel := CBase (LDeliver 2 1 []).

(* server w runs before and after, and its commit index fell *)
Definition commit_fell (g g' : cgstate) (w : N) : bool :=
  match find_node (cnodes g) w, find_node (cnodes g') w with
  | Some n, Some n' =>
    match gn_run n, gn_run n' with
    | Up s, Up s' => v_commit s' <? v_commit s
    | _, _ => false
    end
  | _, _ => false
  end.

Lemma commit_fell_sound g l g' w : commit_fell g g' w = true -> ~ is_restart_of l w -> ~ commit_monotone_step g l g'.
Proof.
  unfold commit_fell. intros H Hnr CM.
  destruct (find_node (cnodes g) w) as [n|] eqn:Hf; [|discriminate]. destruct (find_node (cnodes g') w) as [n'|] eqn:Hf'; [|discriminate].
  destruct (gn_run n) as [s|s] eqn:Hr; [|discriminate]. destruct (gn_run n') as [s'|s'] eqn:Hr'; [|discriminate].
  apply N.ltb_lt in H. destruct (find_node_in _ _ _ Hf) as [Hin Hid]. destruct (find_node_in _ _ _ Hf') as [Hin' Hid'].
  destruct (CM n n' s s' Hin Hin' ltac:(congruence) Hr Hr') as [Hle|Hre]; [lia|]. rewrite Hid in Hre. exact (Hnr Hre).
Qed.

Theorem commit_monotone_all_runs_refuted : exists sn cfg g0 ls g l g',
  cinit_snap_ok cfg g0 /\ Forall label_ok ls /\ crun sn [cfg] g0 ls = Some g /\
  label_ok l /\ cstep sn [cfg] g l = Some g' /\ ~ commit_monotone_step g l g'.
Proof.
  assert (Hc : match crun false [mk_cfg 3] cex_g0 mono_cex_labels with
               | Some g => match cstep false [mk_cfg 3] g mono_cex_last with Some g' => commit_fell g g' 2 | None => false end
               | None => false end = true) by (vm_compute; reflexivity).
  destruct (crun false [mk_cfg 3] cex_g0 mono_cex_labels) as [g|] eqn:Hrun; [|discriminate].
  destruct (cstep false [mk_cfg 3] g mono_cex_last) as [g'|] eqn:Hstep; [|discriminate].
  exists false, (mk_cfg 3), cex_g0, mono_cex_labels, g, mono_cex_last, g'.
  split; [apply (mk_nodes_cinit_snap 3 [0; 0; 0])|].
  split; [repeat constructor; simpl; try discriminate; exact I|]. split; [exact Hrun|].
  split; [split; exact I|]. split; [exact Hstep|].
  apply (commit_fell_sound g mono_cex_last g' 2 Hc). intros (c & fs & E). discriminate.
Qed.
