(* ClusterLogSnapAppend2.v — stage 2: the appendEntries handler, block by block. *)
From Coq Require Import List NArith Bool Lia.
From stdpp Require Import gmap.
From RaftModel Require Import Base Config Compaction Node NodeCodec.
From RaftProofs Require Import VoteProofs AdvLeaderProofs AppendProofs RecoverProofs
  ClusterLogSpec ClusterLogChain ClusterLogNode ClusterLogCut ClusterLogVote ClusterLogAppend ClusterLogInit
  ClusterLogSnapSpec ClusterLogSnapNode ClusterLogSnapState ClusterLogSnapBoot ClusterLogSnapCut ClusterLogSnapVote
  ClusterLogSnapTake ClusterLogSnapAppend.
Open Scope N_scope.

Section SnapAppend2.
  Variable base : list entry.
  Variable c0 : N.
  Hypothesis Hh : hist_ok (0, 0) base.
  Variable C : chain.
  Hypothesis HCB : cb_ok base c0 C.
  Variable P : params.

  Definition ext_good2 (s2 : nstate) (ext : list ev) : Prop :=
    forall j, good_d5 base c0 C (fold_left (d_apply P None) (firstn j ext) (dpr s2)).

  Lemma ext_good2_nil s2 : good_d5 base c0 C (dpr s2) -> ext_good2 s2 [].
  Proof. intros H j. destruct j; exact H. Qed.

  Lemma ext_good2_snoc s2 ext x : ext_good2 s2 ext ->
    good_d5 base c0 C (fold_left (d_apply P None) (ext ++ [x]) (dpr s2)) -> ext_good2 s2 (ext ++ [x]).
  Proof.
    intros H Hx j. rewrite firstn_app. destruct (Nat.le_gt_cases j (length ext)) as [Hj|Hj].
    - replace (j - length ext)%nat with 0%nat by lia. simpl. rewrite app_nil_r. apply H.
    - rewrite (firstn_all2 (n:=j) ext) by lia.
      destruct (j - length ext)%nat as [|k] eqn:E; [lia|]. simpl. destruct k; exact Hx.
  Qed.

  Definition ent_good2 (s2 : nstate) (tr1 : list ev) (s' : nstate) (tr' : list ev) : Prop :=
    exists ext, dlf tr' = dlf tr1 ++ ext /\ ext_good2 s2 ext /\ sup base c0 C s' /\ d_term s' = d_term s2.

  Definition cont_good2 (s2 : nstate) (tr1 : list ev) (c : ae_cont) : Prop :=
    match c with
    | inl (Some (s8, tr8, _)) => ent_good2 s2 tr1 s8 tr8
    | inl None => True
    | inr (_, s', tr', _) => ent_good2 s2 tr1 s' tr'
    end.

  Lemma ent_good2_same s2 tr1 : sup base c0 C s2 -> ent_good2 s2 tr1 s2 tr1.
  Proof.
    intros Hn. exists []. split; [rewrite app_nil_r; reflexivity|].
    split; [apply ext_good2_nil, simg_good_d5, sup_img, Hn|]. split; [exact Hn|reflexivity].
  Qed.

  (* processLogs up to an index of the committed prefix *)
  Lemma sup_process s idx s' tr : sup base c0 C s -> idx <= c0 -> process_logs s idx = Some (s', tr) ->
    sup base c0 C s' /\ d_term s' = d_term s /\ dlf tr = [].
  Proof.
    intros Hn Hidx HP.
    assert (Htr : dlf tr = []).
    { unfold process_logs in HP. destruct (idx <=? v_applied s); [inversion HP; reflexivity|].
      destruct (collect_logs _ _ _); [|discriminate]. inversion HP; subst. apply dlf_fsm_events. }
    apply process_logs_fsm in HP; [|eapply log_in_keys; apply Hn].
    destruct HP as ((K1 & K2 & K3 & K4 & K5 & K6 & K7 & K8 & K9 & K10) & Hcase).
    split; [|split; [exact K10|exact Htr]].
    assert (Hf : fsm_ok base c0 (v_fsmLast s') /\ v_lastSnapIdx s <= v_applied s' /\ fst (v_fsmLast s') <= v_applied s' /\
                 (fst (v_fsmLast s') = 0 \/ v_lastSnapIdx s <= fst (v_fsmLast s'))).
    { pose proof (su_w1 base c0 C s Hn) as W1. pose proof (su_w2 base c0 C s Hn) as W2. pose proof (su_w3 base c0 C s Hn) as W3.
      destruct Hcase as [(E1 & E2)|(Hlt & E1 & [E2|(e & He & Hr & E2)])]; rewrite E1, E2.
      - split; [apply Hn|]. auto.
      - split; [apply Hn|]. split; [lia|]. split; [lia|exact W3].
      - destruct (su_login base c0 C s Hn _ e He) as (_ & (p & Hp) & _).
        split; [right; apply (low_bkey base c0 Hh C e p HCB Hp); lia|]. simpl. split; [lia|]. split; [lia|right; lia]. }
    destruct Hf as (F1 & F2 & F3 & F4).
    constructor; rewrite ?K1, ?K2, ?K3, ?K4, ?K5, ?K6, ?K7, ?K8, ?K9, ?K10; try apply Hn; auto.
  Qed.

  Lemma has_c0_store m l news : has_c0 c0 m l -> has_c0 c0 (log_store m news) l.
  Proof.
    intros [E0|[(e & He)|Hs]]; [left; exact E0| |right; right; exact Hs].
    right. left. rewrite log_store_lookup. destruct (find_last c0 news) as [y|]; eauto.
  Qed.

  Lemma has_c0_delete_above m l c hi : has_c0 c0 m l -> c0 < c -> has_c0 c0 (log_delete m c hi) l.
  Proof.
    intros [E0|[(e & He)|Hs]] Hc; [left; exact E0| |right; right; exact Hs].
    right. left. exists e. rewrite log_delete_lookup. destruct (N.leb_spec c c0); [lia|]. exact He.
  Qed.

  (* ---------------------------------------------------------------- StageCommitIndex + StoreLogs *)
  Lemma fold_config_skeep es : forall s,
    skeep (fold_left (process_config_entry P) es s) s /\ d_term (fold_left (process_config_entry P) es s) = d_term s.
  Proof.
    induction es as [|e r IH]; intros s; simpl; [split; [apply skeep_refl|reflexivity]|].
    destruct (IH (process_config_entry P s e)) as [A B].
    assert (H : skeep (process_config_entry P s e) s /\ d_term (process_config_entry P s e) = d_term s).
    { unfold process_config_entry. destruct (e_ty e =? LogConfiguration); repeat split. }
    destruct H as [H1 H2]. split; [eapply skeep_trans; eauto|congruence].
  Qed.

  (* a state that differs from s4 by a stored tail and the new cached last-log *)
  Lemma sup_new_log s4 s7 news : sup base c0 C s4 ->
    d_log s7 = log_store (d_log s4) news -> d_snaps s7 = d_snaps s4 -> d_term s7 = d_term s4 ->
    d_pcommit s7 <= c0 -> d_staged s7 = d_staged s4 ->
    v_lastLogIdx s7 = e_idx (last_of news) -> v_lastLogTerm s7 = e_term (last_of news) ->
    v_lastSnapIdx s7 = v_lastSnapIdx s4 -> v_lastSnapTerm s7 = v_lastSnapTerm s4 ->
    v_commit s7 = v_commit s4 -> v_applied s7 = v_applied s4 -> v_fsmLast s7 = v_fsmLast s4 ->
    log_in C (log_store (d_log s4) news) (d_term s4) -> log_below C (log_store (d_log s4) news) (key (last_of news)) ->
    e_idx (last_of news) <> 0 -> e_term (last_of news) <= d_term s4 -> ckey C (key (last_of news)) ->
    (c0 <= v_lastLogIdx s4 -> c0 <= e_idx (last_of news)) ->
    sup base c0 C s7.
  Proof.
    intros Hn K1 K2 K3 K4 K5 K6 K7 K8 K9 K10 K11 K12 Hin Hbel Hi Ht Hck Hu.
    constructor.
    - rewrite K2. apply Hn.
    - rewrite K1, K3. exact Hin.
    - exact K4.
    - rewrite K5. apply Hn.
    - rewrite K1, K2. apply has_c0_store, Hn.
    - rewrite K3. apply Hn.
    - rewrite K8, K9. apply Hn.
    - rewrite K7, K3. exact Ht.
    - rewrite K6. intros E. contradiction.
    - rewrite K1, K6, K7. exact Hbel.
    - rewrite K6, K7. right. exact Hck.
    - rewrite K6, K8. destruct (su_u base c0 C s4 Hn) as [U|U]; [left; apply Hu, U|right; exact U].
    - rewrite K10. apply Hn.
    - rewrite K12. apply Hn.
    - rewrite K8, K11. apply Hn.
    - rewrite K12, K11. apply Hn.
    - rewrite K12, K8. apply Hn.
  Qed.

  Lemma store_new_good2 fr lc s2 tr1 s3 tr3 fs3 news ext3 :
    dlf tr3 = dlf tr1 ++ ext3 -> ext_good2 s2 ext3 ->
    fold_left (d_apply P None) ext3 (dpr s2) = dpr s3 -> sup base c0 C s3 -> d_term s3 = d_term s2 -> lc <= c0 ->
    log_in C (log_store (d_log s3) news) (d_term s2) ->
    log_below C (log_store (d_log s3) news) (key (last_of news)) ->
    e_idx (last_of news) <> 0 -> e_term (last_of news) <= d_term s2 -> ckey C (key (last_of news)) ->
    (c0 <= v_lastLogIdx s3 -> c0 <= e_idx (last_of news)) ->
    cont_good2 s2 tr1 (store_new P fr lc s3 tr3 fs3 news).
  Proof.
    intros Htr Hext Hfold Hn3 Ht3 Hlc Hin Hbel Hidx Hterm Hck Hu. unfold store_new.
    set (c := N.min lc (e_idx (last_of news))).
    (* StageCommitIndex *)
    assert (Hst : exists s4 trs, do_stage P s3 c = (s4, trs) /\ sup base c0 C s4 /\ d_term s4 = d_term s3 /\
              d_log s4 = d_log s3 /\ d_snaps s4 = d_snaps s3 /\ d_pcommit s4 = d_pcommit s3 /\
              v_lastLogIdx s4 = v_lastLogIdx s3 /\ v_lastSnapIdx s4 = v_lastSnapIdx s3 /\ v_lastSnapTerm s4 = v_lastSnapTerm s3 /\
              v_commit s4 = v_commit s3 /\ v_applied s4 = v_applied s3 /\ v_fsmLast s4 = v_fsmLast s3 /\
              ext_good2 s2 (ext3 ++ dlf trs) /\ fold_left (d_apply P None) (ext3 ++ dlf trs) (dpr s2) = dpr s4).
    { unfold do_stage. destruct (p_track P) eqn:Et.
      - eexists _, _. split; [reflexivity|].
        assert (Hs4 : sup base c0 C (set_log s3 (d_log s3) c (d_pcommit s3))).
        { constructor; try apply Hn3. simpl. unfold c. lia. }
        split; [exact Hs4|]. repeat (split; [reflexivity|]).
        assert (Hf : fold_left (d_apply P None) (ext3 ++ [EStage c]) (dpr s2) = dpr (set_log s3 (d_log s3) c (d_pcommit s3))).
        { rewrite fold_left_app, Hfold. simpl. rewrite Et. reflexivity. }
        split; [|exact Hf]. apply ext_good2_snoc; [exact Hext|]. rewrite Hf. apply simg_good_d5, sup_img, Hs4.
      - eexists _, _. split; [reflexivity|]. split; [exact Hn3|]. repeat (split; [reflexivity|]).
        simpl. rewrite app_nil_r. split; [exact Hext|exact Hfold]. }
    destruct Hst as (s4 & trs & -> & Hn4 & T4 & L4 & S4 & P4 & I4 & SI4 & ST4 & C4 & A4 & F4 & Hext4 & Hfold4).
    unfold do_store. destruct (next_fail fs3) as [f fs5]. destruct f; cbn [negb].
    - exists (ext3 ++ dlf trs). split; [rewrite !dlf_app, Htr; simpl; rewrite app_nil_r, app_assoc; reflexivity|].
      split; [exact Hext4|]. split; [exact Hn4|congruence].
    - exists ((ext3 ++ dlf trs) ++ [EStore news true]).
      split; [rewrite !dlf_app, Htr; simpl; rewrite !app_assoc; reflexivity|].
      set (s5 := set_log s4 (log_store (d_log s4) news) (d_staged s4) (if p_track P then d_staged s4 else d_pcommit s4)).
      assert (Hf5 : fold_left (d_apply P None) ((ext3 ++ dlf trs) ++ [EStore news true]) (dpr s2) = dpr s5).
      { rewrite fold_left_app, Hfold4. reflexivity. }
      destruct (fold_config_skeep news s5) as [(F1 & F2 & F3 & F4' & F5 & F6 & F7 & F8 & F9 & F10 & F11) Ft].
      assert (Hp5 : d_pcommit s5 <= c0).
      { unfold s5. simpl. destruct (p_track P); [apply Hn4|rewrite P4; apply Hn3]. }
      assert (Hn7 : sup base c0 C (set_lastlog (fold_left (process_config_entry P) news s5) (e_idx (last_of news)) (e_term (last_of news)))).
      { apply (sup_new_log s4 _ news Hn4); simpl; rewrite ?F1, ?F2, ?F3, ?F4', ?F7, ?F8, ?F9, ?F10, ?F11, ?Ft; try reflexivity; auto.
        - rewrite L4, T4, Ht3. exact Hin.
        - rewrite L4. exact Hbel.
        - rewrite T4, Ht3. exact Hterm.
        - rewrite I4. exact Hu. }
      split; [|split; [exact Hn7|]].
      + apply ext_good2_snoc; [exact Hext4|]. rewrite Hf5.
        assert (Hi5 : simg base c0 C s5).
        { pose proof (sup_img base c0 C _ Hn7) as [A B D E F G H]. simpl in *. rewrite F1, F2, F3, F4', Ft in *.
          constructor; assumption. }
        apply simg_good_d5, Hi5.
      + simpl. rewrite Ft. simpl. congruence.
  Qed.

  (* a state that differs from s by a sub-log that still reaches c0 and by a cached last-log that
     dominates the sub-log (after a successful truncation: the entry before the truncation point) *)
  Lemma sup_sublog s s' : sup base c0 C s -> log_sub (d_log s') (d_log s) -> has_c0 c0 (d_log s') (d_snaps s) ->
    d_snaps s' = d_snaps s -> d_term s' = d_term s -> d_pcommit s' = d_pcommit s -> d_staged s' = d_staged s ->
    v_lastLogTerm s' <= d_term s -> (v_lastLogIdx s' = 0 -> v_lastLogTerm s' = 0) ->
    log_below C (d_log s') (v_lastLogIdx s', v_lastLogTerm s') ->
    ((v_lastLogIdx s', v_lastLogTerm s') = (0, 0) \/ ckey C (v_lastLogIdx s', v_lastLogTerm s')) ->
    (c0 <= v_lastLogIdx s' \/ v_lastSnapIdx s = c0) ->
    v_lastSnapIdx s' = v_lastSnapIdx s -> v_lastSnapTerm s' = v_lastSnapTerm s ->
    v_commit s' = v_commit s -> v_applied s' = v_applied s -> v_fsmLast s' = v_fsmLast s -> sup base c0 C s'.
  Proof.
    intros Hn Hs Hc K2 K3 K4 K5 Q1 Q2 Q3 Q4 Q5 K8 K9 K10 K11 K12. constructor.
    - rewrite K2. apply Hn.
    - rewrite K3. eapply log_in_sub; [exact Hs|apply N.le_refl|apply Hn].
    - rewrite K4. apply Hn.
    - rewrite K5. apply Hn.
    - rewrite K2. exact Hc.
    - rewrite K3. apply Hn.
    - rewrite K8, K9. apply Hn.
    - rewrite K3. exact Q1.
    - exact Q2.
    - exact Q3.
    - exact Q4.
    - rewrite K8. exact Q5.
    - rewrite K10. apply Hn.
    - rewrite K12. apply Hn.
    - rewrite K8, K11. apply Hn.
    - rewrite K12, K11. apply Hn.
    - rewrite K12, K8. apply Hn.
  Qed.

  Lemma ae_entries_good2 fr s2 tr1 fs1 a :
    sup base c0 C s2 -> prev_check s2 a = Some true ->
    mchain C (aq_prevIdx a, aq_prevTerm a) (aq_entries a) ->
    (forall e, In e (aq_entries a) -> e_term e <= d_term s2) -> aq_commit a <= c0 ->
    cont_good2 s2 tr1 (ae_entries P fr s2 tr1 fs1 a).
  Proof.
    intros Hn Hpc Hm Hterm Hcm. unfold ae_entries. pose proof (cb_chain base c0 C HCB) as HC.
    pose proof (ent_good2_same s2 tr1 Hn) as Hsame.
    destruct (aq_entries a) as [|e0 es0] eqn:Ees; [exact Hsame|].
    rewrite <- Ees in *. clear Ees e0 es0.
    pose proof (mchain_contig C _ _ HC Hm) as Hc. simpl fst in Hc.
    pose proof (scan_spec (d_log s2) (v_lastLogIdx s2) (aq_entries a) (aq_prevIdx a) Hc (sup_cache_ok base c0 C s2 HCB Hn)) as Hs.
    assert (Hlastn : forall dup news, aq_entries a = dup ++ news -> news <> [] ->
              e_idx (last_of news) <> 0 /\ e_term (last_of news) <= d_term s2 /\
              (forall e, In e news -> e_term e <= d_term s2) /\ ckey C (key (last_of news)) /\
              e_idx (hd (mkE 0 0 0 0) news) <= e_idx (last_of news)).
    { intros dup news Hes Hnn. assert (Hl : In (last_of news) news) by (apply last_in; exact Hnn).
      destruct (mchain_in C _ _ Hm (last_of news)) as [p Hp]; [rewrite Hes; apply in_app_iff; auto|].
      split; [destruct (co_idx C HC _ _ Hp); lia|]. split; [apply Hterm; rewrite Hes; apply in_app_iff; auto|].
      split; [intros e He; apply Hterm; rewrite Hes; apply in_app_iff; auto|]. split; [exists (last_of news), p; auto|].
      rewrite Hes in Hm. destruct (mchain_app C _ dup news Hm) as [_ Hmn].
      destruct news as [|n0 nr]; [congruence|]. simpl hd.
      destruct (anc_le C _ _ HC (mchain_last C _ _ Hmn n0 (or_introl eq_refl))) as [Hle _]. exact Hle. }
    destruct (scan_entries (d_log s2) (v_lastLogIdx s2) (aq_entries a)) as [news|c news| |]; try exact Hsame.
    - destruct Hs as (_ & dup & Hes & Hnn & Hdup & Hnew).
      destruct (Hlastn dup news Hes Hnn) as (L1 & L2 & L3 & L4 & L5). rewrite Hes in Hm.
      assert (Hhd : v_lastLogIdx s2 < e_idx (hd (mkE 0 0 0 0) news)).
      { destruct news as [|n0 nr]; [congruence|]. simpl. apply (Hnew n0). left. reflexivity. }
      destruct (final_log_good2 base c0 Hh C s2 a dup news (d_log s2) HCB Hn Hpc Hm Hnn Hdup L3) as [G1 G2].
      { intros i x Hl. split; [exact Hl|]. pose proof (sup_bound base c0 C s2 i x HCB Hn Hl) as Hb. lia. }
      apply (store_new_good2 fr (aq_commit a) s2 tr1 s2 tr1 fs1 news []).
      + rewrite app_nil_r. reflexivity.
      + apply ext_good2_nil, simg_good_d5, sup_img, Hn.
      + reflexivity.
      + exact Hn.
      + reflexivity.
      + exact Hcm.
      + exact G1.
      + exact G2.
      + exact L1.
      + exact L2.
      + exact L4.
      + intros Hu. lia.
    - destruct Hs as (Hfc & dup & Hes & Hnn & Hc0 & Hcl & Hdup).
      destruct (Hlastn dup news Hes Hnn) as (L1 & L2 & L3 & L4 & L5).
      pose proof (conflict_above base c0 Hh C s2 _ _ c HCB Hn Hm Hfc) as Habove. rewrite Hes in Hm.
      unfold do_delete. destruct (next_fail fs1) as [f fs3]. destruct f; cbn [negb].
      + exists []. split; [rewrite dlf_app; simpl; rewrite !app_nil_r; reflexivity|].
        split; [apply ext_good2_nil, simg_good_d5, sup_img, Hn|]. split; [exact Hn|reflexivity].
      + set (m3 := log_delete (d_log s2) c (v_lastLogIdx s2)).
        assert (Hsub : log_sub m3 (d_log s2)) by apply log_delete_sub.
        destruct (final_log_good2 base c0 Hh C s2 a dup news m3 HCB Hn Hpc Hm Hnn Hdup L3) as [G1 G2].
        { intros i x Hl. split; [apply Hsub, Hl|]. pose proof (sup_bound base c0 C s2 i x HCB Hn (Hsub i x Hl)) as Hb.
          unfold m3 in Hl. rewrite log_delete_lookup in Hl. rewrite <- Hc0.
          destruct (N.leb_spec c i); [|lia]. destruct (N.leb_spec i (v_lastLogIdx s2)); [discriminate|lia]. }
        (* the cache moves to the entry before the truncation point: the last duplicate, or the
           request's previous entry; everything that survives the truncation is below it *)
        destruct (conflict_pred a news) as [pi pt] eqn:Ecp.
        rewrite (conflict_pred_app a dup news Hes) in Ecp.
        assert (Hpk : pt <= d_term s2 /\ (pi = 0 -> pt = 0) /\ log_below C m3 (pi, pt) /\
                      ((pi, pt) = (0, 0) \/ ckey C (pi, pt)) /\ pi + 1 = c).
        { destruct news as [|n0 nr]; [congruence|]. simpl hd in Hc0.
          destruct (pred_key_good2 base c0 Hh C s2 a dup n0 nr HCB Hn Hpc Hm Hdup) as [Hq0 Hqb].
          rewrite Ecp in Hq0, Hqb.
          destruct (co_idx C HC n0 _ Hq0) as [Q0 Q1]. simpl fst in Q0. simpl snd in Q1.
          pose proof (L3 n0 (or_introl eq_refl)) as Q2.
          split; [lia|]. split; [|split; [|split; [apply (cb_pred base c0 C HCB n0 _ Hq0)|lia]]].
          - intros E0. pose proof (co_zero C HC n0 _ Hq0 E0) as Q3. inversion Q3. reflexivity.
          - intros i x Hl. apply (Hqb i x (Hsub i x Hl)).
            pose proof (sup_bound base c0 C s2 i x HCB Hn (Hsub i x Hl)) as Hb.
            unfold m3 in Hl. rewrite log_delete_lookup in Hl. rewrite <- Hc0.
            destruct (N.leb_spec c i); [|lia]. destruct (N.leb_spec i (v_lastLogIdx s2)); [discriminate|lia]. }
        destruct Hpk as (P1 & P2 & P3 & P4 & P5).
        match goal with |- cont_good2 _ _ (store_new _ _ _ ?S3 _ _ _) => set (s3 := S3) end.
        assert (D3 : d_log s3 = m3) by (unfold s3; destruct (c <=? v_latestIdx _); reflexivity).
        assert (I3 : v_lastLogIdx s3 = pi /\ v_lastLogTerm s3 = pt)
          by (unfold s3; destruct (c <=? v_latestIdx _); split; reflexivity).
        destruct I3 as [I3 T3].
        assert (Hn3 : sup base c0 C s3).
        { apply (sup_sublog s2 s3 Hn); rewrite ?I3, ?T3;
            try (unfold s3; destruct (c <=? v_latestIdx _); reflexivity); auto.
          - rewrite D3. exact Hsub.
          - rewrite D3. apply has_c0_delete_above; [apply Hn|exact Habove].
          - rewrite D3. exact P3.
          - left. lia. }
        assert (Hdp : dpr s3 = mkD (d_term s2) m3 (d_snaps s2) (d_staged s2) (d_pcommit s2)).
        { unfold dpr. rewrite D3. unfold s3; destruct (c <=? v_latestIdx _); reflexivity. }
        apply (store_new_good2 fr (aq_commit a) s2 tr1 s3 _ fs3 news [EDelete c (v_lastLogIdx s2) true]).
        * rewrite dlf_app. reflexivity.
        * apply (ext_good2_snoc s2 [] (EDelete c (v_lastLogIdx s2) true)).
          -- apply ext_good2_nil, simg_good_d5, sup_img, Hn.
          -- simpl. fold m3. rewrite <- Hdp. apply simg_good_d5, sup_img, Hn3.
        * simpl. fold m3. symmetry. exact Hdp.
        * exact Hn3.
        * unfold s3; destruct (c <=? v_latestIdx _); reflexivity.
        * exact Hcm.
        * rewrite D3. exact G1.
        * rewrite D3. exact G2.
        * exact L1.
        * exact L2.
        * exact L4.
        * intros _. lia.
  Qed.
End SnapAppend2.
