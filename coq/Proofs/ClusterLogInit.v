(* ClusterLogInit.v — the initial states of Proofs/ClusterLogSpec.v satisfy the invariant: the ghost
   history is the common history `base`, each entry appended after the one before it. *)
From Coq Require Import List NArith Bool Lia.
From stdpp Require Import gmap.
From RaftModel Require Import Base Config Compaction Commitment Node NodeCodec Candidate Leader Replicate Cluster ClusterLog.
From RaftProofs Require Import ConfigProofs VoteProofs ClusterProofs
  ClusterLogSpec ClusterLogChain ClusterLogNode ClusterLogInv.
Open Scope N_scope.

Fixpoint base_chain (prev : N * N) (es : list entry) : chain :=
  match es with
  | [] => []
  | e :: r => (e, prev) :: base_chain (key e) r
  end.

Lemma base_chain_in prev es : hist_ok prev es -> forall e p, In (e, p) (base_chain prev es) ->
  In e es /\ e_idx e = fst p + 1 /\ snd p <= e_term e /\ fst prev < e_idx e /\ (p = prev \/ fst prev < fst p).
Proof.
  revert prev. induction es as [|e0 r IH]; intros prev H e p Hin; simpl in *; [contradiction|].
  destruct H as (H1 & H2 & H3). destruct Hin as [E|Hin].
  - inversion E; subst. repeat split; auto; lia.
  - destruct (IH _ H3 e p Hin) as (A & B & D & E & F). unfold key in E, F. simpl in E, F.
    split; [right; exact A|]. split; [exact B|]. split; [exact D|]. split; [lia|].
    right. destruct F as [->|F]; simpl; lia.
Qed.

Lemma base_chain_fun prev es : hist_ok prev es -> forall e p e' p',
  In (e, p) (base_chain prev es) -> In (e', p') (base_chain prev es) -> e_idx e = e_idx e' -> e = e' /\ p = p'.
Proof.
  revert prev. induction es as [|e0 r IH]; intros prev H e p e' p' Hin Hin' Hi; simpl in *; [contradiction|].
  destruct H as (H1 & H2 & H3). destruct Hin as [E|Hin], Hin' as [E'|Hin'].
  - inversion E; inversion E'; subst. auto.
  - inversion E; subst. destruct (base_chain_in _ _ H3 e' p' Hin') as (_ & _ & _ & F & _).
    unfold key in F. simpl in F. lia.
  - inversion E'; subst. destruct (base_chain_in _ _ H3 e p Hin) as (_ & _ & _ & F & _).
    unfold key in F. simpl in F. lia.
  - apply (IH _ H3 e p e' p' Hin Hin' Hi).
Qed.

Lemma base_chain_ok es : hist_ok (0, 0) es -> chain_ok (base_chain (0, 0) es).
Proof.
  intros H. constructor.
  - intros e p e' p' H1 H2 Hk. apply (base_chain_fun _ _ H e p e' p' H1 H2). unfold key in Hk. congruence.
  - intros e p Hin. destruct (base_chain_in _ _ H e p Hin) as (_ & A & B & _). auto.
  - intros e p Hin Hz. destruct (base_chain_in _ _ H e p Hin) as (_ & _ & _ & _ & [E|F]); [exact E|simpl in F; lia].
Qed.

Lemma hist_idx prev es : hist_ok prev es -> forall k e, nth_error es k = Some e -> e_idx e = fst prev + 1 + N.of_nat k.
Proof.
  revert prev. induction es as [|e0 r IH]; intros prev H k e Hn; destruct k as [|k]; simpl in *; try discriminate.
  - inversion Hn; subst. destruct H as (H1 & _). lia.
  - destruct H as (H1 & _ & H3). rewrite (IH _ H3 k e Hn). unfold key. simpl. lia.
Qed.

Lemma base_chain_anc C prev es : incl (base_chain prev es) C -> forall k e, nth_error es k = Some e ->
  anc C prev (key e) /\ (exists p, In (e, p) C) /\
  forall k' e', (k' <= k)%nat -> nth_error es k' = Some e' -> anc C (key e') (key e).
Proof.
  revert prev. induction es as [|e0 r IH]; intros prev Hi k e Hn; destruct k as [|k]; simpl in *; try discriminate.
  - inversion Hn; subst e0. assert (H0 : In (e, prev) C) by (apply Hi; left; reflexivity).
    split; [eapply anc_up; [exact H0|reflexivity|apply anc_refl]|]. split; [eauto|].
    intros k' e' Hk Hn'. destruct k'; [|lia]. simpl in Hn'. inversion Hn'; subst. apply anc_refl.
  - assert (H0 : In (e0, prev) C) by (apply Hi; left; reflexivity).
    destruct (IH (key e0) (fun x Hx => Hi x (or_intror Hx)) k e Hn) as (A & B & D).
    split; [eapply anc_trans; [|exact A]; eapply anc_up; [exact H0|reflexivity|apply anc_refl]|].
    split; [exact B|]. intros k' e' Hk Hn'. destruct k' as [|k'].
    + simpl in Hn'. inversion Hn'; subst. exact A.
    + simpl in Hn'. apply (D k' e'); [lia|exact Hn'].
Qed.

(* ---------------------------------------------------------------- a prefix of the history in a log store *)
Lemma prefix_lookup base k m i e : log_prefix base k m -> m !! i = Some e ->
  1 <= i <= N.of_nat k /\ nth_error base (N.to_nat (i - 1)) = Some e.
Proof.
  intros [_ H] Hl. rewrite H in Hl.
  destruct (N.leb_spec 1 i); [|discriminate]. destruct (N.leb_spec i (N.of_nat k)); [|discriminate].
  simpl in Hl. split; [lia|exact Hl].
Qed.

Lemma prefix_log_in base k m tb : hist_ok (0, 0) base -> log_prefix base k m ->
  (forall e, In e base -> e_term e <= tb) -> log_in (base_chain (0, 0) base) m tb.
Proof.
  intros Hh Hp Ht i e Hl. destruct (prefix_lookup base k m i e Hp Hl) as [Hi Hn].
  split; [rewrite (hist_idx _ _ Hh _ e Hn); simpl; lia|].
  split; [apply (base_chain_anc _ (0, 0) base (incl_refl _) _ e Hn)|].
  apply Ht. eapply nth_error_In; eauto.
Qed.

Lemma prefix_below base k m : hist_ok (0, 0) base -> log_prefix base k m ->
  log_below (base_chain (0, 0) base) m (last_key base k).
Proof.
  intros Hh Hp i e Hl. destruct (prefix_lookup base k m i e Hp Hl) as [Hi Hn].
  destruct k as [|k']; [lia|]. unfold last_key.
  destruct (nth_error base k') as [eL|] eqn:EL.
  - apply (base_chain_anc _ (0, 0) base (incl_refl _) k' eL EL) with (k' := N.to_nat (i - 1)); [lia|exact Hn].
  - exfalso. destruct Hp as [Hk _]. apply nth_error_None in EL. lia.
Qed.

Lemma last_key_facts base k tb : hist_ok (0, 0) base -> (k <= length base)%nat ->
  (forall e, In e base -> e_term e <= tb) ->
  snd (last_key base k) <= tb /\ (fst (last_key base k) = 0 -> snd (last_key base k) = 0).
Proof.
  intros Hh Hk Ht. destruct k as [|k']; [simpl; split; [lia|auto]|]. unfold last_key.
  destruct (nth_error base k') as [eL|] eqn:EL.
  - split; [apply Ht; eapply nth_error_In; eauto|]. simpl. rewrite (hist_idx _ _ Hh _ eL EL). simpl. lia.
  - simpl. split; [lia|auto].
Qed.

Theorem linit_linv cfgs g0 : linit_ok g0 -> exists C, linv cfgs g0 C.
Proof.
  intros (Hg & Hmsgs & base & Hh & Hnodes).
  pose proof Hg as (_ & Hn0 & _ & Hl0 & _).
  exists (base_chain (0, 0) base). constructor.
  - apply ginit_inv. exact Hg.
  - apply base_chain_ok. exact Hh.
  - intros n Hin. destruct (Hnodes n Hin) as (Hsn & Hterm & k & Hp & Hrun).
    pose proof (prefix_log_in base k _ _ Hh Hp Hterm) as Hli.
    pose proof (prefix_below base k _ Hh Hp) as Hlb.
    destruct (gn_run n) as [s|s] eqn:Er; simpl in *.
    + destruct Hrun as (Hrole & Hsi & Hck). split.
      * destruct (last_key_facts base k (d_term s) Hh (proj1 Hp) Hterm) as [F1 F2].
        rewrite <- Hck in F1, F2, Hlb. simpl in F1, F2.
        split; [exact Hsn|]. split; [exact Hli|]. split; [exact Hsi|]. split; [exact F1|]. split; [exact F2|exact Hlb].
      * intros s0 Hs0 Hr. rewrite Er in Hs0. inversion Hs0; subst s0. exfalso. apply Hrole. exact Hr.
    + split; [|intros s0 Hs0; rewrite Er in Hs0; discriminate].
      split; [exact Hsn|]. split; [exact Hli|]. eexists. exact Hlb.
  - intros e p Hin. right. intros n Hn.
    destruct (base_chain_in _ _ Hh e p Hin) as (He & _).
    destruct (Hnodes n Hn) as (_ & Hterm & _). split; [apply Hterm, He|].
    intros se Hse. destruct (Hn0 n Hn) as [_ Hs]. congruence.
  - rewrite Hl0. intros T i [].
  - rewrite Hmsgs. intros m [].
Qed.
