(* Leader-side theorems (C03, C08, C20). *)
From Coq Require Import List NArith Bool Lia.
From stdpp Require Import gmap.
From RaftModel Require Import Base Config Compaction Commitment Node Leader.
From RaftProofs Require Import CommitmentProofs.
Open Scope N_scope.

(* ---------------------------------------------------------------- dispatch: indices *)
Lemma number_logs_spec term : forall reqs last k ty data fid,
  nth_error reqs k = Some (ty, data, fid) ->
  nth_error (number_logs last term reqs) k = Some (mkE (last + 1 + N.of_nat k) term ty data, fid).
Proof.
  induction reqs as [|[[ty0 d0] f0] r IH]; intros last k ty data fid H; destruct k; simpl in *; try discriminate.
  - inversion H; subst. rewrite N.add_0_r. reflexivity.
  - rewrite (IH (last + 1) k ty data fid H). f_equal. f_equal. f_equal; lia.
Qed.

Lemma number_logs_length term reqs : forall last, length (number_logs last term reqs) = length reqs.
Proof. induction reqs as [|[[a b] c] r IH]; intros last; simpl; [reflexivity|]. rewrite IH. reflexivity. Qed.

(* every entry dispatched gets the next free index above the leader's last index, in order, with
   the leader's term and the caller's type and payload *)
Theorem dispatch_indices P ls fs reqs k ty data fid :
  nth_error reqs k = Some (ty, data, fid) ->
  let '(ls', _, _, _) := dispatch P ls fs reqs in
  In (mkE (last_index (l_node ls) + 1 + N.of_nat k) (v_term (l_node ls)) ty data, fid) (l_inflight ls').
Proof.
  intros H. unfold dispatch.
  destruct (do_stage P (l_node ls) (v_commit (l_node ls))) as [s1 trs].
  destruct (do_store P s1 fs _) as [[s2 ok] fs'].
  pose proof (number_logs_spec (v_term (l_node ls)) reqs (last_index (l_node ls)) k ty data fid H) as Hn.
  apply nth_error_In in Hn.
  destruct ok; simpl; apply in_app_iff; right; exact Hn.
Qed.

(* ---------------------------------------------------------------- applyBatch: response pairing *)
Definition own_response (e : entry) : N := if e_ty e =? LogCommand then resp_of (e_data e) else 0.

Lemma pair_responses_spec : forall reqs,
  pair_responses reqs (fsm_batch_responses (filter should_send (map fst reqs))) =
  flat_map (fun x => match snd x with
                     | Some fid => [mkFR fid (e_idx (fst x)) E_OK (if should_send (fst x) then own_response (fst x) else 0)]
                     | None => [] end) reqs.
Proof.
  induction reqs as [|[e fut] r IH]; simpl; [reflexivity|].
  destruct (should_send e) eqn:S; simpl.
  - unfold own_response. rewrite IH. destruct fut; reflexivity.
  - rewrite IH. destruct fut; reflexivity.
Qed.

(* Whatever mix of commands, barriers, configurations sits in a batch, and whichever of them carry
   a future: each future receives the response the FSM produced for ITS OWN entry (commands: the
   FSM's answer for that payload; everything else: no response), at that entry's index. *)
Theorem apply_batch_pairing reqs :
  apply_batch reqs =
  flat_map (fun x => match snd x with
                     | Some fid => [mkFR fid (e_idx (fst x)) E_OK (own_response (fst x))]
                     | None => [] end) reqs.
Proof.
  unfold apply_batch. rewrite pair_responses_spec. apply flat_map_ext. intros [e fut]. simpl.
  destruct fut; [|reflexivity]. unfold own_response, should_send.
  destruct (e_ty e =? LogCommand) eqn:E; simpl; [reflexivity|]. destruct (e_ty e =? LogConfiguration); reflexivity.
Qed.

(* ---------------------------------------------------------------- commit processing *)
Lemma ready_prefix_spec infl ci :
  let '(a, b) := ready_prefix infl ci in
  infl = a ++ b /\ (forall x, In x a -> e_idx (fst x) <= ci) /\
  match b with [] => True | x :: _ => ci < e_idx (fst x) end.
Proof.
  induction infl as [|x r IH]; simpl; [repeat split; intros x []|].
  destruct (N.ltb_spec ci (e_idx (fst x))).
  - repeat split; [intros y []|assumption].
  - destruct (ready_prefix r ci) as [a b]. destruct IH as (I1 & I2 & I3).
    split; [simpl; f_equal; exact I1|]. split; [|exact I3].
    intros y [<-|Hy]; [assumption|apply I2; exact Hy].
Qed.

(* only futures at or below the commit index are taken off the in-flight list and answered *)
Theorem leader_commit_takes_committed ls ls' tr res :
  leader_commit ls = Some (ls', tr, res) ->
  exists ready, l_inflight ls = ready ++ l_inflight ls' /\
                forall x, In x ready -> e_idx (fst x) <= cm_commit (l_cm ls).
Proof.
  unfold leader_commit.
  pose proof (ready_prefix_spec (l_inflight ls) (cm_commit (l_cm ls))) as Hr.
  destruct (ready_prefix (l_inflight ls) (cm_commit (l_cm ls))) as [ready rest].
  destruct Hr as (H1 & H2 & _).
  destruct ready as [|r0 rr].
  - intros H; inversion H; subst. exists []. simpl. split; [exact H1|intros x []].
  - match goal with |- context [process_logs_f ?S ?R ?I] => destruct (process_logs_f S R I) as [[[s3 tr3] res3]|] end; [|discriminate].
    intros H; inversion H; subst. exists (r0 :: rr). simpl. split; [exact H1|exact H2].
Qed.

(* ---------------------------------------------------------------- current-term rule at the call site *)
(* setupLeaderState starts the commitment above everything the log held at election: whatever the
   followers report afterwards, the commit index it yields is 0 or above the election-time last
   index (an old-term entry is never committed by counting replicas, Figure 8) *)
Theorem leader_start_index s : cm_start (l_cm (leader_setup s)) = last_index s + 1.
Proof. reflexivity. Qed.

Theorem leader_commit_above_election_last s ops :
  let c := cm_run (l_cm (leader_setup s)) ops in
  cm_commit c = 0 \/ last_index s < cm_commit c.
Proof.
  simpl. pose proof (commit_sound (v_latest s) (last_index s + 1) ops) as H. simpl in H.
  destruct H as [H|[H _]]; [left; exact H|right; lia].
Qed.

(* ---------------------------------------------------------------- restoreUserSnapshot (C20) *)
Theorem restore_refused_uncommitted_config P ls fs mi data so :
  v_committedIdx (l_node ls) <> v_latestIdx (l_node ls) ->
  restore_user P ls fs mi data so = (ls, 1, [], [], fs).
Proof.
  intros H. unfold restore_user. destruct (N.eqb_spec (v_committedIdx (l_node ls)) (v_latestIdx (l_node ls))); [contradiction|reflexivity].
Qed.

Lemma run_compaction_vol s fs range :
  let '(s', _, _) := run_compaction s fs range in
  v_fsm s' = v_fsm s /\ v_applied s' = v_applied s /\ v_lastLogIdx s' = v_lastLogIdx s /\
  v_lastLogTerm s' = v_lastLogTerm s /\ v_lastSnapIdx s' = v_lastSnapIdx s /\ d_snaps s' = d_snaps s /\ v_term s' = v_term s.
Proof.
  unfold run_compaction. destruct range as [[lo hi]|]; [|repeat split].
  unfold do_delete. destruct (next_fail fs) as [f fs']. destruct f; repeat split.
Qed.

(* On success: the FSM holds exactly the supplied snapshot; the index burned is above both the
   snapshot's index and every earlier index, so every later entry is above both; every call that
   was in flight fails with ErrAbortedByRestore and nothing stays in flight; the snapshot stored
   carries the current configuration. *)
Theorem restore_user_ok P ls fs mi data so ls' res tr fs' :
  restore_user P ls fs mi data so = (ls', 0, res, tr, fs') ->
  let s := l_node ls in let s' := l_node ls' in
  v_fsm s' = data /\
  v_lastLogIdx s' = N.max mi (last_index s) + 1 /\ mi < v_lastLogIdx s' /\ last_index s < v_lastLogIdx s' /\
  last_index s' = v_lastLogIdx s' /\ v_applied s' = v_lastLogIdx s' /\ v_lastSnapIdx s' = v_lastLogIdx s' /\
  l_inflight ls' = [] /\
  res = map (fun x => mkFR (snd x) (e_idx (fst x)) E_ABORTED 0) (l_inflight ls) /\
  (exists sn, last (d_snaps s') sn = sn /\ In sn (d_snaps s') /\ sn_idx sn = v_lastLogIdx s' /\
              sn_data sn = data /\ sn_cfg sn = v_latest s /\ sn_cfgidx sn = v_latestIdx s) /\
  v_committedIdx s = v_latestIdx s.
Proof.
  unfold restore_user.
  destruct (N.eqb_spec (v_committedIdx (l_node ls)) (v_latestIdx (l_node ls))) as [Hc|]; [|simpl; intros H; inversion H].
  simpl. destruct (next_fail fs) as [fc fs1]. destruct fc; [intros H; inversion H|].
  destruct so; simpl; [|intros H; inversion H].
  destruct (next_fail fs1) as [fcl fs2]. destruct fcl; [intros H; inversion H|].
  set (li := N.max mi (last_index (l_node ls)) + 1).
  set (sn := mkSnap li (v_term (l_node ls)) (v_latest (l_node ls)) (v_latestIdx (l_node ls)) data true).
  destruct (p_monotonic P).
  - match goal with |- context [run_compaction ?S ?F ?R] =>
      pose proof (run_compaction_vol S F R) as Hv; destruct (run_compaction S F R) as [[s3 trc] fs3] end.
    destruct Hv as (V1 & V2 & V3 & V4 & V5 & V6 & V7).
    intros H; inversion H; subst. simpl in *.
    rewrite V1, V2, V3, V5, V6. unfold last_index. rewrite V3, V5. simpl.
    repeat split; try exact Hc; try (subst li; unfold last_index; lia).
    exists sn. split; [apply last_last|]. split; [apply in_app_iff; right; left; reflexivity|]. repeat split.
  - intros H; inversion H; subst. simpl. unfold last_index. simpl.
    repeat split; try exact Hc; try (subst li; unfold last_index; lia).
    exists sn. split; [apply last_last|]. split; [apply in_app_iff; right; left; reflexivity|]. repeat split.
Qed.

(* every entry dispatched after a successful restore gets an index above the burned one *)
Theorem dispatch_after_restore_above P ls fs mi data so ls' res tr fs' reqs fs2 k ty d fid :
  restore_user P ls fs mi data so = (ls', 0, res, tr, fs') ->
  nth_error reqs k = Some (ty, d, fid) ->
  let '(ls'', _, _, _) := dispatch P ls' fs2 reqs in
  exists e, In (e, fid) (l_inflight ls'') /\ mi < e_idx e /\ last_index (l_node ls) < e_idx e.
Proof.
  intros Hr Hn. pose proof (restore_user_ok _ _ _ _ _ _ _ _ _ _ Hr) as Ho. simpl in Ho.
  destruct Ho as (_ & H1 & H2 & H3 & H4 & _).
  pose proof (dispatch_indices P ls' fs2 reqs k ty d fid Hn) as Hd.
  destruct (dispatch P ls' fs2 reqs) as [[[ls'' r2] t2] f2].
  eexists. split; [exact Hd|]. simpl. rewrite H4. lia.
Qed.

(* ---------------------------------------------------------------- verifyLeader (C09) *)
(* the request is registered with voters of the latest configuration only, never with the leader *)
Theorem verify_registers_only_voters P s votes q now peers :
  verify_leader P s = (votes, q, now, peers) ->
  votes = 1 /\ q = quorum_size (v_latest s) /\
  forall p, In p peers -> p <> p_self P /\ has_vote (v_latest s) p = true.
Proof.
  unfold verify_leader. destruct (quorum_size (v_latest s) =? 1) eqn:E.
  - intros H; inversion H; subst. split; [reflexivity|]. split; [apply N.eqb_eq in E; auto|]. intros p [].
  - intros H; inversion H; subst. split; [reflexivity|]. split; [reflexivity|]. intros p H0. split.
    + apply in_map_iff in H0. destruct H0 as (sv & <- & Hin). apply filter_In in Hin.
      destruct Hin as [_ Hf]. apply andb_true_iff in Hf. destruct Hf as [Hf _].
      apply negb_true_iff in Hf. apply N.eqb_neq in Hf. exact Hf.
    + apply in_map_iff in H0. destruct H0 as (sv & <- & Hin). apply filter_In in Hin.
      destruct Hin as [_ Hf]. apply andb_true_iff in Hf. tauto.
Qed.

(* the acknowledgements of registered peers, in the order the leader loop receives them *)
Fixpoint verify_session (votes quorum : N) (acks : list bool) : N * option bool :=
  match acks with
  | [] => (votes, None)
  | b :: r => let '(v, res) := verify_vote votes quorum b in
              match res with Some x => (v, Some x) | None => verify_session v quorum r end
  end.

(* success = the leader's own vote plus positive acknowledgements of at least quorumSize - 1
   registered peers, with no negative one before *)
Theorem verify_session_success quorum : forall acks votes v,
  verify_session votes quorum acks = (v, Some true) ->
  exists pre post, acks = pre ++ post /\ Forall (fun b => b = true) pre /\
                   v = votes + N.of_nat (length pre) /\ quorum <= v.
Proof.
  induction acks as [|b r IH]; intros votes v H; simpl in H; [discriminate|].
  unfold verify_vote in H. destruct b.
  - destruct (N.leb_spec quorum (votes + 1)).
    + inversion H; subst. exists [true], r. split; [reflexivity|]. split; [repeat constructor|]. split; [simpl; lia|assumption].
    + apply IH in H. destruct H as (pre & post & -> & Hall & -> & Hq).
      exists (true :: pre), post. split; [reflexivity|]. split; [constructor; auto|]. split; [simpl; lia|exact Hq].
  - inversion H.
Qed.

(* with quorumSize = 1 (single voter) the answer is immediate *)
Theorem verify_single_voter P s : quorum_size (v_latest s) = 1 -> verify_leader P s = (1, 1, true, []).
Proof. intros H. unfold verify_leader. rewrite H. reflexivity. Qed.
