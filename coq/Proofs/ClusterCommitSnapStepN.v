(* ClusterCommitSnapStepN.v — with snapshots: why a delivered AppendEntries never truncates what matters
   (the analogue of Proofs/ClusterCommitStepN.v), and the request lies on one branch with the
   target's snapshot boundary. *)
From Coq Require Import List NArith Bool Lia.
From stdpp Require Import gmap.
From RaftModel Require Import Base Config Compaction Commitment Node NodeCodec Candidate Leader Replicate Cluster ClusterLog ClusterCommit.
From RaftProofs Require Import ConfigProofs CommitmentProofs VoteProofs AppendProofs ClusterProofs
  ClusterLogSpec ClusterLogChain ClusterLogNode ClusterLogVote ClusterLogLeader ClusterLogInv ClusterLogSteps
  ClusterCommitSpec ClusterCommitLog ClusterCommitChain ClusterCommitNode ClusterCommitGhost
  ClusterCommitInv ClusterCommitUpd ClusterCommitStepA ClusterCommitStepN
  ClusterCommitSnapLog ClusterCommitSnapBoot ClusterCommitSnapNode ClusterCommitSnapLinv ClusterCommitSnapInv ClusterCommitSnapFinal
  ClusterCommitSnapUpd ClusterCommitSnapStepA.
Open Scope N_scope.

Section Conflict.
  Variable cfg : config.
  Variable Ps : list params.
  Hypothesis HVn : NoDup (voters cfg).

  (* what a server knows to be committed is on the branch of every later (or equal) term that has a leader *)
  Lemma zcommitted_on_branch g C LL A V b k0 T c tl : zinv cfg Ps g C LL A V ->
    CK cfg C LL A b k0 -> b <= T -> In (T, c, tl) LL -> tchain C LL T k0.
  Proof.
    intros HI (Tq & q & Hb & Q & Htc & Hq) HbT Hl.
    pose proof (zv_ci cfg Ps g C LL A V HI) as Hci.
    destruct (N.lt_trichotomy Tq T) as [Hlt|[->|Hgt]]; [|exact Htc|lia].
    exists c, tl. split; [exact Hl|]. right.
    apply (lc_core cfg C LL A V HVn Hci (zv_vi cfg Ps g C LL A V HI) q Tq k0 Q Htc Hq T c tl Hl Hlt).
  Qed.
End Conflict.

Section Kept.
  Variable cfg : config.
  Variable Ps : list params.
  Hypothesis HVn : NoDup (voters cfg).

  Variables (g : cgstate) (C : chain) (LL : LLt) (A : At) (V : Vt).
  Hypothesis HI : zinv cfg Ps g C LL A V.
  Variables (n : gnode) (s : nstate) (m : amsg) (m' : gmap N entry) (c2 : N) (tl2 : N * N).
  Hypothesis Hin : In n (cnodes g).
  Hypothesis Hr : gn_run n = Up s.
  Hypothesis Hm : In m (lg_msgs (cg_l g)).
  Hypothesis Hl2 : In (aq_term (am_req m), c2, tl2) LL.
  Hypothesis Hterm : d_term s <= aq_term (am_req m).
  Hypothesis Hfail : log_ok_fail (aq_prevIdx (am_req m)) (aq_entries (am_req m)) (d_log s) m'.

  Let Hci := zv_ci cfg Ps g C LL A V HI.

  Lemma zlog_keys : forall i x, d_log s !! i = Some x -> e_idx x = i.
  Proof. intros i x Hx. destruct (znode_log_in cfg Ps g C LL A V HI n s Hin Hr) as [Hzz _]. apply (zs_in _ _ _ _ _ _ Hzz i x Hx). Qed.

  (* an entry that is on the branch of the request's term survives, with everything below it *)
  Lemma zkept_on_branch i x : d_log s !! i = Some x ->
    (forall c z, c <= i -> d_log s !! c = Some z -> tchain C LL (aq_term (am_req m)) (key z)) -> m' !! i = Some x.
  Proof.
    intros Hx Hall. destruct (m' !! i) as [x'|] eqn:E.
    - destruct (entry_eq_dec x' x) as [->|Hne]; [reflexivity|]. exfalso.
      destruct (lf_conflict _ _ _ _ Hfail i x Hx) as (c & Hfc & Hc); [rewrite E; congruence|].
      destruct (first_conflict_witness _ _ _ Hfc) as (y & z & _ & _ & Hz & _).
      apply (conflict_off_branch cfg Ps C LL A m (d_log s) c z Hci (zv_msg cfg Ps g C LL A V HI m Hm) Hfc Hz zlog_keys).
      apply (Hall c z Hc Hz).
    - exfalso. destruct (lf_conflict _ _ _ _ Hfail i x Hx) as (c & Hfc & Hc); [rewrite E; discriminate|].
      destruct (first_conflict_witness _ _ _ Hfc) as (y & z & _ & _ & Hz & _).
      apply (conflict_off_branch cfg Ps C LL A m (d_log s) c z Hci (zv_msg cfg Ps g C LL A V HI m Hm) Hfc Hz zlog_keys).
      apply (Hall c z Hc Hz).
  Qed.

  (* what the server knew to be committed is untouched *)
  Lemma zkept_committed i x : d_log s !! i = Some x -> i <= v_commit s -> m' !! i = Some x.
  Proof.
    intros Hx Hi. apply (zkept_on_branch i x Hx). intros c z Hc Hz.
    destruct (zv_kc cfg Ps g C LL A V HI n s Hin Hr) as [_ K].
    apply (zcommitted_on_branch cfg Ps HVn g C LL A V (d_term s) (key z) _ c2 tl2 HI (K c z Hz ltac:(lia)) Hterm Hl2).
  Qed.

  (* what the server accepted: still held, or the leader of the request's (later) term did not hold it *)
  Lemma zkept_accepted k k0 : In (gn_id n, k) A -> anc C k0 k -> 1 <= fst k0 -> holds (d_log s) k0 ->
    holds m' k0 \/ (snd k < aq_term (am_req m) /\ ~ anc C k0 tl2).
  Proof.
    intros Ha Hanc Hpos (x0 & Hx0 & Ex0). pose proof (ci_ok C LL Hci) as HC.
    destruct (znode_log_in cfg Ps g C LL A V HI n s Hin Hr) as [Hzz _]. pose proof (zs_in _ _ _ _ _ _ Hzz) as Li. pose proof (zs_below _ _ _ _ _ _ Hzz) as Lb.
    (* everything the server holds at or below k0 is an ancestor of k0 *)
    assert (Hbelow : forall c z, c <= fst k0 -> d_log s !! c = Some z -> anc C (key z) k0).
    { intros c z Hc Hz. apply (holds_below C (d_log s) (d_term s) _ k0 c z HC Li Lb); [exists x0; auto|exact Hz|exact Hc]. }
    destruct (vi_ac cfg C LL A V (zv_vi cfg Ps g C LL A V HI) _ _ Ha) as [Hkc (ck & tlk & Hlk)].
    destruct (zv_a1 cfg Ps g C LL A V HI _ _ Ha) as (x & Hx & Hxi & Hxt).
    assert (x = n) by (apply (nodup_id_eq _ x n (znodes_nodup cfg Ps g C LL A V HI) Hx Hin Hxi)). subst x.
    unfold dtn in Hxt. rewrite Hr in Hxt. simpl in Hxt.
    destruct (N.eq_dec (snd k) (aq_term (am_req m))) as [Eq|Hne].
    - (* a request of the term in which k was accepted: k0 is on its branch *)
      left. exists x0. split; [|exact Ex0]. apply (zkept_on_branch _ x0 Hx0). intros c z Hc Hz.
      apply (tchain_anc C LL Hci _ k0); [|apply (Hbelow c z Hc Hz)].
      apply (tchain_anc C LL Hci _ k); [|exact Hanc]. rewrite <- Eq. eapply tchain_created; eauto.
    - destruct (m' !! fst k0) as [x'|] eqn:E.
      + destruct (entry_eq_dec x' x0) as [->|Hnx]; [left; exists x0; auto|]. right. split; [lia|]. intros Htl.
        assert (Hk : m' !! fst k0 = Some x0); [|congruence].
        apply (zkept_on_branch _ x0 Hx0). intros c z Hc Hz. exists c2, tl2. split; [exact Hl2|]. right.
        eapply anc_trans; [apply (Hbelow c z Hc Hz)|exact Htl].
      + right. split; [lia|]. intros Htl.
        assert (Hk : m' !! fst k0 = Some x0); [|congruence].
        apply (zkept_on_branch _ x0 Hx0). intros c z Hc Hz. exists c2, tl2. split; [exact Hl2|]. right.
        eapply anc_trans; [apply (Hbelow c z Hc Hz)|exact Htl].
  Qed.
End Kept.
