(* ClusterSnapLMInstall.v — the installSnapshot handler (Model/Node.v install_snapshot / is_body) at one
   server: the log store only loses entries; when the cached last log is reset to (0, 0) everything from
   the snapshot index up to the old cached last index is gone (or the whole store, for a monotonic
   store); the snapshot store gains the request's snapshot; lastSnapshot and the FSM position are the
   request's (index, term) - whatever the server had before (finding F12). *)
From Coq Require Import List NArith Bool Lia.
From stdpp Require Import gmap.
From RaftModel Require Import Base Config Compaction Node NodeCodec.
From RaftProofs Require Import CompactionProofs VoteProofs AdvLeaderProofs AppendProofs RecoverProofs
  ClusterLogSpec ClusterLogChain ClusterLogNode ClusterLogCut ClusterLogSnapCut
  ClusterCommitChain ClusterCommitInv ClusterCommitSnapLog ClusterCommitSnapAE2 ClusterCommitSnapCut ClusterSnapLMLog.
Open Scope N_scope.

Lemma fold_min_le l : forall a, fold_left N.min l a <= a /\ forall x, In x l -> fold_left N.min l a <= x.
Proof.
  induction l as [|y r IH]; intros a; simpl; [split; [lia|intros x []]|].
  destruct (IH (N.min a y)) as [A B]. split; [lia|]. intros x [<-|Hx]; [lia|apply B, Hx].
Qed.

Lemma log_first_le (m : gmap N entry) i e : m !! i = Some e -> log_first m <= i.
Proof.
  intros H. assert (Hin : In i (keys_of m)) by (apply keys_of_in; eauto).
  unfold log_first. destruct (keys_of m) as [|k ks]; [contradiction|].
  destruct (fold_min_le ks k) as [A B]. destruct Hin as [<-|Hin]; [exact A|apply B, Hin].
Qed.

Definition snap_of_req (q : ireq) : snapshot := mkSnap (iq_lastIdx q) (iq_lastTerm q) (iq_cfg q) (iq_cfgIdx q) (iq_data q) true.

(* the state after the handler, against the state s2 it started the body from *)
Definition inst_same (s2 s' : nstate) : Prop :=
  d_log s' = d_log s2 /\ d_snaps s' = d_snaps s2 /\ topk s' = topk s2 /\ rawb s' = rawb s2 /\ v_fsmLast s' = v_fsmLast s2.

Definition inst_stored (q : ireq) (s2 s' : nstate) : Prop :=
  d_snaps s' = d_snaps s2 ++ [snap_of_req q] /\ rawb s' = (iq_lastIdx q, iq_lastTerm q) /\ v_fsmLast s' = (iq_lastIdx q, iq_lastTerm q) /\
  log_sub (d_log s') (d_log s2) /\
  (topk s' = topk s2 \/
   (topk s' = (0, 0) /\ forall i e, d_log s' !! i = Some e -> i = 0 \/ i < iq_lastIdx q \/ v_lastLogIdx s2 < i)).

Lemma run_compaction_keep s fs range : let '(s', _, _) := run_compaction s fs range in
  log_sub (d_log s') (d_log s) /\ d_snaps s' = d_snaps s /\ topk s' = topk s /\ rawb s' = rawb s /\ v_fsmLast s' = v_fsmLast s /\ d_term s' = d_term s /\
  v_role s' = v_role s /\ v_term s' = v_term s.
Proof.
  unfold run_compaction. destruct range as [[lo hi]|]; [|repeat split; apply log_sub_refl].
  unfold do_delete. destruct (next_fail fs) as [f fs']. destruct f; [repeat split; apply log_sub_refl|].
  repeat split. apply log_delete_sub.
Qed.

Lemma is_body_done P s2 rt tr1 fs1 q s' r tr fs' : is_body P s2 rt tr1 fs1 q = Done s' r tr fs' ->
  d_term s' = d_term s2 /\ v_role s' = v_role s2 /\ v_term s' = v_term s2 /\ (inst_same s2 s' \/ inst_stored q s2 s').
Proof.
  unfold is_body. destruct (next_fail fs1) as [fc fs2].
  destruct fc; [intros H; inversion H; subst; repeat split; left; repeat split|].
  destruct (iq_short q); [intros H; inversion H; subst; repeat split; left; repeat split|].
  destruct (next_fail fs2) as [fcl fs3].
  destruct fcl; [intros H; inversion H; subst; repeat split; left; repeat split|].
  set (sn := mkSnap (iq_lastIdx q) (iq_lastTerm q) (iq_cfg q) (iq_cfgIdx q) (iq_data q) true).
  set (s6 := set_committed (set_latest (set_lastsnap (set_applied_fsm (set_snaps s2 (d_snaps s2 ++ [sn])) (iq_lastIdx q) (iq_data q) (iq_lastIdx q, iq_lastTerm q))
                (iq_lastIdx q) (iq_lastTerm q)) (iq_cfg q) (iq_cfgIdx q)) (iq_cfg q) (iq_cfgIdx q)).
  destruct (p_monotonic P).
  - destruct (remove_old (log_first (d_log s6)) (log_last (d_log s6))) as [[lo hi]|] eqn:Er.
    + pose proof (compaction_range _ _ _ _ _ _ Er) as (Elo & _ & _ & _). pose proof (compaction_max _ _ _ _ _ _ Er) as Ehi.
      unfold do_delete. destruct (next_fail fs3) as [fd fs4]. destruct fd.
      * intros H; inversion H; subst. repeat split. right. repeat split; [apply log_sub_refl|left; reflexivity].
      * intros H; inversion H; subst s' r tr fs'. repeat split. right. split; [reflexivity|]. split; [reflexivity|]. split; [reflexivity|].
        split; [cbn; apply log_delete_sub|]. right. split; [reflexivity|]. intros i e He. exfalso. cbn in He.
        pose proof (log_delete_sub _ _ _ i e He) as Hm. rewrite log_delete_lookup in He.
        pose proof (log_first_le _ i e Hm) as F1. pose proof (log_last_ge _ i e Hm) as F2.
        change (d_log s2) with (d_log s6) in F1, F2. rewrite <- Elo in F1.
        destruct (N.leb_spec lo i); [|lia]. destruct (N.leb_spec i hi); [discriminate|]. rewrite Ehi in *. lia.
    + intros H; inversion H; subst. repeat split. right. repeat split; [apply log_sub_refl|].
      (* nothing to delete: the store is empty *)
      right. split; [reflexivity|]. intros i e He. cbn in He. change (d_log s2) with (d_log s6) in He.
      pose proof (log_first_le _ i e He). pose proof (log_last_ge _ i e He).
      apply compaction_none in Er. lia.
  - set (stale := (iq_lastIdx q <=? v_lastLogIdx s6) && match d_log s6 !! iq_lastIdx q with Some e => negb (e_term e =? iq_lastTerm q) | None => negb ((v_lastSnapIdx s2 =? iq_lastIdx q) && (v_lastSnapTerm s2 =? iq_lastTerm q)) end).
    destruct stale.
    + unfold do_delete. destruct (next_fail fs3) as [fd fs4]. destruct fd.
      * match goal with |- context [run_compaction ?S ?F ?R] => pose proof (run_compaction_keep S F R) as Hk; destruct (run_compaction S F R) as [[s7 trc] fs5] end.
        destruct Hk as (K1 & K2 & K3 & K4 & K5 & K6 & K7 & K8).
        intros H; inversion H; subst s' r tr fs'. split; [exact K6|]. split; [exact K7|]. split; [exact K8|]. right.
        split; [exact K2|]. split; [exact K4|]. split; [exact K5|]. split; [exact K1|left; exact K3].
      * match goal with |- context [run_compaction ?S ?F ?R] => pose proof (run_compaction_keep S F R) as Hk; destruct (run_compaction S F R) as [[s7 trc] fs5] end.
        destruct Hk as (K1 & K2 & K3 & K4 & K5 & K6 & K7 & K8).
        intros H; inversion H; subst s' r tr fs'. split; [exact K6|]. split; [exact K7|]. split; [exact K8|]. right.
        split; [exact K2|]. split; [exact K4|]. split; [exact K5|]. split.
        { intros i e He. apply K1 in He. cbn in He. apply (log_delete_sub _ _ _ i e He). }
        right. split; [exact K3|]. intros i e He. apply K1 in He. cbn in He. rewrite log_delete_lookup in He.
        change (v_lastLogIdx s6) with (v_lastLogIdx s2) in He.
        destruct (N.leb_spec (iq_lastIdx q) i); [|lia]. destruct (N.leb_spec i (v_lastLogIdx s2)); [discriminate|lia].
    + match goal with |- context [run_compaction ?S ?F ?R] => pose proof (run_compaction_keep S F R) as Hk; destruct (run_compaction S F R) as [[s7 trc] fs5] end.
      destruct Hk as (K1 & K2 & K3 & K4 & K5 & K6 & K7 & K8).
      intros H; inversion H; subst s' r tr fs'. split; [exact K6|]. split; [exact K7|]. split; [exact K8|]. right.
      split; [exact K2|]. split; [exact K4|]. split; [exact K5|]. split; [exact K1|left; exact K3].
Qed.

Lemma install_done P s fs q s' r tr fs' : wfu s -> install_snapshot P s fs q = Done s' r tr fs' ->
  s' = s \/
  (v_term s <= iq_term q /\ d_term s' = iq_term q /\
   (v_role s' = Follower \/ (v_role s' = v_role s /\ v_term s' = v_term s)) /\
   (inst_same s s' \/ inst_stored q s s')).
Proof.
  intros [Hwd Hvt]. unfold install_snapshot. destruct (N.ltb_spec (iq_term q) (v_term s)) as [Hlt|Hge].
  { intros H; inversion H; subst. left. reflexivity. }
  destruct (N.ltb_spec (v_term s) (iq_term q)) as [Hb|Hnb].
  - unfold do_set_term. destruct (next_fail fs) as [f fs1]. destruct f; [discriminate|].
    intros H. apply is_body_done in H. destruct H as (E1 & E2 & E3 & Hc). right.
    split; [lia|]. split; [exact E1|]. split; [left; exact E2|exact Hc].
  - intros H. apply is_body_done in H. destruct H as (E1 & E2 & E3 & Hc). right.
    split; [lia|]. split; [rewrite E1; simpl; lia|]. split; [right; split; [exact E2|exact E3]|exact Hc].
Qed.

(* ---------------------------------------------------------------- crash images *)
(* the events of the body: no term write, no store *)
Definition rest_ev (e : ev) : Prop :=
  match e with
  | ESetTerm _ true => False
  | EStore _ true => False
  | _ => True
  end.

(* an image of the handler: the term is T, the log a sub-log, the snapshot store gained copies of the request's snapshot *)
Definition inst_img (s : nstate) (q : ireq) (T : N) (d : dimg) : Prop :=
  di_term d = T /\ log_sub (di_log d) (d_log s) /\ exists k, di_snaps d = d_snaps s ++ repeat (snap_of_req q) k.

Lemma inst_img_step P s q T d e : rest_ev e -> inst_img s q T d -> inst_img s q T (d_apply P (Some (snap_of_req q)) d e).
Proof.
  intros He (A & D & k & E). unfold inst_img.
  destruct e as [t ok|t ok|c ok|es ok|lo hi ok|c|i t ok|e0|i|dd]; simpl; try (split; [exact A|split; [exact D|exists k; exact E]]).
  - destruct ok; [contradiction|]. split; [exact A|split; [exact D|exists k; exact E]].
  - destruct ok; [contradiction|]. split; [exact A|split; [exact D|exists k; exact E]].
  - destruct ok; [|split; [exact A|split; [exact D|exists k; exact E]]]. simpl.
    split; [exact A|]. split; [intros j x Hx; apply D, (log_delete_sub _ _ _ j x Hx)|exists k; exact E].
  - destruct (p_track P); simpl; (split; [exact A|split; [exact D|exists k; exact E]]).
  - destruct ok; [|split; [exact A|split; [exact D|exists k; exact E]]]. simpl.
    split; [exact A|]. split; [exact D|]. exists (S k). rewrite E, <- app_assoc. f_equal.
    change (repeat (snap_of_req q) k ++ [snap_of_req q]) with (repeat (snap_of_req q) k ++ repeat (snap_of_req q) 1). rewrite <- repeat_app. f_equal. lia.
Qed.

Lemma inst_img_fold P s q T tr : Forall rest_ev tr -> forall j d, inst_img s q T d ->
  inst_img s q T (fold_left (d_apply P (Some (snap_of_req q))) (firstn j tr) d).
Proof.
  intros Hall. induction Hall as [|e r He Hr IH]; intros j d Hd; [destruct j; exact Hd|].
  destruct j as [|j]; [exact Hd|]. simpl. apply IH. apply inst_img_step; assumption.
Qed.

Lemma run_compaction_ev s0 fs range : Forall rest_ev (snd (fst (run_compaction s0 fs range))).
Proof.
  unfold run_compaction. destruct range as [[lo hi]|]; [|constructor].
  unfold do_delete. destruct (next_fail fs) as [f fs']. destruct f; repeat constructor.
Qed.

Lemma is_body_ev P s2 rt tr1 fs1 q : exists x, trace_of (is_body P s2 rt tr1 fs1 q) = tr1 ++ x /\ Forall rest_ev x.
Proof.
  unfold is_body. destruct (next_fail fs1) as [fc fs2].
  destruct fc; [eexists; split; [reflexivity|repeat constructor]|].
  destruct (iq_short q); [exists []; split; [symmetry; apply app_nil_r|constructor]|].
  destruct (next_fail fs2) as [fcl fs3].
  destruct fcl; [eexists; split; [reflexivity|repeat constructor]|].
  destruct (p_monotonic P).
  - match goal with |- context [remove_old ?A ?B0] => destruct (remove_old A B0) as [[lo hi]|] end.
    + unfold do_delete. destruct (next_fail fs3) as [fd fs4]. destruct fd; (eexists; split; [reflexivity|repeat constructor]).
    + eexists; split; [reflexivity|repeat constructor].
  - match goal with |- context [if ?ST then _ else (_, [], fs3)] => destruct ST end.
    + unfold do_delete. destruct (next_fail fs3) as [fd fs4]. destruct fd.
      * match goal with |- context [run_compaction ?S ?F ?R] => pose proof (run_compaction_ev S F R) as Hk; destruct (run_compaction S F R) as [[s7 trc] fs5] end.
        cbn [trace_of fst snd] in *. eexists; split; [reflexivity|]. repeat constructor. simpl. exact Hk.
      * match goal with |- context [run_compaction ?S ?F ?R] => pose proof (run_compaction_ev S F R) as Hk; destruct (run_compaction S F R) as [[s7 trc] fs5] end.
        cbn [trace_of fst snd] in *. eexists; split; [reflexivity|]. repeat constructor. simpl. exact Hk.
    + match goal with |- context [run_compaction ?S ?F ?R] => pose proof (run_compaction_ev S F R) as Hk; destruct (run_compaction S F R) as [[s7 trc] fs5] end.
      cbn [trace_of fst snd] in *. eexists; split; [reflexivity|]. repeat constructor. simpl. exact Hk.
Qed.

(* every crash image: the old term with the old stores, or the request's term (not below the old one) *)
Lemma install_images P s fs q k : wfu s ->
  let d := dpr (cut_image P (Some (snap_of_req q)) s (trace_of (install_snapshot P s fs q)) k) in
  d = dpr s \/ (d_term s <= iq_term q /\ inst_img s q (iq_term q) d).
Proof.
  intros [Hwd Hvt]. cbv zeta.
  destruct (cut_image_d P (Some (snap_of_req q)) (trace_of (install_snapshot P s fs q)) s k) as (j & Hj). rewrite Hj. clear Hj.
  assert (H0 : forall T, T = d_term s -> inst_img s q T (dpr s)).
  { intros T ->. split; [reflexivity|]. split; [apply log_sub_refl|exists 0%nat; simpl; rewrite app_nil_r; reflexivity]. }
  unfold install_snapshot. destruct (N.ltb_spec (iq_term q) (v_term s)); [left; destruct j; reflexivity|].
  destruct (N.ltb_spec (v_term s) (iq_term q)) as [Hb|Hnb].
  - unfold do_set_term. destruct (next_fail fs) as [f fs1]. destruct f.
    { left. destruct j as [|[|j]]; reflexivity. }
    match goal with |- context [is_body P ?S2 ?RT ?TR ?FS q] => destruct (is_body_ev P S2 RT TR FS q) as (x & -> & Hx) end.
    destruct j as [|j]; [left; reflexivity|right]. split; [lia|]. cbn [app firstn fold_left].
    apply (inst_img_fold P s q (iq_term q) x Hx j). simpl. split; [reflexivity|]. split; [apply log_sub_refl|exists 0%nat; simpl; rewrite app_nil_r; reflexivity].
  - match goal with |- context [is_body P ?S2 ?RT ?TR ?FS q] => destruct (is_body_ev P S2 RT TR FS q) as (x & -> & Hx) end.
    right. split; [lia|]. cbn [app]. apply (inst_img_fold P s q (iq_term q) x Hx j). apply H0. lia.
Qed.
