#!/bin/sh
# build the harness the way the check engine does (honours go/.buildignore)
cd /verif && python3 -c "
import sys; sys.path.insert(0,'lib'); import vcheck
rc,out,dt=vcheck.build_harness(); print('harness build rc=%d %.1fs'%(rc,dt)); print(out[-2000:] if rc else '')"
