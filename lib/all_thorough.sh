#!/bin/sh
# runs every thorough check in turn; prints one summary line per property
cd "$(dirname "$0")/.."
./check setup > /dev/null 2>&1
for p in C19 C11 C05 C07 C16 C15 C13 C17 C18 C12 C20 C09 C08 C06 C04 C10 C14 C03 C02 C01; do
  /usr/bin/time -f "$p wall %es" ./check $p --tier thorough 2>&1 | grep -E "tier=|VIOLATION|wall" | cut -c1-260
done
