#!/usr/bin/env python3
"""Run /repo's test suite (guard off) and compare with BASELINE.json's stable_pass list.
usage: suite.py [extra go test args]   -> prints a one-line summary + names of stable tests that did not pass"""
import json, subprocess, os, sys
env = dict(os.environ, GOFLAGS='-mod=mod', GOPROXY='off', GOSUMDB='off', GOTOOLCHAIN='local')
base = json.load(open('/root/.vp/BASELINE.json'))
stable = set(base['stable_pass'])
p = subprocess.run(['go1.26', 'test', '-json', '-vet=off', '-count=1', '-timeout', '25m', '.'] + sys.argv[1:], cwd='/repo', env=env,
                   stdout=subprocess.PIPE, stderr=subprocess.DEVNULL, text=True)
res = {}
for line in p.stdout.splitlines():
    try:
        j = json.loads(line)
    except Exception:
        continue
    if j.get('Test') and j.get('Action') in ('pass', 'fail', 'skip'):
        res[j['Package'] + '::' + j['Test']] = j['Action']
bad = sorted(t for t in stable if res.get(t) != 'pass')
print('suite: %d results, stable %d, stable-not-passing %d' % (len(res), len(stable), len(bad)))
for b in bad:
    print('  NOT PASSING:', b, res.get(b))
sys.exit(1 if bad else 0)
