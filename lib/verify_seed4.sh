#!/bin/bash
# usage: verify_seed.sh <ID> [nosuite]  — confirms a seeded defect in its scratch worktree /tmp/seed_<ID>:
#   demo fails with the change, passes without, existing stable suite passes with the change.
ID=$1
W=/tmp/s4_$ID
O=/tmp/s4_out/$ID
export GOFLAGS=-mod=mod GOPROXY=off GOSUMDB=off GOTOOLCHAIN=local
cd $W || exit 2
git checkout -q -- . 2>/dev/null
git apply $O/patch.diff || { echo "PATCH DOES NOT APPLY"; exit 2; }
cp $O/*_test.go . 2>/dev/null
TESTS=$(grep -ho 'func Test[A-Za-z0-9_]*' $O/*_test.go | sed 's/func //' | paste -sd'|')
echo "demo tests: $TESTS"
go1.26 build ./ || { echo "DOES NOT COMPILE"; exit 2; }
go1.26 test -count=1 -run "^($TESTS)\$" . > $O/verify_with.log 2>&1; W_RC=$?
git apply -R $O/patch.diff
go1.26 test -count=1 -run "^($TESTS)\$" . > $O/verify_without.log 2>&1; WO_RC=$?
git apply $O/patch.diff
echo "demo with change rc=$W_RC (expect non-zero); without rc=$WO_RC (expect 0)"
if [ "$2" != "nosuite" ]; then
  mv zz_seed_demo_test.go /tmp/zz_$ID.go.bak 2>/dev/null
  python3 - <<PY
import json, subprocess, os
env = dict(os.environ)
base = json.load(open('/root/.vp/BASELINE.json'))
stable = set(base['stable_pass'])
p = subprocess.run(['go1.26', 'test', '-json', '-vet=off', '-count=1', '-timeout', '25m', '.'], cwd='$W', env=env, stdout=subprocess.PIPE, stderr=subprocess.DEVNULL, text=True)
res = {}
for line in p.stdout.splitlines():
    try: j = json.loads(line)
    except Exception: continue
    if j.get('Test') and j.get('Action') in ('pass','fail','skip'):
        res[j['Package'] + '::' + j['Test']] = j['Action']
bad = sorted(t for t in stable if res.get(t) != 'pass')
print('suite with change: %d results, stable-not-passing %d %s' % (len(res), len(bad), bad))
# timing-dependent tests fail under machine load on any tree: re-run each one alone, up to 4 times
still = []
for t in bad:
    name = t.split('::')[1]
    ok = False
    for k in range(4):
        q = subprocess.run(['go1.26', 'test', '-vet=off', '-count=1', '-timeout', '10m', '-run', '^' + name + '$', '.'], cwd='$W', env=env, stdout=subprocess.PIPE, stderr=subprocess.STDOUT, text=True)
        if q.returncode == 0:
            ok = True
            break
    if not ok:
        still.append(name)
print('re-run alone: still failing %s' % still)
PY
  mv /tmp/zz_$ID.go.bak zz_seed_demo_test.go 2>/dev/null
fi
