#!/bin/bash
# usage: run_seed3.sh ID [checks...] — apply /tmp/s4_out/ID/patch.diff (or seeded/ID/patch.diff) to /repo, run the checks (quick), revert
cd /verif
ID=$1; shift
CHECKS=${@:-${ID:0:3}}
P=/tmp/s4_out/$ID/patch.diff; [ -f $P ] || P=/verif/seeded/$ID/patch.diff
git -C /repo apply $P || { echo "SEED $ID: patch does not apply"; exit 2; }
for c in $CHECKS; do
  echo "== seed $ID check $c"
  ./check $c --tier quick 2>&1 | grep -E "VIOLATION|KNOWN|tier=|mismatch|MONITOR" | cut -c1-400 | head -12
done
git -C /repo checkout -- .
git -C /verif checkout -- evidence 2>/dev/null
git -C /repo status --short | head -3
