# Per-property configuration of the check engine (lib/vcheck.py).
PROPS = {
    'C19': dict(
        props_file='Props/C19.v',
        components=['c19'],
        comp_names={19: 'LogCache over MapLogStore', 1900: 'bare MapLogStore'},
        rule='op sequences (GetLog/StoreLogs/DeleteRange/FirstIndex/LastIndex with failure bits) run on the real raft.LogCache over the '
             'harness MapLogStore and on the bare MapLogStore; exhaustive over a small alphabet (indices 1..3/4, terms 1..2, cap 1..3, every '
             'failure pattern) followed by a full read-back, plus random long sequences; non-trivial = a GetLog follows a StoreLogs (the ring can answer)',
        exhaustive=False,
        assumptions=[
            'wrapped store: a failed StoreLogs has no effect (C19_atomic_failure_needed shows this is necessary); GetLog is a function of the stored state (no transient read errors)',
            'errors are compared as {error, ok}: LogCache.StoreLogs wraps the backend error text',
            'capacity > 0 (NewLogCache rejects others); indices < 2^62 in the tie (model is over unbounded N)',
        ],
    ),
}
