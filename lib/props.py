# Per-property configuration of the check engine (lib/vcheck.py).
PROPS = {
    'C19': dict(
        props_file='Props/C19.v',
        components=['c19'],
        comp_names={19: 'LogCache over MapLogStore', 1900: 'bare MapLogStore'},
        rule='op sequences (GetLog/StoreLogs/DeleteRange/FirstIndex/LastIndex with failure bits) run on the real raft.LogCache over the '
             'harness MapLogStore and on the bare MapLogStore; exhaustive over a small alphabet (indices 1..3/4, terms 1..2, cap 1..3, every '
             'failure pattern) followed by a full read-back, plus random long sequences; non-trivial = a GetLog follows a StoreLogs (the ring can answer)',
        exhaustive=False,
        assumptions=[
            'wrapped store: a failed StoreLogs has no effect (C19_atomic_failure_needed shows this is necessary); GetLog is a function of the stored state (no transient read errors)',
            'errors are compared as {error, ok}: LogCache.StoreLogs wraps the backend error text',
            'capacity > 0 (NewLogCache rejects others); indices < 2^62 in the tie (model is over unbounded N)',
        ],
    ),
    'C06': dict(
        props_file='Props/C06.v',
        components=['c06'],
        comp_names={6: 'node sequence (NewRaft + processRPC + electSelf on a stepper node)'},
        rule='a real server booted by NewRaft from an enumerated durable image (3 configurations x 2 log shapes x 4 vote records, + no configuration) is fed '
             'sequences of RequestVote / RequestPreVote / AppendEntries / electSelf / restart events through processRPC; the first event carries every '
             'single-write failure and every crash cut between its durable writes, then probe votes follow; plus random longer sequences with failures and cuts anywhere. '
             'Compared: response, ordered trace of every store/FSM call, full projected state after each event. Non-trivial = a vote was granted, or a crash cut / panic happened',
        assumptions=[
            'StableStore/LogStore calls are atomic and a failed call has no effect (harness MapStable/MapLogStore)',
            'a failing SetUint64(CurrentTerm) panics (setCurrentTerm) - modelled as a crash followed by restart',
            'protocol version 3; candidate identified by RPCHeader.Addr/ID',
        ],
    ),
}
