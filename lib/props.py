# Per-property configuration of the check engine (lib/vcheck.py).
PROPS = {
    'C19': dict(
        props_file='Props/C19.v',
        components=['c19'],
        comp_names={1019: 'LogCache with a GetLog in flight while the suffix is deleted and rewritten (monitored)', 19: 'LogCache over MapLogStore', 1900: 'bare MapLogStore'},
        rule='op sequences (GetLog/StoreLogs/DeleteRange/FirstIndex/LastIndex with failure bits) run on the real raft.LogCache over the '
             'harness MapLogStore and on the bare MapLogStore; exhaustive over a small alphabet (indices 1..3/4, terms 1..2, cap 1..3, every '
             'failure pattern) followed by a full read-back, plus random long sequences; non-trivial = a GetLog follows a StoreLogs (the ring can answer)',
        exhaustive=False,
        assumptions=[
            'wrapped store: a failed StoreLogs has no effect (C19_atomic_failure_needed shows this is necessary); GetLog is a function of the stored state (no transient read errors)',
            'errors are compared as {error, ok}: LogCache.StoreLogs wraps the backend error text',
            'capacity > 0 (NewLogCache rejects others); indices < 2^62 in the tie (model is over unbounded N)',
        ],
    ),
    'C06': dict(
        props_file='Props/C06.v',
        components=['c06'],
        comp_names={6: 'node sequence (NewRaft + processRPC + electSelf on a stepper node)'},
        rule='a real server booted by NewRaft from an enumerated durable image (3 configurations x 2 log shapes x 4 vote records, + no configuration) is fed '
             'sequences of RequestVote / RequestPreVote / AppendEntries / electSelf / restart events through processRPC; the first event carries every '
             'single-write failure and every crash cut between its durable writes, then probe votes follow; plus random longer sequences with failures and cuts anywhere. '
             'Compared: response, ordered trace of every store/FSM call, full projected state after each event. Non-trivial = a vote was granted, or a crash cut / panic happened',
        assumptions=[
            'StableStore/LogStore calls are atomic and a failed call has no effect (harness MapStable/MapLogStore)',
            'a failing SetUint64(CurrentTerm) panics (setCurrentTerm) - modelled as a crash followed by restart',
            'protocol version 3; candidate identified by RPCHeader.Addr/ID',
        ],
    ),
    'C05': dict(
        props_file='Props/C05.v',
        components=['c05'],
        comp_names={104: 'scripts with snapshot transfer (real replicateTo -> sendLatestSnapshot, real installSnapshot handler) on a real cluster vs Model/ClusterSnap.v', 102: 'commitment scripts on a real cluster vs the composed cluster model with commitment (Model/ClusterCommit.v)', 5: 'commitment (newCommitment/match/setConfiguration/getCommitIndex via tag-exported wrapper)', 8: 'leader sequences (setupLeaderState, dispatchLogs, match reports, leader-loop commit: the current-term rule)'},
        rule='(0) composed-model tie (component 102): 2-5 real servers (all goroutines, 1h timers, pre-vote off, elections scripted as in C01 component 1); a real leader stores entries through Apply; the REAL replicateTo(follower, lastIndex) is run by the script in its own goroutine: it builds the request from the follower\'s real nextIndex and blocks in the transport; any request built so far is executed by its target\'s real handler at any later time (repeatedly, out of order, after the sender was deposed); the follower\'s real answer to the blocked request is returned to replicateTo, whose REAL code processes it (handleStaleTerm / updateLastAppended -> commitment.match / nextIndex back-off) or the call is made to fail; the REAL leader loop then advances the commit index and the REAL FSM goroutines apply; after each op every server\'s role/term/vote/last index/COMMIT INDEX/APPLIED INDEX/FSM CONTENT/FULL LOG, every leader\'s nextIndex per follower and the newest request are diffed against Model/ClusterCommit.v cstep; monitors on the real state after every op: FSM histories prefix-equal across servers, committed entries equal across servers, every leader of a term >= a server\'s term holds what that server knows committed, applied <= commit <= last index (100 scripts of 50-120 ops quick, 1500 thorough); tables: every configuration of n<=3 (quick) / n<=4 (thorough) servers x suffrage in {Voter,Nonvoter,Staging} x match in 0..3 x startIndex in 0..3 '
             '(n=4/5 sampled), each followed by two setConfiguration calls; plus random op sequences (<=30 ops, <=9 servers, occasionally ill-formed '
             'duplicate ids). Compared: commit index after every op. Non-trivial = the commit index advanced at least once',
        assumptions=['ServerID <-> N by the harness naming sN; commitCh notification is not compared'],
    ),
    'C07': dict(
        props_file='Props/C07.v',
        components=['c07'],
        comp_names={5: 'commitment tables and random sequences (non-voters never counted)', 7: 'nextConfiguration/checkConfiguration/hasVote/inConfiguration/quorumSize'},
        rule='every configuration of <=2 servers over ids {"",s1,s2,s3} x addresses {"",a1,a2} x 3 suffrages (incl. ill-formed) x 5 commands x id x address x '
             'prevIndex in {0,idx,idx+1} (quick: sampled 1/3); 3-server configurations over non-empty ids/addresses (sampled); random 1..5-server configurations. '
             'Compared: checkConfiguration, result configuration or error, hasVote/inConfiguration of 6 ids, quorumSize (real quorumSize on a booted node for a sample). '
             'Non-trivial = the change was accepted',
        assumptions=['errors compared as ok/error', 'ServerID/ServerAddress <-> N by harness naming, "" <-> 0'],
    ),
    'C11': dict(
        props_file='Props/C11.v',
        components=['c11', 'c10'],
        comp_names={103: 'commitment scripts with takeSnapshot + compaction on a real cluster vs the composed cluster model (Model/ClusterCommit.v run_clustersnap)', 1015: 'FileSnapshotStore under a file-size limit (writes refused with EFBIG in Write or in the final flush of Close)', 6: 'node sequences with takeSnapshot events (snapshot metadata, content and compaction after every snapshot, crash cuts inside)', 11: 'compactLogsWithTrailing on a stepper node over a recording MapLogStore'},
        rule='first index, snapshot index, last index, TrailingLogs each in 0..8 (6561 cases, exhaustive in both tiers). Compared: the DeleteRange issued. '
             'Non-trivial = a range was deleted',
        exhaustive=True,
        assumptions=['FirstIndex of the harness store = least key; indices < 2^62'],
    ),
    'C04': dict(
        props_file='Props/C04.v',
        components=['c04'],
        comp_names={104: 'scripts with snapshot transfer (real replicateTo -> sendLatestSnapshot, real installSnapshot handler) on a real cluster vs Model/ClusterSnap.v', 103: 'commitment scripts with takeSnapshot + compaction on a real cluster vs the composed cluster model (Model/ClusterCommit.v run_clustersnap)', 6: 'node sequence (appendEntries through processRPC on a stepper node)',
                    101: 'replication scripts on a real cluster vs the composed cluster model with logs (Model/ClusterLog.v)'},
        rule='(0) composed-model tie (component 101): 2-5 real servers (all goroutines, 1h timers; elections scripted as in C01 component 1) where a real leader stores entries through Apply, '
             'the REAL setupAppendEntries builds requests for arbitrary (nextIndex, lastIndex), heartbeats are built as replication.go does, and every request built so far can be executed by its '
             'target\'s real handler at any later time, repeatedly, out of order, after the sender was deposed; after each op every server\'s role/term/vote/last index AND FULL LOG, and the newest request, '
             'are diffed against Model/ClusterLog.v lstep; the Log Matching / monotone-terms monitor runs on the real logs after every op (200 scripts of 40-100 ops quick, 3000 thorough; the evidence '
             'lists how many deliveries appended, truncated at a conflict, were duplicates, stale or mismatched); (i) follower logs = every non-decreasing term sequence over {1,2,3} of length <=4 (35) x leader logs of length <=5 (56) x previous index 0..5 x 0..3 entries x '
             'LeaderCommit in {0,2,5} (thorough: all ~1.4e5; quick: 1/14 sample), a sample with a store failure at the 1st/2nd/3rd durable op or a crash cut, each request followed by '
             'its duplicate and a heartbeat; plus follower logs starting above a snapshot boundary. Compared: response, ordered store/FSM call trace, full state incl. log contents. '
             'Non-trivial = an AppendEntries succeeded, or a crash cut/panic happened',
        assumptions=['entry payload is a function of (index, term) in the generated logs (the log-matching premise)', 'protocol version 3'],
    ),
    'C01': dict(
        props_file='Props/C01.v',
        components=['c01'],
        comp_names={14: 'candidate loop: real main loop with scripted peers (configurations with non-voters)', 1401: 'candidate loop with a stable store that fails inside persistVote (nil vote channel)', 1: 'election scripts on a real cluster vs the composed cluster model (every RequestVote held twice: request and answer released by the script)', 6: 'node sequence incl. candidates (TimeoutNow) and electSelf', 1001: 'cluster churn histories', 1002: 'election races with held requests/responses', 1003: 'stale grants template'},
        rule='(0) composed-model tie: 2-5 real servers (all goroutines, 1h timers, pre-vote off) over a transport that holds every RequestVote call until the script delivers the request and, separately, the answer; adaptive scripts of timer firings, deliveries, lost answers, stray vote requests, restarts and injected AppendEntries; after each op role/term/vote record/last index of every server and the number of Leader transitions are diffed against Model/Cluster.v gstep; (i) node sequences over the C06 alphabet + TimeoutNow (candidate role) + follower-timeout decision, random failures/crash cuts, diffed against the model; '
             '(ii) real 3-5 server clusters (real goroutines, 1h timers, scripted network): election races with vote requests/responses held in flight and released in random order, '
             'the stale-grants template (A candidate for T with grants in flight, B wins T+1 with A\'s vote, then the grants arrive), and the general churn mix (partitions, crashes between durable writes, '
             'restarts, snapshots, transfers, duplicated/lost responses). Monitor: servers observed entering Leader state or sending AppendEntries/InstallSnapshot, grouped by term. '
             'Non-trivial = node sequence with a grant/crash, or history with a leader and an acknowledged write',
        assumptions=['cluster histories are real-goroutine runs: the schedule is sampled, not enumerated', 'election timers fired by the harness (VerifFireHeartbeatTimeout / VerifSetElectionTimeout)'],
        timeout={'quick': 900, 'thorough': 7200},
    ),
    'C14': dict(
        props_file='Props/C14.v',
        components=['c14'],
        comp_names={14: 'candidate loop: real main loop with scripted peers', 1401: 'candidate loop with a stable store that fails inside persistVote (nil vote channel)', 6: 'node sequences (pre-vote / vote handlers)', 1004: 'isolation and rejoin with real timers'},
        rule='(i) candidate sessions: one real server with its real main loop; every RequestPreVote/RequestVote call blocks until the script answers (grant / refuse / higher term / stale term / error), '
             'election timeouts forced through the hook; role, term, durable term and vote, advertised leader, transfer flag and the stable-store trace after each answer are diffed against the model of runCandidate; '
             'configurations: 3 and 5 voters, 3 voters + non-voter, single voter, self non-voter with TimeoutNow; pre-vote on/off. '
             '(ii) node sequences with pre-vote requests. (iii) real clusters with 60 ms timers: a minority (1-2 servers) isolated for 0.3-0.8 s then reconnected; monitors: isolated term unchanged, '
             'no RequestVote from the rejoiner, cluster term unchanged. Non-trivial = session with at least one answered request / history with a leader and an ack',
        assumptions=['answers are consumed by the loop in the order the script releases them (1.5 ms settle between answers)', 'real-timer scenarios depend on the machine keeping up with 5 ms heartbeats (run 4 at a time)'],
        timeout={'quick': 900, 'thorough': 7200},
    ),
    'C16': dict(
        props_file='Props/C16.v',
        components=['c16'],
        comp_names={16: 'pipeline scripts on a real NetworkTransport pair (sends / handler answers / handler errors / connection kills)', 1016: 'field fidelity of every RPC kind and no-stale-response scenarios (monitored)'},
        rule='(A, monitored) every RPC kind (AppendEntries, RequestVote, RequestPreVote, InstallSnapshot with streamed body, TimeoutNow, heartbeat fast path) with generated field values '
             '(nil/empty slices, large entries, extensions, timestamps, all log types, header variants) sent through a real NetworkTransport pair over an in-memory stream layer; request seen by the handler and response/error seen by the caller compared field by field; '
             '(B, compared with the Coq model) every pipeline script of sends, handler answers, handler errors and kills up to a bound plus random deeper scripts, run on a real AppendEntriesPipeline: per request, the tag of the response its future carried or error; '
             '(C, monitored) failed and timed-out exchanges on pooled connections followed by new exchanges: no caller ever receives a response that belongs to another request. Non-trivial = script with at least two requests in flight and an answer',
        assumptions=['in-memory StreamLayer (net.Pipe based) instead of TCP: tcp_transport.go is covered only through NewNetworkTransport', 'msgpack codec is not modelled: its prefix round-trip law is a hypothesis of the framing theorem, tested by part A'],
        timeout={'quick': 900, 'thorough': 7200},
    ),
    'C17': dict(
        props_file='Props/C17.v',
        components=['c17'],
        comp_names={17: 'API cells: one real server per cell (role x API x instant relative to Shutdown/step-down), caller wait under a watchdog'},
        rule='(T) Model/LoopTable.v is regenerated from the Go source (go/ast: select cases of runFollower/runCandidate/leaderLoop/runSnapshots/runFSM with the use made of the received future and the respond arguments, '
             'runLeader deferred flush, every API constructor: queue, shutdownCh case, ShutdownCh assignment, other escapes; channel capacities; deferError.Error select) and C17_table_ok is re-proved on it by computation. '
             '(cells) real servers (raft.NewRaft, all goroutines): API in {Apply, Apply with enqueue timeout, Barrier, VerifyLeader, AddVoter, BootstrapCluster, Snapshot, Restore, LeadershipTransfer, GetConfiguration} x '
             'role in {follower, candidate, leader, leader that cannot commit (futures parked in flight), leader with blocked FSM (futures queued for the FSM)} x buffered/unbuffered applyCh x '
             'instant in {running, racing Shutdown with 0-40 us skew, after completed Shutdown, leader deposed after the call, Shutdown after the call}; racing cells run in child processes (a panic is an observation). '
             'Compared: the error class is one the model allows for the cell (from the table for follower/candidate). Monitor: wait not returned within 1.5 s, process panic, anything but ErrRaftShutdown after a completed Shutdown. Non-trivial = call did not simply succeed',
        assumptions=['resolution "within bounded time while running" is measured under a 1.5 s watchdog on an otherwise idle server; fairness of the Go scheduler is not modelled',
                     'GetConfiguration is answered inline from local state and returns nil after Shutdown as well: not counted as a violation (it never blocks)'],
        timeout={'quick': 900, 'thorough': 7200},
    ),
    'C18': dict(
        props_file='Props/C18.v',
        components=['c18', 'c06'],
        comp_names={18: 'notification scripts on a real single-voter server (gain/lose leadership, reads of NotifyCh and LeaderCh)', 1801: 'overrideNotifyBool on a real 1-slot channel',
                    1018: 'unbuffered NotifyCh with a slow consumer (monitored)', 6: 'node sequences (advertised leader after every handler)', 1001: 'cluster churn histories', 1002: 'election races'},
        rule='(T) runLeader entry/exit notifications and setState->setLeader("","") are read from the Go AST into Model/LoopTable.v on every run and C18_table_ok is re-proved. '
             '(i) overrideNotifyBool via the tag-guarded wrapper on a real chan bool of capacity 1: every sequence over {override false, override true, receive} up to length 6 (thorough 8) + random long ones; '
             '(ii) real single-voter server: scripts of gain (heartbeat timeout) / lose (higher-term AppendEntries) / read NotifyCh / read LeaderCh, value read and role at rest after each op, diffed against the model; '
             '(iii) unbuffered NotifyCh with a consumer sleeping 0-1.5 ms per message over 6-11 forced transitions: monitors alternation, message count, last value = role, LeaderCh final value = role; '
             '(iv) node sequences (component 6, as C06/C01) compare the advertised leader after every handler incl. crash cuts; (v) cluster churn/election histories: monitor that a follower names only a server that led that term. '
             'Non-trivial = at least two leaderships in the script',
        assumptions=['transitions are forced by the harness (heartbeat timeout hook, higher-term AppendEntries); lease expiry and leadership transfer transitions are exercised only in the cluster histories',
                     'shutdown while a notification is pending is best effort by design (the property is stated for a running server)'],
        timeout={'quick': 900, 'thorough': 7200},
    ),
    'C15': dict(
        props_file='Props/C15.v',
        components=['c15'],
        comp_names={1015: 'FileSnapshotStore under a file-size limit (writes refused with EFBIG in Write or in the final flush of Close)', 15: 'file-system op program of the real FileSnapshotStore under strace', 1501: 'List/Open of a fresh real store on explicit (incl. corrupted) images', 1502: 'List/Open of a fresh real store on materialised crash images'},
        rule='(15) generated histories (1-5 snapshots, retain 1..3, arbitrary incl. equal and decreasing (term,index), sizes 0..300 bytes, cancelled and unfinished sinks, two sinks open at once) run on the real FileSnapshotStore in child processes under strace; '
             'the successful syscalls on the store directory, projected to the model alphabet (mkdir/create/write/fsync/rename/fsync-dir/unlink/rmdir with a boundary after every API call), must equal the model program. '
             '(1502) for every crash point k, surviving directory prefix j in [last fsync, k] and junk code (empty / half / unchanged / garbage appended / last synced content) the tree is materialised by REPLAYING THE OBSERVED SYSCALLS with their captured bytes, '
             'opened by a fresh real store: List and Open results compared with the model, and checked by monitors that state the property (listed => opens with the bytes written and was renamed; sorted, <= retain; Close returned nil => listed unless retain newer; cancelled/unrenamed => never listed). '
             '(1501) explicit images incl. corrupted metadata/state. Non-trivial = a Close returned nil / k > 0 / something listed',
        assumptions=['persistence model: ordered directory operations, fsync is a barrier, unsynced file content arbitrary (stated in Model/FileSnap.v)', 'CRC64 idealised as injective (the model compares contents)',
                     'sink writes below the 4096-byte bufio buffer (data reaches the file in Close/Cancel); RemoveAll unlink order canonicalised (the real order is also run through the monitors)',
                     'file system of the sandbox scratch directory; names term-index-msec kept distinct by 2 ms sleeps'],
        timeout={'quick': 900, 'thorough': 7200},
        crosscheck=60,
    ),
    'C13': dict(
        props_file='Props/C13.v',
        components=['c13'],
        comp_names={13: 'checkLeaderLease on a real leader state', 1301: 'ValidateConfig (timing part)', 1302: 'minCheckInterval', 1303: 'lease check interval at the minCheckInterval floor (contacts a few ms inside the lease)', 1005: 'leader isolated from its voter majority (real timers)', 1006: 'fault-free run (real timers)'},
        rule='checkLeaderLease on a real server put in Leader state with one followerReplication per peer whose lastContact is now-d, d on a grid of {0,.2,.4,.8,1.2,1.6,3,10} x lease (never within 20% of the boundary), '
             'for 7 configurations (1..5 servers, non-voters, staging, self non-voter): exhaustive up to 4 peers (5-server grid sampled in quick); compared: stepped down?, maxDiff and next interval in 20 ms buckets; '
             'ValidateConfig over 648 combinations of heartbeat/election/commit/lease; real clusters with 60 ms lease: leader cut off with fewer than a quorum (non-voters on its side), step-down delay measured against 2 x lease, '
             'write afterwards rejected; fault-free 1.5 s runs with 250 ms lease: no state change. Non-trivial: every case',
        assumptions=['clock readings of the implementation differ from the harness by the call latency: durations compared in 20 ms buckets, grid points 40 ms from any bucket edge',
                     'followerReplication struct literal re-stated in the hook VerifAddReplState', 'real-timer runs: 4 at a time, delay bound 2 x lease + 150 ms'],
        timeout={'quick': 900, 'thorough': 7200},
    ),
    'C10': dict(
        props_file='Props/C10.v',
        components=['c10'],
        comp_names={6: 'node sequences with a crash cut at every durable operation, restarted by the real NewRaft'},
        rule='5 base sequences (append+commit, append+truncate, vote+electSelf, snapshot install ahead of / behind the log) x crash cut after each durable op of each event (and uncut) x store flavour '
             '(plain, monotonic, commit-tracking + RestoreCommittedLogs) x TrailingLogs {0,2,100} x MaxAppendEntries {1,4} (quick: half sampled), each image restarted with the real NewRaft under a 2 s watchdog, then a '
             'restart, a follower-timeout decision and a vote probe; plus images with 3/20/140 committed entries, 0-2 snapshots (newest unreadable) under RestoreCommittedLogs. Compared: returns/error/panic/blocks, trace of '
             'store+FSM calls of NewRaft, full state. Monitor recomputes term, last log, latest configuration, coverage from the durable image. Non-trivial = a crash cut or panic happened',
        assumptions=['stores: atomic calls; CommitTrackingLogStore contract (staged commit index durable with the next StoreLogs)', 'a NewRaft that does not return within 2 s counts as blocked'],
        timeout={'quick': 900, 'thorough': 7200},
    ),
    'C02': dict(
        props_file='Props/C02.v',
        components=['c02'],
        comp_names={104: 'scripts with snapshot transfer (real replicateTo -> sendLatestSnapshot, real installSnapshot handler) on a real cluster vs Model/ClusterSnap.v', 102: 'commitment scripts on a real cluster vs the composed cluster model with commitment (Model/ClusterCommit.v)', 6: 'node sequences (every FSM call is in the compared trace)', 1001: 'cluster churn histories', 1007: 'stale tail + snapshot + leader change + new follower', 1009: 'growing a single-voter cluster', 1013: 'Figure 8 on five servers (old-term entries on a majority, nothing of the new term; then overwritten)'},
        rule='(0) composed-model tie (component 102): 2-5 real servers (all goroutines, 1h timers, pre-vote off, elections scripted as in C01 component 1); a real leader stores entries through Apply; the REAL replicateTo(follower, lastIndex) is run by the script in its own goroutine: it builds the request from the follower\'s real nextIndex and blocks in the transport; any request built so far is executed by its target\'s real handler at any later time (repeatedly, out of order, after the sender was deposed); the follower\'s real answer to the blocked request is returned to replicateTo, whose REAL code processes it (handleStaleTerm / updateLastAppended -> commitment.match / nextIndex back-off) or the call is made to fail; the REAL leader loop then advances the commit index and the REAL FSM goroutines apply; after each op every server\'s role/term/vote/last index/COMMIT INDEX/APPLIED INDEX/FSM CONTENT/FULL LOG, every leader\'s nextIndex per follower and the newest request are diffed against Model/ClusterCommit.v cstep; monitors on the real state after every op: FSM histories prefix-equal across servers, committed entries equal across servers, every leader of a term >= a server\'s term holds what that server knows committed, applied <= commit <= last index (100 scripts of 50-120 ops quick, 1500 thorough); (i) the C10 crash/restart node sequences (FSM Apply/Restore/StoreConfiguration calls are part of the trace diffed against the model); (ii) real clusters: churn mix (partitions, crash cuts, restarts, snapshots, '
             'transfers, duplicated/lost responses) the snapshot + leader-change family with per-server TrailingLogs reload and a brand-new follower, and the Figure-8 family (content filter on one link: a follower is given only the old-term entries); monitors on every FSM call of every server: same entry at an index everywhere, '
             'increasing without gap or repeat per instance, applied => durably on a voter majority at that instant. Non-trivial = history with a leader and an ack / sequence with crash cut',
        assumptions=['cluster histories are sampled schedules', 'payload ids are unique per Apply call'],
        timeout={'quick': 900, 'thorough': 7200},
    ),
    'C12': dict(
        props_file='Props/C12.v',
        components=['c12'],
        comp_names={104: 'scripts with snapshot transfer (real replicateTo -> sendLatestSnapshot, real installSnapshot handler) on a real cluster vs Model/ClusterSnap.v', 1011: 'takeSnapshot racing further applies (log contiguous above the snapshot)', 12: 'leader-side catch-up: real replicateTo on a stepper leader against a scripted follower', 1201: 'both sides real: a stepper leader and a stepper follower joined by a transport, one replicateTo call, vs the composed model (Converge.v)', 6: 'InstallSnapshot then AppendEntries on followers in enumerated stale/divergent/compacted states', 1007: 'stale tail + snapshot + leader change', 1008: 'convergence after a fault period (real timers)'},
        rule='(i) follower log length 1..6 (stale term-2 tail or agreeing with the leader), snapshot index 2..7, both store kinds, TrailingLogs {0,1,100}: InstallSnapshot, the AppendEntries that follows it, a heartbeat, restart '
             '(432 cases, exhaustive in both tiers), diffed against the model; monitor: after an installed snapshot the following AppendEntries is accepted. (ii) real clusters: family 7; family 8 = 200-500 ms of partitions/stops/snapshots '
             'with 60 ms timers, then quiet: one leader, a write accepted and every member caught up within 20 election timeouts + 0.5 s, with an InstallSnapshot-repeat counter. Non-trivial: every case',
        assumptions=['real-timer scenarios: 4 at a time; bound 20 x ElectionTimeout + 500 ms wall clock'],
        timeout={'quick': 900, 'thorough': 7200},
    ),
    'C03': dict(
        props_file='Props/C03.v',
        components=['c03'],
        comp_names={104: 'scripts with snapshot transfer (real replicateTo -> sendLatestSnapshot, real installSnapshot handler) on a real cluster vs Model/ClusterSnap.v', 102: 'commitment scripts on a real cluster vs the composed cluster model with commitment (Model/ClusterCommit.v)', 8: 'leader sequences', 1001: 'cluster churn histories', 1002: 'election races'},
        rule='(0) composed-model tie (component 102): 2-5 real servers (all goroutines, 1h timers, pre-vote off, elections scripted as in C01 component 1); a real leader stores entries through Apply; the REAL replicateTo(follower, lastIndex) is run by the script in its own goroutine: it builds the request from the follower\'s real nextIndex and blocks in the transport; any request built so far is executed by its target\'s real handler at any later time (repeatedly, out of order, after the sender was deposed); the follower\'s real answer to the blocked request is returned to replicateTo, whose REAL code processes it (handleStaleTerm / updateLastAppended -> commitment.match / nextIndex back-off) or the call is made to fail; the REAL leader loop then advances the commit index and the REAL FSM goroutines apply; after each op every server\'s role/term/vote/last index/COMMIT INDEX/APPLIED INDEX/FSM CONTENT/FULL LOG, every leader\'s nextIndex per follower and the newest request are diffed against Model/ClusterCommit.v cstep; monitors on the real state after every op: FSM histories prefix-equal across servers, committed entries equal across servers, every leader of a term >= a server\'s term holds what that server knows committed, applied <= commit <= last index (100 scripts of 50-120 ops quick, 1500 thorough); leader sequences: a real server booted from an image, put in Leader state (setState + setupLeaderState, no replication goroutines) and driven from one goroutine through dispatchLogs (commands, barriers, no-ops, batches of 1-3, a failing StoreLogs), commitment.match reports of voters and non-voters, the commit processing of leaderLoop with the real FSM goroutine (plain and batching FSM), appendConfigurationEntry + the gate, restoreUserSnapshot (index below/at/above the log, wrong size), verifyLeader; after every op: resolved futures (index, error, response), ordered store/FSM trace and the full node + commitment state are diffed against the model (1500 random sequences in quick, 30000 in thorough); ' + 'cluster histories: churn and election races; monitors: every new leader holds every acknowledged/applied entry, an applied entry a server holds is never replaced or deleted, commit index never on an old-term entry without an own-term entry. Non-trivial = sequence with a commit step / history with leader and ack',
        assumptions=['cluster histories are sampled schedules'],
        timeout={'quick': 900, 'thorough': 7200},
    ),
    'C08': dict(
        props_file='Props/C08.v',
        components=['c08'],
        comp_names={102: 'commitment scripts on a real cluster vs the composed cluster model with commitment (Model/ClusterCommit.v): Apply futures observed', 8: 'leader sequences', 1011: 'barrier behind a slow FSM', 1001: 'cluster churn histories'},
        rule='leader sequences: a real server booted from an image, put in Leader state (setState + setupLeaderState, no replication goroutines) and driven from one goroutine through dispatchLogs (commands, barriers, no-ops, batches of 1-3, a failing StoreLogs), commitment.match reports of voters and non-voters, the commit processing of leaderLoop with the real FSM goroutine (plain and batching FSM), appendConfigurationEntry + the gate, restoreUserSnapshot (index below/at/above the log, wrong size), verifyLeader; after every op: resolved futures (index, error, response), ordered store/FSM trace and the full node + commitment state are diffed against the model (1500 random sequences in quick, 30000 in thorough); ' + 'cluster histories: Barrier behind a slow FSM (0.2-1.7 ms per Apply, buffered and unbuffered applyCh), churn with concurrent clients; monitors: response = FSM answer for the own payload, acknowledged index above all earlier acks, at most once per FSM and at the acknowledged index, definitely-failed commands never stored, Barrier returns after every earlier command reached the local FSM',
        assumptions=['payload ids unique per Apply call', 'ErrEnqueueTimeout rests on Go select semantics'],
        timeout={'quick': 900, 'thorough': 7200},
    ),
    'C09': dict(
        props_file='Props/C09.v',
        components=['c09'],
        comp_names={8: 'leader sequences (verifyLeader registration and counters)', 1010: 'VerifyLeader under partitions, lost and held answers'},
        rule='leader sequences: a real server booted from an image, put in Leader state (setState + setupLeaderState, no replication goroutines) and driven from one goroutine through dispatchLogs (commands, barriers, no-ops, batches of 1-3, a failing StoreLogs), commitment.match reports of voters and non-voters, the commit processing of leaderLoop with the real FSM goroutine (plain and batching FSM), appendConfigurationEntry + the gate, restoreUserSnapshot (index below/at/above the log, wrong size), verifyLeader; after every op: resolved futures (index, error, response), ordered store/FSM trace and the full node + commitment state are diffed against the model (1500 random sequences in quick, 30000 in thorough); ' + 'cluster histories: 3/5 voters + 1-2 non-voters; the leader is cut off from 1..all other voters (link down / answers lost / answers held and released later), optionally after the others elected a new leader; VerifyLeader before and after; monitor: success only if a voter majority answered exchanges handed to the caller inside the call window and sent after the call',
        assumptions=['the monitor treats an answer handed to the leader up to 60 history events before the call as possibly still in flight inside the replication goroutine'],
        timeout={'quick': 900, 'thorough': 7200},
    ),
    'C20': dict(
        props_file='Props/C20.v',
        components=['c20'],
        comp_names={8: 'leader sequences (restoreUserSnapshot)', 1012: 'Restore racing Apply / AddVoter with lagging followers'},
        rule='leader sequences: a real server booted from an image, put in Leader state (setState + setupLeaderState, no replication goroutines) and driven from one goroutine through dispatchLogs (commands, barriers, no-ops, batches of 1-3, a failing StoreLogs), commitment.match reports of voters and non-voters, the commit processing of leaderLoop with the real FSM goroutine (plain and batching FSM), appendConfigurationEntry + the gate, restoreUserSnapshot (index below/at/above the log, wrong size), verifyLeader; after every op: resolved futures (index, error, response), ordered store/FSM trace and the full node + commitment state are diffed against the model (1500 random sequences in quick, 30000 in thorough); ' + 'cluster histories: Restore with snapshot index in {0,1,last-1,last,last+1,last+10} while writes are in flight (answers of a follower held), an AddVoter pending, a follower partitioned, gap-tolerant and monotonic stores; monitors: later acknowledged indices above the burned index, aborted calls never applied by a server after it took over the restored state, plus the C02/C04 stream monitors',
        assumptions=['user snapshot content = two payload ids'],
        timeout={'quick': 900, 'thorough': 7200},
    ),
}
