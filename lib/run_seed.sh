#!/bin/bash
# usage: run_seeds.sh ID [checks...]  — apply seeded/ID/patch.diff to /repo, run the checks (quick), revert
cd /verif
ID=$1; shift
CHECKS=${@:-$ID}
git -C /repo apply /verif/seeded/$ID/patch.diff || { echo "SEED $ID: patch does not apply"; exit 2; }
for c in $CHECKS; do
  echo "== seed $ID check $c"
  ./check $c --tier quick 2>&1 | grep -E "VIOLATION|KNOWN|tier=" | cut -c1-300
done
git -C /repo checkout -- .
# the evidence files were rewritten by runs on the seeded tree: restore the committed ones (evidence comes from clean-tree runs only)
git -C /verif checkout -- evidence 2>/dev/null
git -C /repo status --short | head -3
