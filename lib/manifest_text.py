# Wording of MANIFEST.json per property.
HOOK_COMMITS = ['7bf3a7c']
NOT_YET = {}
TEXT = {
 'C19': dict(
  level='Machine-checked theorem (Coq): for ANY wrapped store whose StoreLogs is all-or-nothing and whose GetLog is a function of stored state, '
        'any capacity and any operation sequence of any length, LogCache returns exactly what the wrapped store alone returns '
        '(C19_logcache_transparent, full strength, no bound). The Gallina model of log_cache.go is tied to /repo on every run by running the real '
        'raft.LogCache and the model on the same op sequences (exhaustive small scope + random) and by the property monitor (cache vs bare store) on the implementation.',
  note='Trusted: Coq kernel; extraction (ExtrOcamlBasic only) cross-checked in-Coq; harness MapLogStore as the reference store; hypothesis: failed StoreLogs has no effect '
       '(shown necessary by C19_atomic_failure_needed); no transient GetLog errors; errors compared as ok/error.',
  technique='Coq proof (simulation invariant over op sequences) + differential correspondence model vs real LogCache',
 ),
}
