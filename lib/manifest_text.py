# Wording of MANIFEST.json per property.
HOOK_COMMITS = ['7bf3a7c', 'e0ec659', '7eca066', '5972264', '8be5f35', '681a228', '7d71785']
NOT_YET = {}
TEXT = {
 'C19': dict(
  level='Machine-checked theorem (Coq): for ANY wrapped store whose StoreLogs is all-or-nothing and whose GetLog is a function of stored state, '
        'any capacity and any operation sequence of any length, LogCache returns exactly what the wrapped store alone returns '
        '(C19_logcache_transparent, full strength, no bound). The Gallina model of log_cache.go is tied to /repo on every run by running the real '
        'raft.LogCache and the model on the same op sequences (exhaustive small scope + random) and by the property monitor (cache vs bare store) on the implementation. Component 1019 (monitored only): a GetLog held after the backend answered while the suffix is deleted and rewritten; afterwards the cache must answer like the store again.',
  note='Trusted: Coq kernel; extraction (ExtrOcamlBasic only) cross-checked in-Coq; harness MapLogStore as the reference store; hypothesis: failed StoreLogs has no effect '
       '(shown necessary by C19_atomic_failure_needed); no transient GetLog errors; errors compared as ok/error.',
  technique='Coq proof (simulation invariant over op sequences) + differential correspondence model vs real LogCache',
 ),
 'C05': dict(
  level='Machine-checked theorems (Coq) over the model of commitment.go for ANY configuration, cluster size, start index and ANY sequence of match reports / '
        'configuration changes: the median-of-sorted index is exactly the largest index matched by a strict majority (C05_quorum_index_spec); a non-zero commit index '
        'is >= startIndex and was matched by a strict majority of the voter slots in force when set (C05_commit_sound); slots exist exactly for voters, one per id, '
        'and hold only values reported for that id; reports for non-voters change nothing; commit index monotone; follower min(LeaderCommit,lastIndex) only upward and <= last index. '
        'Tie: real commitment driven through the tag-exported wrapper on exhaustive small tables + random op sequences, diffed against the extracted model; '
        'the property monitor (majority of current voters really reported >= commit, >= startIndex, monotone) runs on the implementation. '
        'Partial: that the reporting voters durably hold the entries is the handler-level store-before-ack order (checked in the node-sequence tie), the global "still hold it" part needs leader completeness. COMPOSED MODEL WITH COMMITMENT (Model/ClusterCommit.v: answers travelling back, nextIndex per follower, one outstanding call, commitment.match, leader-loop commit, FSM apply) tied by component 102: scripts on REAL clusters in which the real replicateTo runs (driven by the script, blocked in the transport), requests are executed by the followers\' real handlers at any later time, and after every op commit index, applied index, FSM content, full logs and every leader\'s nextIndex are diffed against the model; monitors on the real state: FSM histories prefix-equal, committed entries equal across servers, leaders hold what others know committed. The proof attempt over this model found defect F11 (a follower committed over log entries the request did not vouch for; replayed on real servers, fixed in /repo a641560).',
  note='Trusted: Coq kernel, extraction cross-checked in Coq, harness. Leader/follower call sites of match are tied through the node-sequence and cluster components, not this one.',
  technique='Coq proof (sorting/counting lemma + invariant over op sequences) + exhaustive differential tables against real commitment',
 ),
 'C06': dict(
  level='Machine-checked theorems (Coq) over the model of one server (NewRaft recovery, requestVote, requestPreVote, appendEntries, installSnapshot, timeoutNow, electSelf) for '
        'EVERY event sequence, EVERY store-failure pattern and EVERY crash cut between two durable writes followed by restart, from ANY durable image with voteTerm <= term: '
        'at most one candidate is granted per term over the whole history (C06_one_vote_per_term); a vote is cast only for the request being handled after the log up-to-date and '
        'voter-membership checks; Granted is answered only with the record (term,candidate) durable; durable term never decreases, also across restarts (C06_every_step). '
        'Tie: real servers booted with NewRaft from enumerated images and driven through processRPC/electSelf with injected failures and crash cuts; response, ordered store-call trace '
        'and full projected state after each event are diffed against the extracted model, and the property monitors run on the implementation. '
        'A genuine defect (F1: vote term persisted before candidate) was found by this check and repaired (fix: commit in /repo).',
  note='Trusted: Coq kernel; harness stores (atomic calls, failed call has no effect); SetUint64(CurrentTerm) failure = panic = crash. Protocol version 3 only.',
  technique='Coq proof (invariants over event histories with crash cuts) + differential node-sequence correspondence with failure/crash enumeration',
 ),
 'C07': dict(
  level='Machine-checked theorems (Coq) over the model of configuration.go for ANY configuration and ANY request: an accepted change yields >=1 voter and unique non-empty ids/addresses, '
        'changes the vote/membership of at most the one server it names, a stale prevIndex is rejected, majorities of two successive configurations intersect (pigeonhole proof), '
        'quorumSize is a strict majority of voters only, commitment slots ignore non-voters. Tie: real nextConfiguration/checkConfiguration/hasVote/inConfiguration/quorumSize vs extracted model, '
        'exhaustive on a small universe incl. ill-formed configurations; monitors on the implementation (no aliasing of the input, voter-set distance <= 1, well-formedness recomputed independently). '
        'Partial: the leader-loop gate (previous configuration committed + own-term entry committed) and "never elected" are checked by the cluster/gate components as they are added; the global '
        '"no log holds two uncommitted configurations" needs leader completeness and is not proved. The commitment tables (non-voters never counted, also after demotions: setConfiguration sequences) and the vote-round monitors of the candidate sessions are part of this check.',
  note='Trusted: Coq kernel; harness naming of ids/addresses. Errors compared as ok/error.',
  technique='Coq proof (list lemmas, pigeonhole) + exhaustive differential enumeration against real nextConfiguration',
 ),
 'C11': dict(
  level='Machine-checked theorems (Coq): for ALL first/snapshot/last/TrailingLogs values the compaction range starts at the first index, ends at or below the snapshot index and leaves at least TrailingLogs entries, and is maximal; the reset on monotonic stores removes exactly what the store holds; '
        'takeSnapshot (model tied to the real takeSnapshot) records exactly the FSM goroutine\'s last index and term, the COMMITTED configuration with its index and the FSM content, at an index not below the committed configuration\'s, and afterwards the log has lost at most one range entirely at or below the snapshot index leaving TrailingLogs entries (C11_snapshot_records_committed_state); it is refused while the committed configuration entry has not reached the FSM. '
        'Tie: real compactLogsWithTrailing exhaustive 0..8^4; node sequences with takeSnapshot events incl. crash cuts (snapshot metadata, content and log diffed; monitors); a snapshot racing a configuration commit with the FSM held at a gate (monitored). '
        'PARTIAL: the global statement "every index <= last is covered by the newest snapshot or present in the log" across InstallSnapshot is monitored, not proved, and has the known finding F3-ii (stale entries kept below an installed snapshot); concurrent interleavings of the snapshot goroutine are monitored (the model is sequential). Component 1011 (takeSnapshot racing applies: log contiguous above the snapshot) and component 1015 (the snapshot store under a file-size limit: a failed Close is never reported as success) are part of this check.',
  note='Trusted: Coq kernel; harness store FirstIndex semantics (least key); the gate placed in the harness FSM for the race component.',
  technique='Coq proof (compaction arithmetic; takeSnapshot characterisation) + exhaustive differential sweep of compactLogsWithTrailing + differential node sequences with snapshots + monitored snapshot/configuration race',
 ),
 'C04': dict(
  level='Machine-checked theorems (Coq). CLUSTER LEVEL, ALL RUNS (C04_log_matching_all_runs): over the transition system of Model/ClusterLog.v - any number of servers starting from prefixes of one history, '
        'elections (vote requests delayed, duplicated, lost), stray vote requests, restarts, TimeoutNow, leaders storing entries through dispatchLogs, AppendEntries built by setupAppendEntries for ANY nextIndex/lastIndex and '
        'executed by their targets late, repeatedly, out of order or never, heartbeats, a store failure or crash cut at any durable operation of any handler - every reachable state satisfies Log Matching (same index and term '
        '=> identical entries at every index both retain up to there) and terms never decrease within a log; also with takeSnapshot + compaction at any time (C04_log_matching_all_runs_with_snapshots, from states whose commit indices '
        'are backed by a common prefix; C04_log_matching_needs_backed_commit_index shows the condition is needed). HANDLER LEVEL for EVERY follower state and request with consecutive indices: nothing at or below prev changes, removal '
        'only from the first conflict, success => the entries sent are held and the previous entry matched (C04_append_entries, C04_success_prev_matched). '
        'Tie: replication scripts on REAL 2-5 server clusters diffed state-by-state (full logs) against the cluster model (component 101), with the Log Matching monitor on the real logs; the bounded enumeration of '
        'follower log x request on real servers through processRPC with failures and crash cuts. PARTIAL: InstallSnapshot and user Restore are outside the cluster system (with InstallSnapshot the statement is false on this '
        'code: known finding F3-ii, monitored); membership changes beyond intersecting-quorum configurations are outside.',
  note='Trusted: Coq kernel; harness stores; the cluster model over-approximates the replication goroutine (any nextIndex); request entries have consecutive indices (the handler does not check this). '
       'Defect F10 (stale cached last log after a failed StoreLogs that followed a conflict truncation: retries refused for ever, success answered above a hole) was found by the proof effort, reproduced on the real code and repaired (fix: commit 868c55d).',
  technique='Coq proof (invariant with a ghost chain of created entries over all cluster runs; induction over request entries) + differential correspondence on real clusters and exhaustive bounded enumeration of appendEntries',
 ),
 'C01': dict(
  level='Machine-checked theorems (Coq). COMPOSED STATEMENT (C01_election_safety): over the cluster transition system of Model/Cluster.v - any number of servers in any well-formed start state, their candidate loops and RPC handlers (the node model tied to the code), '
        'a network that executes a vote request late, repeatedly or never and delivers at most one answer per runCandidate invocation and peer, any other RPC / stray vote request / TimeoutNow / restart at any server, store failures and crash cuts inside the handlers - '
        'no run has two servers become leader of the same term, for elections held under one configuration and for elections that straddle one membership change (held under either of two successive configurations: C01_election_safety_across_membership_change). Ingredients also stated separately: at most one vote per term per server over ANY history (C06), majorities of one and of two successive configurations intersect, quorumSize is a strict majority. '
        'PARTIAL: chains of several uncommitted membership changes are not covered (the code serialises changes, C07); pre-vote rounds are abstracted (they only gate electSelf, C14); store failures inside electSelf are covered at node level, not in the composed system. '
        'Tie: election scripts on REAL 2-5 server clusters (every RequestVote held until the script delivers the request and, separately, the answer; lost answers, stray requests, restarts, injected AppendEntries) diffed state-by-state against the composed model; node sequences; real-cluster election races with monitors. The candidate loop against scripted peers (component 14, configurations with non-voters; monitors requestvote-sent-to-non-voter / leader-without-vote-quorum-of-voters) is part of this check.',
  note='Trusted: Coq kernel; harness (scripted transport, stores); the transport contract stated in Model/Cluster.v (one answer per call) - checked only in so far as the election scripts exercise it.',
  technique='Coq proof (cluster invariant: tally witnesses + per-voter functional grant tables + quorum intersection, by induction over runs) + differential election scripts on real clusters + node sequences + monitored election races',
 ),
 'C14': dict(
  level='Machine-checked theorems (Coq) over the model of runCandidate + handlers: with pre-vote enabled and a configuration needing >= 2 votes, ANY number of election timeouts and ANY sequence of failed/refused '
        'pre-vote answers produce no durable write at all, so the term never grows (C14_isolated_term_constant); the term bump starts only on a granted pre-vote completing the quorum; a pre-vote request changes nothing, '
        'is refused while a leader is known and is granted only to a log that is not behind; a RequestVote without the transfer flag is refused without state change while a leader is known. '
        'Tie: the real main loop with scripted peers (every pre-vote/vote answer chosen by the script, forced election timeouts) diffed against the model; node sequences; real clusters with real timers. '
        'PARTIAL: how long a reconnected server takes to hear the leader, and the behaviour of mixed pre-vote/non-pre-vote clusters ("unexpected command" counted as a grant is modelled in the transport script but not covered by the theorem), are runtime/measured.',
  note='Trusted: Coq kernel; the scripted transport and the election-timeout hook; Go scheduler delivering each released answer to the loop before the next one (1.5 ms apart).',
  technique='Coq proof (invariant over candidate sessions) + differential correspondence of the real candidate loop with scripted peers + monitored real-timer clusters',
 ),
 'C16': dict(
  level='Machine-checked theorems (Coq) over the model of netPipeline (inprogressCh FIFO + single decoder, in-band handler errors, connection kill) for ANY script of sends, answers, handler errors and kills at any depth: '
        'a future that carries a response carries the response to its own request; responses arrive in send order; nothing sent before or after a connection failure receives a response once the connection died; '
        'and, for any codec whose decoder reads exactly one encoded message off the front of a stream, frames written back to back are read back whole and in order. '
        'Tie: scripts (exhaustive up to a bound + random deep ones) on a real NetworkTransport AppendEntriesPipeline diffed against the model. PARTIAL: field fidelity of the msgpack codec itself (every field of every RPC kind, streamed snapshot bodies), '
        'pooled-connection reuse after errors and timeouts are not modelled (third-party codec, goroutines, deadlines); they are checked by generated-value monitors (field-by-field comparison both directions, no-stale-response scenarios), not proved. Pairs whose two ends use different MsgpackUseNewTimeFormat settings are included (decoding accepts both formats).',
  note='Trusted: Coq kernel; the in-memory stream layer of the harness (net.Pipe) in place of TCP; the measured codec conflations treated as equal are exactly nil~empty byte slices and Entries, times compared by instant.',
  technique='Coq proof (FIFO pairing invariant; framing over an abstract prefix codec) + differential pipeline scripts on the real transport + generated-value fidelity monitors',
 ),
 'C17': dict(
  level='Machine-checked theorems (Coq) over the life-cycle model of a future and the table GENERATED from the Go source on every run: for every API constructor and ANY interleaving of the call, loop steps, commits, step-downs, Shutdown() and goroutines leaving, '
        'a future is never stranded (either the caller\'s Error() returns or a forward step is enabled - C17_never_stranded), it is resolved once the goroutines are gone (C17_resolved_after_shutdown), it takes at most 6 forward steps; the ShutdownCh escape is shown necessary for buffered queues (C17_refuted_without_shutdownch, the pinned tree\'s defect F5, repaired by a fix: commit). '
        'C17_table_ok (every loop serves every queue and uses the future, tracked sets are flushed on step-down, enqueue selects have the shutdownCh case, buffered/FSM-bound futures carry ShutdownCh) is decided by computation on the regenerated table. '
        'Tie: the translator (go/ast) + ~1000 (quick) real-server cells per run. PARTIAL: "within bounded time while the server runs" needs scheduler fairness and is measured (1.5 s watchdog), not proved; which error a leader returns is re-stated in the model for leaders (from the table for followers/candidates).',
  note='Trusted: Coq kernel; the go/ast translator go/gotables (~400 lines); the cells harness. Two defects found by this check and repaired: F5 (futures without ShutdownCh) and F9 (Restore racing Shutdown panicked the process).',
  technique='Coq proof (invariant + rank over the future life cycle; table conditions by computation) over a table translated from the Go AST + real-server API cells under a watchdog',
 ),
 'C18': dict(
  level='Machine-checked theorems (Coq): for ANY sequence of gains and losses of leadership and ANY consumer speed, NotifyCh delivers a strictly alternating true,false,true,... sequence with exactly one message per transition; at rest the last value delivered equals whether the server is leader; '
        'LeaderCh holds the most recent transition (or the consumer\'s last read was it) - over the model of runLeader whose notification program is READ FROM THE GO SOURCE on every run (C18_table_ok); '
        'and over ANY history of RPCs, elections, store failures, crash cuts and restarts a running follower advertises only the sender of an AppendEntries/InstallSnapshot of its CURRENT term (C18_advertised_leader, on the node model tied to real servers). '
        'PARTIAL: "that sender really was leader of the term" is C01 (cluster-level part monitored on real histories); best-effort delivery during Shutdown is outside the statement.',
  note='Trusted: Coq kernel; go/gotables translator; harness. elections are assumed to start from the candidate loop (electSelf has no other caller) - hypothesis elects_ok of the theorem.',
  technique='Coq proof (invariant over notification runs; advertised-leader invariant over node histories) + table translated from the Go AST + differential scripts on a real server and on overrideNotifyBool + monitored slow consumers and cluster histories',
 ),
 'C15': dict(
  level='Machine-checked theorems (Coq) over the model of FileSnapshotStore and a file system with a stated persistence model, for EVERY history of Create/Write/Close/Cancel (any (term,index) order, sizes, concurrent sinks), every RemoveAll unlink order, every crash point, every surviving directory prefix allowed by the fsyncs and EVERY content of un-synced files: '
        'whatever List returns opens with exactly the bytes written (checksum verified), carries its own (term,index), came from a Close and was renamed before the crash; the list is newest-first, duplicate-free and at most retain long; a snapshot whose Close returned nil is listed unless retain listed snapshots are all newer (retention never removes the newest); cancelled or not-yet-renamed snapshots are never listed; Open returns only bytes covered by the metadata checksum. '
        'Tie: the file-system op program of the real store captured by strace equals the model program; ~22000 (quick) materialised crash images rebuilt from the captured syscalls and ~3000 explicit/corrupted images are opened by a fresh real store and compared with the model; monitors state the property on the real outputs. '
        'PARTIAL/assumed: the persistence model (ordered directory operations, fsync as barrier, un-synced content arbitrary) is a statement about the platform; CRC64 is idealised as injective; sink writes stay below the 4096-byte bufio buffer in the tie. Component 1015 injects I/O failures (RLIMIT_FSIZE: the state file\'s write is refused inside Write or only in Close\'s final flush): Close returned nil => listed and readable; failed Close => not listed.',
  note='Trusted: Coq kernel; strace + its parser; the persistence model in Model/FileSnap.v. Proofs/FileSnapA..J.v were written by a sub-agent against fixed model and statement files, then compiled and grep-checked here.',
  technique='Coq proof (prefix invariant over the op program + retained-set argument for reaping) + strace-based differential op program + materialised crash images on the real store',
 ),
 'C13': dict(
  level='Machine-checked theorems (Coq) over the model of checkLeaderLease and the lease timer arithmetic, for ANY configuration and contact times: the check steps down exactly when fewer than quorumSize voters '
        '(leader included, non-voters never counted) were heard within the lease; once too few voters answer after t0, every check after t0+lease steps down; checks are between 10 ms and one lease apart, so step-down happens within '
        't0 + 2 x lease + scheduling latency (a parameter); a leader whose majority keeps answering within the lease is never deposed; ValidateConfig gives lease <= heartbeat <= election. '
        'Tie: real checkLeaderLease on a stepper leader over a grid of contact ages x 7 configurations, ValidateConfig enumeration, the 10 ms constant, and real-timer clusters measuring the step-down delay and a fault-free run. '
        'PARTIAL: scheduler latency and that heartbeats arrive within the lease in a fault-free cluster are runtime behaviour (hypotheses of the theorems), measured not proved. The isolated leader is also kept busy by client calls (Apply/VerifyLeader/GetConfiguration every lease/25): the lease check must not be starved.',
  note='Trusted: Coq kernel; wall clock of the sandbox for the real-timer scenarios; the leaderLoop interval formula max(lease-maxDiff, 10ms) is re-stated in the harness (the loop is not callable) and exercised in the real-timer runs.',
  technique='Coq proof (counting lemma + timed-sequence argument) + differential grid on checkLeaderLease + measured real-timer clusters',
 ),
 'C10': dict(
  level='Machine-checked theorems (Coq) over the model of NewRaft (recover) for ANY durable image: if it returns, the server is a Follower with exactly the durable state found, the cached tail is the last entry of the '
        'log store, the snapshot is the newest usable one, the FSM holds exactly that snapshot (plus, with RestoreCommittedLogs, log(snapshot, min(stagedCommit,last)] replayed in index order, each once - C10_replay_in_order); '
        'a restarted server satisfies the vote/term well-formedness of C06, so the C06 history theorems hold across restarts. Tie: every image reached along crash-cut sequences in three store flavours is restarted with the real NewRaft '
        'under a watchdog and diffed against the model (returns/error/panic/blocks, trace, state); monitor recomputes the expected state from the image. '
        'One defect repaired (fix: configuration scan start, F4a), one recorded as KNOWN-FINDING (F4b: >128 committed batches block NewRaft; the model proves it: C10_refuted_blocks). '
        'PARTIAL: "rejoins and catches up without breaking any safety property" is the other properties; "NewRaft returns" is proved only as the characterisation of when the model does not panic/block.',
  note='Trusted: Coq kernel; harness stores and watchdog.',
  technique='Coq proof (characterisation of recover; replay order) + differential restart of every crash-cut image',
 ),
 'C02': dict(
  level='Machine-checked theorems (Coq). ALL SERVERS, ALL RUNS (C02_state_machine_safety_all_runs): in every reachable state of the cluster transition system with commitment (Model/ClusterCommit.v: elections, dispatchLogs, replicateTo from each follower\'s nextIndex, requests and answers delayed/duplicated/reordered/lost, commitment.match, leader-loop commit, restarts, store failures and crash cuts in every handler) two running servers hold the same entry at every index both know committed and lastApplied <= commitIndex <= lastIndex - from a freshly booted cluster, without proposed configuration entries and without forged vote requests (shown necessary). PARTIAL beyond that (snapshots, InstallSnapshot - false on this code: F3-ii -, membership changes, RestoreCommittedLogs are monitored). ONE SERVER: whatever commit index reaches processLogs, the FSM is handed exactly log(lastApplied, index] in increasing index order, each entry once, an index at or below '
        'lastApplied is never applied again, start-up restores exactly the newest usable snapshot. The clauses outside the composed system are checked on every FSM call of real cluster histories by monitors. Those monitors found a genuine defect (F3-ii, KNOWN-FINDING: stale entries kept below an installed snapshot are later served to a new follower and applied) '
        'and a deviation in how configuration entries are counted (F8, KNOWN-FINDING). COMPOSED MODEL WITH COMMITMENT (Model/ClusterCommit.v: answers travelling back, nextIndex per follower, one outstanding call, commitment.match, leader-loop commit, FSM apply) tied by component 102: scripts on REAL clusters in which the real replicateTo runs (driven by the script, blocked in the transport), requests are executed by the followers\' real handlers at any later time, and after every op commit index, applied index, FSM content, full logs and every leader\'s nextIndex are diffed against the model; monitors on the real state: FSM histories prefix-equal, committed entries equal across servers, leaders hold what others know committed. The proof attempt over this model found defect F11 (a follower committed over log entries the request did not vouch for; replayed on real servers, fixed in /repo a641560).',
  note='Trusted: Coq kernel; harness. The known findings are reported as KNOWN-FINDING lines and keyed by a diagnosis in the signature, other violations of the same monitors are still reported.',
  technique='Coq proof (cluster-level invariant over all runs; processLogs stream order) + differential commitment scripts on real clusters + node sequences + monitored real-cluster histories',
 ),
 'C12': dict(
  level='PARTIAL. Machine-checked theorems (Coq): (follower) after a successful InstallSnapshot the AppendEntries whose previous entry is the snapshot boundary is accepted whatever stale/divergent/compacted log the follower held (the pinned tree violated this: F3-i, repaired); '
        '(leader, Model/Replicate.v) a rejected AppendEntries strictly lowers nextIndex while above 1 and to at most the follower\'s last index + 1, an accepted one raises it past what was sent and reports that index, a successful InstallSnapshot moves it past the snapshot; '
        '(BOTH SIDES COMPOSED, Model/Converge.v - C12_catch_up_converges) for ANY hole-free follower log (stale, divergent, longer or shorter than the leader\'s) under the Log Matching premise, one replicateTo call ends within next0+n trips with the follower holding the leader\'s term at every index, nextIndex = n+1 and n reported to the commitment; the handler never panics. '
        'Not proved: snapshot transfer inside the composed loop, store failures during catch-up, and the bound in election timeouts (probabilistic timers, scheduler) - measured on real clusters (convergence within 20 election timeouts after a random fault period). '
        'Tie: enumeration on followers; the real replicateTo against a scripted follower; a real leader and a real follower joined by a transport, diffed against the composed model; real-timer convergence scenarios. Component 1011 (a snapshot racing applies must leave the log contiguous above it, else the same snapshot is re-sent for ever) is part of this check.',
  note='Trusted: Coq kernel; wall clock for the convergence scenarios. Proofs/Converge*.v were written by a sub-agent against fixed model files; the first statement given to it was false and it refuted it (kept as a theorem).',
  technique='Coq proof (leader-side progress lemmas, follower-side acceptance, composed convergence by a two-phase induction) + differential ties on real replicateTo / appendEntries + measured real-timer convergence',
 ),
 'C03': dict(
  level='Machine-checked theorems (Coq). LEADER COMPLETENESS OVER ALL RUNS (C03_leader_completeness_all_runs): in every reachable state of the cluster transition system with commitment (Model/ClusterCommit.v) a leader whose term is at least the term of a running server holds, at the same index, every entry that server knows committed - committed entries are on every later leader and are never re-assigned (classical argument: matches of the leader\'s own term on a majority, votes of a majority, up-to-date check, Log Matching; invariant with ghost records, strong induction on terms); same side conditions as C02. PARTIAL beyond that (snapshots, InstallSnapshot, membership changes, RestoreCommittedLogs, client acknowledgements are monitored). PER LEADERSHIP / PER SERVER: a new leader\'s commitment starts above everything its log held at election, so for ANY sequence of match reports its commit index is 0 or above the '
        'election-time last index (no old-term entry committed by counting, Figure 8 - C03_commit_only_above_election_last_index, from C05_commit_sound); votes are cast only after the log up-to-date check over any history with crashes (C06); followers delete only from the first conflicting index (C04); '
        'the leader counts itself only after its own StoreLogs succeeded. What lies outside the composed system is checked on real histories (every Leader transition vs everything acknowledged/applied before; replaced/deleted applied entries). '
        'Tie: leader sequences on real servers diffed against the leader model (start index, commit steps), node sequences, cluster histories. COMPOSED MODEL WITH COMMITMENT (Model/ClusterCommit.v: answers travelling back, nextIndex per follower, one outstanding call, commitment.match, leader-loop commit, FSM apply) tied by component 102: scripts on REAL clusters in which the real replicateTo runs (driven by the script, blocked in the transport), requests are executed by the followers\' real handlers at any later time, and after every op commit index, applied index, FSM content, full logs and every leader\'s nextIndex are diffed against the model; monitors on the real state: FSM histories prefix-equal, committed entries equal across servers, leaders hold what others know committed. The proof attempt over this model found defect F11 (a follower committed over log entries the request did not vouch for; replayed on real servers, fixed in /repo a641560). DURABLE ACKNOWLEDGEMENTS (C03_acknowledged_entries_are_permanent): an entry acknowledged by a leader of term T at any point of a run is held at its index by every later leader of a term >= T and by every server that knows the index committed.',
  note='Trusted: Coq kernel; harness; sampled schedules for the cluster part. Operator overrides (RecoverCluster, Restore) are outside the property and not used in these scenarios.',
  technique='Coq proof (cluster-level invariant with ghost leaderships/acceptances/votes, induction on terms; commitment invariant instantiated at setupLeaderState) + differential commitment scripts on real clusters + leader sequences + monitored real-cluster histories',
 ),
 'C08': dict(
  level='PARTIAL. Machine-checked theorems (Coq) over the leader model: for ANY batch mixing commands, barriers and configurations with or without futures, each future receives the FSM response of ITS OWN entry at that entry\'s index (C08_response_pairing, '
        'the shouldSend counter logic of applyBatch); dispatch assigns consecutive indices above the last index in call order; only futures at or below the commit index are answered. Cross-server exactly-once and the definite-failure clauses need the global theorems and are checked on real histories. '
        'Tie: leader sequences with plain and batching FSM on real servers diffed against the model; cluster histories with concurrent clients, slow FSM and barriers. CLUSTER LEVEL (Model/ClusterCommit.v, all runs): a future answered without error means the entry is committed at exactly that index on the answering leader (C08_acknowledged_means_committed_there) and stays the entry of that index on every later leader and every server that learns the index committed (C03_acknowledged_entries_are_permanent); tied by component 102, which observes the real Apply futures.',
  note='Trusted: Coq kernel; harness FSM (response = payload*7+3) ; Go select semantics for ErrEnqueueTimeout.',
  technique='Coq proof (response pairing by induction over the batch) + differential leader sequences + monitored histories with slow FSM',
 ),
 'C09': dict(
  level='Machine-checked theorems (Coq) over the leader model (after the fix: commit for F2): VerifyLeader is registered only with voters of the latest configuration (never the leader itself), success needs the caller\'s vote plus positive answers of quorumSize-1 registered peers with no negative one before, '
        'quorumSize is a strict majority of voters. PARTIAL: freshness - that every counted exchange was started after the call - does not hold on this code (KNOWN-FINDING F2b: exchanges sent before the call are counted when their answer is processed after registration) and is therefore not a theorem; '
        'the monitor checks it on real histories and reports the known finding by its signature. Tie: verifyLeader registration/counters on real servers in leader sequences; cluster scenarios with partitions, lost and held answers, competing elections. Sub-quorum leaders with writes pending during the call and a quiescent strict variant (every counted acknowledgement must belong to an exchange of the call; one follower answering several exchanges counts once).',
  note='Trusted: Coq kernel; harness transport (records when an answer is handed to the caller).',
  technique='Coq proof (registration set, vote counting) + differential leader sequences + monitored VerifyLeader scenarios',
 ),
 'C20': dict(
  level='Machine-checked theorems (Coq) over the model of restoreUserSnapshot: on success the FSM holds exactly the supplied snapshot, the burned index is max(snapshot index, last index)+1 > both, every in-flight future fails with ErrAbortedByRestore and nothing stays in flight, the stored snapshot carries the current configuration, '
        'every later dispatch gets an index above the snapshot index and all earlier indices; refused without any effect while a configuration change is uncommitted. PARTIAL: follower convergence is C12 (the follower-side progress step is proved, the time bound is runtime); refusal during leadership transfer is in leaderLoop (tie by the loop table of C17 when built). '
        'Tie: restoreUserSnapshot on real servers in leader sequences (both store kinds, wrong size, failures) diffed against the model; cluster scenarios with Restore racing Apply/AddVoter and lagging followers.',
  note='Trusted: Coq kernel; harness.',
  technique='Coq proof (characterisation of restoreUserSnapshot) + differential leader sequences + monitored Restore scenarios',
 ),
}
