#!/bin/bash
# usage: seed_universe.sh <patch.diff> <check> [<check>...]
# Runs checks against a seeded change WITHOUT touching /repo: /verif is copied to /tmp/vf2, a scratch worktree
# of /repo's HEAD (/tmp/repo2) gets the patch, the harness module is pointed at it (go.mod replace) and the
# engine at it through VERIF_REPO. Serialised by a lock, so several calls queue up.
exec 9>/tmp/seed_universe.lock; flock 9
P=$1; shift
[ -d /tmp/repo2 ] || git -C /repo worktree add --detach /tmp/repo2 HEAD >/dev/null 2>&1
git -C /tmp/repo2 checkout -q -- . ; git -C /tmp/repo2 clean -fdq
git -C /tmp/repo2 checkout -q --detach $(git -C /repo rev-parse HEAD)   # always the current /repo commit
rsync -a --delete --exclude .git --exclude replays /verif/ /tmp/vf2/
sed -i 's#=> /repo#=> /tmp/repo2#' /tmp/vf2/go/go.mod
git -C /tmp/repo2 apply $P || { echo "patch does not apply"; exit 2; }
cd /tmp/vf2
for c in "$@"; do
  echo "== check $c"
  VERIF_REPO=/tmp/repo2 ./check $c --tier quick 2>&1 | grep -E "VIOLATION|KNOWN|tier=|DETAIL" | cut -c1-400 | head -12
done
git -C /tmp/repo2 checkout -q -- .
