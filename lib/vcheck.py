#!/usr/bin/env python3
"""vcheck — engine behind ./check.

  ./check setup
  ./check <Cxx> --tier quick|thorough
  ./check <Cxx> --replay <path>

For one property a run does:
  1. regenerate the tables translated from /repo's Go source (lib/gotables), rebuild the Coq
     development (only what changed), recompile Props/<Cxx>.v and capture Print Assumptions;
  2. build the Go harness against /repo's working tree with -tags verif;
  3. run the harness components of the property (implementation side: observed behaviour +
     property monitors evaluated on the implementation);
  4. run the extracted model on the same inputs and diff projected observables; re-evaluate a
     sample inside Coq (vm_compute) to cross-check extraction and the OCaml glue;
  5. decide: exit 0 / KNOWN-FINDING / VIOLATION (with replay file), write evidence/<Cxx>.json.
"""
import sys, os, re, json, time, subprocess, hashlib, shutil, fcntl, random

ROOT = os.path.dirname(os.path.dirname(os.path.abspath(__file__)))
COQ = os.path.join(ROOT, 'coq')
OCAML = os.path.join(ROOT, 'ocaml')
GO = os.path.join(ROOT, 'go')
WORK = os.path.join(ROOT, '.work')
BIN = os.path.join(WORK, 'bin')
TIMING_COMPONENTS = {14, 1401, 18}   # 18: notification scripts on a real single-voter server (settle by polling)
REPO = os.environ.get('VERIF_REPO', '/repo')   # the seed runs of lib/seed_universe.sh use a scratch copy

GOENV = dict(os.environ, GOFLAGS='-mod=mod', GOPROXY='off', GOSUMDB='off', GOTOOLCHAIN='local',
             CGO_ENABLED='0')

sys.path.insert(0, os.path.join(ROOT, 'lib'))
from props import PROPS  # noqa: E402


def sh(cmd, cwd=None, env=None, timeout=None, check=False, stdin=None):
    t0 = time.time()
    p = subprocess.run(cmd, cwd=cwd, env=env, timeout=timeout, shell=isinstance(cmd, str),
                       stdout=subprocess.PIPE, stderr=subprocess.STDOUT, input=stdin, text=True)
    if check and p.returncode != 0:
        raise RuntimeError('command failed (%s): %s\n%s' % (p.returncode, cmd, p.stdout[-4000:]))
    return p.returncode, p.stdout, time.time() - t0


class Lock:
    def __init__(self, name):
        os.makedirs(WORK, exist_ok=True)
        self.path = os.path.join(WORK, name + '.lock')

    def __enter__(self):
        self.f = open(self.path, 'w')
        fcntl.flock(self.f, fcntl.LOCK_EX)

    def __exit__(self, *a):
        fcntl.flock(self.f, fcntl.LOCK_UN)
        self.f.close()


# ----------------------------------------------------------------------------- Coq side
def regenerate_tables():
    """Translator T: regenerate Model/GoConsts.v and Model/LoopTable.v from /repo's Go AST.
    Returns (ok, message). Files are rewritten only when their text changes."""
    gen = os.path.join(BIN, 'gotables')
    if not os.path.exists(os.path.join(GO, 'gotables')):
        return True, 'no table translator yet'
    rc, out, _ = sh(['go1.26', 'build', '-o', gen, './gotables'], cwd=GO, env=GOENV, timeout=300)
    if rc != 0:
        return False, 'gotables build failed:\n' + out
    rc, out, _ = sh([gen, REPO, os.path.join(COQ, 'Model')], timeout=120)
    if rc != 0:
        return False, 'gotables failed:\n' + out
    return True, out.strip()


def coq_make(targets=None, timeout=3000):
    with Lock('coq'):
        if not os.path.exists(os.path.join(COQ, 'Makefile')) or \
                os.path.getmtime(os.path.join(COQ, 'Makefile')) < os.path.getmtime(os.path.join(COQ, '_CoqProject')):
            sh('coq_makefile -f _CoqProject -o Makefile', cwd=COQ, check=True)
        cmd = ['make', '-j16'] + (targets or [])
        rc, out, dt = sh(cmd, cwd=COQ, timeout=timeout)
        return rc, out, dt


def coq_cone(vfile):
    """Transitive .v dependencies of a file inside the project (via coqdep)."""
    rc, out, _ = sh('coqdep -f _CoqProject 2>/dev/null', cwd=COQ)
    deps = {}
    for line in out.splitlines():
        if ':' not in line:
            continue
        lhs, rhs = line.split(':', 1)
        tgt = [x for x in lhs.split() if x.endswith('.vo')]
        if not tgt:
            continue
        src = tgt[0][:-1]
        deps[src] = [x[:-1] for x in rhs.split() if x.endswith('.vo')]
    seen, todo = set(), [vfile]
    while todo:
        f = todo.pop()
        if f in seen:
            continue
        seen.add(f)
        todo += deps.get(f, [])
    return sorted(seen)


STMT_RE = re.compile(r'^\s*(Theorem|Lemma|Example|Corollary|Fact|Remark|Proposition)\s+(\w+)', re.M)
BAD_RE = re.compile(r'\b(Admitted|admit|Axiom|Parameter|Conjecture|Unset Guard|bypass_check|Admit Obligations|type-in-type)\b')


def coq_property(pid, spec):
    """Build the cone and compile Props/<pid>.v capturing its output.
    Returns dict(ok, obligations, discharged, assumptions, log, theorems)."""
    res = dict(ok=False, obligations=0, discharged=0, assumptions=[], log='', theorems=[], failed=None)
    pfile = spec['props_file']
    ok, msg = regenerate_tables()
    res['tables'] = msg
    if not ok:
        res['log'] = msg
        res['failed'] = 'translator (Go AST -> Model/GoConsts.v, Model/LoopTable.v)'
        return res
    cone = coq_cone(pfile)
    res['cone'] = cone
    # count obligations and look for forbidden declarations
    names = []
    for f in cone:
        txt = open(os.path.join(COQ, f)).read()
        txt_nc = re.sub(r'\(\*.*?\*\)', '', txt, flags=re.S)
        if BAD_RE.search(txt_nc):
            res['log'] = 'forbidden declaration in %s: %s' % (f, BAD_RE.search(txt_nc).group(0))
            res['failed'] = f
            return res
        names += [(f, m.group(2)) for m in STMT_RE.finditer(txt_nc)]
    res['obligations'] = len(names)
    res['theorems'] = [n for f, n in names if f == pfile]
    # build everything the property file depends on
    targets = [f + 'o' for f in cone if f != pfile]
    rc, out, dt = coq_make(targets) if targets else (0, '', 0)
    if rc != 0:
        res['log'] = out[-6000:]
        m = re.search(r'File "\./([^"]+)", line (\d+)', out)
        res['failed'] = (m.group(1) + ':' + m.group(2)) if m else 'make'
        # how many statements are in files that did compile
        okfiles = [f for f in cone if os.path.exists(os.path.join(COQ, f + 'o'))
                   and os.path.getmtime(os.path.join(COQ, f + 'o')) >= os.path.getmtime(os.path.join(COQ, f))]
        res['discharged'] = len([1 for f, n in names if f in okfiles])
        return res
    # always recompile the property file itself, capturing Print Assumptions
    with Lock('coq'):
        rc, out, dt = sh(['coqc', '-Q', 'Model', 'RaftModel', '-Q', 'Proofs', 'RaftProofs', '-Q', 'Props', 'RaftProps',
                          '-w', '-notation-overridden,-ambiguous-paths,-deprecated-hint-without-locality,-deprecated-instance-without-locality',
                          pfile], cwd=COQ, timeout=1800)
    res['log'] = out[-6000:]
    if rc != 0:
        m = re.search(r'File "\./([^"]+)", line (\d+)', out)
        res['failed'] = (m.group(1) + ':' + m.group(2)) if m else pfile
        res['discharged'] = len([1 for f, n in names if f != pfile])
        return res
    # Print Assumptions output: either "Closed under the global context" or "Axioms:" blocks
    closed = out.count('Closed under the global context')
    axioms = []
    for blk in re.findall(r'Axioms:\n((?:.+\n?)+?)(?=\n\S|\Z)', out):
        for l in blk.splitlines():
            m = re.match(r'^(\S+)\s*:', l)
            if m:
                axioms.append(m.group(1))
    res['assumptions'] = ['%d theorem(s): Closed under the global context' % closed] + sorted(set(axioms))
    res['closed'] = closed
    res['axioms'] = sorted(set(axioms))
    res['discharged'] = len(names)
    res['ok'] = True
    return res


# ----------------------------------------------------------------------------- Go / OCaml side
def build_harness():
    os.makedirs(BIN, exist_ok=True)
    shutil.copyfile(os.path.join(REPO, 'go.sum'), os.path.join(GO, 'go.sum'))
    with Lock('gobuild'):
        # files listed in go/.buildignore (one glob per line) are work in progress and left out
        ign = []
        ip = os.path.join(GO, '.buildignore')
        if os.path.exists(ip):
            ign = [l.strip() for l in open(ip) if l.strip()]
        import fnmatch
        files = sorted(f for f in os.listdir(GO) if f.endswith('.go') and not f.endswith('_test.go')
                       and not any(fnmatch.fnmatch(f, g) for g in ign))
        rc, out, dt = sh(['go1.26', 'build', '-tags', 'verif', '-o', os.path.join(BIN, 'harness')] + files,
                         cwd=GO, env=GOENV, timeout=900)
    return rc, out, dt


def build_driver():
    """Extract the model and build the OCaml driver (only if the model .vo files are newer)."""
    with Lock('ocaml'):
        drv = os.path.join(BIN, 'driver')
        disp = os.path.join(COQ, 'Model', 'Dispatch.vo')
        if os.path.exists(drv) and os.path.getmtime(drv) >= os.path.getmtime(disp):
            return 0, 'up to date'
        bd = os.path.join(WORK, 'ocaml')
        shutil.rmtree(bd, ignore_errors=True)
        os.makedirs(bd)
        shutil.copy(os.path.join(COQ, 'Extract', 'Extract.v'), bd)
        shutil.copy(os.path.join(OCAML, 'driver.ml'), bd)
        rc, out, _ = sh(['coqc', '-Q', os.path.join(COQ, 'Model'), 'RaftModel', 'Extract.v'], cwd=bd, timeout=600)
        if rc != 0:
            return rc, out
        rc, out, _ = sh('ocamlfind ocamlopt -O3 -w -a model.mli model.ml driver.ml -o driver', cwd=bd, timeout=600)
        if rc != 0:
            return rc, out
        os.makedirs(BIN, exist_ok=True)
        shutil.copy(os.path.join(bd, 'driver'), drv)
        return 0, 'built'


def parse_cases(path):
    cases, monitors, stats, notes = [], [], {}, []
    with open(path) as f:
        for line in f:
            line = line.rstrip('\n')
            if not line:
                continue
            if line.startswith('#MONITOR '):
                _, prop, tag, sig, text = (line.split(' ', 4) + [''])[:5]
                monitors.append(dict(prop=prop, tag=tag, sig=sig, text=text))
            elif line.startswith('#STAT '):
                _, k, v = line.split(' ', 2)
                stats[k] = stats.get(k, 0) + int(v)
            elif line.startswith('#'):
                notes.append(line)
            else:
                parts = line.split('|')
                head = parts[0].split()
                obs = parts[1].split() if len(parts) > 1 else []
                nt = len(parts) > 2 and parts[2].strip() == 'nt'
                cases.append((head[0], head[1], head[2:], obs, nt))
    return cases, monitors, stats, notes


def run_model(cases, wd):
    """Run the extracted model on the inputs; returns {tag: [ints as str]}"""
    inp = os.path.join(wd, 'model.in')
    with open(inp, 'w') as f:
        for tag, comp, ins, obs, nt in cases:
            f.write('%s %s %s\n' % (tag, comp, ' '.join(ins)))
    out = {}
    n = 16
    # shard over cores
    shards = [[] for _ in range(n)]
    with open(inp) as f:
        for i, l in enumerate(f):
            shards[i % n].append(l)
    procs = []
    for i, sl in enumerate(shards):
        if not sl:
            continue
        p = subprocess.Popen([os.path.join(BIN, 'driver')], stdin=subprocess.PIPE, stdout=subprocess.PIPE, text=True)
        procs.append((p, ''.join(sl)))
    import threading
    results = [None] * len(procs)

    def work(k):
        p, data = procs[k]
        o, _ = p.communicate(data)
        results[k] = (p.returncode, o)
    ths = [threading.Thread(target=work, args=(k,)) for k in range(len(procs))]
    [t.start() for t in ths]
    [t.join() for t in ths]
    for rc, o in results:
        if rc != 0:
            raise RuntimeError('model driver failed')
        for l in o.splitlines():
            fs = l.split()
            if fs:
                out[fs[0]] = fs[1:]
    return out


def coq_crosscheck(cases, model_out, wd, k=150, seed=0):
    """Evaluate a sample of the same cases inside Coq with vm_compute and compare with the
    extracted run: cross-checks extraction + OCaml glue. Returns (n, mismatching tags)."""
    rnd = random.Random(seed)
    small = [c for c in cases if len(c[2]) <= 400]
    sample = rnd.sample(small, min(k, len(small)))
    if not sample:
        return 0, []
    vf = os.path.join(wd, 'cases.v')
    with open(vf, 'w') as f:
        f.write('From Coq Require Import List NArith.\nFrom RaftModel Require Import Base Dispatch.\nImport ListNotations.\nOpen Scope N_scope.\n')
        f.write('Definition eqlist (a b : list N) : bool := if list_eq_dec N.eq_dec a b then true else false.\n')
        f.write('Definition cases : list (N * N * list N * list N) := [\n')
        rows = []
        for i, (tag, comp, ins, obs, nt) in enumerate(sample):
            rows.append('  (%d, %s, [%s], [%s])' % (i, comp, '; '.join(ins), '; '.join(model_out.get(tag, []))))
        f.write(';\n'.join(rows))
        f.write('\n].\n')
        f.write('Definition mism := Eval vm_compute in map (fun c => fst (fst (fst c))) (filter (fun c => negb (eqlist (run_case (snd (fst (fst c))) (snd (fst c))) (snd c))) cases).\nPrint mism.\n')
    rc, out, dt = sh(['coqc', '-Q', os.path.join(COQ, 'Model'), 'RaftModel', 'cases.v'], cwd=wd, timeout=900)
    if rc != 0:
        return len(sample), ['coqc failed: ' + out[-500:]]
    m = re.search(r'mism\s*=\s*(\[.*?\])\s*:', out, re.S)
    if not m:
        return len(sample), ['unparsable: ' + out[-300:]]
    body = m.group(1).strip()
    if body == '[]':
        return len(sample), []
    idxs = [int(x) for x in re.findall(r'\d+', body)]
    return len(sample), [sample[i][0] for i in idxs]


# ----------------------------------------------------------------------------- findings
def load_known():
    path = os.path.join(ROOT, 'KNOWN_FINDINGS')
    known = []
    if os.path.exists(path):
        for line in open(path):
            line = line.strip()
            m = re.match(r'^finding:\s+property=(\S+)\s+sig=(\S+)\s+(.*)$', line)
            if m:
                known.append(dict(prop=m.group(1), sig=m.group(2), text=m.group(3)))
    return known


def write_replay(pid, kind, payload):
    d = os.path.join(ROOT, 'replays')
    os.makedirs(d, exist_ok=True)
    h = hashlib.sha1(json.dumps(payload, sort_keys=True).encode()).hexdigest()[:10]
    path = os.path.join(d, '%s-%s-%s.json' % (pid, kind, h))
    with open(path, 'w') as f:
        json.dump(payload, f, indent=1)
    return path


# ----------------------------------------------------------------------------- main
def setup():
    t0 = time.time()
    os.makedirs(BIN, exist_ok=True)
    ok, msg = regenerate_tables()
    print('tables:', msg)
    if not ok:
        return 1
    rc, out, dt = coq_make()
    print('coq make: rc=%d %.1fs' % (rc, dt))
    if rc != 0:
        print(out[-4000:])
        return 1
    rc, out = build_driver()
    print('driver:', out if rc == 0 else out[-3000:])
    if rc != 0:
        return 1
    rc, out, dt = build_harness()
    print('harness: rc=%d %.1fs' % (rc, dt))
    if rc != 0:
        print(out[-4000:])
        return 1
    print('setup done in %.1fs' % (time.time() - t0))
    return 0


def run_components(pid, spec, tier, seed, wd, replay_file=None):
    """Run the harness; returns (cases, monitors, stats, notes, errors)"""
    allc, allm, alls, alln, errs = [], [], {}, [], []
    comps = spec['components'] if not replay_file else ['replay']
    procs = []
    for c in comps:
        out = os.path.join(wd, c + '.cases')
        if replay_file:
            cmd = [os.path.join(BIN, 'harness'), 'replay', replay_file, '0', out]
        else:
            cmd = [os.path.join(BIN, 'harness'), c, tier, str(seed), out]
        to = spec.get('timeout', {}).get(tier, 1500 if tier == 'quick' else 7200)
        procs.append((c, out, subprocess.Popen(cmd, stdout=subprocess.PIPE, stderr=subprocess.STDOUT, text=True, cwd=wd), to))
    for c, out, p, to in procs:
        try:
            o, _ = p.communicate(timeout=to)
        except subprocess.TimeoutExpired:
            p.kill()
            o, _ = p.communicate()
            errs.append('harness component %s timed out after %ds' % (c, to))
            continue
        if p.returncode != 0:
            errs.append('harness component %s exited %d: %s' % (c, p.returncode, o[-3000:]))
            continue
        cases, monitors, stats, notes = parse_cases(out)
        allc += cases
        allm += monitors
        alln += notes
        for k, v in stats.items():
            alls[k] = alls.get(k, 0) + v
    return allc, allm, alls, alln, errs


def check(pid, tier, seed, replay=None):
    t0 = time.time()
    spec = PROPS[pid]
    wd = os.path.join(WORK, pid)
    shutil.rmtree(wd, ignore_errors=True)
    os.makedirs(wd)
    violations = []   # (kind, replay_path, suffix)
    known_lines = []
    known = [k for k in load_known() if k['prop'] == pid]

    # 1. proofs
    cq = coq_property(pid, spec)
    # 2. harness
    rc, out, dt = build_harness()
    harness_ok = rc == 0
    build_log = out
    # the executable model (incl. the regenerated tables) must be current before it is extracted
    mrc, mout, _ = coq_make(['Model/Dispatch.vo'])
    drv_rc, drv_out = build_driver() if mrc == 0 else (1, 'model does not build: ' + mout[-2000:])

    cases, monitors, stats, notes, errs = [], [], {}, [], []
    model_out, mismatches, cross_n, cross_bad = {}, [], 0, []
    replay_file = None
    if replay:
        rp = json.load(open(replay))
        replay_file = os.path.join(wd, 'replay.in')
        with open(replay_file, 'w') as f:
            for c in rp.get('cases', []):
                f.write('%s %s %s\n' % (c['tag'], c['comp'], ' '.join(str(x) for x in c['input'])))
    if harness_ok:
        cases, monitors, stats, notes, errs = run_components(pid, spec, tier, seed, wd, replay_file)
        # components >= 1000 are recorded histories of real clusters: checked by the property
        # monitors only (no model replay)
        mcases = [c for c in cases if not (1000 <= int(c[1]) < 1100)]
        if drv_rc == 0 and mcases:
            model_out = run_model(mcases, wd)
            for tag, comp, ins, obs, nt in mcases:
                mo = model_out.get(tag)
                if mo != obs:
                    mismatches.append((tag, comp, ins, obs, mo))
            # Components that drive a REAL main loop with real (short) timers can observe a starved process (the
            # candidate sessions 14/1401: an answer not yet consumed, a 15 ms timer that fired twice). A disagreement of
            # such a case is believed only if it repeats when the case is run again alone: a wrong decision of the code
            # repeats, a descheduled process does not. (A false alarm of this kind was seen once on the unchanged tree
            # while other jobs ran beside the check; the replay of the same case agreed 3 of 3 times.)
            timing = [x for x in mismatches if int(x[1]) in TIMING_COMPONENTS]
            if timing and not replay and len(timing) <= 40:
                confirmed = []
                for x in timing:
                    again = 0
                    for k in range(2):
                        rf = os.path.join(wd, 'confirm_%s_%d.in' % (x[0], k))
                        with open(rf, 'w') as f:
                            f.write('%s %s %s\n' % (x[0], x[1], ' '.join(str(v) for v in x[2])))
                        of = os.path.join(wd, 'confirm_%s_%d.cases' % (x[0], k))
                        sh([os.path.join(BIN, 'harness'), 'replay', rf, '0', of], cwd=wd, timeout=300)
                        try:
                            rc_cases, _, _, _ = parse_cases(of)
                        except Exception:
                            rc_cases = []
                        found = [c for c in rc_cases if c[0] == x[0]]
                        # no observation at all (the replay itself failed) counts as a repetition: never drop what could not be re-examined
                        if not found or any(c[3] != model_out.get(x[0]) for c in found):
                            again += 1
                    if again >= 1:
                        confirmed.append(x)
                    else:
                        stats['timing_mismatch_not_reproduced'] = stats.get('timing_mismatch_not_reproduced', 0) + 1
                mismatches = [x for x in mismatches if int(x[1]) not in TIMING_COMPONENTS] + confirmed
            cross_n, cross_bad = coq_crosscheck(mcases, model_out, wd, k=spec.get('crosscheck', 150), seed=seed)

    # ---- monitors: the property predicate on the implementation
    mine = [m for m in monitors if m['prop'] == pid]
    bytag = {c[0]: c for c in cases}
    seen_known = set()
    new_sigs = {}
    for m in mine:
        k = [x for x in known if x['sig'] == m['sig']]
        if k:
            if m['sig'] not in seen_known:
                seen_known.add(m['sig'])
                known_lines.append('KNOWN-FINDING: property=%s %s' % (pid, k[0]['text']))
        else:
            new_sigs.setdefault(m['sig'], []).append(m)
    for sig, ms in new_sigs.items():
        # smallest failing input first
        def size(m):
            c = bytag.get(m['tag'])
            return len(c[2]) if c else 10 ** 9
        ms.sort(key=size)
        m = ms[0]
        c = bytag.get(m['tag'])
        payload = dict(property=pid, kind='monitor', signature=sig, what=m['text'], tier=tier, seed=seed,
                       failing_cases=len(ms),
                       cases=[dict(tag=c[0], comp=c[1], input=[int(x) for x in c[2]], observed=[int(x) for x in c[3]],
                                   model=[int(x) for x in (model_out.get(c[0]) or [])])] if c else [],
                       how_to_replay='./check %s --replay <this file>' % pid)
        violations.append(('monitor', write_replay(pid, 'monitor', payload), ''))

    # ---- correspondence
    if not harness_ok:
        payload = dict(property=pid, kind='build', what='harness does not build against /repo working tree with -tags verif', log=build_log[-3000:])
        violations.append(('build', write_replay(pid, 'build', payload), ' no-failing-input-found'))
    for e in errs:
        payload = dict(property=pid, kind='harness', what=e)
        violations.append(('harness', write_replay(pid, 'harness', payload), ' no-failing-input-found'))
    if mismatches and not new_sigs:
        mismatches.sort(key=lambda x: len(x[2]))
        tag, comp, ins, obs, mo = mismatches[0]
        payload = dict(property=pid, kind='correspondence', tier=tier, seed=seed,
                       what='model and implementation disagree on %d case(s); no property monitor fired on the implementation within this run' % len(mismatches),
                       correspondence='component %s (%s)' % (comp, spec.get('comp_names', {}).get(int(comp), '?')),
                       cases=[dict(tag=t, comp=c, input=[int(x) for x in i], observed=[int(x) for x in o],
                                   model=[int(x) for x in (m or [])]) for t, c, i, o, m in mismatches[:5]])
        violations.append(('correspondence', write_replay(pid, 'corr', payload), ' no-failing-input-found'))
    if cross_bad:
        payload = dict(property=pid, kind='extraction-crosscheck', what='extracted model and in-Coq vm_compute evaluation disagree', tags=cross_bad[:10])
        violations.append(('crosscheck', write_replay(pid, 'xcheck', payload), ' no-failing-input-found'))
    # ---- proofs
    if not cq['ok'] and not new_sigs:
        payload = dict(property=pid, kind='proof', what='a proof obligation or the translator no longer checks',
                       failed_at=cq.get('failed'), theorem_file=spec['props_file'], log=cq['log'][-3000:])
        violations.append(('proof', write_replay(pid, 'proof', payload), ' no-failing-input-found'))
    if cq['ok'] and cq.get('axioms'):
        allowed = set(spec.get('allowed_axioms', []))
        extra = [a for a in cq['axioms'] if a not in allowed]
        if extra:
            payload = dict(property=pid, kind='axioms', what='theorem depends on undeclared axioms', axioms=extra)
            violations.append(('axioms', write_replay(pid, 'axioms', payload), ' no-failing-input-found'))

    # ---- evidence
    distinct_nt = len(set((c[1], ' '.join(c[2])) for c in cases if c[4]))
    samples = []
    for c in cases[:1] + cases[len(cases) // 2:len(cases) // 2 + 1] + cases[-1:]:
        samples.append(dict(tag=c[0], component=int(c[1]), input=' '.join(c[2])[:600], observed=' '.join(c[3])[:300]))
    for n in notes:
        if n.startswith('#SAMPLE ') and len(samples) < 8:
            samples.append(n[8:][:800])
    if not samples:
        samples = [dict(note='no cases: ' + '; '.join(cq.get('theorems', [])))]
    ev = dict(
        property_id=pid, tier=tier, seed=seed, level='proof',
        coverage=dict(
            obligations=cq['obligations'], discharged=cq['discharged'],
            checker_cmd='coqc (Coq 8.16.1) over the cone of coq/%s via coq_makefile+make; property file recompiled this run' % spec['props_file'],
            trusted_base=TRUSTED_BASE + spec.get('trusted_extra', []) + ['Print Assumptions: ' + '; '.join(cq.get('assumptions', ['(not reached)']))],
            theorems=cq.get('theorems', []),
            cone=cq.get('cone', []),
            tables=cq.get('tables', ''),
            evaluations=len(cases), distinct_nontrivial=distinct_nt,
            rule=spec.get('rule', ''),
            samples=samples,
            traces_validated_against_impl=len([c for c in cases if not (1000 <= int(c[1]) < 1100)]) - len(mismatches) if model_out else 0,
            cluster_histories_monitored=len([c for c in cases if 1000 <= int(c[1]) < 1100]),
            model_impl_mismatches=len(mismatches),
            in_coq_crosscheck=dict(cases=cross_n, mismatches=len(cross_bad)),
            monitor_alarms=len(mine), known_findings=sorted(seen_known),
            input_distribution=stats,
            exhaustive=bool(spec.get('exhaustive', False)),
        ),
        assumptions=spec.get('assumptions', []),
        wall_s=round(time.time() - t0, 2),
        violations=len(violations),
    )
    os.makedirs(os.path.join(ROOT, 'evidence'), exist_ok=True)
    if not replay:
        with open(os.path.join(ROOT, 'evidence', pid + '.json'), 'w') as f:
            json.dump(ev, f, indent=1)
    for l in known_lines:
        print(l)
    print('%s tier=%s seed=%d: theorems %d/%d, cases %d (non-trivial distinct %d), model/impl mismatches %d, in-Coq cross-check %d/%d ok, monitor alarms %d (known %d), %.1fs'
          % (pid, tier, seed, cq['discharged'], cq['obligations'], len(cases), distinct_nt, len(mismatches),
             cross_n - len(cross_bad), cross_n, len(mine), len(mine) - sum(len(v) for v in new_sigs.values()), time.time() - t0))
    for kind, path, suffix in violations:
        # one diagnostic line per violation (the replay file has the details; logs of remote runs only keep stdout)
        try:
            rp = json.load(open(path))
            cs = rp.get('cases') or [{}]
            print('DETAIL %s: %s | %s | case %s comp %s input %s' % (kind, rp.get('signature', ''), str(rp.get('what', ''))[:300],
                  cs[0].get('tag', ''), cs[0].get('comp', ''), ' '.join(str(x) for x in (cs[0].get('input') or [])[:80])))
        except Exception:
            pass
        print('VIOLATION property=%s replay=%s%s' % (pid, path, suffix))
    shutil.rmtree(wd, ignore_errors=True)
    return 1 if violations else 0


TRUSTED_BASE = [
    'Coq 8.16.1 kernel (coqc); vm_compute used in Examples/_refuted witnesses and the in-Coq cross-check; no native_compute',
    'no Axiom/Parameter/Admitted in the development (grep-checked on every run over the cone)',
    'extraction: Require Extraction + ExtrOcamlBasic only (bool, option, unit, list, prod, sumbool, sumor inductives; andb/orb inlined); N/positive stay Coq datatypes; ocaml/driver.ml (decimal<->N glue, ~40 lines)',
    'correspondence check: /verif/go harness (store/FSM/transport doubles, generators, projections) built against /repo working tree with -tags verif',
    'modelled, not verified: Go runtime (scheduler, select, channels, time), OS/file system, TCP, go-msgpack, user store/FSM implementations (reference semantics)',
]


def main():
    args = sys.argv[1:]
    if not args:
        print(__doc__)
        return 2
    if args[0] == 'setup':
        return setup()
    pid = args[0]
    if pid not in PROPS:
        print('unknown property', pid)
        return 2
    tier = os.environ.get('VERIF_TIER', 'quick')
    replay = None
    i = 1
    while i < len(args):
        if args[i] == '--tier':
            tier = args[i + 1]
            i += 2
        elif args[i] == '--replay':
            replay = args[i + 1]
            i += 2
        else:
            i += 1
    seed = int(os.environ.get('VERIF_SEED', '1'))
    return check(pid, tier, seed, replay)


if __name__ == '__main__':
    sys.exit(main())
