#!/usr/bin/env python3
"""Regenerate MANIFEST.json from lib/props.py + lib/manifest_text.py (kept valid at all times)."""
import json, os, sys
ROOT = os.path.dirname(os.path.dirname(os.path.abspath(__file__)))
sys.path.insert(0, os.path.join(ROOT, 'lib'))
from props import PROPS
from manifest_text import TEXT, NOT_YET, HOOK_COMMITS, EXTRA, EXTRA4

ids = [json.loads(l)['id'] for l in open(os.path.join(ROOT, 'properties.jsonl'))]
checks, na = [], []
for pid in ids:
    if pid in PROPS and pid in TEXT:
        t = TEXT[pid]
        checks.append(dict(
            property_id=pid,
            quick_cmd='./check %s --tier quick' % pid,
            thorough_cmd='./check %s --tier thorough' % pid,
            evidence_file='/verif/evidence/%s.json' % pid,
            replay_cmd_template='./check %s --replay {path}' % pid,
            engine='coq-proof+correspondence',
            level_claimed=dict(category='proof', text=t['level'] + (' ' + EXTRA[pid] if pid in EXTRA else '') + (' ' + EXTRA4[pid] if pid in EXTRA4 else ''), design_ref=t.get('design_ref', 'DESIGN.md §4 ' + pid)),
            level_note=t['note'],
            technique=t['technique'],
        ))
    else:
        na.append(dict(property_id=pid, reason=NOT_YET.get(pid, 'check not built yet in this round (planned: DESIGN.md §4 %s); not claimed until it runs' % pid)))
m = dict(
    version=1,
    setup_cmd='./check setup',
    hooks=dict(guard='verif', enable='go1.26 build -tags verif (harness module /verif/go, replace github.com/hashicorp/raft => /repo)',
               baseline_off_cmd='cd /repo && GOFLAGS=-mod=mod GOPROXY=off GOSUMDB=off GOTOOLCHAIN=local go1.26 test -json -vet=off -count=1 -timeout 25m ./...',
               source_commits=HOOK_COMMITS, add_only=True),
    engines=[dict(name='coq-proof+correspondence', path='/verif/check',
                  serves_properties=[c['property_id'] for c in checks],
                  kind_free_text='Coq 8.16.1 theorems over a hand-written Gallina model (coq/), tied to /repo on every run by a differential correspondence check (Go harness built with -tags verif vs the extracted model, plus in-Coq vm_compute cross-check) and by tables regenerated from the Go AST')],
    checks=checks,
    notes='See DESIGN.md. KNOWN_FINDINGS lists genuine defects recorded (never written at run time).',
    not_applicable=na,
)
json.dump(m, open(os.path.join(ROOT, 'MANIFEST.json'), 'w'), indent=1)
print('claimed', len(checks), 'not claimed', len(na))
