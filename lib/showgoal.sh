#!/bin/sh
# usage: showgoal.sh <file.v> <line>  — prints the proof state after the given line
f=$1; n=$2
head -n $n $f > /tmp/_sg.v
echo "Show." >> /tmp/_sg.v
cd /verif/coq && coqtop -Q Model RaftModel -Q Proofs RaftProofs -Q Props RaftProps < /tmp/_sg.v 2>&1 | tail -${3:-40}
